(* driver.ml -- line protocol around the extracted model (trusted glue: int/string
   conversion and printing only).  One request per line, one answer per line.
   Numbers are OCaml ints; texts are hex strings ("-" = empty); "_" = None. *)
open Tucan_model

let rec pos_of_int i = if i = 1 then XH else if i land 1 = 1 then XI (pos_of_int (i lsr 1)) else XO (pos_of_int (i lsr 1))
let n_of_int i = if i = 0 then N0 else Npos (pos_of_int i)
let z_of_int i = if i = 0 then Z0 else if i > 0 then Zpos (pos_of_int i) else Zneg (pos_of_int (-i))
let rec int_of_pos = function XH -> 1 | XO p -> 2 * int_of_pos p | XI p -> 2 * int_of_pos p + 1
let int_of_n = function N0 -> 0 | Npos p -> int_of_pos p
let int_of_z = function Z0 -> 0 | Zpos p -> int_of_pos p | Zneg p -> - (int_of_pos p)
let rec nat_of_int i = if i <= 0 then O else S (nat_of_int (i - 1))
let rec int_of_nat = function O -> 0 | S k -> 1 + int_of_nat k

let ascii_of_char c =
  let i = Char.code c in
  let b k = (i lsr k) land 1 = 1 in
  Ascii (b 0, b 1, b 2, b 3, b 4, b 5, b 6, b 7)
let char_of_ascii (Ascii (b0, b1, b2, b3, b4, b5, b6, b7)) =
  let v b k = if b then 1 lsl k else 0 in
  Char.chr (v b0 0 + v b1 1 + v b2 2 + v b3 3 + v b4 4 + v b5 5 + v b6 6 + v b7 7)
let text_of_string s = List.init (String.length s) (fun i -> ascii_of_char s.[i])
let string_of_text t = let b = Buffer.create 64 in List.iter (fun a -> Buffer.add_char b (char_of_ascii a)) t; Buffer.contents b

let hex_of_string s =
  if s = "" then "-" else begin
    let b = Buffer.create (2 * String.length s) in
    String.iter (fun c -> Buffer.add_string b (Printf.sprintf "%02x" (Char.code c))) s; Buffer.contents b end
let string_of_hex h =
  if h = "-" then "" else
    String.init (String.length h / 2) (fun i -> Char.chr (int_of_string ("0x" ^ String.sub h (2 * i) 2)))
let text_of_hex h = text_of_string (string_of_hex h)
let hex_of_text t = hex_of_string (string_of_text t)

(* ---- token reader ---- *)
let toks = ref [||]
let pos = ref 0
let next () = let x = !toks.(!pos) in incr pos; x
let next_int () = int_of_string (next ())
let next_optz () = let x = next () in if x = "_" then None else Some (z_of_int (int_of_string x))
let opt_str f = function None -> "_" | Some v -> f v
let sz z = string_of_int (int_of_z z)
let sn n = string_of_int (int_of_n n)

let read_mol () : (unit, unit) mol =
  let n = next_int () in
  let atoms = List.init n (fun _ ->
    let l = next_int () in let zn = next_int () in let m = next_optz () in let r = next_optz () in let p = next_int () in
    { lbl = n_of_int l; zn = n_of_int zn; mass = m; rad = r; part = n_of_int p; pay = () }) in
  let k = next_int () in
  let bonds = List.init k (fun _ -> let u = next_int () in let v = next_int () in ((n_of_int u, n_of_int v), ())) in
  { atoms; bonds }

let show_mol (m : ('a, 'b) mol) : Stdlib.String.t =
  let b = Buffer.create 256 in
  Buffer.add_string b (string_of_int (List.length m.atoms));
  List.iter (fun a -> Buffer.add_string b (Printf.sprintf " %s %s %s %s %s" (sn a.lbl) (sn a.zn) (opt_str sz a.mass) (opt_str sz a.rad) (sn a.part))) m.atoms;
  Buffer.add_string b (" " ^ string_of_int (List.length m.bonds));
  List.iter (fun ((u, v), _) -> Buffer.add_string b (Printf.sprintf " %s %s" (sn u) (sn v))) m.bonds;
  Buffer.contents b

let read_rmol () : (rpay, z option) mol =
  let n = next_int () in
  let atoms = List.init n (fun _ ->
    let l = next_int () in let zn = next_int () in let m = next_optz () in let r = next_optz () in let p = next_int () in
    let sym = text_of_hex (next ()) in let c = next_optz () in
    let x = text_of_hex (next ()) in let y = text_of_hex (next ()) in let z = text_of_hex (next ()) in
    { lbl = n_of_int l; zn = n_of_int zn; mass = m; rad = r; part = n_of_int p;
      pay = { p_sym = sym; p_chg = c; p_x = x; p_y = y; p_z = z } }) in
  let k = next_int () in
  let bonds = List.init k (fun _ -> let u = next_int () in let v = next_int () in let ty = next_optz () in ((n_of_int u, n_of_int v), ty)) in
  { atoms; bonds }

let show_rmol (m : (rpay, z) mol) : Stdlib.String.t =
  let b = Buffer.create 256 in
  Buffer.add_string b (string_of_int (List.length m.atoms));
  List.iter (fun a -> Buffer.add_string b (Printf.sprintf " %s %s %s %s %s %s %s %s %s %s" (sn a.lbl) (sn a.zn) (opt_str sz a.mass) (opt_str sz a.rad) (sn a.part)
    (hex_of_text a.pay.p_sym) (opt_str sz a.pay.p_chg) (hex_of_text a.pay.p_x) (hex_of_text a.pay.p_y) (hex_of_text a.pay.p_z))) m.atoms;
  Buffer.add_string b (" " ^ string_of_int (List.length m.bonds));
  List.iter (fun ((u, v), ty) -> Buffer.add_string b (Printf.sprintf " %s %s %s" (sn u) (sn v) (sz ty))) m.bonds;
  Buffer.contents b

let show_pairs l = String.concat " " (List.map (fun (a, b) -> sn a ^ " " ^ sn b) l)
let read_pairs () = let k = next_int () in List.init k (fun _ -> let a = next_int () in let b = next_int () in (n_of_int a, n_of_int b))

let perr_name = function ELex -> "lex" | ESyntax -> "syntax" | ESelfLoop -> "selfloop" | EBadIndex -> "badindex" | EDupAttr -> "dupattr"
let merr_name = function EParser -> "parser" | EOther -> "other"

let tok_name = function
  | TSym z -> "S" ^ sn z | TNum z -> "N" ^ sz z | TSlash -> "/" | TLp -> "(" | TRp -> ")" | TDash -> "-"
  | TColon -> ":" | TComma -> "," | TEq -> "=" | TMass -> "mass" | TRad -> "rad"

let handle () : Stdlib.String.t =
  match next () with
  | "classes" ->
    let m = read_mol () in
    (match classes_fast m with None -> "none" | Some c -> "ok " ^ String.concat " " (List.map (fun a -> sn a.part) c.atoms))
  | "rounds" ->
    let m = read_mol () in
    (match rounds_fast (refine_fuel m) (partition_by_inv_fast m) with None -> "none" | Some k -> "ok " ^ string_of_int (int_of_nat k))
  | "canon" ->   (* canon <pairs lam> <mol> *)
    let lam = read_pairs () in let m = read_mol () in
    (match canonicalize_with_fast lam m with None -> "none" | Some c -> "ok " ^ show_mol c)
  | "final" ->
    let m = read_mol () in
    (match final_labels m with None -> "none" | Some o -> "ok " ^ show_pairs o)
  | "serialize" ->
    let m = read_mol () in
    (match serialize m with None -> "none" | Some s -> "ok " ^ hex_of_text s)
  | "tokens" ->
    let m = read_mol () in
    (match serialize_tokens m with None -> "none" | Some ts -> "ok " ^ String.concat " " (List.map tok_name ts))
  | "tucan" ->   (* canonicalize with given lam then serialize *)
    let lam = read_pairs () in let m = read_mol () in
    (match canonicalize_with_fast lam m with None -> "none" | Some c -> (match serialize c with None -> "none" | Some s -> "ok " ^ hex_of_text s))
  | "lex" ->
    (match lex_text (text_of_hex (next ())) with None -> "none" | Some ts -> "ok " ^ String.concat " " (List.map tok_name ts))
  | "antlr" ->   (* the translated ANTLR recogniser: outcome, then the token types the model lexer + literal table give *)
    let s = text_of_hex (next ()) in
    let types = (match lex_text s with None -> "-" | Some ts -> (match antlr_types ts with None -> "?" | Some tys -> String.concat "," (List.map sz tys))) in
    (match antlr_recognise s with AntlrAccept -> "accept " | AntlrSyntaxError -> "syntax " | AntlrLexError -> "lex ") ^ types
  | "antlrlex" ->   (* the automaton dumped from the lexer's serialized ATN, simulated with maximal munch *)
    (match antlr_lex (text_of_hex (next ())) with None -> "-" | Some tys -> "ok " ^ String.concat "," (List.map sz tys))
  | "parse" ->
    (match ref_parse (text_of_hex (next ())) with Inl e -> "err " ^ perr_name e | Inr g -> "ok " ^ show_mol g)
  | "readmol" ->
    (match read_molfile (text_of_hex (next ())) with Inl e -> "err " ^ merr_name e | Inr g -> "ok " ^ show_rmol g)
  | "write" ->
    let l2 = text_of_hex (next ()) in let m = read_rmol () in
    "ok " ^ hex_of_text (write_molfile l2 m)
  | "wrap" ->
    let s = text_of_hex (next ()) in
    "ok " ^ String.concat " " (List.map hex_of_text (wrap (nat_of_int (List.length s)) s))
  | "permute" ->  (* permute <k> (<len> l..)*k <mol> *)
    let k = next_int () in
    let sh = List.init k (fun _ -> let len = next_int () in List.init len (fun _ -> n_of_int (next_int ()))) in
    let m = read_mol () in
    (match permute sh m with None -> "none" | Some (r, extra) -> "ok " ^ string_of_int (int_of_nat extra) ^ " " ^ show_mol r)
  | "ping" -> "pong"
  | c -> "error unknown command " ^ c

let () =
  try
    while true do
      let line = input_line stdin in
      toks := Array.of_list (List.filter (fun s -> s <> "") (String.split_on_char ' ' line));
      pos := 0;
      let ans = (try handle () with
                 | Stack_overflow -> "error stack_overflow"
                 | Invalid_argument s -> "error invalid_argument " ^ s
                 | Failure s -> "error failure " ^ s
                 | Not_found -> "error not_found") in
      print_string ans; print_newline ()
    done
  with End_of_file -> ()
