(* C05 -- Every emitted string obeys the published grammar and canonical layout.
   Only statements; proofs are in Proofs/. *)
From Coq Require Import List NArith ZArith Permutation.
Require Import Base Mol Canon Text Token Parse Pipeline MolProofs SameMol CanonProofs AstOf RoundTrip2.
Require ParamsSpec.   (* regenerated source constants still match what the model hard-codes *)
Require ParseProofs.

(* The emitted string is the spelling of a token list that is a sentence of the inductive
   transcription `Sentence` of the published EBNF (ParseProofs.v; tables regenerated from
   tucan.ebnf and tucan.g4), and the lexer reads exactly that token list back. *)
Theorem tucan_in_grammar :
  forall canon, H1 canon ->
  forall (P B : Type) (m : mol P B) (s : text),
    wfg m -> simple m -> pos_attrs m -> tucan canon m = Some s ->
    exists ts a, lex_text s = Some ts /\ ParseProofs.Sentence ts a /\ print_tokens ts = s.
Proof. exact (@RoundTrip2.tucan_in_grammar). Qed.
Print Assumptions tucan_in_grammar.

(* Canonical layout.  The token list that is printed parses (parse_tokens) to `ast_of m2 syms` for
   a graph m2 that is the input molecule under a renaming (SameMol h m m2) and is `ser_ready`;
   `layout_ok m2 (ast_of m2 syms)` then spells out the layout rules of the property: Hill order
   accepted by the grammar, each element once with its count (>= 1) equal to the molecule's element
   count, n atoms in total; one tuple per bond, each (a-b) with 1 <= a < b <= n, tuples strictly
   ascending, each bond exactly once; attribute blocks strictly ascending by index, exactly one per
   atom carrying a mass or radical, keys in the order mass, rad, values >= 1; indices 1..n run in
   blocks of non-decreasing atomic number. *)
Require Layout.
Theorem tucan_layout :
  forall canon, H1 canon ->
  forall (P B : Type) (m : mol P B) (s : text),
    wfg m -> simple m -> pos_attrs m -> tucan canon m = Some s ->
    exists ts (m2 : mol P B) syms h,
      print_tokens ts = s /\ lex_text s = Some ts /\ parse_tokens ts = Some (ast_of m2 syms) /\
      SameMol h m m2 /\ ser_ready m2 /\ Layout.layout_ok m2 (ast_of m2 syms).
Proof. exact (@RoundTrip2.tucan_layout). Qed.
Print Assumptions tucan_layout.
