(* C05 -- Every emitted string obeys the published grammar and canonical layout.
   Only statements; proofs are in Proofs/. *)
From Coq Require Import List NArith ZArith Permutation.
Require Import Base Mol Canon Text Token Parse Pipeline MolProofs SameMol CanonProofs AstOf RoundTrip2.
Require ParamsSpec.   (* regenerated source constants still match what the model hard-codes *)
Require ParseProofs.

(* The emitted string is the spelling of a token list that is a sentence of the inductive
   transcription `Sentence` of the published EBNF (ParseProofs.v; tables regenerated from
   tucan.ebnf and tucan.g4), and the lexer reads exactly that token list back. *)
Theorem tucan_in_grammar :
  forall canon, H1 canon ->
  forall (P B : Type) (m : mol P B) (s : text),
    wfg m -> simple m -> pos_attrs m -> tucan canon m = Some s ->
    exists ts a, lex_text s = Some ts /\ ParseProofs.Sentence ts a /\ print_tokens ts = s.
Proof. exact (@RoundTrip2.tucan_in_grammar). Qed.
Print Assumptions tucan_in_grammar.

(* Canonical layout.  The token list that is printed parses (parse_tokens) to `ast_of m2 syms` for
   a graph m2 that is the input molecule under a renaming (SameMol h m m2) and is `ser_ready`;
   `layout_ok m2 (ast_of m2 syms)` then spells out the layout rules of the property: Hill order
   accepted by the grammar, each element once with its count (>= 1) equal to the molecule's element
   count, n atoms in total; one tuple per bond, each (a-b) with 1 <= a < b <= n, tuples strictly
   ascending, each bond exactly once; attribute blocks strictly ascending by index, exactly one per
   atom carrying a mass or radical, keys in the order mass, rad, values >= 1; indices 1..n run in
   blocks of non-decreasing atomic number. *)
Require Layout.
Theorem tucan_layout :
  forall canon, H1 canon ->
  forall (P B : Type) (m : mol P B) (s : text),
    wfg m -> simple m -> pos_attrs m -> tucan canon m = Some s ->
    exists ts (m2 : mol P B) syms h,
      print_tokens ts = s /\ lex_text s = Some ts /\ parse_tokens ts = Some (ast_of m2 syms) /\
      SameMol h m m2 /\ ser_ready m2 /\ Layout.layout_ok m2 (ast_of m2 syms).
Proof. exact (@RoundTrip2.tucan_layout). Qed.
Print Assumptions tucan_layout.

(* ======================================================================================== *)
(* The quantifier closed: "for all molecules the readers or the parser can produce".        *)
(* The two theorems above take the graph m with wfg m, simple m, pos_attrs m as hypotheses.  *)
(* Below, the statements start from a molfile TEXT (V2000.read_molfile: the entry point for  *)
(* both molfile versions) or from a TUCAN STRING (ref_parse); proofs in Proofs/EndToEnd.v.   *)
(* ======================================================================================== *)
From Coq Require Import String.
Require Import Molfile CanonView TotalProofs.
Require V2000 V3000Render V2000Render NonIdentity Norm RefCanon EndToEnd.

(* 1. What holds for the graph of EVERY text the entry point reads (conformant or not): distinct node
   names, every unordered pair bonded at most once, no explicit zero mass / radical, every atomic
   number has an element symbol (it is the table entry of the symbol kept on the atom). *)
Theorem C05_read_graph_props : forall (s : text) (g : mol rpay Z),
  V2000.read_molfile s = ok g ->
  NoDup (labels g) /\ simple g /\ (forall x, In x (atoms g) -> nozero x) /\ known_elements g.
Proof. exact EndToEnd.read_graph_props. Qed.
Print Assumptions C05_read_graph_props.

Theorem C05_read_molfile_symbols : forall (s : text) (g : mol rpay Z),
  V2000.read_molfile s = ok g ->
  forall x, In x (atoms g) -> z_of_symbol (p_sym (pay x)) = Some (zn x) /\ symbol_of (zn x) = Some (p_sym (pay x)).
Proof. exact EndToEnd.read_molfile_symbols. Qed.
Print Assumptions C05_read_molfile_symbols.

(* What does NOT hold for arbitrary text, with accepted texts as witnesses (EndToEnd.ex_selfbond_text:
   bond line "M  V30 1 1 1 1"; EndToEnd.ex_negative_text: "MASS=-3", "RAD=-1"):
   (a) a bond from an atom to itself is read and kept; the emitted string "CO/(1-1)(1-2)" is rejected
       by the reference reader and no layout statement holds for it;
   (b) a negative mass / radical is read and kept; the emitted string "CO/(1-2)/(1:mass=-3)(2:rad=-1)"
       is not a sentence.
   Hence the two hypotheses "no self-bond" and "positive values" of theorem 2. *)
Theorem C05_selfbond_is_read :
  EndToEnd.graph_view (V2000.read_molfile EndToEnd.ex_selfbond_text)
  = Some ([(0, 6, None, None); (1, 8, None, None)]%N, [(0%N, 0%N, 1%Z); (0%N, 1%N, 1%Z)])
  /\ EndToEnd.run_text EndToEnd.ex_selfbond_text = Some (t "CO/(1-1)(1-2)")
  /\ ref_parse (t "CO/(1-1)(1-2)") = inl ESelfLoop
  /\ forall ts (m2 : mol rpay Z) syms,
       lex_text (t "CO/(1-1)(1-2)") = Some ts -> parse_tokens ts = Some (ast_of m2 syms) ->
       ~ Layout.layout_ok m2 (ast_of m2 syms).
Proof.
  exact (conj EndToEnd.ex_selfbond_read (conj (proj1 EndToEnd.ex_selfbond_run)
        (conj (proj2 (proj2 EndToEnd.ex_selfbond_run)) EndToEnd.ex_selfbond_no_layout))).
Qed.
Print Assumptions C05_selfbond_is_read.

Theorem C05_negative_value_is_read :
  EndToEnd.graph_view (V2000.read_molfile EndToEnd.ex_negative_text)
  = Some ([(0%N, 6%N, Some (-3)%Z, None); (1%N, 8%N, None, Some (-1)%Z)], [(0%N, 1%N, 1%Z)])
  /\ EndToEnd.run_text EndToEnd.ex_negative_text = Some (t "CO/(1-2)/(1:mass=-3)(2:rad=-1)")
  /\ forall ts a, lex_text (t "CO/(1-2)/(1:mass=-3)(2:rad=-1)") = Some ts -> ~ ParseProofs.Sentence ts a.
Proof. exact (conj EndToEnd.ex_negative_read (conj EndToEnd.ex_negative_run EndToEnd.ex_negative_no_sentence)). Qed.
Print Assumptions C05_negative_value_is_read.

(* 2. C05 for the readers.  For every oracle satisfying H1 and EVERY text s that is read into a graph
   with at least one atom, no bond from an atom to itself and no non-positive stored mass / radical:
   the pipeline returns a string, it is the spelling of a sentence of the grammar, and it obeys the
   canonical layout. *)
Theorem C05_molfile_text_in_grammar :
  forall canon, H1 canon ->
  forall (s : text) (g : mol rpay Z),
    V2000.read_molfile s = ok g -> atoms g <> nil ->
    (forall b, In b (bonds g) -> fst (ends b) <> snd (ends b)) -> pos_attrs g ->
    exists c ts a, tucan canon g = Some c /\ lex_text c = Some ts /\ ParseProofs.Sentence ts a /\ print_tokens ts = c.
Proof. exact EndToEnd.molfile_text_in_grammar. Qed.
Print Assumptions C05_molfile_text_in_grammar.

Theorem C05_molfile_text_layout :
  forall canon, H1 canon ->
  forall (s : text) (g : mol rpay Z),
    V2000.read_molfile s = ok g -> atoms g <> nil ->
    (forall b, In b (bonds g) -> fst (ends b) <> snd (ends b)) -> pos_attrs g ->
    exists c ts (m2 : mol rpay Z) syms h,
      tucan canon g = Some c /\ print_tokens ts = c /\ lex_text c = Some ts /\ parse_tokens ts = Some (ast_of m2 syms) /\
      SameMol h g m2 /\ ser_ready m2 /\ Layout.layout_ok m2 (ast_of m2 syms).
Proof. exact EndToEnd.molfile_text_layout. Qed.
Print Assumptions C05_molfile_text_layout.

(* "positive" can be replaced by "not negative": the readers never store a zero *)
Theorem C05_molfile_text_in_grammar_nonneg :
  forall canon, H1 canon ->
  forall (s : text) (g : mol rpay Z),
    V2000.read_molfile s = ok g -> atoms g <> nil ->
    (forall b, In b (bonds g) -> fst (ends b) <> snd (ends b)) ->
    (forall x, In x (atoms g) -> (forall v, mass x = Some v -> (0 <= v)%Z) /\ (forall v, rad x = Some v -> (0 <= v)%Z)) ->
    exists c ts a, tucan canon g = Some c /\ lex_text c = Some ts /\ ParseProofs.Sentence ts a /\ print_tokens ts = c.
Proof. exact EndToEnd.molfile_text_in_grammar_nonneg. Qed.
Print Assumptions C05_molfile_text_in_grammar_nonneg.

(* 3. The hypotheses discharged for spec-conformant files.
   V3000: M any well-formed abstract molecule (V3000Render.okM: known element symbols or D / T,
   coordinate tokens, bond lines between atom entries, every ordered pair stated once) in which no bond
   line joins an atom to itself, with at least one atom entry and no negative stated mass / radical;
   ch any admissible rendering choices (okch, okch_text: header lines, index values, blank runs,
   continuation points, order and repetition of CHG= / RAD= / MASS=, explicit defaults, foreign
   keywords, trailing blocks); eol: CR LF or LF line by line.  The text is read, the string exists, it
   is a sentence, and it obeys the layout. *)
Theorem C05_v3000_file_in_grammar :
  forall canon, H1 canon ->
  forall (M : V3000Render.molM) (ch : V3000Render.choices) (eol : nat -> bool),
    V3000Render.okM M ->
    (forall u, ~ In (u, u) (flat_map V3000Render.bond_keys (V3000Render.m_bonds M))) ->
    (exists a, In (Some a) (V3000Render.m_entries M)) ->
    (forall a, In (Some a) (V3000Render.m_entries M) -> (0 <= V3000Render.a_mass a)%Z /\ (0 <= V3000Render.a_rad a)%Z) ->
    V3000Render.okch M ch -> V3000Render.okch_text ch ->
    exists g c ts a,
      V2000.read_molfile (V3000Render.file_text eol 0 (V3000Render.render3000 M ch)) = ok g /\
      tucan canon g = Some c /\ lex_text c = Some ts /\ ParseProofs.Sentence ts a /\ print_tokens ts = c.
Proof. exact EndToEnd.v3000_file_in_grammar. Qed.
Print Assumptions C05_v3000_file_in_grammar.

Theorem C05_v3000_file_layout :
  forall canon, H1 canon ->
  forall (M : V3000Render.molM) (ch : V3000Render.choices) (eol : nat -> bool),
    V3000Render.okM M ->
    (forall u, ~ In (u, u) (flat_map V3000Render.bond_keys (V3000Render.m_bonds M))) ->
    (exists a, In (Some a) (V3000Render.m_entries M)) ->
    (forall a, In (Some a) (V3000Render.m_entries M) -> (0 <= V3000Render.a_mass a)%Z /\ (0 <= V3000Render.a_rad a)%Z) ->
    V3000Render.okch M ch -> V3000Render.okch_text ch ->
    exists g c ts (m2 : mol rpay Z) syms h,
      V2000.read_molfile (V3000Render.file_text eol 0 (V3000Render.render3000 M ch)) = ok g /\
      tucan canon g = Some c /\ print_tokens ts = c /\ lex_text c = Some ts /\ parse_tokens ts = Some (ast_of m2 syms) /\
      SameMol h g m2 /\ ser_ready m2 /\ Layout.layout_ok m2 (ast_of m2 syms).
Proof. exact EndToEnd.v3000_file_layout. Qed.
Print Assumptions C05_v3000_file_layout.

(* V2000: M any well-formed abstract molecule and ch any admissible rendering (NonIdentity.okfile2000:
   okM2000, okch2000, a counts line ending in " V2000", no line break inside a line), no bond line
   joining an atom to itself, at least one atom, no negative stated mass / radical. *)
Theorem C05_v2000_file_in_grammar :
  forall canon, H1 canon ->
  forall (M : V2000Render.mol2) (ch : V2000Render.choices) (eol : nat -> bool),
    NonIdentity.okfile2000 M ch ->
    (forall u, ~ In (u, u) (map fst (V2000Render.m_bonds M))) ->
    V2000Render.m_atoms M <> nil ->
    (forall a, In a (V2000Render.m_atoms M) -> (0 <= V2000Render.a_mass a)%Z /\ (0 <= V2000Render.a_rad a)%Z) ->
    exists g c ts a,
      V2000.read_molfile (V3000Render.file_text eol 0 (V2000Render.render2000 M ch)) = ok g /\
      tucan canon g = Some c /\ lex_text c = Some ts /\ ParseProofs.Sentence ts a /\ print_tokens ts = c.
Proof. exact EndToEnd.v2000_file_in_grammar. Qed.
Print Assumptions C05_v2000_file_in_grammar.

Theorem C05_v2000_file_layout :
  forall canon, H1 canon ->
  forall (M : V2000Render.mol2) (ch : V2000Render.choices) (eol : nat -> bool),
    NonIdentity.okfile2000 M ch ->
    (forall u, ~ In (u, u) (map fst (V2000Render.m_bonds M))) ->
    V2000Render.m_atoms M <> nil ->
    (forall a, In a (V2000Render.m_atoms M) -> (0 <= V2000Render.a_mass a)%Z /\ (0 <= V2000Render.a_rad a)%Z) ->
    exists g c ts (m2 : mol rpay Z) syms h,
      V2000.read_molfile (V3000Render.file_text eol 0 (V2000Render.render2000 M ch)) = ok g /\
      tucan canon g = Some c /\ print_tokens ts = c /\ lex_text c = Some ts /\ parse_tokens ts = Some (ast_of m2 syms) /\
      SameMol h g m2 /\ ser_ready m2 /\ Layout.layout_ok m2 (ast_of m2 syms).
Proof. exact EndToEnd.v2000_file_layout. Qed.
Print Assumptions C05_v2000_file_layout.

(* 4. C05 for the parser.  Every string the reference reader accepts, with at least one atom ("/" is
   the only accepted string without), normalizes (parse, canonicalize, serialize) to a string that is a
   sentence and obeys the layout.  No hypothesis about the graph is left. *)
Theorem C05_tucan_string_in_grammar :
  forall canon, H1 canon ->
  forall (s : text) (g : mol unit unit),
    ref_parse s = inr g -> atoms g <> nil ->
    exists c ts a, Norm.norm canon s = Some c /\ lex_text c = Some ts /\ ParseProofs.Sentence ts a /\ print_tokens ts = c.
Proof. exact EndToEnd.tucan_string_in_grammar. Qed.
Print Assumptions C05_tucan_string_in_grammar.

Theorem C05_tucan_string_layout :
  forall canon, H1 canon ->
  forall (s : text) (g : mol unit unit),
    ref_parse s = inr g -> atoms g <> nil ->
    exists c ts (m2 : mol unit unit) syms h,
      Norm.norm canon s = Some c /\ print_tokens ts = c /\ lex_text c = Some ts /\ parse_tokens ts = Some (ast_of m2 syms) /\
      SameMol h g m2 /\ ser_ready m2 /\ Layout.layout_ok m2 (ast_of m2 syms).
Proof. exact EndToEnd.tucan_string_layout. Qed.
Print Assumptions C05_tucan_string_layout.

(* 5. Non-vacuity with the reference oracle (RefCanon.ref_canon satisfies H1): the formate file of
   NonIdentity.Example (V3000, continuation lines, explicit defaults, foreign keywords, CR LF) meets
   every hypothesis of theorem 3; its string is computed, and the theorem gives the sentence. *)
Theorem C05_formate_file_sentence : exists a,
  tucan RefCanon.ref_canon (V3000Render.graph_of NonIdentity.Example.formA) = Some (t "CHO2/(1-2)(2-3)(2-4)/(2:mass=13)") /\
  lex_text (t "CHO2/(1-2)(2-3)(2-4)/(2:mass=13)") = Some EndToEnd.Example.formate_tokens /\
  ParseProofs.Sentence EndToEnd.Example.formate_tokens a /\
  print_tokens EndToEnd.Example.formate_tokens = t "CHO2/(1-2)(2-3)(2-4)/(2:mass=13)".
Proof. exact EndToEnd.Example.formate_v3000_sentence. Qed.
Print Assumptions C05_formate_file_sentence.

Theorem C05_formate_files_computed :
  EndToEnd.run_text (V3000Render.file_text NonIdentity.Example.crlf 0
                       (V3000Render.render3000 NonIdentity.Example.formA NonIdentity.Example.chA))
  = Some (t "CHO2/(1-2)(2-3)(2-4)/(2:mass=13)") /\
  EndToEnd.run_text (V3000Render.file_text NonIdentity.Example.mixed 0
                       (V2000Render.render2000 NonIdentity.Example.form2 NonIdentity.Example.ch2))
  = Some (t "CHO2/(1-2)(2-3)(2-4)/(2:mass=13)").
Proof. exact EndToEnd.Example.formate_files_computed. Qed.
Print Assumptions C05_formate_files_computed.

(* a non-canonical spelling (6 atoms) normalizes to a sentence *)
Theorem C05_string_example : exists ts a,
  Norm.norm RefCanon.ref_canon (t "CH4O/(6-5)(1-6)(5-3)(2-5)(4-5)(2-5)/(5:mass=13)(1:rad=1)(1:mass=2)")
  = Some (t "CH4O/(1-5)(2-5)(3-5)(4-6)(5-6)/(4:mass=2,rad=1)(5:mass=13)") /\
  lex_text (t "CH4O/(1-5)(2-5)(3-5)(4-6)(5-6)/(4:mass=2,rad=1)(5:mass=13)") = Some ts /\
  ParseProofs.Sentence ts a /\
  print_tokens ts = t "CH4O/(1-5)(2-5)(3-5)(4-6)(5-6)/(4:mass=2,rad=1)(5:mass=13)".
Proof. exact EndToEnd.Example.string_in_grammar. Qed.
Print Assumptions C05_string_example.
