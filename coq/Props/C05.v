(* C05 -- Every emitted string obeys the published grammar and canonical layout.
   Only statements; proofs are in Proofs/. *)
From Coq Require Import List NArith ZArith Permutation.
Require Import Base Mol Canon Text Token Parse Pipeline MolProofs SameMol CanonProofs AstOf RoundTrip2.
Require ParamsSpec.   (* regenerated source constants still match what the model hard-codes *)
Require ParseProofs.

(* The emitted string is the spelling of a token list that is a sentence of the inductive
   transcription `Sentence` of the published EBNF (ParseProofs.v; tables regenerated from
   tucan.ebnf and tucan.g4), and the lexer reads exactly that token list back. *)
Theorem tucan_in_grammar :
  forall canon, H1 canon ->
  forall (P B : Type) (m : mol P B) (s : text),
    wfg m -> simple m -> pos_attrs m -> tucan canon m = Some s ->
    exists ts a, lex_text s = Some ts /\ ParseProofs.Sentence ts a /\ print_tokens ts = s.
Proof. exact (@RoundTrip2.tucan_in_grammar). Qed.
Print Assumptions tucan_in_grammar.

(* Canonical layout.  The token list that is printed parses (parse_tokens) to `ast_of m2 syms` for
   a graph m2 that is the input molecule under a renaming (SameMol h m m2) and is `ser_ready`;
   `layout_ok m2 (ast_of m2 syms)` then spells out the layout rules of the property: Hill order
   accepted by the grammar, each element once with its count (>= 1) equal to the molecule's element
   count, n atoms in total; one tuple per bond, each (a-b) with 1 <= a < b <= n, tuples strictly
   ascending, each bond exactly once; attribute blocks strictly ascending by index, exactly one per
   atom carrying a mass or radical, keys in the order mass, rad, values >= 1; indices 1..n run in
   blocks of non-decreasing atomic number. *)
Require Layout.
Theorem tucan_layout :
  forall canon, H1 canon ->
  forall (P B : Type) (m : mol P B) (s : text),
    wfg m -> simple m -> pos_attrs m -> tucan canon m = Some s ->
    exists ts (m2 : mol P B) syms h,
      print_tokens ts = s /\ lex_text s = Some ts /\ parse_tokens ts = Some (ast_of m2 syms) /\
      SameMol h m m2 /\ ser_ready m2 /\ Layout.layout_ok m2 (ast_of m2 syms).
Proof. exact (@RoundTrip2.tucan_layout). Qed.
Print Assumptions tucan_layout.

(* ======================================================================================== *)
(* The quantifier closed: "for all molecules the readers or the parser can produce".        *)
(* The two theorems above take the graph m with wfg m, simple m, pos_attrs m as hypotheses.  *)
(* Below, the statements start from a molfile TEXT (V2000.read_molfile: the entry point for  *)
(* both molfile versions) or from a TUCAN STRING (ref_parse); proofs in Proofs/EndToEnd.v.   *)
(* ======================================================================================== *)
From Coq Require Import String.
Require Import Molfile CanonView TotalProofs.
Require V2000 V3000 V3000Render V2000Render NonIdentity Norm RefCanon ReadersNoZero EndToEnd.

(* 1. What holds for the graph of EVERY text the entry point reads (conformant or not): wfg (distinct
   node names, no bond from an atom to itself, bond endpoints are nodes), every unordered pair bonded at
   most once, no explicit zero mass / radical, stored masses / radicals >= 1, every atomic number has an
   element symbol (it is the table entry of the symbol kept on the atom).  These are all hypotheses of
   tucan_in_grammar / tucan_layout above. *)
Theorem C05_read_graph_props : forall (s : text) (g : mol rpay Z),
  V2000.read_molfile s = ok g ->
  wfg g /\ simple g /\ (forall x, In x (atoms g) -> nozero x) /\ pos_attrs g /\ known_elements g.
Proof. exact EndToEnd.read_graph_props. Qed.
Print Assumptions C05_read_graph_props.

(* the two parts that rest on the readers rejecting such files (Proofs/ReadersNoZero.v, section 6) *)
Theorem C05_read_no_self_bond : forall (s : text) (g : mol rpay Z),
  V2000.read_molfile s = ok g -> forall b, In b (bonds g) -> fst (ends b) <> snd (ends b).
Proof. exact ReadersNoZero.read_molfile_no_self_bond. Qed.
Print Assumptions C05_read_no_self_bond.

Theorem C05_read_nonneg : forall (s : text) (g : mol rpay Z),
  V2000.read_molfile s = ok g ->
  forall x, In x (atoms g) -> (forall v, mass x = Some v -> (0 <= v)%Z) /\ (forall v, rad x = Some v -> (0 <= v)%Z).
Proof. exact ReadersNoZero.read_molfile_nonneg. Qed.
Print Assumptions C05_read_nonneg.

Theorem C05_read_v3000_no_self_bond : forall lines ats bds,
  V3000.read_v3000 lines = ok (ats, bds) -> Forall (fun b : rbond => fst (fst b) <> snd (fst b)) bds.
Proof. exact ReadersNoZero.read_v3000_no_self_bond. Qed.
Print Assumptions C05_read_v3000_no_self_bond.

Theorem C05_read_v2000_no_self_bond : forall lines ats bds,
  V2000.read_v2000 lines = ok (ats, bds) -> Forall (fun b : rbond => fst (fst b) <> snd (fst b)) bds.
Proof. exact ReadersNoZero.read_v2000_no_self_bond. Qed.
Print Assumptions C05_read_v2000_no_self_bond.

Theorem C05_read_v3000_nonneg : forall lines ats bds,
  V3000.read_v3000 lines = ok (ats, bds) ->
  Forall (fun a => (forall v, r_mass a = Some v -> (0 <= v)%Z) /\ (forall v, r_rad a = Some v -> (0 <= v)%Z)) ats.
Proof. exact ReadersNoZero.read_v3000_nonneg. Qed.
Print Assumptions C05_read_v3000_nonneg.

Theorem C05_read_v2000_nonneg : forall lines ats bds,
  V2000.read_v2000 lines = ok (ats, bds) ->
  Forall (fun a => (forall v, r_mass a = Some v -> (0 <= v)%Z) /\ (forall v, r_rad a = Some v -> (0 <= v)%Z)) ats.
Proof. exact ReadersNoZero.read_v2000_nonneg. Qed.
Print Assumptions C05_read_v2000_nonneg.

Theorem C05_read_molfile_symbols : forall (s : text) (g : mol rpay Z),
  V2000.read_molfile s = ok g ->
  forall x, In x (atoms g) -> z_of_symbol (p_sym (pay x)) = Some (zn x) /\ symbol_of (zn x) = Some (p_sym (pay x)).
Proof. exact EndToEnd.read_molfile_symbols. Qed.
Print Assumptions C05_read_molfile_symbols.

(* The two texts that used to be accepted and to break the property (EndToEnd.ex_selfbond_text: bond
   line "M  V30 1 1 1 1"; EndToEnd.ex_negative_text: "MASS=-3", "RAD=-1") are rejected by the model reader:
   (a) a bond from an atom to itself -- the string it would give, "CO/(1-1)(1-2)", is rejected by the
       reference reader;
   (b) a negative mass / radical -- the string it would give, "CO/(1-2)/(1:mass=-3)(2:rad=-1)", is not
       a sentence. *)
Theorem C05_selfbond_is_rejected :
  V2000.read_molfile EndToEnd.ex_selfbond_text = inl EParser
  /\ ref_parse (t "CO/(1-1)(1-2)") = inl ESelfLoop.
Proof. exact (conj EndToEnd.ex_selfbond_rejected EndToEnd.ex_selfbond_string_rejected). Qed.
Print Assumptions C05_selfbond_is_rejected.

Theorem C05_negative_value_is_rejected :
  V2000.read_molfile EndToEnd.ex_negative_text = inl EParser
  /\ forall ts a, lex_text (t "CO/(1-2)/(1:mass=-3)(2:rad=-1)") = Some ts -> ~ ParseProofs.Sentence ts a.
Proof. exact (conj EndToEnd.ex_negative_rejected EndToEnd.ex_negative_no_sentence). Qed.
Print Assumptions C05_negative_value_is_rejected.

(* 2. C05 for the readers.  For every oracle satisfying H1 and EVERY text s that is read into a graph
   with at least one atom (the only hypothesis: EndToEnd.ex_empty_read is a text that is read into the
   empty graph, for which no string is returned): the pipeline returns a string, it is the spelling of a
   sentence of the grammar, and it obeys the canonical layout. *)
Theorem C05_molfile_text_in_grammar :
  forall canon, H1 canon ->
  forall (s : text) (g : mol rpay Z),
    V2000.read_molfile s = ok g -> atoms g <> nil ->
    exists c ts a, tucan canon g = Some c /\ lex_text c = Some ts /\ ParseProofs.Sentence ts a /\ print_tokens ts = c.
Proof. exact EndToEnd.molfile_text_in_grammar. Qed.
Print Assumptions C05_molfile_text_in_grammar.

Theorem C05_molfile_text_layout :
  forall canon, H1 canon ->
  forall (s : text) (g : mol rpay Z),
    V2000.read_molfile s = ok g -> atoms g <> nil ->
    exists c ts (m2 : mol rpay Z) syms h,
      tucan canon g = Some c /\ print_tokens ts = c /\ lex_text c = Some ts /\ parse_tokens ts = Some (ast_of m2 syms) /\
      SameMol h g m2 /\ ser_ready m2 /\ Layout.layout_ok m2 (ast_of m2 syms).
Proof. exact EndToEnd.molfile_text_layout. Qed.
Print Assumptions C05_molfile_text_layout.

Theorem C05_empty_file_no_string :
  EndToEnd.graph_view (V2000.read_molfile EndToEnd.ex_empty_text) = Some (nil, nil) /\ EndToEnd.run_text EndToEnd.ex_empty_text = None.
Proof. exact EndToEnd.ex_empty_read. Qed.
Print Assumptions C05_empty_file_no_string.

(* 3. Spec-conformant files.
   V3000: M any well-formed abstract molecule (V3000Render.okM: known element symbols or D / T,
   coordinate tokens, no negative stated mass / radical, bond lines between atom entries, every ordered
   pair stated once, no bond line joining an atom to itself) with at least one atom entry;
   ch any admissible rendering choices (okch, okch_text: header lines, index values, blank runs,
   continuation points, order and repetition of CHG= / RAD= / MASS=, explicit defaults, foreign
   keywords, trailing blocks); eol: CR LF or LF line by line.  The text is read, the string exists, it
   is a sentence, and it obeys the layout. *)
Theorem C05_v3000_file_in_grammar :
  forall canon, H1 canon ->
  forall (M : V3000Render.molM) (ch : V3000Render.choices) (eol : nat -> bool),
    V3000Render.okM M ->
    (exists a, In (Some a) (V3000Render.m_entries M)) ->
    V3000Render.okch M ch -> V3000Render.okch_text ch ->
    exists g c ts a,
      V2000.read_molfile (V3000Render.file_text eol 0 (V3000Render.render3000 M ch)) = ok g /\
      tucan canon g = Some c /\ lex_text c = Some ts /\ ParseProofs.Sentence ts a /\ print_tokens ts = c.
Proof. exact EndToEnd.v3000_file_in_grammar. Qed.
Print Assumptions C05_v3000_file_in_grammar.

Theorem C05_v3000_file_layout :
  forall canon, H1 canon ->
  forall (M : V3000Render.molM) (ch : V3000Render.choices) (eol : nat -> bool),
    V3000Render.okM M ->
    (exists a, In (Some a) (V3000Render.m_entries M)) ->
    V3000Render.okch M ch -> V3000Render.okch_text ch ->
    exists g c ts (m2 : mol rpay Z) syms h,
      V2000.read_molfile (V3000Render.file_text eol 0 (V3000Render.render3000 M ch)) = ok g /\
      tucan canon g = Some c /\ print_tokens ts = c /\ lex_text c = Some ts /\ parse_tokens ts = Some (ast_of m2 syms) /\
      SameMol h g m2 /\ ser_ready m2 /\ Layout.layout_ok m2 (ast_of m2 syms).
Proof. exact EndToEnd.v3000_file_layout. Qed.
Print Assumptions C05_v3000_file_layout.

(* V2000: M any well-formed abstract molecule and ch any admissible rendering (NonIdentity.okfile2000:
   okM2000 -- the two atom numbers of a bond line differ --, okch2000 -- no negative value on an
   M  RAD / M  ISO line --, a counts line ending in " V2000", no line break inside a line), at least
   one atom. *)
Theorem C05_v2000_file_in_grammar :
  forall canon, H1 canon ->
  forall (M : V2000Render.mol2) (ch : V2000Render.choices) (eol : nat -> bool),
    NonIdentity.okfile2000 M ch ->
    V2000Render.m_atoms M <> nil ->
    exists g c ts a,
      V2000.read_molfile (V3000Render.file_text eol 0 (V2000Render.render2000 M ch)) = ok g /\
      tucan canon g = Some c /\ lex_text c = Some ts /\ ParseProofs.Sentence ts a /\ print_tokens ts = c.
Proof. exact EndToEnd.v2000_file_in_grammar. Qed.
Print Assumptions C05_v2000_file_in_grammar.

Theorem C05_v2000_file_layout :
  forall canon, H1 canon ->
  forall (M : V2000Render.mol2) (ch : V2000Render.choices) (eol : nat -> bool),
    NonIdentity.okfile2000 M ch ->
    V2000Render.m_atoms M <> nil ->
    exists g c ts (m2 : mol rpay Z) syms h,
      V2000.read_molfile (V3000Render.file_text eol 0 (V2000Render.render2000 M ch)) = ok g /\
      tucan canon g = Some c /\ print_tokens ts = c /\ lex_text c = Some ts /\ parse_tokens ts = Some (ast_of m2 syms) /\
      SameMol h g m2 /\ ser_ready m2 /\ Layout.layout_ok m2 (ast_of m2 syms).
Proof. exact EndToEnd.v2000_file_layout. Qed.
Print Assumptions C05_v2000_file_layout.

(* 4. C05 for the parser.  Every string the reference reader accepts, with at least one atom ("/" is
   the only accepted string without), normalizes (parse, canonicalize, serialize) to a string that is a
   sentence and obeys the layout.  No hypothesis about the graph is left. *)
Theorem C05_tucan_string_in_grammar :
  forall canon, H1 canon ->
  forall (s : text) (g : mol unit unit),
    ref_parse s = inr g -> atoms g <> nil ->
    exists c ts a, Norm.norm canon s = Some c /\ lex_text c = Some ts /\ ParseProofs.Sentence ts a /\ print_tokens ts = c.
Proof. exact EndToEnd.tucan_string_in_grammar. Qed.
Print Assumptions C05_tucan_string_in_grammar.

Theorem C05_tucan_string_layout :
  forall canon, H1 canon ->
  forall (s : text) (g : mol unit unit),
    ref_parse s = inr g -> atoms g <> nil ->
    exists c ts (m2 : mol unit unit) syms h,
      Norm.norm canon s = Some c /\ print_tokens ts = c /\ lex_text c = Some ts /\ parse_tokens ts = Some (ast_of m2 syms) /\
      SameMol h g m2 /\ ser_ready m2 /\ Layout.layout_ok m2 (ast_of m2 syms).
Proof. exact EndToEnd.tucan_string_layout. Qed.
Print Assumptions C05_tucan_string_layout.

(* 5. Non-vacuity with the reference oracle (RefCanon.ref_canon satisfies H1): the formate file of
   NonIdentity.Example (V3000, continuation lines, explicit defaults, foreign keywords, CR LF) meets
   every hypothesis of theorem 3; its string is computed, and the theorem gives the sentence. *)
Theorem C05_formate_file_sentence : exists a,
  tucan RefCanon.ref_canon (V3000Render.graph_of NonIdentity.Example.formA) = Some (t "CHO2/(1-2)(2-3)(2-4)/(2:mass=13)") /\
  lex_text (t "CHO2/(1-2)(2-3)(2-4)/(2:mass=13)") = Some EndToEnd.Example.formate_tokens /\
  ParseProofs.Sentence EndToEnd.Example.formate_tokens a /\
  print_tokens EndToEnd.Example.formate_tokens = t "CHO2/(1-2)(2-3)(2-4)/(2:mass=13)".
Proof. exact EndToEnd.Example.formate_v3000_sentence. Qed.
Print Assumptions C05_formate_file_sentence.

Theorem C05_formate_files_computed :
  EndToEnd.run_text (V3000Render.file_text NonIdentity.Example.crlf 0
                       (V3000Render.render3000 NonIdentity.Example.formA NonIdentity.Example.chA))
  = Some (t "CHO2/(1-2)(2-3)(2-4)/(2:mass=13)") /\
  EndToEnd.run_text (V3000Render.file_text NonIdentity.Example.mixed 0
                       (V2000Render.render2000 NonIdentity.Example.form2 NonIdentity.Example.ch2))
  = Some (t "CHO2/(1-2)(2-3)(2-4)/(2:mass=13)").
Proof. exact EndToEnd.Example.formate_files_computed. Qed.
Print Assumptions C05_formate_files_computed.

(* a non-canonical spelling (6 atoms) normalizes to a sentence *)
Theorem C05_string_example : exists ts a,
  Norm.norm RefCanon.ref_canon (t "CH4O/(6-5)(1-6)(5-3)(2-5)(4-5)(2-5)/(5:mass=13)(1:rad=1)(1:mass=2)")
  = Some (t "CH4O/(1-5)(2-5)(3-5)(4-6)(5-6)/(4:mass=2,rad=1)(5:mass=13)") /\
  lex_text (t "CH4O/(1-5)(2-5)(3-5)(4-6)(5-6)/(4:mass=2,rad=1)(5:mass=13)") = Some ts /\
  ParseProofs.Sentence ts a /\
  print_tokens ts = t "CH4O/(1-5)(2-5)(3-5)(4-6)(5-6)/(4:mass=2,rad=1)(5:mass=13)".
Proof. exact EndToEnd.Example.string_in_grammar. Qed.
Print Assumptions C05_string_example.
