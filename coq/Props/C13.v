(* placeholder: replaced when the proofs land *)
