(* C13 -- Partition classes are label-independent, equitable and respect symmetry.
   Only statements; proofs are in Proofs/. *)
From Coq Require Import List NArith ZArith Permutation.
Require Import Base Mol Partition MolProofs SameMol.
Require ParamsSpec.   (* regenerated source constants still match what the model hard-codes *)

(* The class of an atom does not depend on how the molecule is numbered, in which order atoms and
   bonds are listed, how bonds are oriented, or on any non-identity data: for two descriptions
   related by SameMol f, corresponding atoms (label a <-> f a) get the same class, and the
   refinement succeeds for one description exactly when it succeeds for the other. *)
Theorem classes_label_independent :
  forall (P B P' B' : Type) (f : N -> N) (m : mol P B) (m' : mol P' B'),
    wfg m -> SameMol f m m' ->
    match classes m, classes m' with
    | Some r, Some r' => forall x x', In x (atoms r) -> In x' (atoms r') -> lbl x' = f (lbl x) -> part x' = part x
    | None, None => True
    | _, _ => False
    end.
Proof. exact (@SameMol.classes_label_independent). Qed.
Print Assumptions classes_label_independent.

(* Two atoms that a symmetry of the molecule maps onto each other are in the same class. *)
Theorem classes_respect_automorphisms :
  forall (P B : Type) (m : mol P B) (f : N -> N) (r : mol P B),
    wfg m -> SameMol f m m -> classes m = Some r ->
    forall x x', In x (atoms r) -> In x' (atoms r) -> lbl x' = f (lbl x) -> part x' = part x.
Proof. exact (@SameMol.classes_respect_automorphisms). Qed.
Print Assumptions classes_respect_automorphisms.

(* Atoms in one class share element, isotope mass and radical state (the invariant code) ... *)
Require Equitable.
Theorem classes_same_invariant :
  forall (P B : Type) (m r : mol P B), classes m = Some r ->
    forall x y, In x (atoms r) -> In y (atoms r) -> part x = part y -> inv_code x = inv_code y.
Proof. exact Equitable.classes_same_invariant. Qed.
Print Assumptions classes_same_invariant.

(* ... and see the same multiset of classes among their neighbours: the partition is equitable,
   i.e. stable under one more refinement round. *)
Theorem classes_equitable :
  forall (P B : Type) (m r : mol P B), classes m = Some r ->
    forall x y, In x (atoms r) -> In y (atoms r) -> part x = part y ->
      isort Ngeb (nbr_vals (@part P) r (lbl x)) = isort Ngeb (nbr_vals (@part P) r (lbl y)).
Proof. exact Equitable.classes_equitable_nowf. Qed.
Print Assumptions classes_equitable.

(* The refinement never fails or runs out of fuel on a non-empty molecule. *)
Theorem classes_total :
  forall (P B : Type) (m : mol P B), atoms m <> nil -> exists r, classes m = Some r.
Proof. exact Equitable.refine_fuel_suffices. Qed.
Print Assumptions classes_total.

(* ------------------------------------------------------------------------------------------------ *)
(* The quantifier closed over the readers (Proofs/EndToEnd2.v): wfg is a theorem about every graph the
   molfile entry point returns (ReadersNoZero.read_molfile_wfg).  (classes_total, classes_same_invariant
   and classes_equitable above need no well-formedness at all; they are restated for graphs read so
   that the three parts of the property stand side by side.) *)
Require Import Text Molfile.
Require V2000 EndToEnd2.

Theorem C13_read_classes_total :
  forall (s : text) (g : mol rpay Z),
    V2000.read_molfile s = ok g -> atoms g <> nil -> exists r, classes g = Some r.
Proof. exact EndToEnd2.read_classes_total. Qed.
Print Assumptions C13_read_classes_total.

Theorem C13_read_classes_label_independent :
  forall (s s' : text) (g g' : mol rpay Z) (f : N -> N),
    V2000.read_molfile s = ok g -> V2000.read_molfile s' = ok g' -> SameMol f g g' ->
    match classes g, classes g' with
    | Some r, Some r' => forall x x', In x (atoms r) -> In x' (atoms r') -> lbl x' = f (lbl x) -> part x' = part x
    | None, None => True
    | _, _ => False
    end.
Proof. exact EndToEnd2.read_classes_label_independent. Qed.
Print Assumptions C13_read_classes_label_independent.

(* with an atom: both refinements are defined *)
Theorem C13_read_classes_label_independent_total :
  forall (s s' : text) (g g' : mol rpay Z) (f : N -> N),
    V2000.read_molfile s = ok g -> V2000.read_molfile s' = ok g' -> SameMol f g g' -> atoms g <> nil ->
    exists r r', classes g = Some r /\ classes g' = Some r' /\
      forall x x', In x (atoms r) -> In x' (atoms r') -> lbl x' = f (lbl x) -> part x' = part x.
Proof. exact EndToEnd2.read_classes_label_independent_total. Qed.
Print Assumptions C13_read_classes_label_independent_total.

Theorem C13_read_classes_respect_automorphisms :
  forall (s : text) (g r : mol rpay Z) (f : N -> N),
    V2000.read_molfile s = ok g -> SameMol f g g -> classes g = Some r ->
    forall x x', In x (atoms r) -> In x' (atoms r) -> lbl x' = f (lbl x) -> part x' = part x.
Proof. exact EndToEnd2.read_classes_respect_automorphisms. Qed.
Print Assumptions C13_read_classes_respect_automorphisms.

(* every accepted text with an atom: the classes are defined, atoms of one class share the invariant
   code and see the same multiset of classes among their neighbours *)
Theorem C13_read_classes_total_equitable :
  forall (s : text) (g : mol rpay Z),
    V2000.read_molfile s = ok g -> atoms g <> nil ->
    exists r, classes g = Some r /\
      forall x y, In x (atoms r) -> In y (atoms r) -> part x = part y ->
        inv_code x = inv_code y /\
        isort Ngeb (nbr_vals (@part rpay) r (lbl x)) = isort Ngeb (nbr_vals (@part rpay) r (lbl y)).
Proof. exact EndToEnd2.read_classes_total_equitable. Qed.
Print Assumptions C13_read_classes_total_equitable.
