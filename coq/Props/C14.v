(* C14 -- Results are deterministic across processes, call histories and threads (PARTIAL).
   Only statements; proofs are in Proofs/.
   What a Gallina model can carry: the model is a pure function (no state, hence no history or
   schedule dependence inside the model), and at every place where the Python iterates a container
   whose order the language leaves open the result does not depend on that order.  The ANTLR
   prediction caches, module state, igraph internals and thread interleavings live in the
   runtimes and are explored by K10 (harness/misc_checks.py), not proved. *)
From Coq Require Import List NArith ZArith Permutation.
Require Import Base Mol Partition Final Serialize SortProofs HashOrder SerializeProofs.
Require ParamsSpec.   (* regenerated source constants still match what the model hard-codes *)

(* set(attr_seqs) -> sorted(): any iteration order and any multiplicities of the same elements
   give the same ranking *)
Theorem rank_set_order_independent :
  forall (K : Type) (kleb : K -> K -> bool),
    (forall x y, kleb x y = true \/ kleb y x = true) ->
    (forall x y z, kleb x y = true -> kleb y z = true -> kleb x z = true) ->
    (forall x y, kleb x y = true -> kleb y x = true -> x = y) ->
    forall l l' k, same_elements K l l' -> rank kleb l k = rank kleb l' k.
Proof. exact rank_set_independent. Qed.
Print Assumptions rank_set_order_independent.

(* the dictionary labels_by_partition is built by iterating over a set: whatever order its keys
   end up in, the traversal computes the same final labels *)
Theorem final_labels_dict_order_independent :
  forall ls part_of nb prios fuel (s s' : st), Rst s s' ->
    run ls part_of nb prios fuel s = run ls part_of nb prios fuel s'.
Proof. exact run_dict_order_independent. Qed.
Print Assumptions final_labels_dict_order_independent.

(* Counter(...) items -> sorted(): the formula depends on the multiset of symbols only *)
Theorem formula_counter_order_independent :
  forall syms syms', Permutation syms syms' -> formula_tokens syms = formula_tokens syms'.
Proof. exact formula_tokens_perm. Qed.
Print Assumptions formula_counter_order_independent.
