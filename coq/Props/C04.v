(* C04 -- Canonical atom numbering: same molecule gives the same labelled graph.
   Only statements; proofs are in Proofs/. *)
From Coq Require Import List NArith ZArith Permutation.
Require Import Base Mol Partition Canon MolProofs PartitionProofs SameMol CanonProofs.

(* For every oracle meeting the contract of a canonical-form algorithm (H2), two descriptions of one
   molecule get canonical graphs with the same label -> class map and the same edge set (and both
   computations succeed or fail together). *)
Theorem canonical_classes_edges_unique :
  forall (P B P' B' : Type) canon, H2 canon ->
  forall (f : N -> N) (m : mol P B) (m' : mol P' B'), wfg m -> SameMol f m m' ->
    match canonicalize canon m, canonicalize canon m' with
    | Some c, Some c' => Permutation (class_view c) (class_view c') /\ Permutation (edge_view c) (edge_view c')
    | None, None => True
    | _, _ => False
    end.
Proof. exact (@CanonProofs.canonical_classes_edges_unique). Qed.
Print Assumptions canonical_classes_edges_unique.
