(* C04 -- Canonical atom numbering: same molecule gives the same labelled graph.
   Only statements; proofs are in Proofs/. *)
From Coq Require Import List NArith ZArith Permutation.
Require Import Base Mol Partition Canon MolProofs PartitionProofs SameMol CanonProofs.
Require ParamsSpec.   (* regenerated source constants still match what the model hard-codes *)

(* For every oracle meeting the contract of a canonical-form algorithm (H2), two descriptions of one
   molecule get canonical graphs with the same label -> class map and the same edge set (and both
   computations succeed or fail together). *)
Theorem canonical_classes_edges_unique :
  forall (P B P' B' : Type) canon, H2 canon ->
  forall (f : N -> N) (m : mol P B) (m' : mol P' B'), wfg m -> SameMol f m m' ->
    match canonicalize canon m, canonicalize canon m' with
    | Some c, Some c' => Permutation (class_view c) (class_view c') /\ Permutation (edge_view c) (edge_view c')
    | None, None => True
    | _, _ => False
    end.
Proof. exact (@CanonProofs.canonical_classes_edges_unique). Qed.
Print Assumptions canonical_classes_edges_unique.

(* The full statement: atom k has the same element, isotope mass, radical state and class in both
   results and j, k are bonded in one exactly when they are in the other (SameView: the lists
   (label, (element, mass, radical), class) and the normalised bond lists are permutations of each
   other; labels are unique, so this is equality of the two maps and of the two edge sets).
   Payload (charges, coordinates, bond orders) is not part of the view.
   `nozero`: no atom stores an explicit 0 as mass or radical (what the readers and the parser
   guarantee); without it "mass absent" and "mass = 0" fall into one class by construction of
   the invariant code. *)
Require Import ViewProofs CanonView.
Theorem canonical_graph_unique :
  forall (P B P' B' : Type) canon, H2 canon ->
  forall (f : N -> N) (m : mol P B) (m' : mol P' B'), wfg m -> SameMol f m m' ->
    (forall x, In x (atoms m) -> nozero x) ->
    match canonicalize canon m, canonicalize canon m' with
    | Some c, Some c' => SameView c c'
    | None, None => True
    | _, _ => False
    end.
Proof. exact (@CanonView.canonical_graph_unique). Qed.
Print Assumptions canonical_graph_unique.

(* ------------------------------------------------------------------------------------------------ *)
(* The quantifier closed over the readers (Proofs/EndToEnd2.v): wfg and nozero are theorems about
   every graph the molfile entry point returns (ReadersNoZero.read_molfile_wfg / read_molfile_nozero). *)
Require Import Text Parse Molfile.
Require V2000 EndToEnd2.

(* Two accepted molfile texts (V2000 or V3000) whose graphs are one molecule (SameMol f: f renames the
   atoms, keeps element / mass / radical, maps the bond set onto the bond set): same canonical view. *)
Theorem C04_molfile_texts_canonical_unique :
  forall canon, H2 canon ->
  forall (s s' : text) (g g' : mol rpay Z) (f : N -> N),
    V2000.read_molfile s = ok g -> V2000.read_molfile s' = ok g' -> SameMol f g g' ->
    match canonicalize canon g, canonicalize canon g' with
    | Some c, Some c' => SameView c c'
    | None, None => True
    | _, _ => False
    end.
Proof. exact (@EndToEnd2.molfile_texts_canonical_unique). Qed.
Print Assumptions C04_molfile_texts_canonical_unique.

Theorem C04_molfile_texts_classes_edges_unique :
  forall canon, H2 canon ->
  forall (s s' : text) (g g' : mol rpay Z) (f : N -> N),
    V2000.read_molfile s = ok g -> V2000.read_molfile s' = ok g' -> SameMol f g g' ->
    match canonicalize canon g, canonicalize canon g' with
    | Some c, Some c' => Permutation (class_view c) (class_view c') /\ Permutation (edge_view c) (edge_view c')
    | None, None => True
    | _, _ => False
    end.
Proof. exact (@EndToEnd2.molfile_texts_classes_edges_unique). Qed.
Print Assumptions C04_molfile_texts_classes_edges_unique.

(* With at least one atom both canonical graphs exist (C15), so no case distinction is left. *)
Theorem C04_molfile_texts_canonical_unique_total :
  forall canon, H2 canon ->
  forall (s s' : text) (g g' : mol rpay Z) (f : N -> N),
    V2000.read_molfile s = ok g -> V2000.read_molfile s' = ok g' -> SameMol f g g' -> atoms g <> nil ->
    exists c c', canonicalize canon g = Some c /\ canonicalize canon g' = Some c' /\ SameView c c'.
Proof. exact (@EndToEnd2.molfile_texts_canonical_unique_total). Qed.
Print Assumptions C04_molfile_texts_canonical_unique_total.

(* A molfile text and a TUCAN string describing one molecule. *)
Theorem C04_molfile_text_string_canonical_unique :
  forall canon, H2 canon ->
  forall (s t0 : text) (g : mol rpay Z) (g' : mol unit unit) (f : N -> N),
    V2000.read_molfile s = ok g -> ref_parse t0 = inr g' -> SameMol f g g' ->
    match canonicalize canon g, canonicalize canon g' with
    | Some c, Some c' => SameView c c'
    | None, None => True
    | _, _ => False
    end.
Proof. exact (@EndToEnd2.molfile_text_string_canonical_unique). Qed.
Print Assumptions C04_molfile_text_string_canonical_unique.
