(* C03 -- A TUCAN string reconstructs its molecule and is a fixed point of the pipeline.
   Only statements; proofs are in Proofs/. *)
From Coq Require Import List NArith ZArith Permutation.
Require Import Base Mol Canon Text Parse Pipeline MolProofs SameMol CanonProofs AstOf RoundTrip2.
Require ParamsSpec.   (* regenerated source constants still match what the model hard-codes *)

(* (a) For every labelling oracle returning a bijection (H1): parsing the string emitted for a
   molecule m (simple graph, all mass/radical values >= 1) succeeds and yields a graph that is m
   under a renaming f of its atoms -- the same element, mass and radical on corresponding atoms,
   the same bonds -- with the same number of atoms and of bonds.  (Character level: printing,
   lexing, parsing, listener semantics are all inside the statement.) *)
Theorem parse_tucan_roundtrip :
  forall canon, H1 canon ->
  forall (P B : Type) (m : mol P B) (s : text),
    wfg m -> simple m -> pos_attrs m -> tucan canon m = Some s ->
    exists (g : mol unit unit) (f : N -> N),
      ref_parse s = inr g /\ SameMol f m g /\
      length (atoms g) = length (atoms m) /\ length (bonds g) = length (bonds m).
Proof. exact (@RoundTrip2.parse_tucan_roundtrip). Qed.
Print Assumptions parse_tucan_roundtrip.

(* (b) Canonicalizing and serializing the parsed graph reproduces the identical string (needs the
   canonical-form contract H2 of the oracle as well). *)
Theorem tucan_fixed_point :
  forall canon, H1 canon -> H2 canon ->
  forall (P B : Type) (m : mol P B) (s : text),
    wfg m -> simple m -> pos_attrs m -> tucan canon m = Some s ->
    exists g : mol unit unit, ref_parse s = inr g /\ tucan canon g = Some s.
Proof. exact (@RoundTrip2.tucan_fixed_point). Qed.
Print Assumptions tucan_fixed_point.
