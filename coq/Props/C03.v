(* C03 -- A TUCAN string reconstructs its molecule and is a fixed point of the pipeline.
   Only statements; proofs are in Proofs/. *)
From Coq Require Import List NArith ZArith Permutation.
Require Import Base Mol Canon Text Parse Pipeline MolProofs SameMol CanonProofs AstOf RoundTrip2.
Require ParamsSpec.   (* regenerated source constants still match what the model hard-codes *)

(* (a) For every labelling oracle returning a bijection (H1): parsing the string emitted for a
   molecule m (simple graph, all mass/radical values >= 1) succeeds and yields a graph that is m
   under a renaming f of its atoms -- the same element, mass and radical on corresponding atoms,
   the same bonds -- with the same number of atoms and of bonds.  (Character level: printing,
   lexing, parsing, listener semantics are all inside the statement.) *)
Theorem parse_tucan_roundtrip :
  forall canon, H1 canon ->
  forall (P B : Type) (m : mol P B) (s : text),
    wfg m -> simple m -> pos_attrs m -> tucan canon m = Some s ->
    exists (g : mol unit unit) (f : N -> N),
      ref_parse s = inr g /\ SameMol f m g /\
      length (atoms g) = length (atoms m) /\ length (bonds g) = length (bonds m).
Proof. exact (@RoundTrip2.parse_tucan_roundtrip). Qed.
Print Assumptions parse_tucan_roundtrip.

(* (b) Canonicalizing and serializing the parsed graph reproduces the identical string (needs the
   canonical-form contract H2 of the oracle as well). *)
Theorem tucan_fixed_point :
  forall canon, H1 canon -> H2 canon ->
  forall (P B : Type) (m : mol P B) (s : text),
    wfg m -> simple m -> pos_attrs m -> tucan canon m = Some s ->
    exists g : mol unit unit, ref_parse s = inr g /\ tucan canon g = Some s.
Proof. exact (@RoundTrip2.tucan_fixed_point). Qed.
Print Assumptions tucan_fixed_point.

(* ------------------------------------------------------------------------------------------------ *)
(* The quantifier closed over the readers (Proofs/EndToEnd2.v): wfg / simple / pos_attrs are theorems
   about every graph the molfile entry point returns (EndToEnd.read_graph_props).                     *)
Require Import Molfile.
Require V2000 EndToEnd2 RefCanon.

(* (a) for EVERY molfile text the entry point accepts (V2000 or V3000): if the pipeline returns a
   string for the graph read, the reference reader accepts that string and returns the graph read up
   to a renaming of the atoms, with the same number of atoms and bonds. *)
Theorem C03_molfile_text_roundtrip :
  forall canon, H1 canon ->
  forall (s : text) (g : mol rpay Z) (str : text),
    V2000.read_molfile s = ok g -> tucan canon g = Some str ->
    exists (g' : mol unit unit) (f : N -> N),
      ref_parse str = inr g' /\ SameMol f g g' /\
      length (atoms g') = length (atoms g) /\ length (bonds g') = length (bonds g).
Proof. exact (@EndToEnd2.molfile_text_roundtrip). Qed.
Print Assumptions C03_molfile_text_roundtrip.

(* (b) ... and (H2) the pipeline maps the graph read back to the identical string; g' and f are the
   same witnesses as in (a). *)
Theorem C03_molfile_text_fixed_point :
  forall canon, H1 canon -> H2 canon ->
  forall (s : text) (g : mol rpay Z) (str : text),
    V2000.read_molfile s = ok g -> tucan canon g = Some str ->
    exists (g' : mol unit unit) (f : N -> N),
      ref_parse str = inr g' /\ SameMol f g g' /\
      length (atoms g') = length (atoms g) /\ length (bonds g') = length (bonds g) /\
      tucan canon g' = Some str.
Proof. exact (@EndToEnd2.molfile_text_fixed_point). Qed.
Print Assumptions C03_molfile_text_fixed_point.

(* (c) with totality (C15) composed in: every accepted text whose graph has at least one atom HAS a
   string, and (a), (b) hold for it.  `atoms g <> nil` is the only hypothesis about the graph: a file
   announcing no atom is read into the empty graph, for which the pipeline returns nothing. *)
Theorem C03_molfile_text_roundtrip_total :
  forall canon, H1 canon -> H2 canon ->
  forall (s : text) (g : mol rpay Z),
    V2000.read_molfile s = ok g -> atoms g <> nil ->
    exists (str : text) (g' : mol unit unit) (f : N -> N),
      tucan canon g = Some str /\ ref_parse str = inr g' /\ SameMol f g g' /\
      length (atoms g') = length (atoms g) /\ length (bonds g') = length (bonds g) /\
      tucan canon g' = Some str.
Proof. exact (@EndToEnd2.molfile_text_roundtrip_total). Qed.
Print Assumptions C03_molfile_text_roundtrip_total.

(* the same starting from any accepted TUCAN string with an atom *)
Theorem C03_tucan_string_roundtrip_total :
  forall canon, H1 canon -> H2 canon ->
  forall (t0 : text) (g : mol unit unit),
    ref_parse t0 = inr g -> atoms g <> nil ->
    exists (str : text) (g' : mol unit unit) (f : N -> N),
      tucan canon g = Some str /\ ref_parse str = inr g' /\ SameMol f g g' /\
      length (atoms g') = length (atoms g) /\ length (bonds g') = length (bonds g) /\
      tucan canon g' = Some str.
Proof. exact (@EndToEnd2.tucan_string_roundtrip_total). Qed.
Print Assumptions C03_tucan_string_roundtrip_total.

From Coq Require Import Ascii String List.
Require NonIdentity V3000Render V2000Render.
(* Non-vacuity with the reference oracle (RefCanon.ref_canon satisfies H1 and H2): a V3000 file of
   13C-formate (atoms numbered O H C O-), the whole chain by computation: the text is read, the string
   is the literal below, the reference reader accepts it, and the string of the parsed graph is the
   same literal.  (Views: (label, atomic number, mass, radical) per atom; bond endpoints.) *)
Theorem C03_example_text : EndToEnd2.Example.formate_text = join_with (ascii_of_N 10 :: nil)
  (t "formate" :: t "  by hand" :: t "" :: t "  0  0  0     0  0            999 V3000" ::
   t "M  V30 BEGIN CTAB" :: t "M  V30 COUNTS 4 3 0 0 0" ::
   t "M  V30 BEGIN ATOM" ::
   t "M  V30 1 O 1.2 0.7 0 0" ::
   t "M  V30 2 H 0.0 -1.1 0 0" ::
   t "M  V30 3 C 0.0 0.0 0 0 MASS=13" ::
   t "M  V30 4 O -1.2 0.7 0 0 CHG=-1" ::
   t "M  V30 END ATOM" ::
   t "M  V30 BEGIN BOND" ::
   t "M  V30 1 2 3 1" :: t "M  V30 2 1 4 3" :: t "M  V30 3 1 2 3" ::
   t "M  V30 END BOND" :: t "M  V30 END CTAB" :: t "M  END" :: nil).
Proof. reflexivity. Qed.
Print Assumptions C03_example_text.

Theorem C03_example_chain_computed :
  EndToEnd2.Example.chain EndToEnd2.Example.formate_text =
  Some (((0, 8, None, None) :: (1, 1, None, None) :: (2, 6, Some 13%Z, None) :: (3, 8, None, None) :: nil,
         (2, 0) :: (3, 2) :: (1, 2) :: nil)%N,
        t "CHO2/(1-2)(2-3)(2-4)/(2:mass=13)",
        ((0, 1, None, None) :: (1, 6, Some 13%Z, None) :: (2, 8, None, None) :: (3, 8, None, None) :: nil,
         (0, 1) :: (1, 2) :: (1, 3) :: nil)%N,
        t "CHO2/(1-2)(2-3)(2-4)/(2:mass=13)").
Proof. exact EndToEnd2.Example.formate_chain_computed. Qed.
Print Assumptions C03_example_chain_computed.

Theorem C03_example_chain :
  V2000.read_molfile EndToEnd2.Example.formate_text = ok EndToEnd2.Example.formate_graph /\
  tucan RefCanon.ref_canon EndToEnd2.Example.formate_graph = Some (t "CHO2/(1-2)(2-3)(2-4)/(2:mass=13)") /\
  ref_parse (t "CHO2/(1-2)(2-3)(2-4)/(2:mass=13)") = inr EndToEnd2.Example.formate_parsed /\
  tucan RefCanon.ref_canon EndToEnd2.Example.formate_parsed = Some (t "CHO2/(1-2)(2-3)(2-4)/(2:mass=13)").
Proof. exact EndToEnd2.Example.formate_chain. Qed.
Print Assumptions C03_example_chain.

(* theorem (c) instantiated on the file: its witnesses are the computed ones *)
Theorem C03_example_roundtrip : exists f,
  tucan RefCanon.ref_canon EndToEnd2.Example.formate_graph = Some (t "CHO2/(1-2)(2-3)(2-4)/(2:mass=13)") /\
  ref_parse (t "CHO2/(1-2)(2-3)(2-4)/(2:mass=13)") = inr EndToEnd2.Example.formate_parsed /\
  SameMol f EndToEnd2.Example.formate_graph EndToEnd2.Example.formate_parsed /\
  length (atoms EndToEnd2.Example.formate_parsed) = 4 /\ length (bonds EndToEnd2.Example.formate_parsed) = 3 /\
  tucan RefCanon.ref_canon EndToEnd2.Example.formate_parsed = Some (t "CHO2/(1-2)(2-3)(2-4)/(2:mass=13)").
Proof. exact EndToEnd2.Example.formate_roundtrip. Qed.
Print Assumptions C03_example_roundtrip.

(* the same chain on the formate files of C06 (NonIdentity.Example): first and second string *)
Theorem C03_example_files_chain :
  option_map (fun r => (snd (fst (fst r)), snd r))
    (EndToEnd2.Example.chain (V3000Render.file_text NonIdentity.Example.crlf 0
       (V3000Render.render3000 NonIdentity.Example.formA NonIdentity.Example.chA)))
    = Some (t "CHO2/(1-2)(2-3)(2-4)/(2:mass=13)", t "CHO2/(1-2)(2-3)(2-4)/(2:mass=13)") /\
  option_map (fun r => (snd (fst (fst r)), snd r))
    (EndToEnd2.Example.chain (V3000Render.file_text NonIdentity.Example.mixed 0
       (V2000Render.render2000 NonIdentity.Example.form2 NonIdentity.Example.ch2)))
    = Some (t "CHO2/(1-2)(2-3)(2-4)/(2:mass=13)", t "CHO2/(1-2)(2-3)(2-4)/(2:mass=13)").
Proof. exact EndToEnd2.Example.formate_files_chain_computed. Qed.
Print Assumptions C03_example_files_chain.
