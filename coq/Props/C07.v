(* C07 -- the V3000 reader decodes exactly the molecule the file states, under every spelling the
   format permits.  Statements only; definitions ([molM], [choices], [render3000], [expected],
   [okM], [okch], [graph_of]) and proofs are in Proofs/V3000Render.v.

   M : molM is the abstract molecule (atoms with symbol / charge / radical / mass / coordinate tokens,
   star atoms, bonds and star bonds between positions of the atom block).  okM M contains what the
   reader insists on: no negative stated mass / radical (atom_okM: am_nonneg) and no bond line that
   joins an atom to itself (om_noloop); files stating either are rejected (MolfileParserException).  ch : choices fixes what the
   format leaves free: the file index of every atom (any pairwise distinct integers), blank runs
   before, between and after the tokens of every V30 line, the cut points of every V30 line into
   continuation lines (any number of cuts, anywhere, empty pieces included), order / repetition /
   explicit defaults of CHG= RAD= MASS= and any foreign tokens on atom lines, further tokens on bond
   and counts lines, the field holding the star atom and the tokens around ENDPTS=(...) on star bond
   lines, the four header lines, and every line after the last block that is read. *)
From Coq Require Import String.
Require Import Base Mol Text Molfile V3000 Writer WriterProofs V3000Render.
Require ParamsSpec.   (* regenerated source constants still match what the model hard-codes *)
Require V2000.

(* 1. main statement: the reader returns one atom per non-star atom line, in file order, with the
      stated attributes (D / T = hydrogen of mass 2 / 3; zero = not set), and one bond per stated
      ordered pair, with keys (index - 1) *)
Theorem C07_read_v3000_render : forall (M : molM) (ch : choices),
  okM M -> okch M ch -> read_v3000 (render3000 M ch) = ok (expected (ch_index ch) M).
Proof. exact read_v3000_render. Qed.
Print Assumptions C07_read_v3000_render.

(* 2. no choice but the atom indices is visible in the reader's result *)
Theorem C07_render_choice_independent : forall (M : molM) (ch1 ch2 : choices),
  okM M -> okch M ch1 -> okch M ch2 ->
  (forall p, p < length (m_entries M) -> ch_index ch1 p = ch_index ch2 p) ->
  read_v3000 (render3000 M ch1) = read_v3000 (render3000 M ch2).
Proof. exact render_choice_independent. Qed.
Print Assumptions C07_render_choice_independent.

(* 3. the entry point on the file text (every line ended by LF or by CR LF, chosen per line): the
      graph is the one the molecule denotes; the atom indices are not visible in it either *)
Theorem C07_read_molfile_graph : forall (M : molM) (ch : choices) (eol : nat -> bool),
  okM M -> okch M ch -> okch_text ch ->
  V2000.read_molfile (file_text eol 0 (render3000 M ch)) = ok (graph_of M).
Proof. exact read_molfile_graph. Qed.
Print Assumptions C07_read_molfile_graph.

Theorem C07_graph_of_expected : forall (M : molM) (I : nat -> Z),
  okM M -> NoDup (map I (seq 0 (length (m_entries M)))) ->
  graph_from_molecule (fst (expected I M)) (snd (expected I M)) = ok (graph_of M).
Proof. exact graph_of_expected. Qed.
Print Assumptions C07_graph_of_expected.

(* 4. explicitly written defaults mean the same as omitting them: on one atom line (tokens), and on
      the whole file (the shortened lines must still not end in a dash) *)
Theorem C07_explicit_defaults_atom_line : forall (c : entryC) (a : atomM),
  atom_okM a -> stated_ok c a ->
  parse_atom_line (atom_line_toks (drop_defaults a c) a) = parse_atom_line (atom_line_toks c a).
Proof. exact explicit_defaults_atom_line. Qed.
Print Assumptions C07_explicit_defaults_atom_line.

Theorem C07_explicit_defaults_file : forall (M : molM) (ch : choices), okM M -> okch M ch ->
  (forall p a, nth_error (m_entries M) p = Some (Some a) ->
     nodash (line_text (ec_ly (ch_entry ch p)) (entry_toks (drop_defaults a (ch_entry ch p)) (Some a)))) ->
  read_v3000 (render3000 M (drop_defaults_ch M ch)) = read_v3000 (render3000 M ch).
Proof. exact explicit_defaults_file. Qed.
Print Assumptions C07_explicit_defaults_file.

(* 5. the building blocks, each for arbitrary inputs *)
(* continuation: a V30 line cut at arbitrary positions is restored by the splice loop *)
Theorem C07_cd_block_split : forall (cuts : list nat) (line : text) (rest : list text) (fuel : nat),
  ends_with_char 45%N line = false ->
  length (split_line cuts line ++ rest) <= fuel ->
  concat_dash fuel (split_line cuts line ++ rest)
  = do r <- concat_dash (length rest) rest; ok ((v30 ++ line) :: r).
Proof. exact concat_dash_split. Qed.
Print Assumptions C07_cd_block_split.

Theorem C07_split_line_content : forall (cuts : list nat) (line : text),
  unwrap_spec (split_line cuts line) = line.
Proof. exact split_line_content. Qed.
Print Assumptions C07_split_line_content.

(* blank runs: a blanks before, 1 + g_k blanks in the k-th gap, b blanks behind *)
Theorem C07_tokenize_spread : forall (a : nat) (ts : list text) (gs : list nat) (b : nat),
  Forall good_tok ts -> tokenize (blanks a ++ spread ts gs ++ blanks b) = ts.
Proof. exact tokenize_spread. Qed.
Print Assumptions C07_tokenize_spread.

(* one atom line *)
Theorem C07_parse_atom_line_render : forall (c : entryC) (a : atomM),
  atom_okM a -> entry_okC c (Some a) ->
  parse_atom_line (atom_line_toks c a) = ok (Some (exp_atom (ec_idx c) a)).
Proof. exact parse_atom_line_render. Qed.
Print Assumptions C07_parse_atom_line_render.

(* ENDPTS=(n e1 ... en) behind any tokens without "ENDPTS=(" and before any tokens without ")" *)
Theorem C07_star_endpoints_render : forall (before : list text) (zs : list Z) (after : list text) (start : Z),
  Forall no_endpts before -> Forall no_paren after ->
  star_endpoints (before ++ endpts_toks (map tZ (Z.of_nat (length zs) :: zs)) ++ after) start
  = ok (map (fun e => (start, (e - 1)%Z)) zs).
Proof. exact star_endpoints_render. Qed.
Print Assumptions C07_star_endpoints_render.

(* CRLF / LF *)
Theorem C07_splitlines_file_text : forall (eol : nat -> bool) (lines : list text) (k : nat),
  Forall nolb lines -> splitlines (file_text eol k lines) = lines.
Proof. exact splitlines_file_text. Qed.
Print Assumptions C07_splitlines_file_text.

(* 6. non-vacuity: a molecule with a charged atom, a D atom, an isotope-labelled radical, a star
      atom, two bonds and a star bond; indices 7, 3, 12, 5; a rendering with cut lines (inside a
      token, at a blank, an empty piece), blank runs, shuffled and repeated properties, EXACHG=1,
      explicit MASS=0 / RAD=0 / CHG=0 *)
Theorem C07_example_okM : okM exM.
Proof. exact exM_ok. Qed.
Print Assumptions C07_example_okM.
Theorem C07_example_okch : okch exM ex_ch /\ okch_text ex_ch.
Proof. exact (conj ex_ch_ok ex_ch_text_ok). Qed.
Print Assumptions C07_example_okch.

Theorem C07_example_render : render3000 exM ex_ch =
  [t "example"; t "  TUCAN  0930262000"; t ""; t "  0  0  0     0  0            999 V3000";
   t "M  V30 BEG-"; t "M  V30 IN   CTAB ";
   t "M  V30  COUNTS 4    3 0 0 1";
   t "M  V30 BEGIN ATOM";
   t "M  V30   7  N 1.2-"; t "M  V30 -"; t "M  V30 5   -0.5 0 0 EXACHG=1 MAS-"; t "M  V30 S=0 CHG=1 CFG=2   ";
   t "M  V30 3 D 0.0 1e-3 .5 0 RAD=0";
   t "M  V30 12     C -1.0000 2 0.0 5 RAD=2 -"; t "M  V30 VAL=3 MASS=13 CHG=0 RAD=2";
   t "M  V30 5 -"; t "M  V30 * 0 0 0 0 ";
   t "M  V30 -"; t "M  V30    E-"; t "M  V30 ND  ATOM  ";
   t "M  V30 BEGIN-"; t "M  V30  BOND-"; t "M  V30 ";
   t "M  V30 1 1 7 3 CFG=1";
   t "M  V30 2  2-"; t "M  V30   12  7";
   t "M  V30 3 1 3 5 ATTACH=ANY E-"; t "M  V30 NDPTS=(2 7 12) DISP=COORD";
   t "M  V30 END BOND";
   t "M  V30 EN-"; t "M  V30 D CTAB";
   t "M  END"].
Proof. exact ex_render. Qed.
Print Assumptions C07_example_render.

Theorem C07_example_expected : expected (ch_index ex_ch) exM =
  ([mkRatom 6 (t "N") 7 (Some 1%Z) None None (t "1.25") (t "-0.5") (t "0");
    mkRatom 2 (t "H") 1 None (Some 2%Z) None (t "0.0") (t "1e-3") (t ".5");
    mkRatom 11 (t "C") 6 None (Some 13%Z) (Some 2%Z) (t "-1.0000") (t "2") (t "0.0")],
   [(6, 2, 1); (11, 6, 2); (2, 6, 1); (2, 11, 1)]%Z).
Proof. exact ex_expected. Qed.
Print Assumptions C07_example_expected.

(* the reader evaluated on the example file agrees with the theorem *)
Theorem C07_example_read_computed :
  read_v3000 (render3000 exM ex_ch) = ok (expected (ch_index ex_ch) exM).
Proof. exact ex_read_computed. Qed.
Print Assumptions C07_example_read_computed.

Theorem C07_example_graph :
  V2000.read_molfile (file_text (fun k => Nat.even k) 0 (render3000 exM ex_ch)) = ok (graph_of exM)
  /\ map (fun x => (lbl x, zn x, mass x, rad x, p_chg (pay x))) (atoms (graph_of exM))
     = [(0, 7, None, None, Some 1%Z); (1, 1, Some 2%Z, None, None); (2, 6, Some 13%Z, Some 2%Z, None)]%N
  /\ bonds (graph_of exM) = [(0, 1, 1%Z); (2, 0, 2%Z); (1, 2, 1%Z)]%N.
Proof. exact ex_graph_computed. Qed.
Print Assumptions C07_example_graph.

Theorem C07_example_defaults_dropped :
  read_v3000 (render3000 exM (drop_defaults_ch exM ex_ch)) = read_v3000 (render3000 exM ex_ch).
Proof. exact ex_defaults_dropped. Qed.
Print Assumptions C07_example_defaults_dropped.
