(* C02 -- Different molecules never share a TUCAN string.
   Only statements; proofs are in Proofs/. *)
From Coq Require Import List NArith ZArith Permutation.
Require Import Base Mol Canon Text Pipeline MolProofs SameMol CanonProofs AstOf RoundTrip2.
Require ParamsSpec.   (* regenerated source constants still match what the model hard-codes *)

(* If two molecules (simple graphs, mass/radical values >= 1) get the same string, one is the other
   under a renaming pi of its atoms that preserves element, mass and radical of every atom and
   maps the bond set onto the bond set: a colour-preserving isomorphism.  Only bijectivity of the
   labelling oracle (H1) is needed, not canonicity.  With C01 the string is a complete invariant. *)
Theorem tucan_complete :
  forall canon, H1 canon ->
  forall (P B P' B' : Type) (m1 : mol P B) (m2 : mol P' B') (s : text),
    wfg m1 -> simple m1 -> pos_attrs m1 -> wfg m2 -> simple m2 -> pos_attrs m2 ->
    tucan canon m1 = Some s -> tucan canon m2 = Some s -> exists pi, SameMol pi m1 m2.
Proof. exact (@RoundTrip2.tucan_complete). Qed.
Print Assumptions tucan_complete.
