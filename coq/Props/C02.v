(* C02 -- Different molecules never share a TUCAN string.
   Only statements; proofs are in Proofs/. *)
From Coq Require Import List NArith ZArith Permutation.
Require Import Base Mol Canon Text Pipeline MolProofs SameMol CanonProofs AstOf RoundTrip2.
Require ParamsSpec.   (* regenerated source constants still match what the model hard-codes *)

(* If two molecules (simple graphs, mass/radical values >= 1) get the same string, one is the other
   under a renaming pi of its atoms that preserves element, mass and radical of every atom and
   maps the bond set onto the bond set: a colour-preserving isomorphism.  Only bijectivity of the
   labelling oracle (H1) is needed, not canonicity.  With C01 the string is a complete invariant. *)
Theorem tucan_complete :
  forall canon, H1 canon ->
  forall (P B P' B' : Type) (m1 : mol P B) (m2 : mol P' B') (s : text),
    wfg m1 -> simple m1 -> pos_attrs m1 -> wfg m2 -> simple m2 -> pos_attrs m2 ->
    tucan canon m1 = Some s -> tucan canon m2 = Some s -> exists pi, SameMol pi m1 m2.
Proof. exact (@RoundTrip2.tucan_complete). Qed.
Print Assumptions tucan_complete.

(* ------------------------------------------------------------------------------------------------ *)
(* The quantifier closed over the readers (Proofs/EndToEnd2.v): the hypotheses wfg / simple / pos_attrs
   are theorems about every graph the molfile entry point returns (EndToEnd.read_graph_props) and
   about every graph the reference reader of strings returns (Norm.parsed_graph_wf).  What is left:
   the texts were accepted, and the oracle returns a bijection (H1).                                  *)
Require Import Parse Molfile.
Require V2000 EndToEnd2.

(* Two accepted molfile texts (V2000 or V3000, in any mixture) with the same string: the graphs read
   are one molecule. *)
Theorem C02_molfile_texts_complete :
  forall canon, H1 canon ->
  forall (s1 s2 : text) (g1 g2 : mol rpay Z) (str : text),
    V2000.read_molfile s1 = ok g1 -> V2000.read_molfile s2 = ok g2 ->
    tucan canon g1 = Some str -> tucan canon g2 = Some str -> exists pi, SameMol pi g1 g2.
Proof. exact (@EndToEnd2.molfile_texts_complete). Qed.
Print Assumptions C02_molfile_texts_complete.

(* An accepted molfile text and an accepted TUCAN string with the same (normalized) string. *)
Theorem C02_molfile_text_string_complete :
  forall canon, H1 canon ->
  forall (s t0 : text) (g : mol rpay Z) (g' : mol unit unit) (str : text),
    V2000.read_molfile s = ok g -> ref_parse t0 = inr g' ->
    tucan canon g = Some str -> tucan canon g' = Some str -> exists pi, SameMol pi g g'.
Proof. exact (@EndToEnd2.molfile_text_string_complete). Qed.
Print Assumptions C02_molfile_text_string_complete.

(* With C01 (needs the canonical-form contract H2 as well): for two accepted texts, the first with at
   least one atom, the strings are equal exactly when the graphs read are one molecule. *)
Theorem C02_molfile_texts_same_string_iff :
  forall canon, H1 canon -> H2 canon ->
  forall (s1 s2 : text) (g1 g2 : mol rpay Z),
    V2000.read_molfile s1 = ok g1 -> V2000.read_molfile s2 = ok g2 -> atoms g1 <> nil ->
    (tucan canon g1 = tucan canon g2 <-> exists pi, SameMol pi g1 g2).
Proof. exact (@EndToEnd2.molfile_texts_same_string_iff). Qed.
Print Assumptions C02_molfile_texts_same_string_iff.
