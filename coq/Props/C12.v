(* C12 -- Canonicalization only renames atoms; nothing is lost, added or mutated.
   Only statements; proofs are in Proofs/. *)
From Coq Require Import List NArith ZArith Permutation.
Require Import Base Mol Partition Canon MolProofs PartitionProofs CanonProofs.
Require ParamsSpec.   (* regenerated source constants still match what the model hard-codes *)

(* For every labelling oracle that returns a bijection onto 0..n-1 (H1), the canonical graph is the
   input under a one-to-one renaming lam of its atoms onto 0..n-1: atom by atom, in the same listing
   order, element, mass, radical and the whole payload (charge, coordinates, ...) are kept; bond by
   bond, in the same listing order, the endpoints are renamed and the bond data kept.  No atom or
   bond appears or disappears (the lists have the same length and order). *)
Theorem canonicalize_is_renaming :
  forall (P B : Type) canon (m c : mol P B),
    H1 canon -> wfg m -> canonicalize canon m = Some c ->
    exists lam : N -> N,
      inj_on lam (labels m) /\
      Permutation (map lam (labels m)) (N_seq 0 (length (atoms m))) /\
      map frame (atoms c) = map (fun x => (lam (lbl x), zn x, mass x, rad x, pay x)) (atoms m) /\
      bonds c = map (map_bond lam) (bonds m).
Proof. exact (@CanonProofs.canonicalize_is_renaming). Qed.
Print Assumptions canonicalize_is_renaming.

(* The model is a pure function: "the object passed in is left unchanged" and "repeated calls give
   identical results" are not statements a Gallina function can violate; they are decided on the
   implementation by the before/after object comparison of the C12 check (harness/mol_checks.py). *)
