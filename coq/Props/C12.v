(* C12 -- Canonicalization only renames atoms; nothing is lost, added or mutated.
   Only statements; proofs are in Proofs/. *)
From Coq Require Import List NArith ZArith Permutation.
Require Import Base Mol Partition Canon MolProofs PartitionProofs CanonProofs.
Require ParamsSpec.   (* regenerated source constants still match what the model hard-codes *)

(* For every labelling oracle that returns a bijection onto 0..n-1 (H1), the canonical graph is the
   input under a one-to-one renaming lam of its atoms onto 0..n-1: atom by atom, in the same listing
   order, element, mass, radical and the whole payload (charge, coordinates, ...) are kept; bond by
   bond, in the same listing order, the endpoints are renamed and the bond data kept.  No atom or
   bond appears or disappears (the lists have the same length and order). *)
Theorem canonicalize_is_renaming :
  forall (P B : Type) canon (m c : mol P B),
    H1 canon -> wfg m -> canonicalize canon m = Some c ->
    exists lam : N -> N,
      inj_on lam (labels m) /\
      Permutation (map lam (labels m)) (N_seq 0 (length (atoms m))) /\
      map frame (atoms c) = map (fun x => (lam (lbl x), zn x, mass x, rad x, pay x)) (atoms m) /\
      bonds c = map (map_bond lam) (bonds m).
Proof. exact (@CanonProofs.canonicalize_is_renaming). Qed.
Print Assumptions canonicalize_is_renaming.

(* The model is a pure function: "the object passed in is left unchanged" and "repeated calls give
   identical results" are not statements a Gallina function can violate; they are decided on the
   implementation by the before/after object comparison of the C12 check (harness/mol_checks.py). *)

(* ------------------------------------------------------------------------------------------------ *)
(* The quantifier closed over the readers (Proofs/EndToEnd2.v): wfg is a theorem about every graph the
   molfile entry point returns (ReadersNoZero.read_molfile_wfg).  The payload of a graph read is
   Molfile.rpay (element symbol, charge, coordinates) and the bond data is the bond type (Z): both
   are carried unchanged (`pay x` in the frame, `map_bond lam` keeps the third component). *)
Require Import Text Parse Molfile.
Require V2000 EndToEnd2.

Theorem C12_molfile_text_canonicalize_renaming :
  forall canon, H1 canon ->
  forall (s : text) (g c : mol rpay Z),
    V2000.read_molfile s = ok g -> canonicalize canon g = Some c ->
    exists lam : N -> N,
      inj_on lam (labels g) /\
      Permutation (map lam (labels g)) (N_seq 0 (length (atoms g))) /\
      map frame (atoms c) = map (fun x => (lam (lbl x), zn x, mass x, rad x, pay x)) (atoms g) /\
      bonds c = map (map_bond lam) (bonds g).
Proof. exact (@EndToEnd2.molfile_text_canonicalize_renaming). Qed.
Print Assumptions C12_molfile_text_canonicalize_renaming.

(* With at least one atom the canonical graph exists (C15); the reader numbers the atoms 0..n-1, so
   lam is a permutation of 0..n-1. *)
Theorem C12_molfile_text_canonical_graph :
  forall canon, H1 canon ->
  forall (s : text) (g : mol rpay Z),
    V2000.read_molfile s = ok g -> atoms g <> nil ->
    exists (c : mol rpay Z) (lam : N -> N),
      canonicalize canon g = Some c /\
      labels g = N_seq 0 (length (atoms g)) /\
      inj_on lam (N_seq 0 (length (atoms g))) /\
      Permutation (map lam (N_seq 0 (length (atoms g)))) (N_seq 0 (length (atoms g))) /\
      map frame (atoms c) = map (fun x => (lam (lbl x), zn x, mass x, rad x, pay x)) (atoms g) /\
      bonds c = map (map_bond lam) (bonds g).
Proof. exact (@EndToEnd2.molfile_text_canonical_graph). Qed.
Print Assumptions C12_molfile_text_canonical_graph.

(* The same for every graph the reference reader of strings returns. *)
Theorem C12_tucan_string_canonicalize_renaming :
  forall canon, H1 canon ->
  forall (t0 : text) (g c : mol unit unit),
    ref_parse t0 = inr g -> canonicalize canon g = Some c ->
    exists lam : N -> N,
      inj_on lam (labels g) /\
      Permutation (map lam (labels g)) (N_seq 0 (length (atoms g))) /\
      map frame (atoms c) = map (fun x => (lam (lbl x), zn x, mass x, rad x, pay x)) (atoms g) /\
      bonds c = map (map_bond lam) (bonds g).
Proof. exact (@EndToEnd2.tucan_string_canonicalize_renaming). Qed.
Print Assumptions C12_tucan_string_canonicalize_renaming.
