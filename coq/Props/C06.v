(* C06 -- TUCAN depends only on elements, isotopes, radicals and connectivity.
   "Changing anything in a molfile other than which atoms exist, their element, isotope mass and
    radical state, and which pairs are bonded leaves the TUCAN string unchanged: coordinates, bond
    orders and bond annotations, formal charges, header and comment lines, the numeric atom indices
    used in the file, unrelated property keywords and trailing blocks, and line-ending style.  In
    particular resonance or tautomer-style redrawings that only move bond orders and charges get the
    same identifier."
   Quantifier: for all molecules and all pairs of molfile renderings of it that differ only in
   non-identity data.

   Statements only; definitions and proofs are in Proofs/NonIdentity.v, which composes
     C01 (TucanProofs.tucan_invariant), C07 (V3000Render.read_molfile_graph) and
     C08 (V2000Render.read_v2000_render).
   Vocabulary (R3 = V3000Render, R2 = V2000Render; both define [choices], hence the qualification):
     M : R3.molM / R2.mol2     the molecule a file states: per atom line symbol, charge, radical, mass,
                               coordinate tokens; per bond line type and the positions it joins
                               (V3000: also star atoms and multi-attachment bonds);
     ch : R3.choices / R2.choices   everything else in the file (see C07 / C08): header lines, the
                               index of every atom line, blank runs, continuation cuts, order /
                               repetition / explicit defaults of CHG= RAD= MASS=, foreign keywords,
                               further counts, unread columns, stale charge codes, grouping of
                               M  CHG / RAD / ISO entries, unrelated property lines, trailing blocks;
     eol : nat -> bool         line k ends in CR LF (true) or LF (false);
     R3.file_text eol 0 lines  the text of the file;  V2000.read_molfile: the entry point (version
                               dispatch, reader, graph_from_molecule);
     tucan canon g             serialize_molecule(canonicalize_molecule(g)) with labelling oracle canon;
     H1, H2                    the contract of the oracle (C01; satisfiable: RefCanon). *)
From Coq Require Import List NArith ZArith Permutation String.
Require Import Base Mol Text Molfile Canon Pipeline MolProofs SameMol CanonProofs CanonView.
Require ParamsSpec.   (* regenerated source constants still match what the model hard-codes *)
Require V2000 WriterProofs RefCanon V3000Render V2000Render.
Require Import NonIdentity.
Import ListNotations.

(* 1. Molecule level.  The payload types P, P' (charge, coordinates, anything) and the bond data types
      B, B' (bond order, annotations) are arbitrary and unrelated; the hypotheses mention only the node
      names, (zn, mass, rad) = ident, and the unordered pairs joined. *)
Theorem C06_tucan_ignores_payload :
  forall canon, H1 canon -> H2 canon ->
  forall (P B P' B' : Type) (m : mol P B) (m' : mol P' B'),
  wfg m -> (forall x, In x (atoms m) -> nozero x) ->
  Permutation (map (fun x => (lbl x, ident x)) (atoms m)) (map (fun x => (lbl x, ident x)) (atoms m')) ->
  Permutation (map (fun b => norm_pair (ends b)) (bonds m)) (map (fun b => norm_pair (ends b)) (bonds m')) ->
  tucan canon m = tucan canon m'.
Proof. exact tucan_ignores_payload. Qed.
Print Assumptions C06_tucan_ignores_payload.

(* 2. V3000 files.  "The same identity data" (IdentEq3000), spelled out: the two atom blocks have the
      same length and, entry by entry, both are star atoms or both are atoms with the same
      ident3 = (atomic number after D / T resolution, effective mass, radical); the same position pairs
      are bonded, as a set of unordered pairs (a multi-attachment bond states one pair per endpoint).
      Free: charges, coordinate tokens, bond types, number / order / direction / repetition of bond
      lines. *)
Theorem C06_ident3_spec : forall a : R3.atomM,
  ident3 a = (opt_default 0%N (z_of_symbol (fst (R3.iso_of (R3.a_sym a)))),
              R3.nz (if Z.eqb (snd (R3.iso_of (R3.a_sym a))) 0 then R3.a_mass a else snd (R3.iso_of (R3.a_sym a))),
              R3.nz (R3.a_rad a)).
Proof. exact ident3_spec. Qed.
Print Assumptions C06_ident3_spec.

Theorem C06_IdentEq3000_spec : forall M M' : R3.molM,
  IdentEq3000 M M' <->
  map (option_map ident3) (R3.m_entries M) = map (option_map ident3) (R3.m_entries M') /\
  (forall u v : nat,
     (In (u, v) (flat_map R3.bond_keys (R3.m_bonds M)) \/ In (v, u) (flat_map R3.bond_keys (R3.m_bonds M))) <->
     (In (u, v) (flat_map R3.bond_keys (R3.m_bonds M')) \/ In (v, u) (flat_map R3.bond_keys (R3.m_bonds M')))).
Proof. exact IdentEq3000_spec. Qed.
Print Assumptions C06_IdentEq3000_spec.

(* Main statement for V3000.  M, M' : any two molecules with the same identity data (charges,
   coordinates, bond orders differ at will); ch, ch' : any two admissible renderings (header / comment
   lines, index values, blank runs, continuation points, property order, explicit defaults, extra
   keywords, trailing blocks differ at will); eol, eol' : any line-ending styles.  Whatever the entry
   point returns on the two texts has the same TUCAN string.
   loopfree3 M: no bond line joins an atom to itself (the pipeline is specified on simple graphs;
   it follows for M').  Since the readers reject such a bond line, R3.okM M (and R2.okM2000 inside
   okfile2000) now contains this condition: NonIdentity.okM_loopfree3 / okM2000_loopfree2; the
   hypothesis is kept so that the statements read as before. *)
Theorem C06_tucan_v3000_nonidentity :
  forall canon, H1 canon -> H2 canon ->
  forall (M M' : R3.molM) (ch ch' : R3.choices) (eol eol' : nat -> bool),
  R3.okM M -> R3.okM M' -> loopfree3 M -> IdentEq3000 M M' ->
  R3.okch M ch -> R3.okch_text ch -> R3.okch M' ch' -> R3.okch_text ch' ->
  forall g g',
  V2000.read_molfile (R3.file_text eol 0 (R3.render3000 M ch)) = ok g ->
  V2000.read_molfile (R3.file_text eol' 0 (R3.render3000 M' ch')) = ok g' ->
  tucan canon g = tucan canon g'.
Proof. exact tucan_v3000_nonidentity. Qed.
Print Assumptions C06_tucan_v3000_nonidentity.

(* ... and both texts are read (the statement is not about two failures of the reader) *)
Theorem C06_tucan_v3000_nonidentity_read :
  forall canon, H1 canon -> H2 canon ->
  forall (M M' : R3.molM) (ch ch' : R3.choices) (eol eol' : nat -> bool),
  R3.okM M -> R3.okM M' -> loopfree3 M -> IdentEq3000 M M' ->
  R3.okch M ch -> R3.okch_text ch -> R3.okch M' ch' -> R3.okch_text ch' ->
  exists g g',
  V2000.read_molfile (R3.file_text eol 0 (R3.render3000 M ch)) = ok g /\
  V2000.read_molfile (R3.file_text eol' 0 (R3.render3000 M' ch')) = ok g' /\
  tucan canon g = tucan canon g'.
Proof. exact tucan_v3000_nonidentity_read. Qed.
Print Assumptions C06_tucan_v3000_nonidentity_read.

(* The step added to C01 / C07: the graphs of two such molecules are the same molecule in the sense
   of C01 (SameMol, identity renaming), and the graph of M is a simple graph without stored zeros. *)
Theorem C06_graph_of_SameMol : forall M M' : R3.molM,
  IdentEq3000 M M' -> SameMol (fun x => x) (R3.graph_of M) (R3.graph_of M').
Proof. exact graph_of_SameMol. Qed.
Print Assumptions C06_graph_of_SameMol.
Theorem C06_graph_of_wfg : forall M : R3.molM, R3.okM M -> loopfree3 M -> wfg (R3.graph_of M).
Proof. exact graph_of_wfg. Qed.
Print Assumptions C06_graph_of_wfg.
Theorem C06_graph_of_nozero : forall (M : R3.molM) x, In x (atoms (R3.graph_of M)) -> nozero x.
Proof. exact graph_of_nozero. Qed.
Print Assumptions C06_graph_of_nozero.
(* what the graph does keep: node k carries ident3 of the k-th atom line, the bonds join the stated pairs *)
Theorem C06_graph_of_identity_view : forall M : R3.molM,
  map (fun x => (lbl x, ident x)) (atoms (R3.graph_of M))
  = map (fun p => (fst p, snd p)) (enumerate_from 0 (idents3 (R3.m_entries M))).
Proof. exact graph_of_identity_view. Qed.
Print Assumptions C06_graph_of_identity_view.
Theorem C06_graph_of_bonded_pairs : forall (M : R3.molM) p,
  In p (map npair (bonds (R3.graph_of M))) <-> In p (map (fun k => norm_pair (rk (R3.m_entries M) k)) (pairs3 M)).
Proof. exact graph_of_bonded_pairs. Qed.
Print Assumptions C06_graph_of_bonded_pairs.

(* Two renderings of one molecule: the graphs read are equal; no side condition on M but C07's. *)
Theorem C06_v3000_rendering_invisible :
  forall (M : R3.molM) (ch ch' : R3.choices) (eol eol' : nat -> bool),
  R3.okM M -> R3.okch M ch -> R3.okch_text ch -> R3.okch M ch' -> R3.okch_text ch' ->
  V2000.read_molfile (R3.file_text eol 0 (R3.render3000 M ch)) = V2000.read_molfile (R3.file_text eol' 0 (R3.render3000 M ch')).
Proof. exact v3000_rendering_invisible. Qed.
Print Assumptions C06_v3000_rendering_invisible.

(* 3. V2000 files.  ident2 = (atomic number, effective mass: M  ISO value, else 2 / 3 for D / T, radical);
      the bonded pairs are pairs of atom numbers.  okfile2000 M ch: C08's conditions, the version token
      and no line-break character inside a line. *)
Theorem C06_IdentEq2000_spec : forall M M' : R2.mol2,
  IdentEq2000 M M' <->
  map ident2 (R2.m_atoms M) = map ident2 (R2.m_atoms M') /\
  (forall u v : Z,
     (In (u, v) (map fst (R2.m_bonds M)) \/ In (v, u) (map fst (R2.m_bonds M))) <->
     (In (u, v) (map fst (R2.m_bonds M')) \/ In (v, u) (map fst (R2.m_bonds M')))).
Proof. exact IdentEq2000_spec. Qed.
Print Assumptions C06_IdentEq2000_spec.

(* the entry point on a V2000 text with LF or CR LF after every line *)
Theorem C06_read_molfile_render2000 :
  forall (M : R2.mol2) (ch : R2.choices) (crest : text) (eol : nat -> bool),
  R2.okM2000 M -> R2.okch2000 M ch -> R2.c_crest ch = crest ++ t " V2000" ->
  Forall WriterProofs.nolb (R2.render2000 M ch) ->
  V2000.read_molfile (R3.file_text eol 0 (R2.render2000 M ch)) = ok (R2.graph2000 M).
Proof. exact read_molfile_render2000. Qed.
Print Assumptions C06_read_molfile_render2000.

Theorem C06_tucan_v2000_nonidentity :
  forall canon, H1 canon -> H2 canon ->
  forall (M M' : R2.mol2) (ch ch' : R2.choices) (eol eol' : nat -> bool),
  okfile2000 M ch -> okfile2000 M' ch' -> loopfree2 M -> IdentEq2000 M M' ->
  forall g g',
  V2000.read_molfile (R3.file_text eol 0 (R2.render2000 M ch)) = ok g ->
  V2000.read_molfile (R3.file_text eol' 0 (R2.render2000 M' ch')) = ok g' ->
  tucan canon g = tucan canon g'.
Proof. exact tucan_v2000_nonidentity. Qed.
Print Assumptions C06_tucan_v2000_nonidentity.

Theorem C06_v2000_rendering_invisible :
  forall (M : R2.mol2) (ch ch' : R2.choices) (eol eol' : nat -> bool),
  okfile2000 M ch -> okfile2000 M ch' ->
  V2000.read_molfile (R3.file_text eol 0 (R2.render2000 M ch)) = V2000.read_molfile (R3.file_text eol' 0 (R2.render2000 M ch')).
Proof. exact v2000_rendering_invisible. Qed.
Print Assumptions C06_v2000_rendering_invisible.

(* 4. Across the formats.  Corr23 M2 M3: the atom lines (star atoms skipped) carry the same identity
      data one by one, and the same pairs are bonded, every atom named by its ordinal among the atom
      lines; Corr23_plain is the case without star atoms: atom number u is the entry at position u - 1. *)
Theorem C06_tucan_v2000_v3000 :
  forall canon, H1 canon -> H2 canon ->
  forall (M2 : R2.mol2) (ch2 : R2.choices) (M3 : R3.molM) (ch3 : R3.choices) (eol eol' : nat -> bool),
  okfile2000 M2 ch2 -> loopfree2 M2 ->
  R3.okM M3 -> R3.okch M3 ch3 -> R3.okch_text ch3 ->
  Corr23 M2 M3 ->
  forall g g',
  V2000.read_molfile (R3.file_text eol 0 (R2.render2000 M2 ch2)) = ok g ->
  V2000.read_molfile (R3.file_text eol' 0 (R3.render3000 M3 ch3)) = ok g' ->
  tucan canon g = tucan canon g'.
Proof. exact tucan_v2000_v3000. Qed.
Print Assumptions C06_tucan_v2000_v3000.

Theorem C06_Corr23_of_plain : forall (M2 : R2.mol2) (M3 : R3.molM),
  R3.okM M3 ->
  (map (fun a => Some (ident2 a)) (R2.m_atoms M2) = map (option_map ident3) (R3.m_entries M3) /\
   same_pairs (map (fun k => (Z.to_nat (fst k - 1), Z.to_nat (snd k - 1))) (pairs2 M2)) (pairs3 M3)) ->
  Corr23 M2 M3.
Proof. exact Corr23_of_plain. Qed.
Print Assumptions C06_Corr23_of_plain.

(* 5. Resonance / tautomer-style redrawings: M' is M with other charges and other bond types and
      nothing else changed (Redrawn3000 / Redrawn2000: equal after erasing charges and bond types). *)
Theorem C06_tucan_resonance_invariant :
  forall canon, H1 canon -> H2 canon ->
  forall (M M' : R3.molM) (ch ch' : R3.choices) (eol eol' : nat -> bool),
  R3.okM M -> R3.okM M' -> loopfree3 M ->
  (map (option_map forget_chg3) (R3.m_entries M) = map (option_map forget_chg3) (R3.m_entries M') /\
   map forget_ty3 (R3.m_bonds M) = map forget_ty3 (R3.m_bonds M')) ->
  R3.okch M ch -> R3.okch_text ch -> R3.okch M' ch' -> R3.okch_text ch' ->
  forall g g',
  V2000.read_molfile (R3.file_text eol 0 (R3.render3000 M ch)) = ok g ->
  V2000.read_molfile (R3.file_text eol' 0 (R3.render3000 M' ch')) = ok g' ->
  tucan canon g = tucan canon g'.
Proof. exact tucan_resonance_invariant. Qed.
Print Assumptions C06_tucan_resonance_invariant.

Theorem C06_tucan_resonance_invariant_2000 :
  forall canon, H1 canon -> H2 canon ->
  forall (M M' : R2.mol2) (ch ch' : R2.choices) (eol eol' : nat -> bool),
  okfile2000 M ch -> okfile2000 M' ch' -> loopfree2 M ->
  (map forget_chg2 (R2.m_atoms M) = map forget_chg2 (R2.m_atoms M') /\
   map fst (R2.m_bonds M) = map fst (R2.m_bonds M')) ->
  forall g g',
  V2000.read_molfile (R3.file_text eol 0 (R2.render2000 M ch)) = ok g ->
  V2000.read_molfile (R3.file_text eol' 0 (R2.render2000 M' ch')) = ok g' ->
  tucan canon g = tucan canon g'.
Proof. exact tucan_resonance_invariant_2000. Qed.
Print Assumptions C06_tucan_resonance_invariant_2000.

(* 6. Non-vacuity (NonIdentity.Example): formate H-13C(=O)-O(-) as
        A: V3000, charge on the second oxygen, CR LF, indices 7 3 12 5, continuation lines, explicit
           defaults, foreign keywords, a collection block and "$$$$" behind the bond block;
        B: V3000, the other resonance form, other coordinates, bond lines in another order and
           direction, LF, indices 1..4;
        2: V2000, form B, alternating CR LF / LF, stale charge code, alias and unrelated property lines.
      The hypotheses of the theorems hold for them; all three texts are read and give the same string
      with the reference oracle; another isotope label gives another string. *)
Theorem C06_example_hypotheses :
  R3.okM Example.formA /\ R3.okM Example.formB /\ loopfree3 Example.formA /\
  IdentEq3000 Example.formA Example.formB /\
  R3.okch Example.formA Example.chA /\ R3.okch_text Example.chA /\
  R3.okch Example.formB Example.chB /\ R3.okch_text Example.chB /\
  okfile2000 Example.form2 Example.ch2 /\ loopfree2 Example.form2 /\ Corr23 Example.form2 Example.formA /\
  Redrawn3000 Example.formA Example.formA' /\ R3.okM Example.formA' /\ R3.okch Example.formA' Example.chB.
Proof. exact Example.all_hypotheses. Qed.
Print Assumptions C06_example_hypotheses.

Theorem C06_example_runs :
  let run (s : text) := match V2000.read_molfile s with inr g => tucan RefCanon.ref_canon g | inl _ => None end in
  run (R3.file_text Example.crlf 0 (R3.render3000 Example.formA Example.chA)) = Some Example.formate_tucan /\
  run (R3.file_text Example.lf 0 (R3.render3000 Example.formB Example.chB)) = Some Example.formate_tucan /\
  run (R3.file_text Example.mixed 0 (R2.render2000 Example.form2 Example.ch2)) = Some Example.formate_tucan.
Proof. exact Example.formate_runs_computed. Qed.
Print Assumptions C06_example_runs.

Theorem C06_example_string : Example.formate_tucan = t "CHO2/(1-2)(2-3)(2-4)/(2:mass=13)".
Proof. exact Example.formate_tucan_eq. Qed.
Print Assumptions C06_example_string.

Theorem C06_example_texts_differ :
  R3.file_text Example.crlf 0 (R3.render3000 Example.formA Example.chA)
    <> R3.file_text Example.lf 0 (R3.render3000 Example.formB Example.chB) /\
  R3.file_text Example.lf 0 (R3.render3000 Example.formB Example.chB)
    <> R3.file_text Example.mixed 0 (R2.render2000 Example.form2 Example.ch2).
Proof. exact Example.texts_differ. Qed.
Print Assumptions C06_example_texts_differ.

Theorem C06_example_isotope_matters :
  tucan RefCanon.ref_canon (R3.graph_of Example.formC) = Some (t "CHO2/(1-2)(2-3)(2-4)") /\
  tucan RefCanon.ref_canon (R3.graph_of Example.formC) <> tucan RefCanon.ref_canon (R3.graph_of Example.formA).
Proof. exact Example.isotope_matters. Qed.
Print Assumptions C06_example_isotope_matters.
