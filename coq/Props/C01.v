(* C01 -- TUCAN string is invariant under atom/bond reordering of the input.
   Only statements; proofs are in Proofs/. *)
From Coq Require Import List NArith ZArith Permutation.
Require Import Base Mol Canon Pipeline MolProofs SameMol CanonProofs CanonView TucanProofs.
Require ParamsSpec.   (* regenerated source constants still match what the model hard-codes *)

(* For every canonical-labelling oracle meeting the bliss contract (H1: bijection onto 0..n-1;
   H2: colour-isomorphic inputs get the same labelled coloured graph), two descriptions of one
   molecule -- any renaming f of the atoms, any listing order of atoms and of bonds, any
   orientation of each bond, any payload and bond data -- yield the same result of
   serialize_molecule(canonicalize_molecule(.)): the same byte string, or failure for both.
   (That the result is never a failure for a non-empty molecule is C15.)
   wfg: simple graph on the listed atoms; nozero: no explicit 0 stored as mass/radical (what the
   readers and the parser guarantee). *)
Theorem tucan_invariant :
  forall canon, H1 canon -> H2 canon ->
  forall (P B P' B' : Type) (f : N -> N) (m : mol P B) (m' : mol P' B'),
    wfg m -> SameMol f m m' -> (forall x, In x (atoms m) -> nozero x) ->
    tucan canon m = tucan canon m'.
Proof. exact (@TucanProofs.tucan_invariant). Qed.
Print Assumptions tucan_invariant.

(* the same on the token level (before printing) *)
Theorem tucan_tokens_invariant :
  forall canon, H1 canon -> H2 canon ->
  forall (P B P' B' : Type) (f : N -> N) (m : mol P B) (m' : mol P' B'),
    wfg m -> SameMol f m m' -> (forall x, In x (atoms m) -> nozero x) ->
    tucan_tokens canon m = tucan_tokens canon m'.
Proof. exact (@TucanProofs.tucan_tokens_invariant). Qed.
Print Assumptions tucan_tokens_invariant.

(* the serializer alone: a function of the labelled coloured graph, not of listing order or payload *)
Require Import ViewProofs SerializeProofs Serialize.
Theorem serialize_depends_on_view_only :
  forall (P B P' B' : Type) (c : mol P B) (c' : mol P' B'), wfg c -> SameView c c' -> serialize c = serialize c'.
Proof. exact (@SerializeProofs.serialize_view). Qed.
Print Assumptions serialize_depends_on_view_only.
