(* C01 -- TUCAN string is invariant under atom/bond reordering of the input.
   Only statements; proofs are in Proofs/. *)
From Coq Require Import List NArith ZArith Permutation.
Require Import Base Mol Canon Pipeline MolProofs SameMol CanonProofs CanonView TucanProofs.
Require ParamsSpec.   (* regenerated source constants still match what the model hard-codes *)

(* For every canonical-labelling oracle meeting the bliss contract (H1: bijection onto 0..n-1;
   H2: colour-isomorphic inputs get the same labelled coloured graph), two descriptions of one
   molecule -- any renaming f of the atoms, any listing order of atoms and of bonds, any
   orientation of each bond, any payload and bond data -- yield the same result of
   serialize_molecule(canonicalize_molecule(.)): the same byte string, or failure for both.
   (That the result is never a failure for a non-empty molecule is C15.)
   wfg: simple graph on the listed atoms; nozero: no explicit 0 stored as mass/radical (what the
   readers and the parser guarantee). *)
Theorem tucan_invariant :
  forall canon, H1 canon -> H2 canon ->
  forall (P B P' B' : Type) (f : N -> N) (m : mol P B) (m' : mol P' B'),
    wfg m -> SameMol f m m' -> (forall x, In x (atoms m) -> nozero x) ->
    tucan canon m = tucan canon m'.
Proof. exact (@TucanProofs.tucan_invariant). Qed.
Print Assumptions tucan_invariant.

(* the same on the token level (before printing) *)
Theorem tucan_tokens_invariant :
  forall canon, H1 canon -> H2 canon ->
  forall (P B P' B' : Type) (f : N -> N) (m : mol P B) (m' : mol P' B'),
    wfg m -> SameMol f m m' -> (forall x, In x (atoms m) -> nozero x) ->
    tucan_tokens canon m = tucan_tokens canon m'.
Proof. exact (@TucanProofs.tucan_tokens_invariant). Qed.
Print Assumptions tucan_tokens_invariant.

(* the serializer alone: a function of the labelled coloured graph, not of listing order or payload *)
Require Import ViewProofs SerializeProofs Serialize.
Theorem serialize_depends_on_view_only :
  forall (P B P' B' : Type) (c : mol P B) (c' : mol P' B'), wfg c -> SameView c c' -> serialize c = serialize c'.
Proof. exact (@SerializeProofs.serialize_view). Qed.
Print Assumptions serialize_depends_on_view_only.

(* ------------------------------------------------------------------------------------------------ *)
(* C01 on the level of molfile descriptions (Proofs/Descriptions.v).
   Vocabulary as in C06 (R3 = V3000Render, R2 = V2000Render):
     M : R3.molM / R2.mol2         the molecule a file states (atom lines / entries, bond lines by the
                                   positions they join); the index numbers written in a V3000 file are
                                   rendering choices (ch), so is everything else in the file;
     R3.file_text eol 0 lines      the text of the file; V2000.read_molfile: the entry point for both
                                   formats;
     ident3 / ident2               identity data of an atom line (C06_ident3_spec, NonIdentity.ident2);
     pi : nat -> nat               where the entry at a position (0-based) of the first description is
                                   found in the second one.                                           *)
From Coq Require Import String List.
Require Import Text Molfile.
Require V2000 WriterProofs RefCanon V3000Render V2000Render NonIdentity Descriptions.
Import ListNotations NonIdentity Descriptions.

(* 1. Any two texts.  If both are read and the graphs read describe the same molecule (SameMol f: any
      renaming f of the atoms, any listing orders, any orientation of the bonds), the strings are equal.
      No well-formedness hypothesis: every graph the reader returns is a simple graph without stored
      zeros (ReadersNoZero.read_molfile_wfg / read_molfile_nozero). *)
Theorem C01_tucan_descriptions :
  forall canon, H1 canon -> H2 canon ->
  forall (f : N -> N) (s s' : text) g g',
  V2000.read_molfile s = ok g -> V2000.read_molfile s' = ok g' ->
  SameMol f g g' -> tucan canon g = tucan canon g'.
Proof. exact (@Descriptions.tucan_descriptions). Qed.
Print Assumptions C01_tucan_descriptions.

Theorem C01_tucan_tokens_descriptions :
  forall canon, H1 canon -> H2 canon ->
  forall (f : N -> N) (s s' : text) g g',
  V2000.read_molfile s = ok g -> V2000.read_molfile s' = ok g' ->
  SameMol f g g' -> tucan_tokens canon g = tucan_tokens canon g'.
Proof. exact (@Descriptions.tucan_tokens_descriptions). Qed.
Print Assumptions C01_tucan_tokens_descriptions.

(* 2. V3000 files.  Renumbered3000 pi M M', spelled out: the atom blocks have the same length n; pi maps
      the positions 0 .. n-1 below n and is injective on them (hence a permutation of them); the entry
      at position i of M and the entry at position pi i of M' are both star atoms, or both atoms with
      the same ident3; the bonded position pairs of M, moved by pi, are those of M', as a set of
      unordered pairs.  Free: the index numbers of the lines (ch, ch'), charges, coordinate tokens,
      bond types, number / order / direction / repetition of bond lines. *)
Theorem C01_Renumbered3000_spec : forall (pi : nat -> nat) (M M' : R3.molM),
  Renumbered3000 pi M M' <->
  let n := length (R3.m_entries M) in
  (length (R3.m_entries M') = n /\
   (forall i, i < n -> pi i < n) /\
   (forall i j, i < n -> j < n -> pi i = pi j -> i = j) /\
   (forall i, i < n -> option_map (option_map ident3) (nth_error (R3.m_entries M') (pi i))
                       = option_map (option_map ident3) (nth_error (R3.m_entries M) i))) /\
  (forall u v : nat,
     (In (u, v) (map (fun k => (pi (fst k), pi (snd k))) (flat_map R3.bond_keys (R3.m_bonds M))) \/
      In (v, u) (map (fun k => (pi (fst k), pi (snd k))) (flat_map R3.bond_keys (R3.m_bonds M)))) <->
     (In (u, v) (flat_map R3.bond_keys (R3.m_bonds M')) \/ In (v, u) (flat_map R3.bond_keys (R3.m_bonds M')))).
Proof. exact (@Descriptions.Renumbered3000_spec). Qed.
Print Assumptions C01_Renumbered3000_spec.

Theorem C01_tucan_v3000_renumbered :
  forall canon, H1 canon -> H2 canon ->
  forall (pi : nat -> nat) (M M' : R3.molM) (ch ch' : R3.choices) (eol eol' : nat -> bool),
  R3.okM M -> R3.okM M' -> Renumbered3000 pi M M' ->
  R3.okch M ch -> R3.okch_text ch -> R3.okch M' ch' -> R3.okch_text ch' ->
  forall g g',
  V2000.read_molfile (R3.file_text eol 0 (R3.render3000 M ch)) = ok g ->
  V2000.read_molfile (R3.file_text eol' 0 (R3.render3000 M' ch')) = ok g' ->
  tucan canon g = tucan canon g'.
Proof. exact (@Descriptions.tucan_v3000_renumbered). Qed.
Print Assumptions C01_tucan_v3000_renumbered.

(* both texts are read: the statement above is not about two failures *)
Theorem C01_tucan_v3000_renumbered_read :
  forall canon, H1 canon -> H2 canon ->
  forall (pi : nat -> nat) (M M' : R3.molM) (ch ch' : R3.choices) (eol eol' : nat -> bool),
  R3.okM M -> R3.okM M' -> Renumbered3000 pi M M' ->
  R3.okch M ch -> R3.okch_text ch -> R3.okch M' ch' -> R3.okch_text ch' ->
  exists g g',
  V2000.read_molfile (R3.file_text eol 0 (R3.render3000 M ch)) = ok g /\
  V2000.read_molfile (R3.file_text eol' 0 (R3.render3000 M' ch')) = ok g' /\
  tucan canon g = tucan canon g'.
Proof. exact (@Descriptions.tucan_v3000_renumbered_read). Qed.
Print Assumptions C01_tucan_v3000_renumbered_read.

(* the graphs read from the two files are the same molecule under the renaming of node names pi induces *)
Theorem C01_graph_of_renumbered : forall (pi : nat -> nat) (M M' : R3.molM),
  R3.okM M -> R3.okM M' -> Renumbered3000 pi M M' ->
  SameMol (fren pi (es3 M) (es3 M')) (R3.graph_of M) (R3.graph_of M').
Proof. exact (@Descriptions.graph_of_renumbered). Qed.
Print Assumptions C01_graph_of_renumbered.

(* the same order of atom lines (C06: IdentEq3000) is the case pi = identity *)
Theorem C01_IdentEq3000_Renumbered : forall M M' : R3.molM, IdentEq3000 M M' -> Renumbered3000 (fun i => i) M M'.
Proof. exact (@Descriptions.IdentEq3000_Renumbered). Qed.
Print Assumptions C01_IdentEq3000_Renumbered.

(* 3. V2000 files.  Renumbered2000 pi M M': atom line i of M (counted from 0) is atom line pi i of M'
      (same ident2: element, effective mass, radical); the atom numbers on the bond lines of M, moved by
      pi, give the bonded pairs of M' as a set of unordered pairs.  Where the M  CHG / RAD / ISO lines go
      and how they are grouped is part of ch, ch' (okfile2000). *)
Theorem C01_Renumbered2000_spec : forall (pi : nat -> nat) (M M' : R2.mol2),
  Renumbered2000 pi M M' <->
  let n := length (R2.m_atoms M) in
  (length (R2.m_atoms M') = n /\
   (forall i, i < n -> pi i < n) /\
   (forall i j, i < n -> j < n -> pi i = pi j -> i = j) /\
   (forall i, i < n -> option_map ident2 (nth_error (R2.m_atoms M') (pi i)) = option_map ident2 (nth_error (R2.m_atoms M) i))) /\
  (forall u v : nat,
     let num (k : Z * Z) := (Z.to_nat (fst k - 1), Z.to_nat (snd k - 1)) in
     (In (u, v) (map (fun k => (pi (fst k), pi (snd k))) (map num (map fst (R2.m_bonds M)))) \/
      In (v, u) (map (fun k => (pi (fst k), pi (snd k))) (map num (map fst (R2.m_bonds M))))) <->
     (In (u, v) (map num (map fst (R2.m_bonds M'))) \/ In (v, u) (map num (map fst (R2.m_bonds M'))))).
Proof. exact (@Descriptions.Renumbered2000_spec). Qed.
Print Assumptions C01_Renumbered2000_spec.

Theorem C01_tucan_v2000_renumbered :
  forall canon, H1 canon -> H2 canon ->
  forall (pi : nat -> nat) (M M' : R2.mol2) (ch ch' : R2.choices) (eol eol' : nat -> bool),
  okfile2000 M ch -> okfile2000 M' ch' -> Renumbered2000 pi M M' ->
  forall g g',
  V2000.read_molfile (R3.file_text eol 0 (R2.render2000 M ch)) = ok g ->
  V2000.read_molfile (R3.file_text eol' 0 (R2.render2000 M' ch')) = ok g' ->
  tucan canon g = tucan canon g'.
Proof. exact (@Descriptions.tucan_v2000_renumbered). Qed.
Print Assumptions C01_tucan_v2000_renumbered.

Theorem C01_tucan_v2000_renumbered_read :
  forall canon, H1 canon -> H2 canon ->
  forall (pi : nat -> nat) (M M' : R2.mol2) (ch ch' : R2.choices) (eol eol' : nat -> bool),
  okfile2000 M ch -> okfile2000 M' ch' -> Renumbered2000 pi M M' ->
  exists g g',
  V2000.read_molfile (R3.file_text eol 0 (R2.render2000 M ch)) = ok g /\
  V2000.read_molfile (R3.file_text eol' 0 (R2.render2000 M' ch')) = ok g' /\
  tucan canon g = tucan canon g'.
Proof. exact (@Descriptions.tucan_v2000_renumbered_read). Qed.
Print Assumptions C01_tucan_v2000_renumbered_read.

Theorem C01_IdentEq2000_Renumbered : forall M M' : R2.mol2, IdentEq2000 M M' -> Renumbered2000 (fun i => i) M M'.
Proof. exact (@Descriptions.IdentEq2000_Renumbered). Qed.
Print Assumptions C01_IdentEq2000_Renumbered.

(* 4. A V2000 file against a renumbered V3000 file: atom line i of M2 is the entry at position pi i of
      the atom block of M3 (which has no star atoms, then). *)
Theorem C01_Renumbered23_spec : forall (pi : nat -> nat) (M2 : R2.mol2) (M3 : R3.molM),
  Renumbered23 pi M2 M3 <->
  let n := length (R2.m_atoms M2) in
  (length (R3.m_entries M3) = n /\
   (forall i, i < n -> pi i < n) /\
   (forall i j, i < n -> j < n -> pi i = pi j -> i = j) /\
   (forall i, i < n -> option_map (option_map ident3) (nth_error (R3.m_entries M3) (pi i))
                       = option_map (fun a => Some (ident2 a)) (nth_error (R2.m_atoms M2) i))) /\
  (forall u v : nat,
     let num (k : Z * Z) := (Z.to_nat (fst k - 1), Z.to_nat (snd k - 1)) in
     (In (u, v) (map (fun k => (pi (fst k), pi (snd k))) (map num (map fst (R2.m_bonds M2)))) \/
      In (v, u) (map (fun k => (pi (fst k), pi (snd k))) (map num (map fst (R2.m_bonds M2))))) <->
     (In (u, v) (flat_map R3.bond_keys (R3.m_bonds M3)) \/ In (v, u) (flat_map R3.bond_keys (R3.m_bonds M3)))).
Proof. exact (@Descriptions.Renumbered23_spec). Qed.
Print Assumptions C01_Renumbered23_spec.

Theorem C01_tucan_v2000_v3000_renumbered :
  forall canon, H1 canon -> H2 canon ->
  forall (pi : nat -> nat) (M2 : R2.mol2) (ch2 : R2.choices) (M3 : R3.molM) (ch3 : R3.choices) (eol eol' : nat -> bool),
  okfile2000 M2 ch2 -> R3.okM M3 -> R3.okch M3 ch3 -> R3.okch_text ch3 ->
  Renumbered23 pi M2 M3 ->
  forall g g',
  V2000.read_molfile (R3.file_text eol 0 (R2.render2000 M2 ch2)) = ok g ->
  V2000.read_molfile (R3.file_text eol' 0 (R3.render3000 M3 ch3)) = ok g' ->
  tucan canon g = tucan canon g'.
Proof. exact (@Descriptions.tucan_v2000_v3000_renumbered). Qed.
Print Assumptions C01_tucan_v2000_v3000_renumbered.

(* 5. Non-vacuity: 13C-formate.  formA / chA, form2 / ch2: the files of NonIdentity.Example (C06);
      formP: the atom block of formA under the 3-cycle pi3 of the positions, form2P: the atom lines of
      form2 rotated (pi4).  All hypotheses hold for the reference oracle (RefCanon), and the executable
      model, run on the four texts, returns one and the same non-trivial string. *)
Theorem C01_example_hypotheses :
  R3.okM Example.formA /\ R3.okM Descriptions.Example.formP /\
  Renumbered3000 Descriptions.Example.pi3 Example.formA Descriptions.Example.formP /\
  R3.okch Example.formA Example.chA /\ R3.okch_text Example.chA /\
  R3.okch Descriptions.Example.formP Example.chB /\ R3.okch_text Example.chB /\
  okfile2000 Example.form2 Example.ch2 /\ okfile2000 Descriptions.Example.form2P Descriptions.Example.ch2P /\
  Renumbered2000 Descriptions.Example.pi4 Example.form2 Descriptions.Example.form2P /\
  Renumbered23 Descriptions.Example.pi23 Descriptions.Example.form2P Example.formA.
Proof. exact Descriptions.Example.all_hypotheses. Qed.
Print Assumptions C01_example_hypotheses.

Theorem C01_example_oracle : H1 RefCanon.ref_canon /\ H2 RefCanon.ref_canon.
Proof. exact (conj RefCanon.ref_canon_H1 RefCanon.ref_canon_H2). Qed.
Print Assumptions C01_example_oracle.

Theorem C01_example_runs :
  let run (s : text) := match V2000.read_molfile s with inr g => tucan RefCanon.ref_canon g | inl _ => None end in
  run (R3.file_text Example.crlf 0 (R3.render3000 Example.formA Example.chA)) = Some (t "CHO2/(1-2)(2-3)(2-4)/(2:mass=13)") /\
  run (R3.file_text Example.lf 0 (R3.render3000 Descriptions.Example.formP Example.chB)) = Some (t "CHO2/(1-2)(2-3)(2-4)/(2:mass=13)") /\
  run (R3.file_text Example.mixed 0 (R2.render2000 Example.form2 Example.ch2)) = Some (t "CHO2/(1-2)(2-3)(2-4)/(2:mass=13)") /\
  run (R3.file_text Example.lf 0 (R2.render2000 Descriptions.Example.form2P Descriptions.Example.ch2P)) = Some (t "CHO2/(1-2)(2-3)(2-4)/(2:mass=13)").
Proof. exact Descriptions.Example.renumbered_runs_computed. Qed.
Print Assumptions C01_example_runs.

(* the renumbered files, line by line *)
Theorem C01_example_fileP : R3.render3000 Descriptions.Example.formP Example.chB =
  [t ""; t ""; t ""; t "  0  0  0  0  0  0  0  0  0  0999 V3000";
   t "M  V30 BEGIN CTAB"; t "M  V30 COUNTS 4 3"; t "M  V30 BEGIN ATOM";
   t "M  V30 1 O 3.80 5.70 0.00 0 CHG=0 MASS=0";
   t "M  V30 2 C 5.00 5.00 0.00 0 CHG=0 MASS=13";
   t "M  V30 3 O 6.20 5.70 0.00 0 CHG=-1 MASS=0";
   t "M  V30 4 H 5.00 3.90 0.00 0 CHG=0 MASS=0";
   t "M  V30 END ATOM"; t "M  V30 BEGIN BOND";
   t "M  V30 1 1 4 2"; t "M  V30 2 2 2 1"; t "M  V30 3 1 3 2";
   t "M  V30 END BOND"; t "M  V30 END CTAB"; t "M  END"]%list.
Proof. exact Descriptions.Example.fileP_lines. Qed.
Print Assumptions C01_example_fileP.

Theorem C01_example_file2P : R2.render2000 Descriptions.Example.form2P Descriptions.Example.ch2P =
  [t "formate, renumbered"; t ""; t "";
   t "  4  3                           V2000";
   t "    0.0000   -1.1000    0.0000 H   0     0  0  0  0  0  0  0  0  0  0";
   t "    0.0000    0.0000    0.0000 C   0     0  0  0  0  0  0  0  0  0  0";
   t "    1.2000    0.7000    0.0000 O   0     0  0  0  0  0  0  0  0  0  0";
   t "   -1.2000    0.7000    0.0000 O   0     0  0  0  0  0  0  0  0  0  0";
   t "  2  4  2"; t "  2  1  1"; t "  3  2  1";
   t "M  ISO  1   2  13"; t "M  STY  1   1 SUP"; t "M  CHG  1   3  -1";
   t "M  END"]%list.
Proof. exact Descriptions.Example.file2P_lines. Qed.
Print Assumptions C01_example_file2P.
