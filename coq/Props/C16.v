(* C16.v -- property C16, the permutation helper (graph_utils.permute_molecule):

     "The permutation helper returns a graph on the same label set that is isomorphic to its
      argument with every atom and bond attribute carried along, lists its atoms in label
      order, leaves its argument unchanged, and returns the same result for the same seed.
      For molecules with at least two bonds that are not complete graphs the returned edge set
      differs from the original."

   Model: Model/Permute.v.  random.shuffle is an oracle: `permute` takes the stream
   `shuffles : list (list N)` of shuffled label lists it would draw; the only assumption on a
   drawn list s is `Permutation s (labels m)`.  Well-formedness of the argument is
   `NoDup (labels m)` (node labels of a graph are distinct).
   Every theorem below is a citation of a lemma proved in Proofs/PermuteProofs.v.

   Two clauses of the property are not theorems, by construction of the model:
   - "returns the same result for the same seed": a seed fixes the stream of shuffles, and
     `permute` is a Gallina function of (stream, molecule); equal arguments give equal results
     (`f_equal`), nothing else can influence the result.  See C16_same_stream_same_result.
   - "leaves its argument unchanged": a pure functional model has no mutable argument, so this
     clause cannot be expressed here; it is checked on the implementation by the harness
     (falsifier side), not by proof.  What the model does show is that the result is built
     only from copies: relabel (nx.relabel_nodes(copy=True)) and sort_by_label (a fresh Graph). *)
From Coq Require Import List NArith ZArith Bool Permutation Sorting.Sorted.
Require Import Base Mol Permute PermuteProofs.
Require ParamsSpec.   (* regenerated source constants still match what the model hard-codes *)
Import ListNotations.

(* ---- one draw: the result is the argument renamed by a bijection f of the label set ---------
   f = dict(zip(permuted_labels, labels)).get                                                  *)
Theorem C16_renaming (P B : Type) (s : list N) (m : mol P B) :
  Permutation s (labels m) -> NoDup (labels m) ->
  let f := fun_of_map (combine s (labels m)) in
  (* (a) f permutes the label set and is injective on it *)
  Permutation (map f (labels m)) (labels m) /\
  (forall x y, In x (labels m) -> In y (labels m) -> f x = f y -> x = y) /\
  (* (b) the atoms are exactly the old atoms, each renamed by f, all other fields untouched *)
  Permutation (atoms (permute1 s m)) (map (relabel_atom f) (atoms m)) /\
  (* (c) the bonds are the old bonds in the old order, endpoints renamed by f, data untouched *)
  bonds (permute1 s m) = map (map_bond f) (bonds m).
Proof. exact (permute1_renaming P B s m). Qed.
Print Assumptions C16_renaming.

(* (b) spelled out field by field, in both directions; holds for any drawn list *)
Theorem C16_atom_attributes_carried (P B : Type) (s : list N) (m : mol P B) (x : atom P) :
  In x (atoms m) ->
  exists y, In y (atoms (permute1 s m)) /\
    lbl y = fun_of_map (combine s (labels m)) (lbl x) /\
    zn y = zn x /\ mass y = mass x /\ rad y = rad x /\ part y = part x /\ pay y = pay x.
Proof. exact (permute1_atom_data P B s m x). Qed.
Print Assumptions C16_atom_attributes_carried.

Theorem C16_no_new_atoms (P B : Type) (s : list N) (m : mol P B) (y : atom P) :
  In y (atoms (permute1 s m)) ->
  exists x, In x (atoms m) /\
    lbl y = fun_of_map (combine s (labels m)) (lbl x) /\
    zn y = zn x /\ mass y = mass x /\ rad y = rad x /\ part y = part x /\ pay y = pay x.
Proof. exact (permute1_atom_data_inv P B s m y). Qed.
Print Assumptions C16_no_new_atoms.

Theorem C16_counts (P B : Type) (s : list N) (m : mol P B) :
  length (atoms (permute1 s m)) = length (atoms m) /\
  length (bonds (permute1 s m)) = length (bonds m).
Proof. exact (permute1_counts P B s m). Qed.
Print Assumptions C16_counts.

(* ---- one draw: same label set, atoms listed in ascending label order ----------------------- *)
Theorem C16_label_order (P B : Type) (s : list N) (m : mol P B) :
  Permutation s (labels m) -> NoDup (labels m) ->
  labels (permute1 s m) = isort Nleb (labels m) /\
  StronglySorted N.le (labels (permute1 s m)) /\
  Sorted N.lt (labels (permute1 s m)) /\
  Permutation (labels (permute1 s m)) (labels m) /\
  NoDup (labels (permute1 s m)).
Proof. exact (permute1_label_order P B s m). Qed.
Print Assumptions C16_label_order.

(* ---- the whole helper: what it returns is one of the draws; which one, and why ------------- *)
Theorem C16_result_is_some_shuffle (P B : Type) (shs : list (list N)) (m r : mol P B) (k : nat) :
  permute shs m = Some (r, k) ->
  (exists s, In s shs /\ r = permute1 s m) /\ k < length shs.
Proof. exact (permute_result_is_some_shuffle P B shs m r k). Qed.
Print Assumptions C16_result_is_some_shuffle.

(* exact account of the loop: the k-th draw is returned; without enforcement k = 0; with
   enforcement the k-th draw is the first one that changes the edge set *)
Theorem C16_loop_spec (P B : Type) (shs : list (list N)) (m r : mol P B) (k : nat) :
  permute shs m = Some (r, k) ->
  exists s, nth_error shs k = Some s /\ r = permute1 s m /\
    (enforce m = false -> k = 0) /\
    (enforce m = true ->
       same_edges m r = false /\
       forall j s', j < k -> nth_error shs j = Some s' -> same_edges m (permute1 s' m) = true).
Proof. exact (permute_spec P B shs m r k). Qed.
Print Assumptions C16_loop_spec.

(* all clauses together for the returned graph *)
Theorem C16_result_properties (P B : Type) (shs : list (list N)) (m r : mol P B) (k : nat) :
  NoDup (labels m) ->
  (forall s, In s shs -> Permutation s (labels m)) ->
  permute shs m = Some (r, k) ->
  exists s, In s shs /\ r = permute1 s m /\
    let f := fun_of_map (combine s (labels m)) in
    Permutation (map f (labels m)) (labels m) /\
    (forall x y, In x (labels m) -> In y (labels m) -> f x = f y -> x = y) /\
    Permutation (atoms r) (map (relabel_atom f) (atoms m)) /\
    bonds r = map (map_bond f) (bonds m) /\
    labels r = isort Nleb (labels m) /\
    StronglySorted N.le (labels r) /\
    Sorted N.lt (labels r) /\
    Permutation (labels r) (labels m) /\
    NoDup (labels r) /\
    (enforce m = true -> same_edges m r = false).
Proof. exact (permute_result_properties P B shs m r k). Qed.
Print Assumptions C16_result_properties.

(* ---- "at least two bonds and not a complete graph" => the edge set changes ----------------- *)
Theorem C16_enforce_spec (P B : Type) (m : mol P B) :
  enforce m = true <->
  (2 <= length (bonds m) /\
   2 * length (bonds m) <> length (atoms m) * (length (atoms m) - 1)).
Proof. exact (enforce_spec P B m). Qed.
Print Assumptions C16_enforce_spec.

Theorem C16_changes_edges (P B : Type) (shs : list (list N)) (m r : mol P B) (k : nat) :
  enforce m = true -> permute shs m = Some (r, k) -> same_edges m r = false.
Proof. exact (permute_changes_edges P B shs m r k). Qed.
Print Assumptions C16_changes_edges.

(* same_edges is a faithful comparison of the edge sets (as multisets of normalised pairs) *)
Theorem C16_same_edges_spec (P B : Type) (m r : mol P B) :
  same_edges m r = true <-> edge_set m = edge_set r.
Proof. exact (same_edges_spec P B m r). Qed.
Print Assumptions C16_same_edges_spec.

Theorem C16_same_edges_false (P B : Type) (m r : mol P B) :
  same_edges m r = false <-> edge_set m <> edge_set r.
Proof. exact (same_edges_false P B m r). Qed.
Print Assumptions C16_same_edges_false.

Theorem C16_edge_set_eq_perm (P B : Type) (m r : mol P B) :
  edge_set m = edge_set r <->
  Permutation (map (fun b => norm_pair (ends b)) (bonds m))
              (map (fun b => norm_pair (ends b)) (bonds r)).
Proof. exact (edge_set_eq_perm P B m r). Qed.
Print Assumptions C16_edge_set_eq_perm.

(* ---- no enforcement: the first draw is returned as it is ---------------------------------- *)
Theorem C16_not_enforced (P B : Type) (s : list N) (rest : list (list N)) (m : mol P B) :
  enforce m = false -> permute (s :: rest) m = Some (permute1 s m, 0).
Proof. exact (permute_not_enforced P B s rest m). Qed.
Print Assumptions C16_not_enforced.

(* ---- same seed, same result: the result is a function of the stream ----------------------- *)
Theorem C16_same_stream_same_result (P B : Type) (shs shs' : list (list N)) (m : mol P B) :
  shs = shs' -> permute shs m = permute shs' m.
Proof. exact (permute_same_stream P B shs shs' m). Qed.
Print Assumptions C16_same_stream_same_result.

(* ---- the loop can stop: termination side --------------------------------------------------- *)
Theorem C16_terminates (P B : Type) (shs : list (list N)) (m : mol P B) :
  shs <> [] ->
  (enforce m = true -> exists s, In s shs /\ same_edges m (permute1 s m) = false) ->
  exists r k, permute shs m = Some (r, k).
Proof. exact (permute_terminates P B shs m). Qed.
Print Assumptions C16_terminates.

(* for a simple graph (no parallel bonds, no self loops, endpoints are atoms) that is enforced,
   some permutation of the labels is not an automorphism *)
Theorem C16_exists_non_automorphism (P B : Type) (m : mol P B) :
  NoDup (labels m) ->
  NoDup (map (fun b => norm_pair (ends b)) (bonds m)) ->
  (forall b, In b (bonds m) ->
     fst (ends b) <> snd (ends b) /\ In (fst (ends b)) (labels m) /\ In (snd (ends b)) (labels m)) ->
  enforce m = true ->
  exists s, Permutation s (labels m) /\ same_edges m (permute1 s m) = false.
Proof. exact (exists_non_automorphism P B m). Qed.
Print Assumptions C16_exists_non_automorphism.

Theorem C16_can_succeed (P B : Type) (m : mol P B) :
  NoDup (labels m) ->
  NoDup (map (fun b => norm_pair (ends b)) (bonds m)) ->
  (forall b, In b (bonds m) ->
     fst (ends b) <> snd (ends b) /\ In (fst (ends b)) (labels m) /\ In (snd (ends b)) (labels m)) ->
  exists s, Permutation s (labels m) /\ permute [s] m = Some (permute1 s m, 0).
Proof. exact (permute_can_succeed P B m). Qed.
Print Assumptions C16_can_succeed.

(* ---- non-vacuity: a 4-atom path 0-1-2-3 ---------------------------------------------------- *)
Theorem C16_example_wf : NoDup (labels ex_path4) /\ enforce ex_path4 = true.
Proof. exact ex_path4_nonvacuous. Qed.
Print Assumptions C16_example_wf.

(* the identity draw leaves the edge set as it is, so a second draw is taken *)
Theorem C16_example_one_retry :
  permute [[0; 1; 2; 3]; [1; 0; 2; 3]]%N ex_path4 =
  Some (mkMol [ex_atom 0 7; ex_atom 1 6; ex_atom 2 8; ex_atom 3 9]
              [(1%N, 0%N, tt); (0%N, 2%N, tt); (2%N, 3%N, tt)], 1).
Proof. exact ex_path4_one_retry. Qed.
Print Assumptions C16_example_one_retry.

(* identity and reversal are both automorphisms of the path: two extra draws *)
Theorem C16_example_two_retries :
  permute [[0; 1; 2; 3]; [3; 2; 1; 0]; [1; 0; 2; 3]; [2; 3; 0; 1]]%N ex_path4 =
  Some (permute1 [1; 0; 2; 3]%N ex_path4, 2).
Proof. exact ex_path4_two_retries. Qed.
Print Assumptions C16_example_two_retries.

Theorem C16_example_exhausted :
  permute [[0; 1; 2; 3]; [3; 2; 1; 0]]%N ex_path4 = None.
Proof. exact ex_path4_exhausted. Qed.
Print Assumptions C16_example_exhausted.
