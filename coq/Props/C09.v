(* C09 -- the molfile produced from a molecule graph is a well-formed V3000 file with no line
   longer than 80 characters including the newline, and the reader restores every wrapped line.
   Statements only; the proofs are in Proofs/WriterProofs.v. *)
From Coq Require Import String.
Require Import Base Mol Text Molfile V3000 Writer WriterProofs.
Require ParamsSpec.   (* regenerated source constants still match what the model hard-codes *)

(* 1. line lengths: 79 characters + the newline the writer joins the lines with *)
Theorem C09_wrap_line_length : forall line : text,
  Forall (fun l => length l <= 79) (v30_line line).
Proof. exact wrap_line_length. Qed.
Print Assumptions C09_wrap_line_length.

Theorem C09_write_lines_length : forall (line2 : text) (m : mol rpay (option Z)),
  length line2 <= 79 -> Forall (fun l => length l <= 79) (write_lines line2 m).
Proof. exact write_lines_length. Qed.
Print Assumptions C09_write_lines_length.

(* 2. content: dropping the prefix of every piece and the dash of every piece but the last
      and concatenating gives the line back, however often it was wrapped *)
Theorem C09_wrap_content : forall line : text, unwrap_spec (v30_line line) = line.
Proof. exact wrap_content. Qed.
Print Assumptions C09_wrap_content.

(* 3. the reader's splice loop undoes the writer's wrapping *)
Theorem C09_unwrap_wrap : forall (line : text) (rest : list text) (fuel : nat),
  ends_with_char 45%N line = false ->
  length (v30_line line ++ rest) <= fuel ->
  concat_dash fuel (v30_line line ++ rest)
  = do r <- concat_dash (length rest) rest; ok ((prefix ++ line) :: r).
Proof. exact unwrap_wrap. Qed.
Print Assumptions C09_unwrap_wrap.

(* the reader sets the first four lines aside and splices the rest *)
Theorem C09_tokenize_lines_write : forall (hdr contents : list text),
  length hdr = 4 ->
  Forall (fun l => ends_with_char 45%N l = false) contents ->
  tokenize_lines (hdr ++ flat_map v30_line contents)
  = ok (map tokenize hdr ++ map (fun l => tokenize (prefix ++ l)) contents).
Proof. exact tokenize_lines_write. Qed.
Print Assumptions C09_tokenize_lines_write.

(* the whole written file, for every molecule and every header: the splice loop run on the
   lines after the header returns them unwrapped *)
Theorem C09_concat_dash_write_lines : forall (line2 : text) (m : mol rpay (option Z)) (fuel : nat),
  length (skipn 4 (write_lines line2 m)) <= fuel ->
  concat_dash fuel (skipn 4 (write_lines line2 m)) = ok (skipn 4 (logical_lines line2 m)).
Proof. exact concat_dash_write_lines. Qed.
Print Assumptions C09_concat_dash_write_lines.

Theorem C09_tokenize_lines_write_lines : forall (line2 : text) (m : mol rpay (option Z)),
  tokenize_lines (write_lines line2 m) = ok (map tokenize (logical_lines line2 m)).
Proof. exact tokenize_lines_write_lines. Qed.
Print Assumptions C09_tokenize_lines_write_lines.

(* 4. tokens *)
Theorem C09_tokenize_join : forall tl : list text,
  Forall good_tok tl -> tokenize (join_with [sp] tl) = tl.
Proof. exact tokenize_join. Qed.
Print Assumptions C09_tokenize_join.

Theorem C09_tokenize_atom_line : forall x : atom rpay,
  good_tok (p_sym (pay x)) -> good_tok (p_x (pay x)) -> good_tok (p_y (pay x)) -> good_tok (p_z (pay x)) ->
  tokenize (prefix ++ atom_line x) = t "M" :: t "V30" :: atom_toks x.
Proof. exact tokenize_atom_line. Qed.
Print Assumptions C09_tokenize_atom_line.

Theorem C09_tokenize_bond_line : forall ib : N * (N * N * option Z),
  tokenize (prefix ++ bond_line ib) = t "M" :: t "V30" :: bond_toks ib.
Proof. exact tokenize_bond_line. Qed.
Print Assumptions C09_tokenize_bond_line.

(* 5. write, then read: the V3000 reader returns exactly the written atoms (in order: index,
      element, charge when non-zero and within -15..15, mass when > 0, radical when 1..3, the
      coordinate tokens) and bonds (end points, type, default 1), for every molecule whose
      symbols are in the element table, whose coordinate tokens float() accepts, whose node
      names are distinct and whose bonds are listed once between two different existing nodes
      (mol_ok; mo_noloop: the reader rejects a bond from an atom to itself -- every wfg graph
      qualifies, see C09_written_ok.  Negative masses / radicals are never written, so they need
      no hypothesis) *)
Theorem C09_write_read_roundtrip : forall (line2 : text) (m : mol rpay (option Z)),
  mol_ok m ->
  read_v3000 (write_lines line2 m) = ok (map expected_atom (atoms m), map expected_bond (bonds m)).
Proof. exact write_read_roundtrip. Qed.
Print Assumptions C09_write_read_roundtrip.

(* the file as one string *)
Theorem C09_splitlines_write_molfile : forall (line2 : text) (m : mol rpay (option Z)),
  nolb line2 -> Forall atom_ok (atoms m) ->
  splitlines (write_molfile line2 m) = write_lines line2 m.
Proof. exact splitlines_write_molfile. Qed.
Print Assumptions C09_splitlines_write_molfile.

Theorem C09_write_molfile_line_length : forall (line2 : text) (m : mol rpay (option Z)),
  nolb line2 -> length line2 <= 79 -> Forall atom_ok (atoms m) ->
  Forall (fun l => length l <= 79) (splitlines (write_molfile line2 m)).
Proof. exact write_molfile_line_length. Qed.
Print Assumptions C09_write_molfile_line_length.

Theorem C09_read_molfile_write_molfile : forall (line2 : text) (m : mol rpay (option Z)),
  nolb line2 -> mol_ok m ->
  V2000.read_molfile (write_molfile line2 m)
  = graph_from_molecule (map expected_atom (atoms m)) (map expected_bond (bonds m)).
Proof. exact read_molfile_write_molfile. Qed.
Print Assumptions C09_read_molfile_write_molfile.

(* 6. "Consequently string -> graph -> molfile -> graph -> string returns the original TUCAN string."
      Proofs in Proofs/MolfilePipeline.v, composed from the theorem above, C01 (tucan_invariant),
      C03 (parse_tucan_roundtrip) and C11 (parsed_graph_wf).
      FINDING: the sentence needs a hypothesis.  The grammar accepts every radical value >= 1, the
      writer prints RAD only for 1..3, so a canonical string with rad=4 loses the radical on the way
      (C09_radical_lost).  Under rad_in_format_range the sentence holds for every oracle satisfying
      H1, H2 and every header line without line breaks. *)
Require Import Parse Pipeline MolProofs CanonProofs AstOf MolfilePipeline.
Require Norm RoundTrip2 RefCanon.

(* the graph handed to the writer: element symbols from the table, no charge, coordinates printed
   as 0.000000, no bond type; defined on every parsed graph *)
Theorem C09_written_ok : forall (s : text) (g : mol unit unit) (w : mol rpay (option Z)),
  ref_parse s = inr g -> to_writer_graph g = Some w -> mol_ok w.
Proof. exact written_ok. Qed.
Print Assumptions C09_written_ok.

Theorem C09_written_line_length : forall (s : text) (g : mol unit unit) (w : mol rpay (option Z)) (line2 : text),
  nolb line2 -> length line2 <= 79 -> ref_parse s = inr g -> to_writer_graph g = Some w ->
  forall l, In l (splitlines (write_molfile line2 w)) -> length l <= 79.
Proof. exact written_line_length. Qed.
Print Assumptions C09_written_line_length.

(* any accepted string: the graph read back from the written molfile has the same TUCAN string *)
Theorem C09_tucan_molfile_roundtrip : forall canon, H1 canon -> H2 canon ->
  forall (s : text) (g : mol unit unit) (w : mol rpay (option Z)) (line2 : text),
  nolb line2 -> ref_parse s = inr g -> rad_in_format_range g -> to_writer_graph g = Some w ->
  exists g', V2000.read_molfile (write_molfile line2 w) = ok g' /\ tucan canon g' = tucan canon g.
Proof. exact tucan_molfile_roundtrip. Qed.
Print Assumptions C09_tucan_molfile_roundtrip.

(* a canonical string comes back *)
Theorem C09_tucan_molfile_roundtrip_canonical : forall canon, H1 canon -> H2 canon ->
  forall (s : text) (g : mol unit unit) (w : mol rpay (option Z)) (line2 : text),
  nolb line2 -> ref_parse s = inr g -> rad_in_format_range g -> to_writer_graph g = Some w ->
  tucan canon g = Some s ->
  exists g', V2000.read_molfile (write_molfile line2 w) = ok g' /\ tucan canon g' = Some s.
Proof. exact tucan_molfile_roundtrip_canonical. Qed.
Print Assumptions C09_tucan_molfile_roundtrip_canonical.

(* the whole chain for the string s emitted for any molecule graph m: every stage succeeds and the
   last one returns s *)
Theorem C09_tucan_molfile_pipeline : forall canon, H1 canon -> H2 canon ->
  forall (P B : Type) (m : mol P B) (s line2 : text),
  nolb line2 -> wfg m -> RoundTrip2.simple m -> pos_attrs m -> rad_in_format_range m -> tucan canon m = Some s ->
  exists g w g',
    ref_parse s = inr g /\ to_writer_graph g = Some w /\
    V2000.read_molfile (write_molfile line2 w) = ok g' /\ tucan canon g' = Some s.
Proof. intros canon HH1 HH2 P B. exact (@tucan_molfile_pipeline canon HH1 HH2 P B). Qed.
Print Assumptions C09_tucan_molfile_pipeline.

(* on strings only: c the normal form of an accepted string s0 *)
Theorem C09_norm_molfile_pipeline : forall canon, H1 canon -> H2 canon ->
  forall (s0 : text) (g0 : mol unit unit) (c line2 : text),
  nolb line2 -> ref_parse s0 = inr g0 -> rad_in_format_range g0 -> Norm.norm canon s0 = Some c ->
  exists g w g',
    ref_parse c = inr g /\ to_writer_graph g = Some w /\
    V2000.read_molfile (write_molfile line2 w) = ok g' /\ tucan canon g' = Some c.
Proof. exact norm_molfile_pipeline. Qed.
Print Assumptions C09_norm_molfile_pipeline.

(* non-vacuity (run by the executable model with the reference oracle) and the counterexample *)
Theorem C09_pipeline_example :
  run_pipeline (t "  TUCAN01010012600393D") (t "CH4O/(1-5)(2-5)(3-5)(4-6)(5-6)/(4:mass=2)(5:mass=13,rad=2)")
  = Some (t "CH4O/(1-5)(2-5)(3-5)(4-6)(5-6)/(4:mass=2)(5:mass=13,rad=2)").
Proof. exact ex_s_pipeline. Qed.
Print Assumptions C09_pipeline_example.

Theorem C09_radical_lost :
  Norm.norm RefCanon.ref_canon (t "CH4O/(1-5)(2-5)(3-5)(4-6)(5-6)/(4:mass=2)(5:mass=13,rad=4)")
  = Some (t "CH4O/(1-5)(2-5)(3-5)(4-6)(5-6)/(4:mass=2)(5:mass=13,rad=4)")
  /\ run_pipeline (t "  TUCAN01010012600393D") (t "CH4O/(1-5)(2-5)(3-5)(4-6)(5-6)/(4:mass=2)(5:mass=13,rad=4)")
     = Some (t "CH4O/(1-5)(2-5)(3-5)(4-6)(5-6)/(4:mass=2)(5:mass=13)").
Proof. exact (conj ex_rad4_canonical (proj1 ex_rad_lost)). Qed.
Print Assumptions C09_radical_lost.
