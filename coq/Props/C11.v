(* C11 -- Any valid spelling of a molecule normalizes to its one canonical string; applying the
   normalization twice gives the same string as applying it once.
   Statements only; the proofs are in Proofs/Norm.v (which composes Proofs/ParseProofs.v,
   Proofs/Respell.v, Proofs/RoundTrip2.v, Proofs/TotalProofs.v).

   Vocabulary.
     norm canon s  :=  match ref_parse s with inr g => tucan canon g | inl _ => None end
       -- "parsing, canonicalizing and serializing" a string: the reference reader (lexer, grammar,
          listener semantics; Model/Parse.v), then serialize (canonicalize g) (Model/Pipeline.v);
          None when the string is rejected.
     canon         -- the canonical-labelling oracle (bliss), constrained only by its contract
                      H1 (returns a bijection onto 0..n-1) and H2 (colour-isomorphic inputs give
                      the same labelled graph); Proofs/RefCanon.v shows the contract satisfiable.
     Respell a a'  -- the syntax tree a' is reached from a by finitely many of the steps listed in
                      the property text: reordering tuples (Rs_tuple_order), swapping a tuple's
                      endpoints (Rs_tuple_swap), repeating a tuple / dropping a repetition
                      (Rs_tuple_repeat, Rs_tuple_unrepeat), reordering attribute blocks
                      (Rs_block_order), splitting / merging blocks of one atom (Rs_block_split,
                      Rs_block_merge), reordering the properties in a block (Rs_prop_order),
                      renumbering atoms within their element blocks with tuples and attributes
                      renamed accordingly (Rs_renumber, for any Renumbering).
     "s spells a"  -- exists ts, lex_text s = Some ts /\ parse_tokens ts = Some a  (Norm.spells);
     "s' is a respelling of s" -- they spell trees a, a' with Respell a a'        (Norm.RespellText). *)
From Coq Require Import List NArith ZArith Permutation.
Require Import Base Mol Canon Text Token Parse Pipeline MolProofs SameMol CanonProofs AstOf TotalProofs.
Require ParamsSpec.   (* regenerated source constants still match what the model hard-codes *)
Require ParseProofs Respell RoundTrip2 RefCanon Norm.
Import ListNotations.

(* 0. "Every accepted TUCAN string ... denotes a molecule": whatever the reference reader accepts is
   a simple undirected graph on the atoms 0..n-1 (distinct labels, no self loop, every bond once,
   endpoints exist), every stored mass/rad value is >= 1, and every atomic number has an element
   symbol -- i.e. the parsed graph lies in the domain of all pipeline theorems (C01 C02 C03 C15). *)
Theorem C11_parsed_graph_wf : forall (s : text) (g : mol unit unit),
  ref_parse s = inr g ->
  wfg g /\ RoundTrip2.simple g /\ pos_attrs g /\ known_elements g /\ labels g = N_seq 0 (length (atoms g)).
Proof. exact Norm.parsed_graph_wf. Qed.
Print Assumptions C11_parsed_graph_wf.

(* 1. "reordering tuples, swapping a tuple's endpoints, repeating a tuple, reordering or splitting
   attribute blocks, or renumbering atoms within an element block ... does not change the result of
   parsing, canonicalizing and serializing":  norm(s') == norm(s) for every respelling s' of s.
   (As options: if s is rejected by the listener -- self loop, duplicate attribute, index out of
   range -- so is s', and both sides are None.) *)
Theorem C11_norm_respell : forall canon, H1 canon -> H2 canon ->
  forall (s : text) (ts : list token) (a a' : ast) (s' : text) (ts' : list token),
    lex_text s = Some ts -> parse_tokens ts = Some a ->
    Respell.Respell a a' ->
    lex_text s' = Some ts' -> parse_tokens ts' = Some a' ->
    Norm.norm canon s' = Norm.norm canon s.
Proof. exact Norm.norm_respell_tokens. Qed.
Print Assumptions C11_norm_respell.

(* 2. "Applying that normalization twice gives the same string as applying it once":
   norm(norm(s)) == norm(s). *)
Theorem C11_norm_idempotent : forall canon, H1 canon -> H2 canon ->
  forall s s' : text, Norm.norm canon s = Some s' -> Norm.norm canon s' = Some s'.
Proof. exact Norm.norm_idempotent. Qed.
Print Assumptions C11_norm_idempotent.

(* 3. "canonical or not ... its one canonical string": if s normalizes to c then c normalizes to
   itself, every respelling of s normalizes to c, and every respelling of c normalizes to c. *)
Theorem C11_norm_canonical : forall canon, H1 canon -> H2 canon ->
  forall s c : text, Norm.norm canon s = Some c ->
    Norm.norm canon c = Some c /\
    (forall s', Norm.RespellText s s' -> Norm.norm canon s' = Some c) /\
    (forall c', Norm.RespellText c c' -> Norm.norm canon c' = Some c).
Proof. exact Norm.norm_canonical. Qed.
Print Assumptions C11_norm_canonical.

(* 4. the normalization is defined (Some string) on every accepted string with at least one atom.
   The only accepted string without atoms is "/" ; the model's partition refinement is undefined
   on the empty molecule (outside the model's domain), the implementation returns "/" for it
   after the repair commit. *)
Theorem C11_norm_defined : forall canon, H1 canon ->
  forall (s : text) (g : mol unit unit), ref_parse s = inr g -> atoms g <> [] ->
  exists s', Norm.norm canon s = Some s'.
Proof. exact Norm.norm_defined. Qed.
Print Assumptions C11_norm_defined.

(* 5. "Any valid spelling of a molecule": beyond the syntactic respellings, ANY two accepted strings
   whose graphs are the same molecule (related by a renaming pi preserving element, mass, radical
   and the bond set) have the same normal form ... *)
Theorem C11_norm_same_molecule : forall canon, H1 canon -> H2 canon ->
  forall (s1 s2 : text) (g1 g2 : mol unit unit) (pi : N -> N),
    ref_parse s1 = inr g1 -> ref_parse s2 = inr g2 -> SameMol pi g1 g2 ->
    Norm.norm canon s1 = Norm.norm canon s2.
Proof. exact Norm.norm_same_molecule. Qed.
Print Assumptions C11_norm_same_molecule.

(* ... and only those: strings with the same normal form denote the same molecule. *)
Theorem C11_norm_complete_invariant : forall canon, H1 canon ->
  forall (s1 s2 : text) (g1 g2 : mol unit unit) (c : text),
    ref_parse s1 = inr g1 -> ref_parse s2 = inr g2 ->
    Norm.norm canon s1 = Some c -> Norm.norm canon s2 = Some c ->
    exists pi, SameMol pi g1 g2.
Proof. exact Norm.norm_complete_invariant. Qed.
Print Assumptions C11_norm_complete_invariant.

(* 6. non-vacuity.  With the executable reference oracle (RefCanon.ref_canon satisfies H1 and H2)
   three different spellings of one molecule -- two of them not canonical -- normalize to the same
   string, which normalizes to itself: evaluated inside Coq.
     ex_c  = "CH4O/(1-5)(2-5)(3-5)(4-6)(5-6)/(4:mass=2,rad=1)(5:mass=13)"
     ex_s1 = "CH4O/(6-5)(1-6)(5-3)(2-5)(4-5)(2-5)/(5:mass=13)(1:rad=1)(1:mass=2)"
     ex_s2 = "CH4O/(2-5)(5-1)(4-5)(3-6)(6-5)/(5:mass=13)(3:mass=2,rad=1)" *)
Theorem C11_example_runs :
  Norm.norm RefCanon.ref_canon Norm.ex_s1 = Some Norm.ex_c /\
  Norm.norm RefCanon.ref_canon Norm.ex_s2 = Some Norm.ex_c /\
  Norm.norm RefCanon.ref_canon Norm.ex_c = Some Norm.ex_c /\
  Norm.ex_s1 <> Norm.ex_c /\ Norm.ex_s2 <> Norm.ex_c /\ Norm.ex_s1 <> Norm.ex_s2.
Proof. exact (conj Norm.ex_norm_s1 (conj Norm.ex_norm_s2 (conj Norm.ex_norm_c Norm.ex_strings_differ))). Qed.
Print Assumptions C11_example_runs.

(* ex_s1 is a respelling of ex_c in the sense of statement 1 (renumbering, block split, block
   order, tuple order, two tuple swaps, one repetition), so the hypotheses of 1 and 3 are
   satisfiable; and for EVERY oracle satisfying the contract the two strings have the same normal
   form, which exists and is a fixed point. *)
Theorem C11_example_respelling : Norm.RespellText Norm.ex_c Norm.ex_s1.
Proof. exact Norm.ex_respell_text. Qed.
Print Assumptions C11_example_respelling.

Theorem C11_example_by_theorem : forall canon, H1 canon -> H2 canon ->
  Norm.norm canon Norm.ex_s1 = Norm.norm canon Norm.ex_c /\
  exists c, Norm.norm canon Norm.ex_c = Some c /\ Norm.norm canon c = Some c.
Proof. exact Norm.ex_by_theorem. Qed.
Print Assumptions C11_example_by_theorem.
