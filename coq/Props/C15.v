(* C15 -- The pipeline completes for every non-empty molecule regardless of size/shape.
   Only statements; proofs are in Proofs/.
   In the model `None` stands for exactly the Python failures named in the property: fuel
   exhausted (= non-termination), max() of an empty sequence, pop from an empty list, a missing
   dictionary key, the failed assertion `len(final_labels) == len(m.nodes)`.  The interpreter's
   recursion limit and memory are outside Gallina: they are decided by the static no-recursion
   check and the large-instance runs of the C15 check (harness/misc_checks.py). *)
From Coq Require Import List NArith ZArith Permutation.
Require Import Base Mol Partition Canon Final Serialize Pipeline MolProofs CanonProofs FinalTotal TotalProofs.
Require ParamsSpec.   (* regenerated source constants still match what the model hard-codes *)
Require Equitable.

(* refinement: never out of fuel (fuel = number of atoms + 1), never max() of nothing *)
Theorem refinement_total :
  forall (P B : Type) (m : mol P B), atoms m <> nil -> exists r, classes m = Some r.
Proof. exact Equitable.refine_fuel_suffices. Qed.
Print Assumptions refinement_total.

(* _assign_final_labels: no pop from an empty class list, no missing key, the final assertion
   holds, and the loop ends within 2(n + 2|E|) + 1 steps -- for every simple graph, connected or
   not, with any class attribute *)
Theorem final_labels_total :
  forall (P B : Type) (m : mol P B), wfg m -> exists o, final_labels m = Some o.
Proof. exact (@FinalTotal.final_labels_total). Qed.
Print Assumptions final_labels_total.

(* serialize_molecule(canonicalize_molecule(m)) returns a string for every non-empty simple graph
   whose atomic numbers have element symbols, for every labelling oracle returning a bijection *)
Theorem tucan_total :
  forall (P B : Type) canon (m : mol P B),
    H1 canon -> wfg m -> atoms m <> nil -> known_elements m -> exists s, tucan canon m = Some s.
Proof. exact (@TotalProofs.tucan_total). Qed.
Print Assumptions tucan_total.

(* ------------------------------------------------------------------------------------------------ *)
(* The quantifier closed over the readers (Proofs/EndToEnd2.v): wfg and known_elements are theorems
   about every graph the molfile entry point returns (EndToEnd.read_graph_props) and every graph the
   reference reader of strings returns (Norm.parsed_graph_wf).  `atoms g <> nil` stays: a file that
   announces no atom is read into the empty graph, and "/" is an accepted string. *)
Require Import Text Parse Molfile.
Require V2000 EndToEnd2.

Theorem C15_molfile_text_total :
  forall canon, H1 canon ->
  forall (s : text) (g : mol rpay Z),
    V2000.read_molfile s = ok g -> atoms g <> nil -> exists str, tucan canon g = Some str.
Proof. exact (@EndToEnd2.molfile_text_total). Qed.
Print Assumptions C15_molfile_text_total.

Theorem C15_tucan_string_total :
  forall canon, H1 canon ->
  forall (t0 : text) (g : mol unit unit),
    ref_parse t0 = inr g -> atoms g <> nil -> exists str, tucan canon g = Some str.
Proof. exact (@EndToEnd2.tucan_string_total). Qed.
Print Assumptions C15_tucan_string_total.

(* every stage for a text: refinement, canonical graph, string *)
Theorem C15_molfile_text_stages :
  forall canon, H1 canon ->
  forall (s : text) (g : mol rpay Z),
    V2000.read_molfile s = ok g -> atoms g <> nil ->
    exists r c str, classes g = Some r /\ canonicalize canon g = Some c /\ tucan canon g = Some str.
Proof. exact (@EndToEnd2.molfile_text_stages). Qed.
Print Assumptions C15_molfile_text_stages.
