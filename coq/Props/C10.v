(* C10 -- "A string is accepted by the TUCAN parser if and only if it is a sentence of the
   published grammar whose bond and attribute indices refer to existing atoms, has no
   self-bond and sets no attribute twice on one atom.  For an accepted string the returned
   graph has exactly the atoms of the formula numbered by increasing atomic number, exactly
   the listed bonds (as a set), and exactly the listed attributes on the indexed atoms;
   every other string is rejected with the parser's own exception type."

   The theorems are about the executable reference reader `Parse.ref_parse`; the grammar is
   the inductive `ParseProofs.Sentence` (transcribed from tucan.ebnf, with the two
   sum_formula rule bodies taken from the generated tables).  The ANTLR recogniser of the
   implementation is tied to `ref_parse` by the differential check K8 only. *)
From Coq Require Import String.
From Coq Require Import List NArith ZArith Bool Ascii Sorting.Sorted Sorting.Permutation.
Require Import Base Mol Text Token Parse ParseProofs.
Require ParamsSpec.   (* regenerated source constants still match what the model hard-codes *)
Require Grammar Elements.
Import ListNotations.

(* ---- the reference reader accepts exactly the token grammar ---- *)
Theorem C10_grammar_sound : forall ts a,
  Forall tok_ok ts -> parse_tokens ts = Some a -> Sentence ts a.
Proof. exact parse_tokens_sound. Qed.
Print Assumptions C10_grammar_sound.

Theorem C10_grammar_complete : forall ts a, Sentence ts a -> parse_tokens ts = Some a.
Proof. exact parse_tokens_complete. Qed.
Print Assumptions C10_grammar_complete.

Theorem C10_grammar_unambiguous : forall ts a a', Sentence ts a -> Sentence ts a' -> a = a'.
Proof. exact Sentence_unambiguous. Qed.
Print Assumptions C10_grammar_unambiguous.

Theorem C10_formula_alternatives_disjoint : forall ts it it',
  OptSeq Parse.with_carbon ts it -> OptSeq Parse.without_carbon ts it' -> False.
Proof. exact Formula_alternatives_disjoint. Qed.
Print Assumptions C10_formula_alternatives_disjoint.

Theorem C10_sentence_numbers : forall ts a, Sentence ts a -> ast_wf a.
Proof. exact Sentence_wf. Qed.
Print Assumptions C10_sentence_numbers.

(* ---- lexer ---- *)
Theorem C10_lex_numerals_positive : forall s ts, lex_text s = Some ts -> Forall tok_ok ts.
Proof. exact lex_text_tok_ok. Qed.
Print Assumptions C10_lex_numerals_positive.

Theorem C10_lex_text_print : forall s ts, lex_text s = Some ts -> print_tokens ts = s.
Proof. exact lex_text_print. Qed.
Print Assumptions C10_lex_text_print.

(* ---- accepted strings ---- *)
Theorem C10_ref_parse_sound_complete : forall s g,
  ref_parse s = inr g <->
  exists ts a, lex_text s = Some ts /\ Sentence ts a /\ sem a = inr g.
Proof. exact ref_parse_sound_complete. Qed.
Print Assumptions C10_ref_parse_sound_complete.

Theorem C10_sem_accepts_iff : forall a,
  (exists g, sem a = inr g) <-> NoSelfLoop a /\ NoDupAttr a /\ IndicesExist a.
Proof. exact sem_accepts_iff. Qed.
Print Assumptions C10_sem_accepts_iff.

Theorem C10_ref_parse_accepts_iff : forall s g,
  ref_parse s = inr g <->
  exists ts a, lex_text s = Some ts /\ Sentence ts a /\
               NoSelfLoop a /\ NoDupAttr a /\ IndicesExist a /\ g = sem_mol a.
Proof. exact ref_parse_accepts_iff. Qed.
Print Assumptions C10_ref_parse_accepts_iff.

Theorem C10_sem_graph_spec : forall a g, sem a = inr g ->
  let props := flat_props (blocks a) in
  labels g = N_seq 0 (length (expand (items a))) /\
  map (@zn unit) (atoms g) = isort Nleb (expand (items a)) /\
  Sorted N.le (map (@zn unit) (atoms g)) /\
  Permutation (map (@zn unit) (atoms g)) (expand (items a)) /\
  (forall x, In x (atoms g) ->
     part x = 0%N /\
     mass x = find_prop props (Z.of_N (lbl x) + 1) KMass /\
     rad x = find_prop props (Z.of_N (lbl x) + 1) KRad /\
     (forall v, mass x = Some v <-> In (Z.of_N (lbl x) + 1, (KMass, v))%Z props) /\
     (forall v, rad x = Some v <-> In (Z.of_N (lbl x) + 1, (KRad, v))%Z props)) /\
  (forall u v, In (u, v, tt) (bonds g) <->
     (u <= v)%N /\ exists x y, (In (x, y) (tuples a) \/ In (y, x) (tuples a)) /\
                               u = Z.to_N (x - 1) /\ v = Z.to_N (y - 1)) /\
  NoDup (map (@ends unit) (bonds g)).
Proof. exact sem_graph_spec. Qed.
Print Assumptions C10_sem_graph_spec.

Theorem C10_n_atoms_is_count_sum : forall ts a, Sentence ts a -> n_atoms a = count_sum (items a).
Proof. exact Sentence_n_atoms. Qed.
Print Assumptions C10_n_atoms_is_count_sum.

Theorem C10_attributes_listed : forall bs i k v,
  In (i, (k, v)) (flat_props bs) <-> exists ps, In (i, ps) bs /\ In (k, v) ps.
Proof. exact flat_props_In. Qed.
Print Assumptions C10_attributes_listed.

(* ---- rejected strings ---- *)
Theorem C10_ref_parse_total : forall s,
  (exists g, ref_parse s = inr g) \/
  (exists e, ref_parse s = inl e /\
     (e = ELex \/ e = ESyntax \/ e = ESelfLoop \/ e = EBadIndex \/ e = EDupAttr)).
Proof. exact ref_parse_total. Qed.
Print Assumptions C10_ref_parse_total.

Theorem C10_ref_parse_errors_typed : forall s e, ref_parse s = inl e ->
  (e = ELex <-> lex_text s = None) /\
  (e = ESyntax <-> exists ts, lex_text s = Some ts /\ forall a, ~ Sentence ts a) /\
  ((e = ESelfLoop \/ e = EDupAttr \/ e = EBadIndex) <->
   exists ts a, lex_text s = Some ts /\ Sentence ts a /\ sem a = inl e).
Proof. exact ref_parse_errors_typed. Qed.
Print Assumptions C10_ref_parse_errors_typed.

Theorem C10_ref_parse_lex_error : forall s, ref_parse s = inl ELex <-> lex_text s = None.
Proof. exact ref_parse_lex_error. Qed.
Print Assumptions C10_ref_parse_lex_error.

Theorem C10_ref_parse_syntax_error : forall s,
  ref_parse s = inl ESyntax <-> exists ts, lex_text s = Some ts /\ forall a, ~ Sentence ts a.
Proof. exact ref_parse_syntax_error. Qed.
Print Assumptions C10_ref_parse_syntax_error.

Theorem C10_ref_parse_sem_error : forall s e, e <> ELex -> e <> ESyntax ->
  (ref_parse s = inl e <-> exists ts a, lex_text s = Some ts /\ Sentence ts a /\ sem a = inl e).
Proof. exact ref_parse_sem_error. Qed.
Print Assumptions C10_ref_parse_sem_error.

Theorem C10_sem_errors_iff : forall a,
  (sem a = inl ESelfLoop <-> ~ NoSelfLoop a) /\
  (sem a = inl EDupAttr <-> NoSelfLoop a /\ ~ NoDupAttr a) /\
  (sem a = inl EBadIndex <-> NoSelfLoop a /\ NoDupAttr a /\ ~ IndicesExist a) /\
  sem a <> inl ELex /\ sem a <> inl ESyntax.
Proof. exact sem_errors_iff. Qed.
Print Assumptions C10_sem_errors_iff.

(* ---- the generated tables are the published rules ---- *)
Theorem C10_tables :
  Grammar.rest_matches_g4 = true /\ Grammar.rest_matches_ebnf = true /\
  Grammar.with_carbon_g4 = Grammar.with_carbon_ebnf /\
  Grammar.without_carbon_g4 = Grammar.without_carbon_ebnf /\
  str_set_eqb (map fst Grammar.with_carbon_g4) (map fst Elements.element_table) = true /\
  (str_set_eqb ("C"%string :: map fst Grammar.without_carbon_g4) (map fst Elements.element_table) = true
   /\ str_mem "C" (map fst Grammar.without_carbon_g4) = false) /\
  length Elements.element_table = 118%nat /\
  length Parse.with_carbon = 118%nat /\ length Parse.without_carbon = 117%nat /\
  NoDup (map fst Parse.with_carbon) /\ NoDup (map fst Parse.without_carbon) /\
  hd_error Parse.with_carbon = Some (6%N, false) /\
  (map snd Parse.with_carbon = false :: repeat true 117 /\ map snd Parse.without_carbon = repeat true 117).
Proof.
  exact (conj rest_matches_g4_ok (conj rest_matches_ebnf_ok (conj with_carbon_g4_ebnf
        (conj without_carbon_g4_ebnf (conj with_carbon_symbols (conj without_carbon_symbols
        (conj element_table_length (conj with_carbon_length (conj without_carbon_length
        (conj with_carbon_nodup (conj without_carbon_nodup (conj with_carbon_head
         with_carbon_optional_flags)))))))))))).
Qed.
Print Assumptions C10_tables.

(* ---- non-vacuity ---- *)
Theorem C10_example_ethanol :
  graph_view (ref_parse (t "C2H6O/(1-7)(2-7)(3-7)(4-8)(5-8)(6-9)(7-8)(8-9)")) =
  Some ([(0, 1, None, None, 0); (1, 1, None, None, 0); (2, 1, None, None, 0); (3, 1, None, None, 0);
         (4, 1, None, None, 0); (5, 1, None, None, 0); (6, 6, None, None, 0); (7, 6, None, None, 0);
         (8, 8, None, None, 0)]%N,
        [(0, 6); (1, 6); (2, 6); (3, 7); (4, 7); (5, 8); (6, 7); (7, 8)]%N).
Proof. exact ex_ethanol. Qed.
Print Assumptions C10_example_ethanol.

Theorem C10_example_attrs :
  graph_view (ref_parse (t "CH4/(1-2)/(1:mass=2,rad=3)")) =
  Some ([(0, 1, Some 2%Z, Some 3%Z, 0); (1, 1, None, None, 0); (2, 1, None, None, 0);
         (3, 1, None, None, 0); (4, 6, None, None, 0)]%N, [(0, 1)]%N).
Proof. exact ex_attrs. Qed.
Print Assumptions C10_example_attrs.

Theorem C10_example_rejections :
  ref_parse (t "C1H4/") = inl ESyntax /\ ref_parse (t "H2C/") = inl ESyntax /\
  ref_parse (t "CH4/(1-1)") = inl ESelfLoop /\ ref_parse (t "CH4/(1-9)") = inl EBadIndex /\
  ref_parse (t "CH4//(6:mass=2)") = inl EBadIndex /\
  ref_parse (t "CH4//(1:mass=2,mass=3)") = inl EDupAttr /\
  ref_parse (t "CH4//(1:mass=2)(1:mass=2)") = inl EDupAttr /\
  ref_parse (t "C02/") = inl ELex /\ ref_parse (t "") = inl ESyntax /\
  ref_parse (t "/") = inr (mkMol [] []).
Proof.
  exact (conj ex_count_one (conj ex_not_hill (conj ex_self_loop (conj ex_bad_index
        (conj ex_bad_attr_index (conj ex_dup_attr (conj ex_dup_attr_two_blocks
        (conj ex_leading_zero (conj ex_empty_string ex_empty_molecule))))))))).
Qed.
Print Assumptions C10_example_rejections.

(* ---- the same, on strings, without the lexer (Proofs/GrammarStrings.v) ----
   A string is accepted iff it is the spelling (`print_tokens`: the concatenation of the
   terminals) of a sentence of the grammar that satisfies the three semantic conditions. *)
Require LexPrint GrammarStrings.

Theorem C10_sentence_lexable : forall ts a, Sentence ts a -> LexPrint.lexable ts = true.
Proof. exact GrammarStrings.Sentence_lexable. Qed.
Print Assumptions C10_sentence_lexable.

Theorem C10_sentence_lex : forall ts a, Sentence ts a -> lex_text (print_tokens ts) = Some ts.
Proof. exact GrammarStrings.Sentence_lex. Qed.
Print Assumptions C10_sentence_lex.

Theorem C10_ref_parse_iff_sentence_string : forall s g,
  ref_parse s = inr g <->
  exists ts a, s = print_tokens ts /\ Sentence ts a /\ sem a = inr g.
Proof. exact GrammarStrings.ref_parse_iff_sentence_string. Qed.
Print Assumptions C10_ref_parse_iff_sentence_string.

Theorem C10_accepted_iff : forall s,
  (exists g, ref_parse s = inr g) <->
  exists ts a, s = print_tokens ts /\ Sentence ts a /\
               NoSelfLoop a /\ NoDupAttr a /\ IndicesExist a.
Proof. exact GrammarStrings.accepted_iff. Qed.
Print Assumptions C10_accepted_iff.

Theorem C10_ref_parse_iff_sentence_string_graph : forall s g,
  ref_parse s = inr g <->
  exists ts a, s = print_tokens ts /\ Sentence ts a /\
               NoSelfLoop a /\ NoDupAttr a /\ IndicesExist a /\ g = sem_mol a.
Proof. exact GrammarStrings.ref_parse_iff_sentence_string_graph. Qed.
Print Assumptions C10_ref_parse_iff_sentence_string_graph.

(* the published grammar is unambiguous as a grammar of strings *)
Theorem C10_spelling_unambiguous : forall ts a ts' a',
  Sentence ts a -> Sentence ts' a' -> print_tokens ts = print_tokens ts' -> ts = ts' /\ a = a'.
Proof. exact GrammarStrings.spelling_unambiguous. Qed.
Print Assumptions C10_spelling_unambiguous.

Theorem C10_not_sentence_string_rejected : forall s,
  (forall ts a, s = print_tokens ts -> ~ Sentence ts a) ->
  ref_parse s = inl ELex \/ ref_parse s = inl ESyntax.
Proof. exact GrammarStrings.not_sentence_string_rejected. Qed.
Print Assumptions C10_not_sentence_string_rejected.

(* the number rules, character by character: no sign, no leading zero *)
Theorem C10_sentence_numerals_spelling : forall ts a, Sentence ts a ->
  forall z, In (TNum z) ts ->
  exists c d, print_token (TNum z) = c :: d /\ is_digit c = true /\ c <> "0"%char /\
              forallb is_digit d = true.
Proof. exact GrammarStrings.Sentence_numerals_spelling. Qed.
Print Assumptions C10_sentence_numerals_spelling.

Theorem C10_accepted_numerals_spelling : forall s g, ref_parse s = inr g ->
  exists ts, s = print_tokens ts /\
    forall z, In (TNum z) ts ->
    exists c d, print_token (TNum z) = c :: d /\ is_digit c = true /\ c <> "0"%char /\
                forallb is_digit d = true.
Proof. exact GrammarStrings.accepted_numerals_spelling. Qed.
Print Assumptions C10_accepted_numerals_spelling.

Theorem C10_sentence_symbols_spelled : forall ts a, Sentence ts a ->
  forall z, In (TSym z) ts -> exists sp, symbol_of z = Some sp /\ print_token (TSym z) = sp /\ sp <> [].
Proof. exact GrammarStrings.Sentence_symbols_spelled. Qed.
Print Assumptions C10_sentence_symbols_spelled.

(* non-vacuity: a derivation for ethanol with a mass block, and the theorems applied to it *)
Theorem C10_example_sentence_string :
  Sentence LexPrint.ex_ethanol_tokens GrammarStrings.ex_ethanol_ast /\
  print_tokens LexPrint.ex_ethanol_tokens =
    t "C2H6O/(1-7)(2-7)(3-7)(4-8)(5-8)(6-9)(7-8)(8-9)/(6:mass=2)(7:mass=13,rad=2)" /\
  lex_text (print_tokens LexPrint.ex_ethanol_tokens) = Some LexPrint.ex_ethanol_tokens /\
  ref_parse (t "C2H6O/(1-7)(2-7)(3-7)(4-8)(5-8)(6-9)(7-8)(8-9)/(6:mass=2)(7:mass=13,rad=2)")
    = inr (sem_mol GrammarStrings.ex_ethanol_ast).
Proof.
  exact (conj GrammarStrings.ex_ethanol_sentence (conj GrammarStrings.ex_ethanol_string
        (conj GrammarStrings.ex_ethanol_sentence_lex GrammarStrings.ex_ethanol_accepted_by_grammar))).
Qed.
Print Assumptions C10_example_sentence_string.

Theorem C10_example_non_sentences :
  lex_text (print_tokens [TSym 6; TMass]) = None /\
  lex_text (print_tokens [TNum 1; TNum 2]) = Some [TNum 12] /\
  (lex_text (print_tokens [TSym 6; TNum 1; TSym 1; TNum 4; TSlash]) = Some [TSym 6; TNum 1; TSym 1; TNum 4; TSlash]
   /\ forall a, ~ Sentence [TSym 6; TNum 1; TSym 1; TNum 4; TSlash] a).
Proof. exact GrammarStrings.ex_non_sentences. Qed.
Print Assumptions C10_example_non_sentences.

(* ---- the ANTLR-generated recogniser of the implementation ----
   tucan/parser/tucanParser.py is translated statement by statement into gen/Antlr.v (harness/gen_antlr.py) and
   given meaning by Model/AntlrExec.v.  The theorems below tie it to the reference parser and to the grammar for
   EVERY input; the generated tables enter only through the computed side conditions of Proofs/AntlrProofs.v
   (antlr_translated_ok, antlr_rules_shape, antlr_rules_all_expected, antlr_alt2_ok, antlr_token_types_ok,
   antlr_fuel_ok). *)
Require AntlrItem AntlrExec Antlr AntlrExpected AntlrProofs.
Import AntlrExec.

(* side conditions, restated so that their assumptions are printed with the property *)
Theorem C10_antlr_translated : Antlr.antlr_translated = true.
Proof. exact AntlrProofs.antlr_translated_ok. Qed.
Print Assumptions C10_antlr_translated.

Theorem C10_antlr_rules_shape :
  map (fun p => lookup_rule Antlr.antlr_rules (fst p)) AntlrProofs.antlr_expected =
  map (fun p => Some (snd p)) AntlrProofs.antlr_expected.
Proof. exact AntlrProofs.antlr_rules_shape. Qed.
Print Assumptions C10_antlr_rules_shape.

Theorem C10_antlr_rules_all_expected :
  forallb (fun p => existsb (String.eqb (fst p)) (map fst AntlrProofs.antlr_expected)) Antlr.antlr_rules = true
  /\ length Antlr.antlr_rules = 136%nat.
Proof. exact AntlrProofs.antlr_rules_all_expected. Qed.
Print Assumptions C10_antlr_rules_all_expected.

(* the lexer lemma and the totality of the token-type bridge *)
Theorem C10_antlr_lex_tokens_ok : forall s ts, lex_text s = Some ts -> AntlrProofs.tokens_ok ts.
Proof. exact AntlrProofs.lex_text_tokens_ok. Qed.
Print Assumptions C10_antlr_lex_tokens_ok.

Theorem C10_antlr_types_total : forall ts, AntlrProofs.tokens_ok ts -> exists tys, antlr_types ts = Some tys.
Proof. exact AntlrProofs.antlr_types_total. Qed.
Print Assumptions C10_antlr_types_total.

Theorem C10_antlr_types_lex_total : forall s ts, lex_text s = Some ts -> exists tys, antlr_types ts = Some tys.
Proof. exact AntlrProofs.antlr_types_lex_total. Qed.
Print Assumptions C10_antlr_types_lex_total.

(* MAIN: the generated recogniser accepts exactly the token lists the reference parser accepts *)
Theorem C10_antlr_accepts_iff_parse : forall ts tys,
  AntlrProofs.tokens_ok ts -> antlr_types ts = Some tys ->
  (antlr_accepts_types tys = true <-> parse_tokens ts <> None).
Proof. exact AntlrProofs.antlr_accepts_iff_parse. Qed.
Print Assumptions C10_antlr_accepts_iff_parse.

Theorem C10_antlr_accepts_iff_parse_strong : forall ts tys,
  antlr_types ts = Some tys ->
  (antlr_accepts_types tys = true <-> parse_tokens ts <> None).
Proof. exact AntlrProofs.antlr_accepts_iff_parse_strong. Qed.
Print Assumptions C10_antlr_accepts_iff_parse_strong.

Theorem C10_antlr_accepts_types_spec : forall ts tys, antlr_types ts = Some tys ->
  antlr_accepts_types tys = match parse_tokens ts with Some _ => true | None => false end.
Proof. exact AntlrProofs.antlr_accepts_types_spec. Qed.
Print Assumptions C10_antlr_accepts_types_spec.

(* on strings: the three outcomes *)
Theorem C10_antlr_recognise_accept_iff : forall s,
  antlr_recognise s = AntlrAccept <-> exists ts a, lex_text s = Some ts /\ parse_tokens ts = Some a.
Proof. exact AntlrProofs.antlr_recognise_accept_iff. Qed.
Print Assumptions C10_antlr_recognise_accept_iff.

Theorem C10_antlr_recognise_lex_error_iff : forall s,
  antlr_recognise s = AntlrLexError <-> lex_text s = None.
Proof. exact AntlrProofs.antlr_recognise_lex_error_iff. Qed.
Print Assumptions C10_antlr_recognise_lex_error_iff.

Theorem C10_antlr_recognise_syntax_error_iff : forall s,
  antlr_recognise s = AntlrSyntaxError <-> exists ts, lex_text s = Some ts /\ parse_tokens ts = None.
Proof. exact AntlrProofs.antlr_recognise_syntax_error_iff. Qed.
Print Assumptions C10_antlr_recognise_syntax_error_iff.

(* the grammar *)
Theorem C10_antlr_recognise_iff_sentence : forall s,
  antlr_recognise s = AntlrAccept <-> exists ts a, lex_text s = Some ts /\ Sentence ts a.
Proof. exact AntlrProofs.antlr_recognise_iff_sentence. Qed.
Print Assumptions C10_antlr_recognise_iff_sentence.

Theorem C10_antlr_recognise_iff_sentence_string : forall s,
  antlr_recognise s = AntlrAccept <-> exists ts a, s = print_tokens ts /\ Sentence ts a.
Proof. exact AntlrProofs.antlr_recognise_iff_sentence_string. Qed.
Print Assumptions C10_antlr_recognise_iff_sentence_string.

Theorem C10_antlr_recognise_syntax_error_iff_no_sentence : forall s,
  antlr_recognise s = AntlrSyntaxError <-> exists ts, lex_text s = Some ts /\ forall a, ~ Sentence ts a.
Proof. exact AntlrProofs.antlr_recognise_syntax_error_iff_no_sentence. Qed.
Print Assumptions C10_antlr_recognise_syntax_error_iff_no_sentence.

(* against the reference reader, which adds the listener's checks *)
Theorem C10_antlr_ref_parse_accepts : forall s g, ref_parse s = inr g -> antlr_recognise s = AntlrAccept.
Proof. exact AntlrProofs.ref_parse_accepts_antlr_accepts. Qed.
Print Assumptions C10_antlr_ref_parse_accepts.

Theorem C10_antlr_rejects_ref_parse_rejects : forall s, antlr_recognise s <> AntlrAccept ->
  ref_parse s = inl ELex \/ ref_parse s = inl ESyntax.
Proof. exact AntlrProofs.antlr_rejects_ref_parse_rejects. Qed.
Print Assumptions C10_antlr_rejects_ref_parse_rejects.

Theorem C10_antlr_lex_error_iff_ref_parse : forall s,
  antlr_recognise s = AntlrLexError <-> ref_parse s = inl ELex.
Proof. exact AntlrProofs.antlr_lex_error_iff_ref_parse. Qed.
Print Assumptions C10_antlr_lex_error_iff_ref_parse.

Theorem C10_antlr_syntax_error_iff_ref_parse : forall s,
  antlr_recognise s = AntlrSyntaxError <-> ref_parse s = inl ESyntax.
Proof. exact AntlrProofs.antlr_syntax_error_iff_ref_parse. Qed.
Print Assumptions C10_antlr_syntax_error_iff_ref_parse.

Theorem C10_antlr_accept_iff_ref_parse : forall s,
  antlr_recognise s = AntlrAccept <->
  (exists g, ref_parse s = inr g) \/
  (exists e, ref_parse s = inl e /\ (e = ESelfLoop \/ e = EBadIndex \/ e = EDupAttr)).
Proof. exact AntlrProofs.antlr_accept_iff_ref_parse. Qed.
Print Assumptions C10_antlr_accept_iff_ref_parse.

(* non-vacuity: accepted, rejected by the listener only, syntax errors, lexical errors *)
Theorem C10_antlr_examples :
  antlr_recognise (t "C2H6O/(1-7)(2-7)(3-7)(4-8)(5-8)(6-9)(7-8)(8-9)") = AntlrAccept /\
  antlr_recognise (t "CH4/(1-5)(2-5)(3-5)(4-5)/(5:mass=13,rad=2)") = AntlrAccept /\
  antlr_recognise (t "/") = AntlrAccept /\
  antlr_recognise (t "C2//") = AntlrAccept /\
  antlr_recognise (t "CH4/(1-1)") = AntlrAccept /\
  antlr_recognise (t "HC/") = AntlrSyntaxError /\
  antlr_recognise (t "C1/") = AntlrSyntaxError /\
  antlr_recognise (t "CHeH/") = AntlrSyntaxError /\
  antlr_recognise (t "C2/(1-2") = AntlrSyntaxError /\
  antlr_recognise (t "") = AntlrSyntaxError /\
  antlr_recognise (t "Xx") = AntlrLexError /\
  antlr_recognise (t "C02/") = AntlrLexError.
Proof.
  exact (conj (proj1 AntlrProofs.ex_antlr_ethanol) (conj (proj1 AntlrProofs.ex_antlr_attrs)
        (conj (proj1 AntlrProofs.ex_antlr_empty_molecule) (conj (proj1 AntlrProofs.ex_antlr_empty_attrs)
        (conj (proj1 AntlrProofs.ex_antlr_self_loop) (conj (proj1 AntlrProofs.ex_antlr_not_hill)
        (conj (proj1 AntlrProofs.ex_antlr_count_one) (conj (proj1 AntlrProofs.ex_antlr_wrong_order)
        (conj (proj1 AntlrProofs.ex_antlr_open_tuple) (conj (proj1 AntlrProofs.ex_antlr_empty_string)
        (conj (proj1 AntlrProofs.ex_antlr_unknown_element) (proj1 AntlrProofs.ex_antlr_leading_zero)))))))))))).
Qed.
Print Assumptions C10_antlr_examples.

(* ---- the ANTLR-generated LEXER ----
   tucanLexer.py carries its automaton as a serialized ATN; harness/gen_antlr_lexer.py deserialises it with the
   ANTLR runtime and dumps it into gen/AntlrLexer.v; Model/AntlrLex.v gives it meaning (epsilon closure, maximal
   munch, the first rule wins, an error when no rule matches).  The theorems below say that, for EVERY text, this
   automaton emits exactly the token types of the model lexer `Parse.lex_text` and fails exactly when it fails, so
   that generated lexer + generated parser accept exactly the sentences of the grammar.  The generated automaton
   enters only through the computed side conditions of Proofs/AntlrLexProofs.v (lexer_translated_ok,
   lexer_rule_types_match, lexer_dead_ok, lexer_numerals_ok, lexer_symbols_ok, lexer_punct_ok, lexer_keywords_ok)
   and of Proofs/AntlrLexFuel.v (lexer_fuel_ok). *)
Require AntlrLex AntlrLexer AntlrLexGeneric AntlrLexProofs AntlrLexFuel.
Import AntlrLex.

(* side conditions, restated so that their assumptions are printed with the property *)
Theorem C10_antlr_lex_translated : AntlrLexer.lexer_translated = true.
Proof. exact AntlrLexProofs.lexer_translated_ok. Qed.
Print Assumptions C10_antlr_lex_translated.

Theorem C10_antlr_lex_rule_types_match :
  map snd AntlrLexer.lexer_accept = map fst Antlr.antlr_literals ++ map fst Antlr.antlr_symbolic.
Proof. exact AntlrLexProofs.lexer_rule_types_match. Qed.
Print Assumptions C10_antlr_lex_rule_types_match.

Theorem C10_antlr_lex_side_conditions :
  AntlrLexGeneric.dead_check AntlrLexer.lexer_edges lexer_cfuel AntlrLexProofs.lexer_init = true /\
  AntlrLexGeneric.numerals_check AntlrLexer.lexer_edges AntlrLexer.lexer_accept lexer_cfuel
    AntlrLexProofs.lexer_init AntlrLexProofs.lexer_loop = true /\
  AntlrLexGeneric.symbols_check AntlrLexer.lexer_edges AntlrLexer.lexer_accept lexer_cfuel AntlrLexProofs.lexer_init = true /\
  AntlrLexGeneric.punct_check AntlrLexer.lexer_edges AntlrLexer.lexer_accept lexer_cfuel AntlrLexProofs.lexer_init = true /\
  AntlrLexGeneric.keywords_check AntlrLexer.lexer_edges AntlrLexer.lexer_accept lexer_cfuel AntlrLexProofs.lexer_init = true.
Proof.
  exact (conj AntlrLexProofs.lexer_dead_ok (conj AntlrLexProofs.lexer_numerals_ok (conj AntlrLexProofs.lexer_symbols_ok
        (conj AntlrLexProofs.lexer_punct_ok AntlrLexProofs.lexer_keywords_ok)))).
Qed.
Print Assumptions C10_antlr_lex_side_conditions.

(* the closure fuel never runs out: every set of automaton states computed along any text is closed under epsilon *)
Theorem C10_antlr_lex_fuel :
  AntlrLexFuel.fuel_check AntlrLexer.lexer_edges lexer_cfuel AntlrLexer.lexer_start AntlrLexFuel.lexer_sets = true.
Proof. exact AntlrLexFuel.lexer_fuel_ok. Qed.
Print Assumptions C10_antlr_lex_fuel.

Theorem C10_antlr_lex_sets_closed : forall l : text,
  AntlrLexFuel.eps_closed AntlrLexer.lexer_edges
    (AntlrLexFuel.run AntlrLexer.lexer_edges lexer_cfuel
       (clos AntlrLexer.lexer_edges lexer_cfuel [AntlrLexer.lexer_start]) l) = true.
Proof. exact AntlrLexFuel.antlr_lex_sets_closed. Qed.
Print Assumptions C10_antlr_lex_sets_closed.

(* one maximal-munch step (longest match, first rule wins) = one step of the model lexer *)
Theorem C10_antlr_lex_step : forall l : text,
  lex1_nfa AntlrLexer.lexer_edges AntlrLexer.lexer_accept lexer_cfuel AntlrLexProofs.lexer_init l =
  match lex1 l with
  | Some (k, rest) => match antlr_type k with Some ty => Some (ty, rest) | None => None end
  | None => None
  end.
Proof. exact AntlrLexProofs.antlr_lex1_spec. Qed.
Print Assumptions C10_antlr_lex_step.

(* MAIN: for every text the generated lexer emits the token types of the model lexer, and fails when it fails *)
Theorem C10_antlr_lex_spec : forall s : text,
  antlr_lex s = match lex_text s with Some ts => antlr_types ts | None => None end.
Proof. exact AntlrLexProofs.antlr_lex_spec. Qed.
Print Assumptions C10_antlr_lex_spec.

Theorem C10_antlr_lex_of_lex_text : forall s ts, lex_text s = Some ts ->
  exists tys, antlr_lex s = Some tys /\ antlr_types ts = Some tys.
Proof. exact AntlrLexProofs.antlr_lex_of_lex_text. Qed.
Print Assumptions C10_antlr_lex_of_lex_text.

Theorem C10_antlr_lex_some_iff : forall s tys,
  antlr_lex s = Some tys <-> exists ts, lex_text s = Some ts /\ antlr_types ts = Some tys.
Proof. exact AntlrLexProofs.antlr_lex_some_iff. Qed.
Print Assumptions C10_antlr_lex_some_iff.

Theorem C10_antlr_lex_error_iff : forall s, antlr_lex s = None <-> lex_text s = None.
Proof. exact AntlrLexProofs.antlr_lex_error_iff. Qed.
Print Assumptions C10_antlr_lex_error_iff.

Theorem C10_antlr_lex_spells : forall s tys, antlr_lex s = Some tys ->
  exists ts, s = print_tokens ts /\ AntlrProofs.tokens_ok ts /\ antlr_types ts = Some tys.
Proof. exact AntlrLexProofs.antlr_lex_spells. Qed.
Print Assumptions C10_antlr_lex_spells.

(* end to end: generated lexer, then generated parser *)
Theorem C10_antlr_lex_recognise_nfa_def : forall s,
  AntlrLexProofs.antlr_recognise_nfa s =
  match antlr_lex s with
  | None => AntlrLexError
  | Some tys => if antlr_accepts_types tys then AntlrAccept else AntlrSyntaxError
  end.
Proof. intros s. reflexivity. Qed.
Print Assumptions C10_antlr_lex_recognise_nfa_def.

Theorem C10_antlr_lex_recognise_nfa_eq : forall s, AntlrLexProofs.antlr_recognise_nfa s = antlr_recognise s.
Proof. exact AntlrLexProofs.antlr_recognise_nfa_eq. Qed.
Print Assumptions C10_antlr_lex_recognise_nfa_eq.

Theorem C10_antlr_lex_recognise_nfa_iff_sentence_string : forall s,
  AntlrLexProofs.antlr_recognise_nfa s = AntlrAccept <-> exists ts a, s = print_tokens ts /\ Sentence ts a.
Proof. exact AntlrLexProofs.antlr_recognise_nfa_iff_sentence_string. Qed.
Print Assumptions C10_antlr_lex_recognise_nfa_iff_sentence_string.

Theorem C10_antlr_lex_recognise_nfa_iff_sentence : forall s,
  AntlrLexProofs.antlr_recognise_nfa s = AntlrAccept <-> exists ts a, lex_text s = Some ts /\ Sentence ts a.
Proof. exact AntlrLexProofs.antlr_recognise_nfa_iff_sentence. Qed.
Print Assumptions C10_antlr_lex_recognise_nfa_iff_sentence.

Theorem C10_antlr_lex_recognise_nfa_lex_error_iff : forall s,
  AntlrLexProofs.antlr_recognise_nfa s = AntlrLexError <-> lex_text s = None.
Proof. exact AntlrLexProofs.antlr_recognise_nfa_lex_error_iff. Qed.
Print Assumptions C10_antlr_lex_recognise_nfa_lex_error_iff.

Theorem C10_antlr_lex_recognise_nfa_syntax_error_iff : forall s,
  AntlrLexProofs.antlr_recognise_nfa s = AntlrSyntaxError <->
  exists ts, lex_text s = Some ts /\ forall a, ~ Sentence ts a.
Proof. exact AntlrLexProofs.antlr_recognise_nfa_syntax_error_iff. Qed.
Print Assumptions C10_antlr_lex_recognise_nfa_syntax_error_iff.

Theorem C10_antlr_lex_recognise_nfa_accept_iff_ref_parse : forall s,
  AntlrLexProofs.antlr_recognise_nfa s = AntlrAccept <->
  (exists g, ref_parse s = inr g) \/
  (exists e, ref_parse s = inl e /\ (e = ESelfLoop \/ e = EBadIndex \/ e = EDupAttr)).
Proof. exact AntlrLexProofs.antlr_recognise_nfa_accept_iff_ref_parse. Qed.
Print Assumptions C10_antlr_lex_recognise_nfa_accept_iff_ref_parse.

(* non-vacuity: the automaton is run on texts and compared with the model lexer *)
Theorem C10_antlr_lex_examples :
  antlr_lex (t "C2H6O/(1-7)(2-7)") = AntlrLexProofs.model_types (t "C2H6O/(1-7)(2-7)") /\
  option_map (@length Z) (antlr_lex (t "C2H6O/(1-7)(2-7)")) = Some 16%nat /\
  antlr_lex (t "ClH/(10-200)") = AntlrLexProofs.model_types (t "ClH/(10-200)") /\
  option_map (@length Z) (antlr_lex (t "ClH/(10-200)")) = Some 8%nat /\
  antlr_lex (t "CHe/") = AntlrLexProofs.model_types (t "CHe/") /\
  option_map (@length Z) (antlr_lex (t "CHe/")) = Some 3%nat /\
  antlr_lex (t "radmass=13") = AntlrLexProofs.model_types (t "radmass=13") /\
  option_map (@length Z) (antlr_lex (t "radmass=13")) = Some 4%nat /\
  (antlr_lex (t "C01/") = None /\ lex_text (t "C01/") = None) /\
  (antlr_lex (t "Xx") = None /\ lex_text (t "Xx") = None) /\
  (antlr_lex (t "") = Some [] /\ lex_text (t "") = Some []) /\
  AntlrLexProofs.antlr_recognise_nfa (t "C2H6O/(1-7)(2-7)") = AntlrAccept /\
  AntlrLexProofs.antlr_recognise_nfa (t "HC/") = AntlrSyntaxError /\
  AntlrLexProofs.antlr_recognise_nfa (t "C01/") = AntlrLexError.
Proof.
  exact (conj (proj1 AntlrLexProofs.ex_lex_ethanol) (conj (proj2 AntlrLexProofs.ex_lex_ethanol)
        (conj (proj1 AntlrLexProofs.ex_lex_big_numbers) (conj (proj2 AntlrLexProofs.ex_lex_big_numbers)
        (conj (proj1 AntlrLexProofs.ex_lex_helium) (conj (proj2 AntlrLexProofs.ex_lex_helium)
        (conj (proj1 AntlrLexProofs.ex_lex_keywords) (conj (proj2 AntlrLexProofs.ex_lex_keywords)
        (conj AntlrLexProofs.ex_lex_leading_zero (conj AntlrLexProofs.ex_lex_unknown_element
        (conj AntlrLexProofs.ex_lex_empty AntlrLexProofs.ex_recognise_nfa))))))))))).
Qed.
Print Assumptions C10_antlr_lex_examples.
