(* C08 -- a molecule written as a V2000 connection table is read as the same atoms, charges,
   radicals, isotope masses, bonds and bond types as its V3000 rendering.  This file states the
   V2000 half: for every abstract molecule M (okM2000: <= 999 atoms and bonds, symbols of the
   element table incl. D/T, coordinate fields of width 10, bond endpoints in range and different
   from each other -- the reader rejects a bond from an atom to itself --, no repeated
   ordered endpoint pair) and every spec-conformant V2000 rendering of it -- all choices the
   format leaves open are collected in [ch : choices], their side conditions in okch2000
   (ok_item: no negative value on an M  RAD / M  ISO line, which the reader rejects) --
   the executable model of io/molfile_v2000_reader.py returns exactly [expected2000 M]:
   atom i with r_idx = i, symbol / atomic number / charge / mass / radical as stated (D, T -> H with
   mass 2, 3), and bonds (u-1, v-1, type).  The composition with the V3000 half
   (Proofs/V3000Render.v) goes through [C08_v2000_v3000_agree].
   Statements only; definitions and proofs are in Proofs/V2000Render.v. *)
From Coq Require Import String Permutation.
Require Import Base Mol Text Molfile V2000 V2000Render.
Require ParamsSpec.   (* regenerated source constants still match what the model hard-codes *)
Require Params Writer V3000.

(* ---- 1. fixed-width fields ---- *)
Theorem C08_to_int_rjust : forall (w : nat) (v : Z), to_int (rjust w (text_of_Z v)) = ok v.
Proof. exact to_int_rjust. Qed.
Print Assumptions C08_to_int_rjust.

Theorem C08_rjust_length : forall (w : nat) (s : text), length s <= w -> length (rjust w s) = w.
Proof. exact rjust_length. Qed.
Print Assumptions C08_rjust_length.

Theorem C08_fits3_range : forall v : Z, (-99 <= v <= 999)%Z -> length (text_of_Z v) <= 3.
Proof. exact fits3_range. Qed.
Print Assumptions C08_fits3_range.

Theorem C08_to_int_blanks : forall w : nat, to_int (blanks w) = ok 0%Z.
Proof. exact to_int_blanks. Qed.
Print Assumptions C08_to_int_blanks.

Theorem C08_slice_field : forall (a b : nat) (pre field post : text),
  length pre = a -> length field = b - a -> slice a b (pre ++ field ++ post) = field.
Proof. exact slice_field. Qed.
Print Assumptions C08_slice_field.

(* ---- 2. the main theorem: every rendering is read back as the molecule ---- *)
Theorem C08_read_v2000_render : forall (M : mol2) (ch : choices),
  okM2000 M -> okch2000 M ch -> read_v2000 (render2000 M ch) = ok (expected2000 M).
Proof. exact read_v2000_render. Qed.
Print Assumptions C08_read_v2000_render.

(* the same with "entries distributed over the lines in any grouping and any order" spelled out
   as permutations of the entries the molecule requires *)
Theorem C08_read_v2000_render_grouped : forall (M : mol2) (ch : choices),
  okM2000 M -> okch2000_grouped M ch -> read_v2000 (render2000 M ch) = ok (expected2000 M).
Proof. exact read_v2000_render_grouped. Qed.
Print Assumptions C08_read_v2000_render_grouped.

Theorem C08_grouping_states : forall (k : pkind) (M : mol2) (items : list pitem) (i : N) (a : atom2),
  Permutation (raw k items) (stated k M) ->
  In (i, a) (enumerate_from 0 (m_atoms M)) ->
  nz (lastv (ents k items) (Z.of_N i)) = nzz (kval k a).
Proof. exact grouping_states. Qed.
Print Assumptions C08_grouping_states.

(* from the text of the file: str.splitlines, version dispatch on the counts line, reader, graph *)
Theorem C08_read_molfile_render : forall (M : mol2) (ch : choices) (crest : text),
  okM2000 M -> okch2000 M ch ->
  c_crest ch = crest ++ t " V2000" ->
  Forall WriterProofs.nolb (render2000 M ch) -> last (render2000 M ch) [] <> [] ->
  read_molfile (join_with [Writer.nl] (render2000 M ch)) = ok (graph2000 M).
Proof. exact read_molfile_render. Qed.
Print Assumptions C08_read_molfile_render.

(* ---- 3. corollaries named in the property ---- *)
(* independence of everything the format leaves open *)
Theorem C08_render_choice_independent : forall (M : mol2) (ch1 ch2 : choices),
  okM2000 M -> okch2000 M ch1 -> okch2000 M ch2 ->
  read_v2000 (render2000 M ch1) = read_v2000 (render2000 M ch2).
Proof. exact render_choice_independent. Qed.
Print Assumptions C08_render_choice_independent.

(* M  CHG / M  RAD lines, when present, supersede all atom-block charge codes *)
Theorem C08_chg_rad_lines_supersede_codes : forall (M : mol2) (ch : choices) (codes : N -> Z),
  okM2000 M -> okch2000 M ch -> has_chgrad (c_items ch) = true -> (forall i, in3 (codes i)) ->
  read_v2000 (render2000 M (with_codes ch codes)) = ok (expected2000 M).
Proof. exact chg_rad_lines_supersede_codes. Qed.
Print Assumptions C08_chg_rad_lines_supersede_codes.

(* the charge-code table covers the charges -3..3 and the doublet radical *)
Theorem C08_code_table_complete :
  (forall c, (-3 <= c <= 3)%Z -> exists k, (0 <= k <= 7)%Z /\ chg_of_code k = nzz c /\ rad_of_code k = None) /\
  (chg_of_code 4 = None /\ rad_of_code 4 = Some 2%Z).
Proof. exact code_table_complete. Qed.
Print Assumptions C08_code_table_complete.

(* entry i of a property line -- any i, in particular 0..7 -- sits in columns [10+8i, 13+8i) and
   [14+8i, 17+8i) and decodes to its atom number and value *)
Theorem C08_entry_columns : forall (n : nat), n <= 999 ->
  forall (k : pkind) (es : list (Z * Z)) (rest : text) (i : nat) (e : Z * Z),
  length es <= 999 -> Forall (ok_entry n) es -> nth_error es i = Some e ->
  Params.v2000_tuple_offset = 10 /\ Params.v2000_tuple_length = 8 /\
  to_int (slice (10 + 8 * i) (13 + 8 * i) (prop_line k es rest)) = ok (fst e) /\
  to_int (slice (14 + 8 * i) (17 + 8 * i) (prop_line k es rest)) = ok (snd e).
Proof. exact entry_columns. Qed.
Print Assumptions C08_entry_columns.

Theorem C08_parse_assignments_render : forall (n : nat), n <= 999 ->
  forall (k : pkind) (es : list (Z * Z)) (rest : text),
  length es <= 999 -> Forall (ok_entry n) es ->
  parse_assignments n (prop_line k es rest) = ok (map dec es).
Proof. exact parse_assignments_render. Qed.
Print Assumptions C08_parse_assignments_render.

(* the property block as a whole: unrelated lines and A  / G  pairs are skipped, the last entry
   of a kind naming an atom wins *)
Theorem C08_attribute_block_render : forall (n : nat), n <= 999 ->
  forall (items : list pitem) (trailer : list text) (d : list (Z * extra)) (reset : bool),
  Forall (ok_item n) items ->
  attribute_block n (flat_map item_lines items ++ [m_end] ++ trailer) d reset
  = ok (final_dict items d, reset || has_chgrad items).
Proof. exact attribute_block_render. Qed.
Print Assumptions C08_attribute_block_render.

Theorem C08_final_dict_fld : forall (k : pkind) (items : list pitem) (d : list (Z * extra)) (a : Z),
  fld k (getx a (final_dict items d))
  = match lastv (ents k items) a with Some v => Some v | None => fld k (getx a d) end.
Proof. exact final_dict_fld. Qed.
Print Assumptions C08_final_dict_fld.

(* D and T keep denoting hydrogen-2 / hydrogen-3 whatever other property lines exist *)
Theorem C08_read_D_T : forall (M : mol2) (ch : choices) (i : N) (a : atom2),
  okM2000 M -> okch2000 M ch -> In (i, a) (enumerate_from 0 (m_atoms M)) ->
  (a_sym a = t "D" \/ a_sym a = t "T") ->
  exists ats bds ra, read_v2000 (render2000 M ch) = ok (ats, bds) /\ In ra ats /\
    r_idx ra = Z.of_N i /\ r_sym ra = t "H" /\
    r_mass ra = (if Z.eqb (a_mass a) 0 then (if text_eqb (a_sym a) (t "D") then Some 2%Z else Some 3%Z)
                 else Some (a_mass a)).
Proof. exact read_D_T. Qed.
Print Assumptions C08_read_D_T.

(* ---- 4. agreement with V3000: the half that composes ---- *)
Theorem C08_graph_from_molecule_expected : forall M : mol2, okM2000 M ->
  graph_from_molecule (fst (expected2000 M)) (snd (expected2000 M)) = ok (graph2000 M).
Proof. exact graph_from_molecule_expected. Qed.
Print Assumptions C08_graph_from_molecule_expected.

Theorem C08_graph2000_labels : forall M : mol2, labels (graph2000 M) = N_seq 0 (length (m_atoms M)).
Proof. exact graph2000_labels. Qed.
Print Assumptions C08_graph2000_labels.

Theorem C08_v2000_v3000_agree : forall (M : mol2) (ch : choices) (lines3 : list text),
  okM2000 M -> okch2000 M ch ->
  V3000.read_v3000 lines3 = ok (expected2000 M) ->
  read_v2000 (render2000 M ch) = V3000.read_v3000 lines3 /\
  (do ab <- read_v2000 (render2000 M ch); graph_from_molecule (fst ab) (snd ab)) = ok (graph2000 M) /\
  (do ab <- V3000.read_v3000 lines3; graph_from_molecule (fst ab) (snd ab)) = ok (graph2000 M).
Proof. exact v2000_v3000_agree. Qed.
Print Assumptions C08_v2000_v3000_agree.

(* ---- 5. non-vacuity ---- *)
(* every molecule whose values fit three columns (bounded; radical and mass not negative: a negative
   one cannot be written in a file the reader accepts) has a rendering satisfying the hypotheses *)
Theorem C08_every_molecule_has_a_rendering : forall M : mol2, okM2000 M -> bounded M ->
  exists ch, okch2000 M ch /\ read_v2000 (render2000 M ch) = ok (expected2000 M).
Proof. exact every_molecule_has_a_rendering. Qed.
Print Assumptions C08_every_molecule_has_a_rendering.

(* a concrete molecule (13C, O-, D, 14C radical) in two renderings: property lines with a stale
   code and an alias pair spelling "M  ISO  1   1  77"; charge codes 5 and 4 with an atom list *)
Theorem C08_example_okM : okM2000 Example.exM.
Proof. exact Example.exM_ok. Qed.
Print Assumptions C08_example_okM.

Theorem C08_example_okch_A : okch2000 Example.exM Example.exA.
Proof. exact Example.exA_ok. Qed.
Print Assumptions C08_example_okch_A.

Theorem C08_example_okch_B : okch2000 Example.exM Example.exB.
Proof. exact Example.exB_ok. Qed.
Print Assumptions C08_example_okch_B.

Theorem C08_example_read_A : read_v2000 (render2000 Example.exM Example.exA) = ok (expected2000 Example.exM).
Proof. exact Example.exA_read. Qed.
Print Assumptions C08_example_read_A.

Theorem C08_example_read_B : read_v2000 (render2000 Example.exM Example.exB) = ok (expected2000 Example.exM).
Proof. exact Example.exB_read. Qed.
Print Assumptions C08_example_read_B.

Theorem C08_example_molfile :
  read_molfile (join_with [Writer.nl] (render2000 Example.exM Example.exA)) = ok (graph2000 Example.exM).
Proof. exact Example.exA_molfile. Qed.
Print Assumptions C08_example_molfile.
