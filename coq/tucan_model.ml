
(** val negb : bool -> bool **)

let negb = function
| true -> false
| false -> true

type nat =
| O
| S of nat

(** val option_map : ('a1 -> 'a2) -> 'a1 option -> 'a2 option **)

let option_map f = function
| Some a -> Some (f a)
| None -> None

type ('a, 'b) sum =
| Inl of 'a
| Inr of 'b

(** val fst : ('a1 * 'a2) -> 'a1 **)

let fst = function
| (x, _) -> x

(** val snd : ('a1 * 'a2) -> 'a2 **)

let snd = function
| (_, y) -> y

(** val length : 'a1 list -> nat **)

let rec length = function
| [] -> O
| _ :: l' -> S (length l')

(** val app : 'a1 list -> 'a1 list -> 'a1 list **)

let rec app l m =
  match l with
  | [] -> m
  | a :: l1 -> a :: (app l1 m)

type comparison =
| Eq
| Lt
| Gt

(** val compOpp : comparison -> comparison **)

let compOpp = function
| Eq -> Eq
| Lt -> Gt
| Gt -> Lt

type uint =
| Nil
| D0 of uint
| D1 of uint
| D2 of uint
| D3 of uint
| D4 of uint
| D5 of uint
| D6 of uint
| D7 of uint
| D8 of uint
| D9 of uint

type signed_int =
| Pos of uint
| Neg of uint

(** val revapp : uint -> uint -> uint **)

let rec revapp d d' =
  match d with
  | Nil -> d'
  | D0 d0 -> revapp d0 (D0 d')
  | D1 d0 -> revapp d0 (D1 d')
  | D2 d0 -> revapp d0 (D2 d')
  | D3 d0 -> revapp d0 (D3 d')
  | D4 d0 -> revapp d0 (D4 d')
  | D5 d0 -> revapp d0 (D5 d')
  | D6 d0 -> revapp d0 (D6 d')
  | D7 d0 -> revapp d0 (D7 d')
  | D8 d0 -> revapp d0 (D8 d')
  | D9 d0 -> revapp d0 (D9 d')

(** val rev : uint -> uint **)

let rev d =
  revapp d Nil

module Little =
 struct
  (** val double : uint -> uint **)

  let rec double = function
  | Nil -> Nil
  | D0 d0 -> D0 (double d0)
  | D1 d0 -> D2 (double d0)
  | D2 d0 -> D4 (double d0)
  | D3 d0 -> D6 (double d0)
  | D4 d0 -> D8 (double d0)
  | D5 d0 -> D0 (succ_double d0)
  | D6 d0 -> D2 (succ_double d0)
  | D7 d0 -> D4 (succ_double d0)
  | D8 d0 -> D6 (succ_double d0)
  | D9 d0 -> D8 (succ_double d0)

  (** val succ_double : uint -> uint **)

  and succ_double = function
  | Nil -> D1 Nil
  | D0 d0 -> D1 (double d0)
  | D1 d0 -> D3 (double d0)
  | D2 d0 -> D5 (double d0)
  | D3 d0 -> D7 (double d0)
  | D4 d0 -> D9 (double d0)
  | D5 d0 -> D1 (succ_double d0)
  | D6 d0 -> D3 (succ_double d0)
  | D7 d0 -> D5 (succ_double d0)
  | D8 d0 -> D7 (succ_double d0)
  | D9 d0 -> D9 (succ_double d0)
 end

module Coq__1 = struct
 (** val add : nat -> nat -> nat **)
 let rec add n0 m =
   match n0 with
   | O -> m
   | S p -> S (add p m)
end
include Coq__1

(** val mul : nat -> nat -> nat **)

let rec mul n0 m =
  match n0 with
  | O -> O
  | S p -> add m (mul p m)

(** val sub : nat -> nat -> nat **)

let rec sub n0 m =
  match n0 with
  | O -> n0
  | S k -> (match m with
            | O -> n0
            | S l -> sub k l)

module Nat =
 struct
  (** val eqb : nat -> nat -> bool **)

  let rec eqb n0 m =
    match n0 with
    | O -> (match m with
            | O -> true
            | S _ -> false)
    | S n' -> (match m with
               | O -> false
               | S m' -> eqb n' m')

  (** val leb : nat -> nat -> bool **)

  let rec leb n0 m =
    match n0 with
    | O -> true
    | S n' -> (match m with
               | O -> false
               | S m' -> leb n' m')

  (** val ltb : nat -> nat -> bool **)

  let ltb n0 m =
    leb (S n0) m
 end

(** val nth : nat -> 'a1 list -> 'a1 -> 'a1 **)

let rec nth n0 l default =
  match n0 with
  | O -> (match l with
          | [] -> default
          | x :: _ -> x)
  | S m -> (match l with
            | [] -> default
            | _ :: t0 -> nth m t0 default)

(** val last : 'a1 list -> 'a1 -> 'a1 **)

let rec last l d =
  match l with
  | [] -> d
  | a :: l0 -> (match l0 with
                | [] -> a
                | _ :: _ -> last l0 d)

(** val removelast : 'a1 list -> 'a1 list **)

let rec removelast = function
| [] -> []
| a :: l0 -> (match l0 with
              | [] -> []
              | _ :: _ -> a :: (removelast l0))

(** val rev0 : 'a1 list -> 'a1 list **)

let rec rev0 = function
| [] -> []
| x :: l' -> app (rev0 l') (x :: [])

(** val map : ('a1 -> 'a2) -> 'a1 list -> 'a2 list **)

let rec map f = function
| [] -> []
| a :: t0 -> (f a) :: (map f t0)

(** val flat_map : ('a1 -> 'a2 list) -> 'a1 list -> 'a2 list **)

let rec flat_map f = function
| [] -> []
| x :: t0 -> app (f x) (flat_map f t0)

(** val fold_left : ('a1 -> 'a2 -> 'a1) -> 'a2 list -> 'a1 -> 'a1 **)

let rec fold_left f l a0 =
  match l with
  | [] -> a0
  | b :: t0 -> fold_left f t0 (f a0 b)

(** val fold_right : ('a2 -> 'a1 -> 'a1) -> 'a1 -> 'a2 list -> 'a1 **)

let rec fold_right f a0 = function
| [] -> a0
| b :: t0 -> f b (fold_right f a0 t0)

(** val existsb : ('a1 -> bool) -> 'a1 list -> bool **)

let rec existsb f = function
| [] -> false
| a :: l0 -> (||) (f a) (existsb f l0)

(** val forallb : ('a1 -> bool) -> 'a1 list -> bool **)

let rec forallb f = function
| [] -> true
| a :: l0 -> (&&) (f a) (forallb f l0)

(** val filter : ('a1 -> bool) -> 'a1 list -> 'a1 list **)

let rec filter f = function
| [] -> []
| x :: l0 -> if f x then x :: (filter f l0) else filter f l0

(** val combine : 'a1 list -> 'a2 list -> ('a1 * 'a2) list **)

let rec combine l l' =
  match l with
  | [] -> []
  | x :: tl ->
    (match l' with
     | [] -> []
     | y :: tl' -> (x, y) :: (combine tl tl'))

(** val firstn : nat -> 'a1 list -> 'a1 list **)

let rec firstn n0 l =
  match n0 with
  | O -> []
  | S n1 -> (match l with
             | [] -> []
             | a :: l0 -> a :: (firstn n1 l0))

(** val skipn : nat -> 'a1 list -> 'a1 list **)

let rec skipn n0 l =
  match n0 with
  | O -> l
  | S n1 -> (match l with
             | [] -> []
             | _ :: l0 -> skipn n1 l0)

(** val repeat : 'a1 -> nat -> 'a1 list **)

let rec repeat x = function
| O -> []
| S k -> x :: (repeat x k)

type positive =
| XI of positive
| XO of positive
| XH

type n =
| N0
| Npos of positive

type z =
| Z0
| Zpos of positive
| Zneg of positive

module Pos =
 struct
  type mask =
  | IsNul
  | IsPos of positive
  | IsNeg
 end

module Coq_Pos =
 struct
  (** val succ : positive -> positive **)

  let rec succ = function
  | XI p -> XO (succ p)
  | XO p -> XI p
  | XH -> XO XH

  (** val add : positive -> positive -> positive **)

  let rec add x y =
    match x with
    | XI p ->
      (match y with
       | XI q -> XO (add_carry p q)
       | XO q -> XI (add p q)
       | XH -> XO (succ p))
    | XO p ->
      (match y with
       | XI q -> XI (add p q)
       | XO q -> XO (add p q)
       | XH -> XI p)
    | XH -> (match y with
             | XI q -> XO (succ q)
             | XO q -> XI q
             | XH -> XO XH)

  (** val add_carry : positive -> positive -> positive **)

  and add_carry x y =
    match x with
    | XI p ->
      (match y with
       | XI q -> XI (add_carry p q)
       | XO q -> XO (add_carry p q)
       | XH -> XI (succ p))
    | XO p ->
      (match y with
       | XI q -> XO (add_carry p q)
       | XO q -> XI (add p q)
       | XH -> XO (succ p))
    | XH ->
      (match y with
       | XI q -> XI (succ q)
       | XO q -> XO (succ q)
       | XH -> XI XH)

  (** val pred_double : positive -> positive **)

  let rec pred_double = function
  | XI p -> XI (XO p)
  | XO p -> XI (pred_double p)
  | XH -> XH

  type mask = Pos.mask =
  | IsNul
  | IsPos of positive
  | IsNeg

  (** val succ_double_mask : mask -> mask **)

  let succ_double_mask = function
  | IsNul -> IsPos XH
  | IsPos p -> IsPos (XI p)
  | IsNeg -> IsNeg

  (** val double_mask : mask -> mask **)

  let double_mask = function
  | IsPos p -> IsPos (XO p)
  | x0 -> x0

  (** val double_pred_mask : positive -> mask **)

  let double_pred_mask = function
  | XI p -> IsPos (XO (XO p))
  | XO p -> IsPos (XO (pred_double p))
  | XH -> IsNul

  (** val sub_mask : positive -> positive -> mask **)

  let rec sub_mask x y =
    match x with
    | XI p ->
      (match y with
       | XI q -> double_mask (sub_mask p q)
       | XO q -> succ_double_mask (sub_mask p q)
       | XH -> IsPos (XO p))
    | XO p ->
      (match y with
       | XI q -> succ_double_mask (sub_mask_carry p q)
       | XO q -> double_mask (sub_mask p q)
       | XH -> IsPos (pred_double p))
    | XH -> (match y with
             | XH -> IsNul
             | _ -> IsNeg)

  (** val sub_mask_carry : positive -> positive -> mask **)

  and sub_mask_carry x y =
    match x with
    | XI p ->
      (match y with
       | XI q -> succ_double_mask (sub_mask_carry p q)
       | XO q -> double_mask (sub_mask p q)
       | XH -> IsPos (pred_double p))
    | XO p ->
      (match y with
       | XI q -> double_mask (sub_mask_carry p q)
       | XO q -> succ_double_mask (sub_mask_carry p q)
       | XH -> double_pred_mask p)
    | XH -> IsNeg

  (** val mul : positive -> positive -> positive **)

  let rec mul x y =
    match x with
    | XI p -> add y (XO (mul p y))
    | XO p -> XO (mul p y)
    | XH -> y

  (** val compare_cont : comparison -> positive -> positive -> comparison **)

  let rec compare_cont r x y =
    match x with
    | XI p ->
      (match y with
       | XI q -> compare_cont r p q
       | XO q -> compare_cont Gt p q
       | XH -> Gt)
    | XO p ->
      (match y with
       | XI q -> compare_cont Lt p q
       | XO q -> compare_cont r p q
       | XH -> Gt)
    | XH -> (match y with
             | XH -> r
             | _ -> Lt)

  (** val compare : positive -> positive -> comparison **)

  let compare =
    compare_cont Eq

  (** val eqb : positive -> positive -> bool **)

  let rec eqb p q =
    match p with
    | XI p0 -> (match q with
                | XI q0 -> eqb p0 q0
                | _ -> false)
    | XO p0 -> (match q with
                | XO q0 -> eqb p0 q0
                | _ -> false)
    | XH -> (match q with
             | XH -> true
             | _ -> false)

  (** val iter_op : ('a1 -> 'a1 -> 'a1) -> positive -> 'a1 -> 'a1 **)

  let rec iter_op op p a =
    match p with
    | XI p0 -> op a (iter_op op p0 (op a a))
    | XO p0 -> iter_op op p0 (op a a)
    | XH -> a

  (** val to_nat : positive -> nat **)

  let to_nat x =
    iter_op Coq__1.add x (S O)

  (** val of_succ_nat : nat -> positive **)

  let rec of_succ_nat = function
  | O -> XH
  | S x -> succ (of_succ_nat x)

  (** val to_little_uint : positive -> uint **)

  let rec to_little_uint = function
  | XI p0 -> Little.succ_double (to_little_uint p0)
  | XO p0 -> Little.double (to_little_uint p0)
  | XH -> D1 Nil

  (** val to_uint : positive -> uint **)

  let to_uint p =
    rev (to_little_uint p)
 end

module N =
 struct
  (** val succ : n -> n **)

  let succ = function
  | N0 -> Npos XH
  | Npos p -> Npos (Coq_Pos.succ p)

  (** val add : n -> n -> n **)

  let add n0 m =
    match n0 with
    | N0 -> m
    | Npos p -> (match m with
                 | N0 -> n0
                 | Npos q -> Npos (Coq_Pos.add p q))

  (** val sub : n -> n -> n **)

  let sub n0 m =
    match n0 with
    | N0 -> N0
    | Npos n' ->
      (match m with
       | N0 -> n0
       | Npos m' ->
         (match Coq_Pos.sub_mask n' m' with
          | Coq_Pos.IsPos p -> Npos p
          | _ -> N0))

  (** val mul : n -> n -> n **)

  let mul n0 m =
    match n0 with
    | N0 -> N0
    | Npos p -> (match m with
                 | N0 -> N0
                 | Npos q -> Npos (Coq_Pos.mul p q))

  (** val compare : n -> n -> comparison **)

  let compare n0 m =
    match n0 with
    | N0 -> (match m with
             | N0 -> Eq
             | Npos _ -> Lt)
    | Npos n' -> (match m with
                  | N0 -> Gt
                  | Npos m' -> Coq_Pos.compare n' m')

  (** val eqb : n -> n -> bool **)

  let eqb n0 m =
    match n0 with
    | N0 -> (match m with
             | N0 -> true
             | Npos _ -> false)
    | Npos p -> (match m with
                 | N0 -> false
                 | Npos q -> Coq_Pos.eqb p q)

  (** val leb : n -> n -> bool **)

  let leb x y =
    match compare x y with
    | Gt -> false
    | _ -> true

  (** val ltb : n -> n -> bool **)

  let ltb x y =
    match compare x y with
    | Lt -> true
    | _ -> false

  (** val max : n -> n -> n **)

  let max n0 n' =
    match compare n0 n' with
    | Gt -> n0
    | _ -> n'

  (** val of_nat : nat -> n **)

  let of_nat = function
  | O -> N0
  | S n' -> Npos (Coq_Pos.of_succ_nat n')

  (** val to_uint : n -> uint **)

  let to_uint = function
  | N0 -> D0 Nil
  | Npos p -> Coq_Pos.to_uint p
 end

type ascii =
| Ascii of bool * bool * bool * bool * bool * bool * bool * bool

(** val zero : ascii **)

let zero =
  Ascii (false, false, false, false, false, false, false, false)

(** val one : ascii **)

let one =
  Ascii (true, false, false, false, false, false, false, false)

(** val shift : bool -> ascii -> ascii **)

let shift c = function
| Ascii (a1, a2, a3, a4, a5, a6, a7, _) ->
  Ascii (c, a1, a2, a3, a4, a5, a6, a7)

(** val ascii_of_pos : positive -> ascii **)

let ascii_of_pos =
  let rec loop n0 p =
    match n0 with
    | O -> zero
    | S n' ->
      (match p with
       | XI p' -> shift true (loop n' p')
       | XO p' -> shift false (loop n' p')
       | XH -> one)
  in loop (S (S (S (S (S (S (S (S O))))))))

(** val ascii_of_N : n -> ascii **)

let ascii_of_N = function
| N0 -> zero
| Npos p -> ascii_of_pos p

(** val n_of_digits : bool list -> n **)

let rec n_of_digits = function
| [] -> N0
| b :: l' ->
  N.add (if b then Npos XH else N0) (N.mul (Npos (XO XH)) (n_of_digits l'))

(** val n_of_ascii : ascii -> n **)

let n_of_ascii = function
| Ascii (a0, a1, a2, a3, a4, a5, a6, a7) ->
  n_of_digits
    (a0 :: (a1 :: (a2 :: (a3 :: (a4 :: (a5 :: (a6 :: (a7 :: []))))))))

module Z =
 struct
  (** val double : z -> z **)

  let double = function
  | Z0 -> Z0
  | Zpos p -> Zpos (XO p)
  | Zneg p -> Zneg (XO p)

  (** val succ_double : z -> z **)

  let succ_double = function
  | Z0 -> Zpos XH
  | Zpos p -> Zpos (XI p)
  | Zneg p -> Zneg (Coq_Pos.pred_double p)

  (** val pred_double : z -> z **)

  let pred_double = function
  | Z0 -> Zneg XH
  | Zpos p -> Zpos (Coq_Pos.pred_double p)
  | Zneg p -> Zneg (XI p)

  (** val pos_sub : positive -> positive -> z **)

  let rec pos_sub x y =
    match x with
    | XI p ->
      (match y with
       | XI q -> double (pos_sub p q)
       | XO q -> succ_double (pos_sub p q)
       | XH -> Zpos (XO p))
    | XO p ->
      (match y with
       | XI q -> pred_double (pos_sub p q)
       | XO q -> double (pos_sub p q)
       | XH -> Zpos (Coq_Pos.pred_double p))
    | XH ->
      (match y with
       | XI q -> Zneg (XO q)
       | XO q -> Zneg (Coq_Pos.pred_double q)
       | XH -> Z0)

  (** val add : z -> z -> z **)

  let add x y =
    match x with
    | Z0 -> y
    | Zpos x' ->
      (match y with
       | Z0 -> x
       | Zpos y' -> Zpos (Coq_Pos.add x' y')
       | Zneg y' -> pos_sub x' y')
    | Zneg x' ->
      (match y with
       | Z0 -> x
       | Zpos y' -> pos_sub y' x'
       | Zneg y' -> Zneg (Coq_Pos.add x' y'))

  (** val opp : z -> z **)

  let opp = function
  | Z0 -> Z0
  | Zpos x0 -> Zneg x0
  | Zneg x0 -> Zpos x0

  (** val sub : z -> z -> z **)

  let sub m n0 =
    add m (opp n0)

  (** val compare : z -> z -> comparison **)

  let compare x y =
    match x with
    | Z0 -> (match y with
             | Z0 -> Eq
             | Zpos _ -> Lt
             | Zneg _ -> Gt)
    | Zpos x' -> (match y with
                  | Zpos y' -> Coq_Pos.compare x' y'
                  | _ -> Gt)
    | Zneg x' ->
      (match y with
       | Zneg y' -> compOpp (Coq_Pos.compare x' y')
       | _ -> Lt)

  (** val leb : z -> z -> bool **)

  let leb x y =
    match compare x y with
    | Gt -> false
    | _ -> true

  (** val ltb : z -> z -> bool **)

  let ltb x y =
    match compare x y with
    | Lt -> true
    | _ -> false

  (** val eqb : z -> z -> bool **)

  let eqb x y =
    match x with
    | Z0 -> (match y with
             | Z0 -> true
             | _ -> false)
    | Zpos p -> (match y with
                 | Zpos q -> Coq_Pos.eqb p q
                 | _ -> false)
    | Zneg p -> (match y with
                 | Zneg q -> Coq_Pos.eqb p q
                 | _ -> false)

  (** val to_nat : z -> nat **)

  let to_nat = function
  | Zpos p -> Coq_Pos.to_nat p
  | _ -> O

  (** val to_N : z -> n **)

  let to_N = function
  | Zpos p -> Npos p
  | _ -> N0

  (** val of_nat : nat -> z **)

  let of_nat = function
  | O -> Z0
  | S n1 -> Zpos (Coq_Pos.of_succ_nat n1)

  (** val of_N : n -> z **)

  let of_N = function
  | N0 -> Z0
  | Npos p -> Zpos p

  (** val to_int : z -> signed_int **)

  let to_int = function
  | Z0 -> Pos (D0 Nil)
  | Zpos p -> Pos (Coq_Pos.to_uint p)
  | Zneg p -> Neg (Coq_Pos.to_uint p)
 end

type string =
| EmptyString
| String of ascii * string

(** val list_ascii_of_string : string -> ascii list **)

let rec list_ascii_of_string = function
| EmptyString -> []
| String (ch, s0) -> ch :: (list_ascii_of_string s0)

(** val insert : ('a1 -> 'a1 -> bool) -> 'a1 -> 'a1 list -> 'a1 list **)

let rec insert leb0 x l = match l with
| [] -> x :: []
| y :: t0 -> if leb0 x y then x :: l else y :: (insert leb0 x t0)

(** val isort : ('a1 -> 'a1 -> bool) -> 'a1 list -> 'a1 list **)

let rec isort leb0 = function
| [] -> []
| x :: t0 -> insert leb0 x (isort leb0 t0)

(** val lex : ('a1 -> 'a1 -> bool) -> 'a1 list -> 'a1 list -> bool **)

let rec lex leb0 k1 k2 =
  match k1 with
  | [] -> true
  | x :: t1 ->
    (match k2 with
     | [] -> false
     | y :: t2 ->
       if leb0 x y then if leb0 y x then lex leb0 t1 t2 else true else false)

(** val keqb : ('a1 -> 'a1 -> bool) -> 'a1 -> 'a1 -> bool **)

let keqb kleb0 x y =
  (&&) (kleb0 x y) (kleb0 y x)

(** val dedup : ('a1 -> 'a1 -> bool) -> 'a1 list -> 'a1 list **)

let rec dedup kleb0 = function
| [] -> []
| x :: t0 ->
  (match t0 with
   | [] -> x :: []
   | y :: _ ->
     if keqb kleb0 x y then dedup kleb0 t0 else x :: (dedup kleb0 t0))

(** val index_of : ('a1 -> 'a1 -> bool) -> 'a1 -> 'a1 list -> n **)

let rec index_of kleb0 k = function
| [] -> N0
| x :: t0 -> if keqb kleb0 x k then N0 else N.succ (index_of kleb0 k t0)

(** val rank : ('a1 -> 'a1 -> bool) -> 'a1 list -> 'a1 -> n **)

let rank kleb0 keys k =
  index_of kleb0 k (dedup kleb0 (isort kleb0 keys))

(** val lookup : (n * 'a1) list -> n -> 'a1 option **)

let rec lookup l n0 =
  match l with
  | [] -> None
  | p :: t0 -> let (k, v) = p in if N.eqb k n0 then Some v else lookup t0 n0

(** val memN : n -> n list -> bool **)

let memN a l =
  existsb (N.eqb a) l

(** val nleb : n -> n -> bool **)

let nleb =
  N.leb

(** val ngeb : n -> n -> bool **)

let ngeb x y =
  N.leb y x

(** val zleb : z -> z -> bool **)

let zleb =
  Z.leb

(** val maxN_list : n list -> n option **)

let rec maxN_list = function
| [] -> None
| x :: t0 ->
  (match maxN_list t0 with
   | Some y -> Some (N.max x y)
   | None -> Some x)

(** val opt_default : 'a1 -> 'a1 option -> 'a1 **)

let opt_default d = function
| Some x -> x
| None -> d

(** val enumerate_from : n -> 'a1 list -> (n * 'a1) list **)

let rec enumerate_from i = function
| [] -> []
| x :: t0 -> (i, x) :: (enumerate_from (N.succ i) t0)

type text = ascii list

type 'p atom = { lbl : n; zn : n; mass : z option; rad : z option; part : 
                 n; pay : 'p }

type ('p, 'b) mol = { atoms : 'p atom list; bonds : ((n * n) * 'b) list }

(** val labels : ('a1, 'a2) mol -> n list **)

let labels m =
  map (fun a -> a.lbl) m.atoms

(** val ends : ((n * n) * 'a1) -> n * n **)

let ends b =
  ((fst (fst b)), (snd (fst b)))

(** val norm_pair : (n * n) -> n * n **)

let norm_pair e =
  if N.leb (fst e) (snd e) then e else ((snd e), (fst e))

(** val nb1 : n -> (n * n) -> n list **)

let nb1 a e =
  if N.eqb (fst e) a
  then (snd e) :: []
  else if N.eqb (snd e) a then (fst e) :: [] else []

(** val nbrs : ('a1, 'a2) mol -> n -> n list **)

let nbrs m a =
  flat_map (fun b -> nb1 a (ends b)) m.bonds

(** val find_atom : 'a1 atom list -> n -> 'a1 atom option **)

let rec find_atom l a =
  match l with
  | [] -> None
  | x :: t0 -> if N.eqb x.lbl a then Some x else find_atom t0 a

(** val set_lbl : n -> 'a1 atom -> 'a1 atom **)

let set_lbl l x =
  { lbl = l; zn = x.zn; mass = x.mass; rad = x.rad; part = x.part; pay =
    x.pay }

(** val set_part : n -> 'a1 atom -> 'a1 atom **)

let set_part p x =
  { lbl = x.lbl; zn = x.zn; mass = x.mass; rad = x.rad; part = p; pay =
    x.pay }

(** val relabel_atom : (n -> n) -> 'a1 atom -> 'a1 atom **)

let relabel_atom f x =
  set_lbl (f x.lbl) x

(** val map_bond : (n -> n) -> ((n * n) * 'a1) -> (n * n) * 'a1 **)

let map_bond f b =
  (((f (fst (fst b))), (f (snd (fst b)))), (snd b))

(** val relabel : (n -> n) -> ('a1, 'a2) mol -> ('a1, 'a2) mol **)

let relabel f m =
  { atoms = (map (relabel_atom f) m.atoms); bonds =
    (map (map_bond f) m.bonds) }

(** val fun_of_map : (n * n) list -> n -> n **)

let fun_of_map l n0 =
  opt_default n0 (lookup l n0)

type 'v key = 'v list

(** val kleb : ('a1 -> 'a1 -> bool) -> 'a1 key -> 'a1 key -> bool **)

let kleb =
  lex

(** val nbr_vals : ('a2 atom -> 'a1) -> ('a2, 'a3) mol -> n -> 'a1 list **)

let nbr_vals val0 m a =
  flat_map (fun n0 ->
    match find_atom m.atoms n0 with
    | Some x -> (val0 x) :: []
    | None -> []) (nbrs m a)

(** val keyL :
    ('a1 -> 'a1 -> bool) -> ('a2 atom -> 'a1) -> ('a2, 'a3) mol -> (n * 'a1)
    -> 'a1 key **)

let keyL nleb0 val0 m lv =
  (snd lv) :: (isort nleb0 (nbr_vals val0 m (fst lv)))

(** val lv_of : ('a2 atom -> 'a1) -> 'a2 atom -> n * 'a1 **)

let lv_of val0 x =
  (x.lbl, (val0 x))

(** val keys_of :
    ('a1 -> 'a1 -> bool) -> ('a2 atom -> 'a1) -> ('a2, 'a3) mol -> 'a1 key
    list **)

let keys_of nleb0 val0 m =
  map (fun x -> keyL nleb0 val0 m (lv_of val0 x)) m.atoms

(** val class_of :
    ('a1 -> 'a1 -> bool) -> ('a1 -> 'a1 -> bool) -> ('a2 atom -> 'a1) ->
    ('a2, 'a3) mol -> 'a2 atom -> n **)

let class_of leb0 nleb0 val0 m x =
  rank (kleb leb0) (keys_of nleb0 val0 m) (keyL nleb0 val0 m (lv_of val0 x))

(** val partition_by :
    ('a1 -> 'a1 -> bool) -> ('a1 -> 'a1 -> bool) -> ('a2 atom -> 'a1) ->
    ('a2, 'a3) mol -> ('a2, 'a3) mol **)

let partition_by leb0 nleb0 val0 m =
  { atoms =
    (map (fun x -> set_part (class_of leb0 nleb0 val0 m x) x) m.atoms);
    bonds = m.bonds }

(** val inv_code : 'a1 atom -> z list **)

let inv_code x =
  (Z.of_N x.zn) :: ((opt_default Z0 x.mass) :: ((opt_default Z0 x.rad) :: []))

(** val inv_leb : z list -> z list -> bool **)

let inv_leb =
  lex zleb

(** val inv_geb : z list -> z list -> bool **)

let inv_geb a b =
  inv_leb b a

(** val partition_by_inv : ('a1, 'a2) mol -> ('a1, 'a2) mol **)

let partition_by_inv m =
  partition_by inv_leb inv_geb inv_code m

(** val partition_by_part : ('a1, 'a2) mol -> ('a1, 'a2) mol **)

let partition_by_part m =
  partition_by nleb ngeb (fun a -> a.part) m

(** val nparts : ('a1, 'a2) mol -> n option **)

let nparts m =
  maxN_list (map (fun a -> a.part) m.atoms)

(** val refine : nat -> ('a1, 'a2) mol -> ('a1, 'a2) mol option **)

let rec refine fuel m =
  match fuel with
  | O -> None
  | S f ->
    let m' = partition_by_part m in
    (match nparts m' with
     | Some k' ->
       (match nparts m with
        | Some k -> if N.eqb k' k then Some m' else refine f m'
        | None -> None)
     | None -> None)

(** val rounds : nat -> ('a1, 'a2) mol -> nat option **)

let rec rounds fuel m =
  match fuel with
  | O -> None
  | S f ->
    let m' = partition_by_part m in
    (match nparts m' with
     | Some k' ->
       (match nparts m with
        | Some k ->
          if N.eqb k' k
          then Some (S O)
          else option_map (fun x -> S x) (rounds f m')
        | None -> None)
     | None -> None)

(** val refine_fuel : ('a1, 'a2) mol -> nat **)

let refine_fuel m =
  S (length m.atoms)

(** val classes : ('a1, 'a2) mol -> ('a1, 'a2) mol option **)

let classes m =
  refine (refine_fuel m) (partition_by_inv m)

(** val canon_vertices : ('a1, 'a2) mol -> (n * n) list **)

let canon_vertices m =
  map (fun x -> (x.lbl, x.part)) m.atoms

(** val canon_edges : ('a1, 'a2) mol -> (n * n) list **)

let canon_edges m =
  map ends m.bonds

(** val canonicalize :
    ((n * n) list -> (n * n) list -> (n * n) list) -> ('a1, 'a2) mol -> ('a1,
    'a2) mol option **)

let canonicalize canon m =
  match classes m with
  | Some mr ->
    Some
      (relabel (fun_of_map (canon (canon_vertices mr) (canon_edges mr))) mr)
  | None -> None

type st = { explored : n list; queue : n list; avail : (n * n list) list;
            out : (n * n) list }

(** val pop_class :
    n -> (n * n list) list -> (n * (n * n list) list) option **)

let rec pop_class p = function
| [] -> None
| p0 :: t0 ->
  let (q, ls) = p0 in
  if N.eqb q p
  then (match ls with
        | [] -> None
        | l :: ls' -> Some (l, ((q, ls') :: t0)))
  else (match pop_class p t0 with
        | Some p1 -> let (l, t') = p1 in Some (l, ((q, ls) :: t'))
        | None -> None)

(** val order_of :
    (n -> n option) -> (n -> n list) -> (n -> n -> bool) list -> n -> n -> n
    list option **)

let order_of part_of nbrs_sorted prios a pa =
  let ns = nbrs_sorted a in
  fold_right (fun pr acc ->
    match acc with
    | Some rest ->
      let sel =
        flat_map (fun n0 ->
          match part_of n0 with
          | Some pn -> if pr pa pn then n0 :: [] else []
          | None -> []) ns
      in
      Some (app sel rest)
    | None -> None) (Some []) prios

type outcome =
| Done of st
| Step of st
| Fail

(** val explore :
    (n -> n option) -> (n -> n list) -> (n -> n -> bool) list -> n -> n list
    -> st -> outcome **)

let explore part_of nbrs_sorted prios a q s =
  match part_of a with
  | Some pa ->
    (match pop_class pa s.avail with
     | Some p ->
       let (l, av') = p in
       (match order_of part_of nbrs_sorted prios a pa with
        | Some ord ->
          Step { explored = (a :: s.explored); queue = (app q ord); avail =
            av'; out = ((a, l) :: s.out) }
        | None -> Fail)
     | None -> Fail)
  | None -> Fail

(** val step :
    n list -> (n -> n option) -> (n -> n list) -> (n -> n -> bool) list -> st
    -> outcome **)

let step labels_sorted part_of nbrs_sorted prios s =
  match s.queue with
  | [] ->
    (match filter (fun l -> negb (memN l s.explored)) labels_sorted with
     | [] -> Done s
     | u :: _ -> explore part_of nbrs_sorted prios u [] s)
  | a :: q ->
    if memN a s.explored
    then Step { explored = s.explored; queue = q; avail = s.avail; out =
           s.out }
    else explore part_of nbrs_sorted prios a q s

(** val run :
    n list -> (n -> n option) -> (n -> n list) -> (n -> n -> bool) list ->
    nat -> st -> (n * n) list option **)

let rec run labels_sorted part_of nbrs_sorted prios fuel s =
  match fuel with
  | O -> None
  | S f ->
    (match step labels_sorted part_of nbrs_sorted prios s with
     | Done s' -> Some s'.out
     | Step s' -> run labels_sorted part_of nbrs_sorted prios f s'
     | Fail -> None)

(** val part_values : ('a1, 'a2) mol -> n list **)

let part_values m =
  dedup nleb (isort nleb (map (fun a -> a.part) m.atoms))

(** val init_avail : ('a1, 'a2) mol -> (n * n list) list **)

let init_avail m =
  map (fun p -> (p,
    (isort nleb
      (map (fun a -> a.lbl) (filter (fun x -> N.eqb x.part p) m.atoms)))))
    (part_values m)

(** val part_lookup : ('a1, 'a2) mol -> n -> n option **)

let part_lookup m a =
  option_map (fun a0 -> a0.part) (find_atom m.atoms a)

(** val default_prios : (n -> n -> bool) list **)

let default_prios =
  N.eqb :: ((fun x y -> N.ltb y x) :: (N.ltb :: []))

(** val final_fuel : ('a1, 'a2) mol -> nat **)

let final_fuel m =
  S (mul (S (S O)) (add (length m.atoms) (mul (S (S O)) (length m.bonds))))

(** val final_labels : ('a1, 'a2) mol -> (n * n) list option **)

let final_labels m =
  match run (isort nleb (labels m)) (part_lookup m) (fun a ->
          isort nleb (nbrs m a)) default_prios (final_fuel m) { explored =
          []; queue = []; avail = (init_avail m); out = [] } with
  | Some o -> if Nat.eqb (length o) (length m.atoms) then Some o else None
  | None -> None

(** val assign_final_labels : ('a1, 'a2) mol -> ('a1, 'a2) mol option **)

let assign_final_labels m =
  match final_labels m with
  | Some o -> Some (relabel (fun_of_map o) m)
  | None -> None

module NilEmpty =
 struct
  (** val string_of_uint : uint -> string **)

  let rec string_of_uint = function
  | Nil -> EmptyString
  | D0 d0 ->
    String ((Ascii (false, false, false, false, true, true, false, false)),
      (string_of_uint d0))
  | D1 d0 ->
    String ((Ascii (true, false, false, false, true, true, false, false)),
      (string_of_uint d0))
  | D2 d0 ->
    String ((Ascii (false, true, false, false, true, true, false, false)),
      (string_of_uint d0))
  | D3 d0 ->
    String ((Ascii (true, true, false, false, true, true, false, false)),
      (string_of_uint d0))
  | D4 d0 ->
    String ((Ascii (false, false, true, false, true, true, false, false)),
      (string_of_uint d0))
  | D5 d0 ->
    String ((Ascii (true, false, true, false, true, true, false, false)),
      (string_of_uint d0))
  | D6 d0 ->
    String ((Ascii (false, true, true, false, true, true, false, false)),
      (string_of_uint d0))
  | D7 d0 ->
    String ((Ascii (true, true, true, false, true, true, false, false)),
      (string_of_uint d0))
  | D8 d0 ->
    String ((Ascii (false, false, false, true, true, true, false, false)),
      (string_of_uint d0))
  | D9 d0 ->
    String ((Ascii (true, false, false, true, true, true, false, false)),
      (string_of_uint d0))
 end

module NilZero =
 struct
  (** val string_of_uint : uint -> string **)

  let string_of_uint d = match d with
  | Nil ->
    String ((Ascii (false, false, false, false, true, true, false, false)),
      EmptyString)
  | _ -> NilEmpty.string_of_uint d

  (** val string_of_int : signed_int -> string **)

  let string_of_int = function
  | Pos d0 -> string_of_uint d0
  | Neg d0 ->
    String ((Ascii (true, false, true, true, false, true, false, false)),
      (string_of_uint d0))
 end

(** val element_table : (string * n) list **)

let element_table =
  ((String ((Ascii (false, false, false, true, false, false, true, false)),
    EmptyString)), (Npos XH)) :: (((String ((Ascii (false, false, false,
    true, false, false, true, false)), (String ((Ascii (true, false, true,
    false, false, true, true, false)), EmptyString)))), (Npos (XO
    XH))) :: (((String ((Ascii (false, false, true, true, false, false, true,
    false)), (String ((Ascii (true, false, false, true, false, true, true,
    false)), EmptyString)))), (Npos (XI XH))) :: (((String ((Ascii (false,
    true, false, false, false, false, true, false)), (String ((Ascii (true,
    false, true, false, false, true, true, false)), EmptyString)))), (Npos
    (XO (XO XH)))) :: (((String ((Ascii (false, true, false, false, false,
    false, true, false)), EmptyString)), (Npos (XI (XO XH)))) :: (((String
    ((Ascii (true, true, false, false, false, false, true, false)),
    EmptyString)), (Npos (XO (XI XH)))) :: (((String ((Ascii (false, true,
    true, true, false, false, true, false)), EmptyString)), (Npos (XI (XI
    XH)))) :: (((String ((Ascii (true, true, true, true, false, false, true,
    false)), EmptyString)), (Npos (XO (XO (XO XH))))) :: (((String ((Ascii
    (false, true, true, false, false, false, true, false)), EmptyString)),
    (Npos (XI (XO (XO XH))))) :: (((String ((Ascii (false, true, true, true,
    false, false, true, false)), (String ((Ascii (true, false, true, false,
    false, true, true, false)), EmptyString)))), (Npos (XO (XI (XO
    XH))))) :: (((String ((Ascii (false, true, true, true, false, false,
    true, false)), (String ((Ascii (true, false, false, false, false, true,
    true, false)), EmptyString)))), (Npos (XI (XI (XO XH))))) :: (((String
    ((Ascii (true, false, true, true, false, false, true, false)), (String
    ((Ascii (true, true, true, false, false, true, true, false)),
    EmptyString)))), (Npos (XO (XO (XI XH))))) :: (((String ((Ascii (true,
    false, false, false, false, false, true, false)), (String ((Ascii (false,
    false, true, true, false, true, true, false)), EmptyString)))), (Npos (XI
    (XO (XI XH))))) :: (((String ((Ascii (true, true, false, false, true,
    false, true, false)), (String ((Ascii (true, false, false, true, false,
    true, true, false)), EmptyString)))), (Npos (XO (XI (XI
    XH))))) :: (((String ((Ascii (false, false, false, false, true, false,
    true, false)), EmptyString)), (Npos (XI (XI (XI XH))))) :: (((String
    ((Ascii (true, true, false, false, true, false, true, false)),
    EmptyString)), (Npos (XO (XO (XO (XO XH)))))) :: (((String ((Ascii (true,
    true, false, false, false, false, true, false)), (String ((Ascii (false,
    false, true, true, false, true, true, false)), EmptyString)))), (Npos (XI
    (XO (XO (XO XH)))))) :: (((String ((Ascii (true, false, false, false,
    false, false, true, false)), (String ((Ascii (false, true, false, false,
    true, true, true, false)), EmptyString)))), (Npos (XO (XI (XO (XO
    XH)))))) :: (((String ((Ascii (true, true, false, true, false, false,
    true, false)), EmptyString)), (Npos (XI (XI (XO (XO XH)))))) :: (((String
    ((Ascii (true, true, false, false, false, false, true, false)), (String
    ((Ascii (true, false, false, false, false, true, true, false)),
    EmptyString)))), (Npos (XO (XO (XI (XO XH)))))) :: (((String ((Ascii
    (true, true, false, false, true, false, true, false)), (String ((Ascii
    (true, true, false, false, false, true, true, false)), EmptyString)))),
    (Npos (XI (XO (XI (XO XH)))))) :: (((String ((Ascii (false, false, true,
    false, true, false, true, false)), (String ((Ascii (true, false, false,
    true, false, true, true, false)), EmptyString)))), (Npos (XO (XI (XI (XO
    XH)))))) :: (((String ((Ascii (false, true, true, false, true, false,
    true, false)), EmptyString)), (Npos (XI (XI (XI (XO XH)))))) :: (((String
    ((Ascii (true, true, false, false, false, false, true, false)), (String
    ((Ascii (false, true, false, false, true, true, true, false)),
    EmptyString)))), (Npos (XO (XO (XO (XI XH)))))) :: (((String ((Ascii
    (true, false, true, true, false, false, true, false)), (String ((Ascii
    (false, true, true, true, false, true, true, false)), EmptyString)))),
    (Npos (XI (XO (XO (XI XH)))))) :: (((String ((Ascii (false, true, true,
    false, false, false, true, false)), (String ((Ascii (true, false, true,
    false, false, true, true, false)), EmptyString)))), (Npos (XO (XI (XO (XI
    XH)))))) :: (((String ((Ascii (true, true, false, false, false, false,
    true, false)), (String ((Ascii (true, true, true, true, false, true,
    true, false)), EmptyString)))), (Npos (XI (XI (XO (XI
    XH)))))) :: (((String ((Ascii (false, true, true, true, false, false,
    true, false)), (String ((Ascii (true, false, false, true, false, true,
    true, false)), EmptyString)))), (Npos (XO (XO (XI (XI
    XH)))))) :: (((String ((Ascii (true, true, false, false, false, false,
    true, false)), (String ((Ascii (true, false, true, false, true, true,
    true, false)), EmptyString)))), (Npos (XI (XO (XI (XI
    XH)))))) :: (((String ((Ascii (false, true, false, true, true, false,
    true, false)), (String ((Ascii (false, true, true, true, false, true,
    true, false)), EmptyString)))), (Npos (XO (XI (XI (XI
    XH)))))) :: (((String ((Ascii (true, true, true, false, false, false,
    true, false)), (String ((Ascii (true, false, false, false, false, true,
    true, false)), EmptyString)))), (Npos (XI (XI (XI (XI
    XH)))))) :: (((String ((Ascii (true, true, true, false, false, false,
    true, false)), (String ((Ascii (true, false, true, false, false, true,
    true, false)), EmptyString)))), (Npos (XO (XO (XO (XO (XO
    XH))))))) :: (((String ((Ascii (true, false, false, false, false, false,
    true, false)), (String ((Ascii (true, true, false, false, true, true,
    true, false)), EmptyString)))), (Npos (XI (XO (XO (XO (XO
    XH))))))) :: (((String ((Ascii (true, true, false, false, true, false,
    true, false)), (String ((Ascii (true, false, true, false, false, true,
    true, false)), EmptyString)))), (Npos (XO (XI (XO (XO (XO
    XH))))))) :: (((String ((Ascii (false, true, false, false, false, false,
    true, false)), (String ((Ascii (false, true, false, false, true, true,
    true, false)), EmptyString)))), (Npos (XI (XI (XO (XO (XO
    XH))))))) :: (((String ((Ascii (true, true, false, true, false, false,
    true, false)), (String ((Ascii (false, true, false, false, true, true,
    true, false)), EmptyString)))), (Npos (XO (XO (XI (XO (XO
    XH))))))) :: (((String ((Ascii (false, true, false, false, true, false,
    true, false)), (String ((Ascii (false, true, false, false, false, true,
    true, false)), EmptyString)))), (Npos (XI (XO (XI (XO (XO
    XH))))))) :: (((String ((Ascii (true, true, false, false, true, false,
    true, false)), (String ((Ascii (false, true, false, false, true, true,
    true, false)), EmptyString)))), (Npos (XO (XI (XI (XO (XO
    XH))))))) :: (((String ((Ascii (true, false, false, true, true, false,
    true, false)), EmptyString)), (Npos (XI (XI (XI (XO (XO
    XH))))))) :: (((String ((Ascii (false, true, false, true, true, false,
    true, false)), (String ((Ascii (false, true, false, false, true, true,
    true, false)), EmptyString)))), (Npos (XO (XO (XO (XI (XO
    XH))))))) :: (((String ((Ascii (false, true, true, true, false, false,
    true, false)), (String ((Ascii (false, true, false, false, false, true,
    true, false)), EmptyString)))), (Npos (XI (XO (XO (XI (XO
    XH))))))) :: (((String ((Ascii (true, false, true, true, false, false,
    true, false)), (String ((Ascii (true, true, true, true, false, true,
    true, false)), EmptyString)))), (Npos (XO (XI (XO (XI (XO
    XH))))))) :: (((String ((Ascii (false, false, true, false, true, false,
    true, false)), (String ((Ascii (true, true, false, false, false, true,
    true, false)), EmptyString)))), (Npos (XI (XI (XO (XI (XO
    XH))))))) :: (((String ((Ascii (false, true, false, false, true, false,
    true, false)), (String ((Ascii (true, false, true, false, true, true,
    true, false)), EmptyString)))), (Npos (XO (XO (XI (XI (XO
    XH))))))) :: (((String ((Ascii (false, true, false, false, true, false,
    true, false)), (String ((Ascii (false, false, false, true, false, true,
    true, false)), EmptyString)))), (Npos (XI (XO (XI (XI (XO
    XH))))))) :: (((String ((Ascii (false, false, false, false, true, false,
    true, false)), (String ((Ascii (false, false, true, false, false, true,
    true, false)), EmptyString)))), (Npos (XO (XI (XI (XI (XO
    XH))))))) :: (((String ((Ascii (true, false, false, false, false, false,
    true, false)), (String ((Ascii (true, true, true, false, false, true,
    true, false)), EmptyString)))), (Npos (XI (XI (XI (XI (XO
    XH))))))) :: (((String ((Ascii (true, true, false, false, false, false,
    true, false)), (String ((Ascii (false, false, true, false, false, true,
    true, false)), EmptyString)))), (Npos (XO (XO (XO (XO (XI
    XH))))))) :: (((String ((Ascii (true, false, false, true, false, false,
    true, false)), (String ((Ascii (false, true, true, true, false, true,
    true, false)), EmptyString)))), (Npos (XI (XO (XO (XO (XI
    XH))))))) :: (((String ((Ascii (true, true, false, false, true, false,
    true, false)), (String ((Ascii (false, true, true, true, false, true,
    true, false)), EmptyString)))), (Npos (XO (XI (XO (XO (XI
    XH))))))) :: (((String ((Ascii (true, true, false, false, true, false,
    true, false)), (String ((Ascii (false, true, false, false, false, true,
    true, false)), EmptyString)))), (Npos (XI (XI (XO (XO (XI
    XH))))))) :: (((String ((Ascii (false, false, true, false, true, false,
    true, false)), (String ((Ascii (true, false, true, false, false, true,
    true, false)), EmptyString)))), (Npos (XO (XO (XI (XO (XI
    XH))))))) :: (((String ((Ascii (true, false, false, true, false, false,
    true, false)), EmptyString)), (Npos (XI (XO (XI (XO (XI
    XH))))))) :: (((String ((Ascii (false, false, false, true, true, false,
    true, false)), (String ((Ascii (true, false, true, false, false, true,
    true, false)), EmptyString)))), (Npos (XO (XI (XI (XO (XI
    XH))))))) :: (((String ((Ascii (true, true, false, false, false, false,
    true, false)), (String ((Ascii (true, true, false, false, true, true,
    true, false)), EmptyString)))), (Npos (XI (XI (XI (XO (XI
    XH))))))) :: (((String ((Ascii (false, true, false, false, false, false,
    true, false)), (String ((Ascii (true, false, false, false, false, true,
    true, false)), EmptyString)))), (Npos (XO (XO (XO (XI (XI
    XH))))))) :: (((String ((Ascii (false, false, true, true, false, false,
    true, false)), (String ((Ascii (true, false, false, false, false, true,
    true, false)), EmptyString)))), (Npos (XI (XO (XO (XI (XI
    XH))))))) :: (((String ((Ascii (true, true, false, false, false, false,
    true, false)), (String ((Ascii (true, false, true, false, false, true,
    true, false)), EmptyString)))), (Npos (XO (XI (XO (XI (XI
    XH))))))) :: (((String ((Ascii (false, false, false, false, true, false,
    true, false)), (String ((Ascii (false, true, false, false, true, true,
    true, false)), EmptyString)))), (Npos (XI (XI (XO (XI (XI
    XH))))))) :: (((String ((Ascii (false, true, true, true, false, false,
    true, false)), (String ((Ascii (false, false, true, false, false, true,
    true, false)), EmptyString)))), (Npos (XO (XO (XI (XI (XI
    XH))))))) :: (((String ((Ascii (false, false, false, false, true, false,
    true, false)), (String ((Ascii (true, false, true, true, false, true,
    true, false)), EmptyString)))), (Npos (XI (XO (XI (XI (XI
    XH))))))) :: (((String ((Ascii (true, true, false, false, true, false,
    true, false)), (String ((Ascii (true, false, true, true, false, true,
    true, false)), EmptyString)))), (Npos (XO (XI (XI (XI (XI
    XH))))))) :: (((String ((Ascii (true, false, true, false, false, false,
    true, false)), (String ((Ascii (true, false, true, false, true, true,
    true, false)), EmptyString)))), (Npos (XI (XI (XI (XI (XI
    XH))))))) :: (((String ((Ascii (true, true, true, false, false, false,
    true, false)), (String ((Ascii (false, false, true, false, false, true,
    true, false)), EmptyString)))), (Npos (XO (XO (XO (XO (XO (XO
    XH)))))))) :: (((String ((Ascii (false, false, true, false, true, false,
    true, false)), (String ((Ascii (false, true, false, false, false, true,
    true, false)), EmptyString)))), (Npos (XI (XO (XO (XO (XO (XO
    XH)))))))) :: (((String ((Ascii (false, false, true, false, false, false,
    true, false)), (String ((Ascii (true, false, false, true, true, true,
    true, false)), EmptyString)))), (Npos (XO (XI (XO (XO (XO (XO
    XH)))))))) :: (((String ((Ascii (false, false, false, true, false, false,
    true, false)), (String ((Ascii (true, true, true, true, false, true,
    true, false)), EmptyString)))), (Npos (XI (XI (XO (XO (XO (XO
    XH)))))))) :: (((String ((Ascii (true, false, true, false, false, false,
    true, false)), (String ((Ascii (false, true, false, false, true, true,
    true, false)), EmptyString)))), (Npos (XO (XO (XI (XO (XO (XO
    XH)))))))) :: (((String ((Ascii (false, false, true, false, true, false,
    true, false)), (String ((Ascii (true, false, true, true, false, true,
    true, false)), EmptyString)))), (Npos (XI (XO (XI (XO (XO (XO
    XH)))))))) :: (((String ((Ascii (true, false, false, true, true, false,
    true, false)), (String ((Ascii (false, true, false, false, false, true,
    true, false)), EmptyString)))), (Npos (XO (XI (XI (XO (XO (XO
    XH)))))))) :: (((String ((Ascii (false, false, true, true, false, false,
    true, false)), (String ((Ascii (true, false, true, false, true, true,
    true, false)), EmptyString)))), (Npos (XI (XI (XI (XO (XO (XO
    XH)))))))) :: (((String ((Ascii (false, false, false, true, false, false,
    true, false)), (String ((Ascii (false, true, true, false, false, true,
    true, false)), EmptyString)))), (Npos (XO (XO (XO (XI (XO (XO
    XH)))))))) :: (((String ((Ascii (false, false, true, false, true, false,
    true, false)), (String ((Ascii (true, false, false, false, false, true,
    true, false)), EmptyString)))), (Npos (XI (XO (XO (XI (XO (XO
    XH)))))))) :: (((String ((Ascii (true, true, true, false, true, false,
    true, false)), EmptyString)), (Npos (XO (XI (XO (XI (XO (XO
    XH)))))))) :: (((String ((Ascii (false, true, false, false, true, false,
    true, false)), (String ((Ascii (true, false, true, false, false, true,
    true, false)), EmptyString)))), (Npos (XI (XI (XO (XI (XO (XO
    XH)))))))) :: (((String ((Ascii (true, true, true, true, false, false,
    true, false)), (String ((Ascii (true, true, false, false, true, true,
    true, false)), EmptyString)))), (Npos (XO (XO (XI (XI (XO (XO
    XH)))))))) :: (((String ((Ascii (true, false, false, true, false, false,
    true, false)), (String ((Ascii (false, true, false, false, true, true,
    true, false)), EmptyString)))), (Npos (XI (XO (XI (XI (XO (XO
    XH)))))))) :: (((String ((Ascii (false, false, false, false, true, false,
    true, false)), (String ((Ascii (false, false, true, false, true, true,
    true, false)), EmptyString)))), (Npos (XO (XI (XI (XI (XO (XO
    XH)))))))) :: (((String ((Ascii (true, false, false, false, false, false,
    true, false)), (String ((Ascii (true, false, true, false, true, true,
    true, false)), EmptyString)))), (Npos (XI (XI (XI (XI (XO (XO
    XH)))))))) :: (((String ((Ascii (false, false, false, true, false, false,
    true, false)), (String ((Ascii (true, true, true, false, false, true,
    true, false)), EmptyString)))), (Npos (XO (XO (XO (XO (XI (XO
    XH)))))))) :: (((String ((Ascii (false, false, true, false, true, false,
    true, false)), (String ((Ascii (false, false, true, true, false, true,
    true, false)), EmptyString)))), (Npos (XI (XO (XO (XO (XI (XO
    XH)))))))) :: (((String ((Ascii (false, false, false, false, true, false,
    true, false)), (String ((Ascii (false, true, false, false, false, true,
    true, false)), EmptyString)))), (Npos (XO (XI (XO (XO (XI (XO
    XH)))))))) :: (((String ((Ascii (false, true, false, false, false, false,
    true, false)), (String ((Ascii (true, false, false, true, false, true,
    true, false)), EmptyString)))), (Npos (XI (XI (XO (XO (XI (XO
    XH)))))))) :: (((String ((Ascii (false, false, false, false, true, false,
    true, false)), (String ((Ascii (true, true, true, true, false, true,
    true, false)), EmptyString)))), (Npos (XO (XO (XI (XO (XI (XO
    XH)))))))) :: (((String ((Ascii (true, false, false, false, false, false,
    true, false)), (String ((Ascii (false, false, true, false, true, true,
    true, false)), EmptyString)))), (Npos (XI (XO (XI (XO (XI (XO
    XH)))))))) :: (((String ((Ascii (false, true, false, false, true, false,
    true, false)), (String ((Ascii (false, true, true, true, false, true,
    true, false)), EmptyString)))), (Npos (XO (XI (XI (XO (XI (XO
    XH)))))))) :: (((String ((Ascii (false, true, true, false, false, false,
    true, false)), (String ((Ascii (false, true, false, false, true, true,
    true, false)), EmptyString)))), (Npos (XI (XI (XI (XO (XI (XO
    XH)))))))) :: (((String ((Ascii (false, true, false, false, true, false,
    true, false)), (String ((Ascii (true, false, false, false, false, true,
    true, false)), EmptyString)))), (Npos (XO (XO (XO (XI (XI (XO
    XH)))))))) :: (((String ((Ascii (true, false, false, false, false, false,
    true, false)), (String ((Ascii (true, true, false, false, false, true,
    true, false)), EmptyString)))), (Npos (XI (XO (XO (XI (XI (XO
    XH)))))))) :: (((String ((Ascii (false, false, true, false, true, false,
    true, false)), (String ((Ascii (false, false, false, true, false, true,
    true, false)), EmptyString)))), (Npos (XO (XI (XO (XI (XI (XO
    XH)))))))) :: (((String ((Ascii (false, false, false, false, true, false,
    true, false)), (String ((Ascii (true, false, false, false, false, true,
    true, false)), EmptyString)))), (Npos (XI (XI (XO (XI (XI (XO
    XH)))))))) :: (((String ((Ascii (true, false, true, false, true, false,
    true, false)), EmptyString)), (Npos (XO (XO (XI (XI (XI (XO
    XH)))))))) :: (((String ((Ascii (false, true, true, true, false, false,
    true, false)), (String ((Ascii (false, false, false, false, true, true,
    true, false)), EmptyString)))), (Npos (XI (XO (XI (XI (XI (XO
    XH)))))))) :: (((String ((Ascii (false, false, false, false, true, false,
    true, false)), (String ((Ascii (true, false, true, false, true, true,
    true, false)), EmptyString)))), (Npos (XO (XI (XI (XI (XI (XO
    XH)))))))) :: (((String ((Ascii (true, false, false, false, false, false,
    true, false)), (String ((Ascii (true, false, true, true, false, true,
    true, false)), EmptyString)))), (Npos (XI (XI (XI (XI (XI (XO
    XH)))))))) :: (((String ((Ascii (true, true, false, false, false, false,
    true, false)), (String ((Ascii (true, false, true, true, false, true,
    true, false)), EmptyString)))), (Npos (XO (XO (XO (XO (XO (XI
    XH)))))))) :: (((String ((Ascii (false, true, false, false, false, false,
    true, false)), (String ((Ascii (true, true, false, true, false, true,
    true, false)), EmptyString)))), (Npos (XI (XO (XO (XO (XO (XI
    XH)))))))) :: (((String ((Ascii (true, true, false, false, false, false,
    true, false)), (String ((Ascii (false, true, true, false, false, true,
    true, false)), EmptyString)))), (Npos (XO (XI (XO (XO (XO (XI
    XH)))))))) :: (((String ((Ascii (true, false, true, false, false, false,
    true, false)), (String ((Ascii (true, true, false, false, true, true,
    true, false)), EmptyString)))), (Npos (XI (XI (XO (XO (XO (XI
    XH)))))))) :: (((String ((Ascii (false, true, true, false, false, false,
    true, false)), (String ((Ascii (true, false, true, true, false, true,
    true, false)), EmptyString)))), (Npos (XO (XO (XI (XO (XO (XI
    XH)))))))) :: (((String ((Ascii (true, false, true, true, false, false,
    true, false)), (String ((Ascii (false, false, true, false, false, true,
    true, false)), EmptyString)))), (Npos (XI (XO (XI (XO (XO (XI
    XH)))))))) :: (((String ((Ascii (false, true, true, true, false, false,
    true, false)), (String ((Ascii (true, true, true, true, false, true,
    true, false)), EmptyString)))), (Npos (XO (XI (XI (XO (XO (XI
    XH)))))))) :: (((String ((Ascii (false, false, true, true, false, false,
    true, false)), (String ((Ascii (false, true, false, false, true, true,
    true, false)), EmptyString)))), (Npos (XI (XI (XI (XO (XO (XI
    XH)))))))) :: (((String ((Ascii (false, true, false, false, true, false,
    true, false)), (String ((Ascii (false, true, true, false, false, true,
    true, false)), EmptyString)))), (Npos (XO (XO (XO (XI (XO (XI
    XH)))))))) :: (((String ((Ascii (false, false, true, false, false, false,
    true, false)), (String ((Ascii (false, true, false, false, false, true,
    true, false)), EmptyString)))), (Npos (XI (XO (XO (XI (XO (XI
    XH)))))))) :: (((String ((Ascii (true, true, false, false, true, false,
    true, false)), (String ((Ascii (true, true, true, false, false, true,
    true, false)), EmptyString)))), (Npos (XO (XI (XO (XI (XO (XI
    XH)))))))) :: (((String ((Ascii (false, true, false, false, false, false,
    true, false)), (String ((Ascii (false, false, false, true, false, true,
    true, false)), EmptyString)))), (Npos (XI (XI (XO (XI (XO (XI
    XH)))))))) :: (((String ((Ascii (false, false, false, true, false, false,
    true, false)), (String ((Ascii (true, true, false, false, true, true,
    true, false)), EmptyString)))), (Npos (XO (XO (XI (XI (XO (XI
    XH)))))))) :: (((String ((Ascii (true, false, true, true, false, false,
    true, false)), (String ((Ascii (false, false, true, false, true, true,
    true, false)), EmptyString)))), (Npos (XI (XO (XI (XI (XO (XI
    XH)))))))) :: (((String ((Ascii (false, false, true, false, false, false,
    true, false)), (String ((Ascii (true, true, false, false, true, true,
    true, false)), EmptyString)))), (Npos (XO (XI (XI (XI (XO (XI
    XH)))))))) :: (((String ((Ascii (false, true, false, false, true, false,
    true, false)), (String ((Ascii (true, true, true, false, false, true,
    true, false)), EmptyString)))), (Npos (XI (XI (XI (XI (XO (XI
    XH)))))))) :: (((String ((Ascii (true, true, false, false, false, false,
    true, false)), (String ((Ascii (false, true, true, true, false, true,
    true, false)), EmptyString)))), (Npos (XO (XO (XO (XO (XI (XI
    XH)))))))) :: (((String ((Ascii (false, true, true, true, false, false,
    true, false)), (String ((Ascii (false, false, false, true, false, true,
    true, false)), EmptyString)))), (Npos (XI (XO (XO (XO (XI (XI
    XH)))))))) :: (((String ((Ascii (false, true, true, false, false, false,
    true, false)), (String ((Ascii (false, false, true, true, false, true,
    true, false)), EmptyString)))), (Npos (XO (XI (XO (XO (XI (XI
    XH)))))))) :: (((String ((Ascii (true, false, true, true, false, false,
    true, false)), (String ((Ascii (true, true, false, false, false, true,
    true, false)), EmptyString)))), (Npos (XI (XI (XO (XO (XI (XI
    XH)))))))) :: (((String ((Ascii (false, false, true, true, false, false,
    true, false)), (String ((Ascii (false, true, true, false, true, true,
    true, false)), EmptyString)))), (Npos (XO (XO (XI (XO (XI (XI
    XH)))))))) :: (((String ((Ascii (false, false, true, false, true, false,
    true, false)), (String ((Ascii (true, true, false, false, true, true,
    true, false)), EmptyString)))), (Npos (XI (XO (XI (XO (XI (XI
    XH)))))))) :: (((String ((Ascii (true, true, true, true, false, false,
    true, false)), (String ((Ascii (true, true, true, false, false, true,
    true, false)), EmptyString)))), (Npos (XO (XI (XI (XO (XI (XI
    XH)))))))) :: [])))))))))))))))))))))))))))))))))))))))))))))))))))))))))))))))))))))))))))))))))))))))))))))))))))))))))))))))))))))

(** val hydrogen_isotope_table : (string * (string * z)) list **)

let hydrogen_isotope_table =
  ((String ((Ascii (false, false, true, false, false, false, true, false)),
    EmptyString)), ((String ((Ascii (false, false, false, true, false, false,
    true, false)), EmptyString)), (Zpos (XO XH)))) :: (((String ((Ascii
    (false, false, true, false, true, false, true, false)), EmptyString)),
    ((String ((Ascii (false, false, false, true, false, false, true, false)),
    EmptyString)), (Zpos (XI XH)))) :: [])

(** val v2000_charge_table : (z * (bool * z)) list **)

let v2000_charge_table =
  ((Zpos XH), (true, (Zpos (XI XH)))) :: (((Zpos (XO XH)), (true, (Zpos (XO
    XH)))) :: (((Zpos (XI XH)), (true, (Zpos XH))) :: (((Zpos (XO (XO XH))),
    (false, (Zpos (XO XH)))) :: (((Zpos (XI (XO XH))), (true, (Zneg
    XH))) :: (((Zpos (XO (XI XH))), (true, (Zneg (XO XH)))) :: (((Zpos (XI
    (XI XH))), (true, (Zneg (XI XH)))) :: []))))))

(** val t : string -> text **)

let t =
  list_ascii_of_string

(** val ascii_leb : ascii -> ascii -> bool **)

let ascii_leb a b =
  N.leb (n_of_ascii a) (n_of_ascii b)

(** val text_leb : text -> text -> bool **)

let text_leb =
  lex ascii_leb

(** val ascii_eqb : ascii -> ascii -> bool **)

let ascii_eqb a b =
  N.eqb (n_of_ascii a) (n_of_ascii b)

(** val text_eqb : text -> text -> bool **)

let rec text_eqb a b =
  match a with
  | [] -> (match b with
           | [] -> true
           | _ :: _ -> false)
  | x :: a' ->
    (match b with
     | [] -> false
     | y :: b' -> (&&) (ascii_eqb x y) (text_eqb a' b'))

(** val text_of_N : n -> text **)

let text_of_N n0 =
  t (NilZero.string_of_uint (N.to_uint n0))

(** val text_of_Z : z -> text **)

let text_of_Z z0 =
  t (NilZero.string_of_int (Z.to_int z0))

(** val is_digit : ascii -> bool **)

let is_digit c =
  let n0 = n_of_ascii c in
  (&&) (N.leb (Npos (XO (XO (XO (XO (XI XH)))))) n0)
    (N.leb n0 (Npos (XI (XO (XO (XI (XI XH)))))))

(** val digit_val : ascii -> n **)

let digit_val c =
  N.sub (n_of_ascii c) (Npos (XO (XO (XO (XO (XI XH))))))

(** val digits_val : n -> text -> n **)

let rec digits_val acc = function
| [] -> acc
| c :: r ->
  digits_val (N.add (N.mul (Npos (XO (XI (XO XH)))) acc) (digit_val c)) r

(** val elem_table : (text * n) list **)

let elem_table =
  map (fun p -> ((t (fst p)), (snd p))) element_table

(** val assoc_text : (text * 'a1) list -> text -> 'a1 option **)

let rec assoc_text l s =
  match l with
  | [] -> None
  | p :: r ->
    let (k, v) = p in if text_eqb k s then Some v else assoc_text r s

(** val z_of_symbol : text -> n option **)

let z_of_symbol s =
  assoc_text elem_table s

(** val symbol_of_in : (text * n) list -> n -> text option **)

let rec symbol_of_in l z0 =
  match l with
  | [] -> None
  | p :: r ->
    let (k, v) = p in if N.eqb v z0 then Some k else symbol_of_in r z0

(** val symbol_of : n -> text option **)

let symbol_of z0 =
  symbol_of_in elem_table z0

(** val hydrogen_isotopes : (text * (text * z)) list **)

let hydrogen_isotopes =
  map (fun p -> ((t (fst p)), ((t (fst (snd p))), (snd (snd p)))))
    hydrogen_isotope_table

type token =
| TSym of n
| TNum of z
| TSlash
| TLp
| TRp
| TDash
| TColon
| TComma
| TEq
| TMass
| TRad

(** val print_token : token -> text **)

let print_token = function
| TSym z0 -> opt_default [] (symbol_of z0)
| TNum z0 -> text_of_Z z0
| TSlash ->
  t (String ((Ascii (true, true, true, true, false, true, false, false)),
    EmptyString))
| TLp ->
  t (String ((Ascii (false, false, false, true, false, true, false, false)),
    EmptyString))
| TRp ->
  t (String ((Ascii (true, false, false, true, false, true, false, false)),
    EmptyString))
| TDash ->
  t (String ((Ascii (true, false, true, true, false, true, false, false)),
    EmptyString))
| TColon ->
  t (String ((Ascii (false, true, false, true, true, true, false, false)),
    EmptyString))
| TComma ->
  t (String ((Ascii (false, false, true, true, false, true, false, false)),
    EmptyString))
| TEq ->
  t (String ((Ascii (true, false, true, true, true, true, false, false)),
    EmptyString))
| TMass ->
  t (String ((Ascii (true, false, true, true, false, true, true, false)),
    (String ((Ascii (true, false, false, false, false, true, true, false)),
    (String ((Ascii (true, true, false, false, true, true, true, false)),
    (String ((Ascii (true, true, false, false, true, true, true, false)),
    EmptyString))))))))
| TRad ->
  t (String ((Ascii (false, true, false, false, true, true, true, false)),
    (String ((Ascii (true, false, false, false, false, true, true, false)),
    (String ((Ascii (false, false, true, false, false, true, true, false)),
    EmptyString))))))

(** val print_tokens : token list -> text **)

let print_tokens l =
  flat_map print_token l

(** val zval : 'a1 atom -> n **)

let zval x =
  x.zn

(** val zkey : ('a1, 'a2) mol -> 'a1 atom -> n list **)

let zkey m x =
  keyL ngeb zval m (x.lbl, x.zn)

(** val kl_leb : (n list * n) -> (n list * n) -> bool **)

let kl_leb a b =
  if lex nleb (fst a) (fst b)
  then if lex nleb (fst b) (fst a) then nleb (snd a) (snd b) else true
  else false

(** val sorted_by_Z : ('a1, 'a2) mol -> n list **)

let sorted_by_Z m =
  map snd (isort kl_leb (map (fun x -> ((zkey m x), x.lbl)) m.atoms))

(** val position_map : n list -> (n * n) list **)

let position_map l =
  map (fun p -> ((snd p), (fst p))) (enumerate_from N0 l)

(** val sort_by_Z : ('a1, 'a2) mol -> ('a1, 'a2) mol **)

let sort_by_Z m =
  relabel (fun_of_map (position_map (sorted_by_Z m))) m

(** val count_text : text -> text list -> n **)

let count_text s l =
  N.of_nat (length (filter (text_eqb s) l))

(** val formula_item : n -> n -> token list **)

let formula_item z0 c =
  if N.ltb (Npos XH) c
  then (TSym z0) :: ((TNum (Z.of_N c)) :: [])
  else (TSym z0) :: []

(** val sym_tokens : text list -> text -> token list **)

let sym_tokens syms s =
  match z_of_symbol s with
  | Some z0 -> formula_item z0 (count_text s syms)
  | None -> []

(** val formula_tokens : text list -> token list **)

let formula_tokens syms =
  let c =
    t (String ((Ascii (true, true, false, false, false, false, true, false)),
      EmptyString))
  in
  let h =
    t (String ((Ascii (false, false, false, true, false, false, true,
      false)), EmptyString))
  in
  let distinct = dedup text_leb (isort text_leb syms) in
  if existsb (text_eqb c) syms
  then app (sym_tokens syms c)
         (app (if existsb (text_eqb h) syms then sym_tokens syms h else [])
           (flat_map (sym_tokens syms)
             (filter (fun s ->
               (&&) (negb (text_eqb s c)) (negb (text_eqb s h))) distinct)))
  else flat_map (sym_tokens syms) distinct

(** val pair_leb : (n * n) -> (n * n) -> bool **)

let pair_leb a b =
  if N.ltb (fst a) (fst b)
  then true
  else if N.eqb (fst a) (fst b) then N.leb (snd a) (snd b) else false

(** val edge_tokens : ('a1, 'a2) mol -> token list **)

let edge_tokens m =
  flat_map (fun e -> TLp :: ((TNum
    (Z.add (Z.of_N (fst e)) (Zpos XH))) :: (TDash :: ((TNum
    (Z.add (Z.of_N (snd e)) (Zpos XH))) :: (TRp :: [])))))
    (isort pair_leb (map (fun b -> norm_pair (ends b)) m.bonds))

(** val prop_tokens : 'a1 atom -> token list list **)

let prop_tokens x =
  app
    (match x.mass with
     | Some v -> (TMass :: (TEq :: ((TNum v) :: []))) :: []
     | None -> [])
    (match x.rad with
     | Some v -> (TRad :: (TEq :: ((TNum v) :: []))) :: []
     | None -> [])

(** val join_comma : token list list -> token list **)

let rec join_comma = function
| [] -> []
| x :: r ->
  (match r with
   | [] -> x
   | _ :: _ -> app x (TComma :: (join_comma r)))

(** val atom_leb : 'a1 atom -> 'a1 atom -> bool **)

let atom_leb x y =
  N.leb x.lbl y.lbl

(** val attr_tokens : ('a1, 'a2) mol -> token list **)

let attr_tokens m =
  flat_map (fun x ->
    match prop_tokens x with
    | [] -> []
    | l :: l0 ->
      app (TLp :: ((TNum
        (Z.add (Z.of_N x.lbl) (Zpos XH))) :: (TColon :: [])))
        (app (join_comma (l :: l0)) (TRp :: []))) (isort atom_leb m.atoms)

(** val all_some : 'a1 option list -> 'a1 list option **)

let rec all_some = function
| [] -> Some []
| o :: r ->
  (match o with
   | Some x ->
     (match all_some r with
      | Some r' -> Some (x :: r')
      | None -> None)
   | None -> None)

(** val tokens_of : ('a1, 'a2) mol -> token list option **)

let tokens_of m =
  match all_some (map (fun x -> symbol_of x.zn) m.atoms) with
  | Some syms ->
    let at_ = attr_tokens m in
    Some
    (app (formula_tokens syms)
      (app (TSlash :: [])
        (app (edge_tokens m)
          (match at_ with
           | [] -> []
           | _ :: _ -> TSlash :: at_))))
  | None -> None

(** val serialize_tokens : ('a1, 'a2) mol -> token list option **)

let serialize_tokens m =
  match assign_final_labels m with
  | Some m1 -> tokens_of (sort_by_Z m1)
  | None -> None

(** val serialize : ('a1, 'a2) mol -> text option **)

let serialize m =
  option_map print_tokens (serialize_tokens m)

(** val with_carbon_g4 : (string * bool) list **)

let with_carbon_g4 =
  ((String ((Ascii (true, true, false, false, false, false, true, false)),
    EmptyString)), false) :: (((String ((Ascii (false, false, false, true,
    false, false, true, false)), EmptyString)), true) :: (((String ((Ascii
    (true, false, false, false, false, false, true, false)), (String ((Ascii
    (true, true, false, false, false, true, true, false)), EmptyString)))),
    true) :: (((String ((Ascii (true, false, false, false, false, false,
    true, false)), (String ((Ascii (true, true, true, false, false, true,
    true, false)), EmptyString)))), true) :: (((String ((Ascii (true, false,
    false, false, false, false, true, false)), (String ((Ascii (false, false,
    true, true, false, true, true, false)), EmptyString)))),
    true) :: (((String ((Ascii (true, false, false, false, false, false,
    true, false)), (String ((Ascii (true, false, true, true, false, true,
    true, false)), EmptyString)))), true) :: (((String ((Ascii (true, false,
    false, false, false, false, true, false)), (String ((Ascii (false, true,
    false, false, true, true, true, false)), EmptyString)))),
    true) :: (((String ((Ascii (true, false, false, false, false, false,
    true, false)), (String ((Ascii (true, true, false, false, true, true,
    true, false)), EmptyString)))), true) :: (((String ((Ascii (true, false,
    false, false, false, false, true, false)), (String ((Ascii (false, false,
    true, false, true, true, true, false)), EmptyString)))),
    true) :: (((String ((Ascii (true, false, false, false, false, false,
    true, false)), (String ((Ascii (true, false, true, false, true, true,
    true, false)), EmptyString)))), true) :: (((String ((Ascii (false, true,
    false, false, false, false, true, false)), EmptyString)),
    true) :: (((String ((Ascii (false, true, false, false, false, false,
    true, false)), (String ((Ascii (true, false, false, false, false, true,
    true, false)), EmptyString)))), true) :: (((String ((Ascii (false, true,
    false, false, false, false, true, false)), (String ((Ascii (true, false,
    true, false, false, true, true, false)), EmptyString)))),
    true) :: (((String ((Ascii (false, true, false, false, false, false,
    true, false)), (String ((Ascii (false, false, false, true, false, true,
    true, false)), EmptyString)))), true) :: (((String ((Ascii (false, true,
    false, false, false, false, true, false)), (String ((Ascii (true, false,
    false, true, false, true, true, false)), EmptyString)))),
    true) :: (((String ((Ascii (false, true, false, false, false, false,
    true, false)), (String ((Ascii (true, true, false, true, false, true,
    true, false)), EmptyString)))), true) :: (((String ((Ascii (false, true,
    false, false, false, false, true, false)), (String ((Ascii (false, true,
    false, false, true, true, true, false)), EmptyString)))),
    true) :: (((String ((Ascii (true, true, false, false, false, false, true,
    false)), (String ((Ascii (true, false, false, false, false, true, true,
    false)), EmptyString)))), true) :: (((String ((Ascii (true, true, false,
    false, false, false, true, false)), (String ((Ascii (false, false, true,
    false, false, true, true, false)), EmptyString)))), true) :: (((String
    ((Ascii (true, true, false, false, false, false, true, false)), (String
    ((Ascii (true, false, true, false, false, true, true, false)),
    EmptyString)))), true) :: (((String ((Ascii (true, true, false, false,
    false, false, true, false)), (String ((Ascii (false, true, true, false,
    false, true, true, false)), EmptyString)))), true) :: (((String ((Ascii
    (true, true, false, false, false, false, true, false)), (String ((Ascii
    (false, false, true, true, false, true, true, false)), EmptyString)))),
    true) :: (((String ((Ascii (true, true, false, false, false, false, true,
    false)), (String ((Ascii (true, false, true, true, false, true, true,
    false)), EmptyString)))), true) :: (((String ((Ascii (true, true, false,
    false, false, false, true, false)), (String ((Ascii (false, true, true,
    true, false, true, true, false)), EmptyString)))), true) :: (((String
    ((Ascii (true, true, false, false, false, false, true, false)), (String
    ((Ascii (true, true, true, true, false, true, true, false)),
    EmptyString)))), true) :: (((String ((Ascii (true, true, false, false,
    false, false, true, false)), (String ((Ascii (false, true, false, false,
    true, true, true, false)), EmptyString)))), true) :: (((String ((Ascii
    (true, true, false, false, false, false, true, false)), (String ((Ascii
    (true, true, false, false, true, true, true, false)), EmptyString)))),
    true) :: (((String ((Ascii (true, true, false, false, false, false, true,
    false)), (String ((Ascii (true, false, true, false, true, true, true,
    false)), EmptyString)))), true) :: (((String ((Ascii (false, false, true,
    false, false, false, true, false)), (String ((Ascii (false, true, false,
    false, false, true, true, false)), EmptyString)))), true) :: (((String
    ((Ascii (false, false, true, false, false, false, true, false)), (String
    ((Ascii (true, true, false, false, true, true, true, false)),
    EmptyString)))), true) :: (((String ((Ascii (false, false, true, false,
    false, false, true, false)), (String ((Ascii (true, false, false, true,
    true, true, true, false)), EmptyString)))), true) :: (((String ((Ascii
    (true, false, true, false, false, false, true, false)), (String ((Ascii
    (false, true, false, false, true, true, true, false)), EmptyString)))),
    true) :: (((String ((Ascii (true, false, true, false, false, false, true,
    false)), (String ((Ascii (true, true, false, false, true, true, true,
    false)), EmptyString)))), true) :: (((String ((Ascii (true, false, true,
    false, false, false, true, false)), (String ((Ascii (true, false, true,
    false, true, true, true, false)), EmptyString)))), true) :: (((String
    ((Ascii (false, true, true, false, false, false, true, false)),
    EmptyString)), true) :: (((String ((Ascii (false, true, true, false,
    false, false, true, false)), (String ((Ascii (true, false, true, false,
    false, true, true, false)), EmptyString)))), true) :: (((String ((Ascii
    (false, true, true, false, false, false, true, false)), (String ((Ascii
    (false, false, true, true, false, true, true, false)), EmptyString)))),
    true) :: (((String ((Ascii (false, true, true, false, false, false, true,
    false)), (String ((Ascii (true, false, true, true, false, true, true,
    false)), EmptyString)))), true) :: (((String ((Ascii (false, true, true,
    false, false, false, true, false)), (String ((Ascii (false, true, false,
    false, true, true, true, false)), EmptyString)))), true) :: (((String
    ((Ascii (true, true, true, false, false, false, true, false)), (String
    ((Ascii (true, false, false, false, false, true, true, false)),
    EmptyString)))), true) :: (((String ((Ascii (true, true, true, false,
    false, false, true, false)), (String ((Ascii (false, false, true, false,
    false, true, true, false)), EmptyString)))), true) :: (((String ((Ascii
    (true, true, true, false, false, false, true, false)), (String ((Ascii
    (true, false, true, false, false, true, true, false)), EmptyString)))),
    true) :: (((String ((Ascii (false, false, false, true, false, false,
    true, false)), (String ((Ascii (true, false, true, false, false, true,
    true, false)), EmptyString)))), true) :: (((String ((Ascii (false, false,
    false, true, false, false, true, false)), (String ((Ascii (false, true,
    true, false, false, true, true, false)), EmptyString)))),
    true) :: (((String ((Ascii (false, false, false, true, false, false,
    true, false)), (String ((Ascii (true, true, true, false, false, true,
    true, false)), EmptyString)))), true) :: (((String ((Ascii (false, false,
    false, true, false, false, true, false)), (String ((Ascii (true, true,
    true, true, false, true, true, false)), EmptyString)))),
    true) :: (((String ((Ascii (false, false, false, true, false, false,
    true, false)), (String ((Ascii (true, true, false, false, true, true,
    true, false)), EmptyString)))), true) :: (((String ((Ascii (true, false,
    false, true, false, false, true, false)), EmptyString)),
    true) :: (((String ((Ascii (true, false, false, true, false, false, true,
    false)), (String ((Ascii (false, true, true, true, false, true, true,
    false)), EmptyString)))), true) :: (((String ((Ascii (true, false, false,
    true, false, false, true, false)), (String ((Ascii (false, true, false,
    false, true, true, true, false)), EmptyString)))), true) :: (((String
    ((Ascii (true, true, false, true, false, false, true, false)),
    EmptyString)), true) :: (((String ((Ascii (true, true, false, true,
    false, false, true, false)), (String ((Ascii (false, true, false, false,
    true, true, true, false)), EmptyString)))), true) :: (((String ((Ascii
    (false, false, true, true, false, false, true, false)), (String ((Ascii
    (true, false, false, false, false, true, true, false)), EmptyString)))),
    true) :: (((String ((Ascii (false, false, true, true, false, false, true,
    false)), (String ((Ascii (true, false, false, true, false, true, true,
    false)), EmptyString)))), true) :: (((String ((Ascii (false, false, true,
    true, false, false, true, false)), (String ((Ascii (false, true, false,
    false, true, true, true, false)), EmptyString)))), true) :: (((String
    ((Ascii (false, false, true, true, false, false, true, false)), (String
    ((Ascii (true, false, true, false, true, true, true, false)),
    EmptyString)))), true) :: (((String ((Ascii (false, false, true, true,
    false, false, true, false)), (String ((Ascii (false, true, true, false,
    true, true, true, false)), EmptyString)))), true) :: (((String ((Ascii
    (true, false, true, true, false, false, true, false)), (String ((Ascii
    (true, true, false, false, false, true, true, false)), EmptyString)))),
    true) :: (((String ((Ascii (true, false, true, true, false, false, true,
    false)), (String ((Ascii (false, false, true, false, false, true, true,
    false)), EmptyString)))), true) :: (((String ((Ascii (true, false, true,
    true, false, false, true, false)), (String ((Ascii (true, true, true,
    false, false, true, true, false)), EmptyString)))), true) :: (((String
    ((Ascii (true, false, true, true, false, false, true, false)), (String
    ((Ascii (false, true, true, true, false, true, true, false)),
    EmptyString)))), true) :: (((String ((Ascii (true, false, true, true,
    false, false, true, false)), (String ((Ascii (true, true, true, true,
    false, true, true, false)), EmptyString)))), true) :: (((String ((Ascii
    (true, false, true, true, false, false, true, false)), (String ((Ascii
    (false, false, true, false, true, true, true, false)), EmptyString)))),
    true) :: (((String ((Ascii (false, true, true, true, false, false, true,
    false)), EmptyString)), true) :: (((String ((Ascii (false, true, true,
    true, false, false, true, false)), (String ((Ascii (true, false, false,
    false, false, true, true, false)), EmptyString)))), true) :: (((String
    ((Ascii (false, true, true, true, false, false, true, false)), (String
    ((Ascii (false, true, false, false, false, true, true, false)),
    EmptyString)))), true) :: (((String ((Ascii (false, true, true, true,
    false, false, true, false)), (String ((Ascii (false, false, true, false,
    false, true, true, false)), EmptyString)))), true) :: (((String ((Ascii
    (false, true, true, true, false, false, true, false)), (String ((Ascii
    (true, false, true, false, false, true, true, false)), EmptyString)))),
    true) :: (((String ((Ascii (false, true, true, true, false, false, true,
    false)), (String ((Ascii (false, false, false, true, false, true, true,
    false)), EmptyString)))), true) :: (((String ((Ascii (false, true, true,
    true, false, false, true, false)), (String ((Ascii (true, false, false,
    true, false, true, true, false)), EmptyString)))), true) :: (((String
    ((Ascii (false, true, true, true, false, false, true, false)), (String
    ((Ascii (true, true, true, true, false, true, true, false)),
    EmptyString)))), true) :: (((String ((Ascii (false, true, true, true,
    false, false, true, false)), (String ((Ascii (false, false, false, false,
    true, true, true, false)), EmptyString)))), true) :: (((String ((Ascii
    (true, true, true, true, false, false, true, false)), EmptyString)),
    true) :: (((String ((Ascii (true, true, true, true, false, false, true,
    false)), (String ((Ascii (true, true, true, false, false, true, true,
    false)), EmptyString)))), true) :: (((String ((Ascii (true, true, true,
    true, false, false, true, false)), (String ((Ascii (true, true, false,
    false, true, true, true, false)), EmptyString)))), true) :: (((String
    ((Ascii (false, false, false, false, true, false, true, false)),
    EmptyString)), true) :: (((String ((Ascii (false, false, false, false,
    true, false, true, false)), (String ((Ascii (true, false, false, false,
    false, true, true, false)), EmptyString)))), true) :: (((String ((Ascii
    (false, false, false, false, true, false, true, false)), (String ((Ascii
    (false, true, false, false, false, true, true, false)), EmptyString)))),
    true) :: (((String ((Ascii (false, false, false, false, true, false,
    true, false)), (String ((Ascii (false, false, true, false, false, true,
    true, false)), EmptyString)))), true) :: (((String ((Ascii (false, false,
    false, false, true, false, true, false)), (String ((Ascii (true, false,
    true, true, false, true, true, false)), EmptyString)))),
    true) :: (((String ((Ascii (false, false, false, false, true, false,
    true, false)), (String ((Ascii (true, true, true, true, false, true,
    true, false)), EmptyString)))), true) :: (((String ((Ascii (false, false,
    false, false, true, false, true, false)), (String ((Ascii (false, true,
    false, false, true, true, true, false)), EmptyString)))),
    true) :: (((String ((Ascii (false, false, false, false, true, false,
    true, false)), (String ((Ascii (false, false, true, false, true, true,
    true, false)), EmptyString)))), true) :: (((String ((Ascii (false, false,
    false, false, true, false, true, false)), (String ((Ascii (true, false,
    true, false, true, true, true, false)), EmptyString)))),
    true) :: (((String ((Ascii (false, true, false, false, true, false, true,
    false)), (String ((Ascii (true, false, false, false, false, true, true,
    false)), EmptyString)))), true) :: (((String ((Ascii (false, true, false,
    false, true, false, true, false)), (String ((Ascii (false, true, false,
    false, false, true, true, false)), EmptyString)))), true) :: (((String
    ((Ascii (false, true, false, false, true, false, true, false)), (String
    ((Ascii (true, false, true, false, false, true, true, false)),
    EmptyString)))), true) :: (((String ((Ascii (false, true, false, false,
    true, false, true, false)), (String ((Ascii (false, true, true, false,
    false, true, true, false)), EmptyString)))), true) :: (((String ((Ascii
    (false, true, false, false, true, false, true, false)), (String ((Ascii
    (true, true, true, false, false, true, true, false)), EmptyString)))),
    true) :: (((String ((Ascii (false, true, false, false, true, false, true,
    false)), (String ((Ascii (false, false, false, true, false, true, true,
    false)), EmptyString)))), true) :: (((String ((Ascii (false, true, false,
    false, true, false, true, false)), (String ((Ascii (false, true, true,
    true, false, true, true, false)), EmptyString)))), true) :: (((String
    ((Ascii (false, true, false, false, true, false, true, false)), (String
    ((Ascii (true, false, true, false, true, true, true, false)),
    EmptyString)))), true) :: (((String ((Ascii (true, true, false, false,
    true, false, true, false)), EmptyString)), true) :: (((String ((Ascii
    (true, true, false, false, true, false, true, false)), (String ((Ascii
    (false, true, false, false, false, true, true, false)), EmptyString)))),
    true) :: (((String ((Ascii (true, true, false, false, true, false, true,
    false)), (String ((Ascii (true, true, false, false, false, true, true,
    false)), EmptyString)))), true) :: (((String ((Ascii (true, true, false,
    false, true, false, true, false)), (String ((Ascii (true, false, true,
    false, false, true, true, false)), EmptyString)))), true) :: (((String
    ((Ascii (true, true, false, false, true, false, true, false)), (String
    ((Ascii (true, true, true, false, false, true, true, false)),
    EmptyString)))), true) :: (((String ((Ascii (true, true, false, false,
    true, false, true, false)), (String ((Ascii (true, false, false, true,
    false, true, true, false)), EmptyString)))), true) :: (((String ((Ascii
    (true, true, false, false, true, false, true, false)), (String ((Ascii
    (true, false, true, true, false, true, true, false)), EmptyString)))),
    true) :: (((String ((Ascii (true, true, false, false, true, false, true,
    false)), (String ((Ascii (false, true, true, true, false, true, true,
    false)), EmptyString)))), true) :: (((String ((Ascii (true, true, false,
    false, true, false, true, false)), (String ((Ascii (false, true, false,
    false, true, true, true, false)), EmptyString)))), true) :: (((String
    ((Ascii (false, false, true, false, true, false, true, false)), (String
    ((Ascii (true, false, false, false, false, true, true, false)),
    EmptyString)))), true) :: (((String ((Ascii (false, false, true, false,
    true, false, true, false)), (String ((Ascii (false, true, false, false,
    false, true, true, false)), EmptyString)))), true) :: (((String ((Ascii
    (false, false, true, false, true, false, true, false)), (String ((Ascii
    (true, true, false, false, false, true, true, false)), EmptyString)))),
    true) :: (((String ((Ascii (false, false, true, false, true, false, true,
    false)), (String ((Ascii (true, false, true, false, false, true, true,
    false)), EmptyString)))), true) :: (((String ((Ascii (false, false, true,
    false, true, false, true, false)), (String ((Ascii (false, false, false,
    true, false, true, true, false)), EmptyString)))), true) :: (((String
    ((Ascii (false, false, true, false, true, false, true, false)), (String
    ((Ascii (true, false, false, true, false, true, true, false)),
    EmptyString)))), true) :: (((String ((Ascii (false, false, true, false,
    true, false, true, false)), (String ((Ascii (false, false, true, true,
    false, true, true, false)), EmptyString)))), true) :: (((String ((Ascii
    (false, false, true, false, true, false, true, false)), (String ((Ascii
    (true, false, true, true, false, true, true, false)), EmptyString)))),
    true) :: (((String ((Ascii (false, false, true, false, true, false, true,
    false)), (String ((Ascii (true, true, false, false, true, true, true,
    false)), EmptyString)))), true) :: (((String ((Ascii (true, false, true,
    false, true, false, true, false)), EmptyString)), true) :: (((String
    ((Ascii (false, true, true, false, true, false, true, false)),
    EmptyString)), true) :: (((String ((Ascii (true, true, true, false, true,
    false, true, false)), EmptyString)), true) :: (((String ((Ascii (false,
    false, false, true, true, false, true, false)), (String ((Ascii (true,
    false, true, false, false, true, true, false)), EmptyString)))),
    true) :: (((String ((Ascii (true, false, false, true, true, false, true,
    false)), EmptyString)), true) :: (((String ((Ascii (true, false, false,
    true, true, false, true, false)), (String ((Ascii (false, true, false,
    false, false, true, true, false)), EmptyString)))), true) :: (((String
    ((Ascii (false, true, false, true, true, false, true, false)), (String
    ((Ascii (false, true, true, true, false, true, true, false)),
    EmptyString)))), true) :: (((String ((Ascii (false, true, false, true,
    true, false, true, false)), (String ((Ascii (false, true, false, false,
    true, true, true, false)), EmptyString)))),
    true) :: [])))))))))))))))))))))))))))))))))))))))))))))))))))))))))))))))))))))))))))))))))))))))))))))))))))))))))))))))))))))

(** val without_carbon_g4 : (string * bool) list **)

let without_carbon_g4 =
  ((String ((Ascii (true, false, false, false, false, false, true, false)),
    (String ((Ascii (true, true, false, false, false, true, true, false)),
    EmptyString)))), true) :: (((String ((Ascii (true, false, false, false,
    false, false, true, false)), (String ((Ascii (true, true, true, false,
    false, true, true, false)), EmptyString)))), true) :: (((String ((Ascii
    (true, false, false, false, false, false, true, false)), (String ((Ascii
    (false, false, true, true, false, true, true, false)), EmptyString)))),
    true) :: (((String ((Ascii (true, false, false, false, false, false,
    true, false)), (String ((Ascii (true, false, true, true, false, true,
    true, false)), EmptyString)))), true) :: (((String ((Ascii (true, false,
    false, false, false, false, true, false)), (String ((Ascii (false, true,
    false, false, true, true, true, false)), EmptyString)))),
    true) :: (((String ((Ascii (true, false, false, false, false, false,
    true, false)), (String ((Ascii (true, true, false, false, true, true,
    true, false)), EmptyString)))), true) :: (((String ((Ascii (true, false,
    false, false, false, false, true, false)), (String ((Ascii (false, false,
    true, false, true, true, true, false)), EmptyString)))),
    true) :: (((String ((Ascii (true, false, false, false, false, false,
    true, false)), (String ((Ascii (true, false, true, false, true, true,
    true, false)), EmptyString)))), true) :: (((String ((Ascii (false, true,
    false, false, false, false, true, false)), EmptyString)),
    true) :: (((String ((Ascii (false, true, false, false, false, false,
    true, false)), (String ((Ascii (true, false, false, false, false, true,
    true, false)), EmptyString)))), true) :: (((String ((Ascii (false, true,
    false, false, false, false, true, false)), (String ((Ascii (true, false,
    true, false, false, true, true, false)), EmptyString)))),
    true) :: (((String ((Ascii (false, true, false, false, false, false,
    true, false)), (String ((Ascii (false, false, false, true, false, true,
    true, false)), EmptyString)))), true) :: (((String ((Ascii (false, true,
    false, false, false, false, true, false)), (String ((Ascii (true, false,
    false, true, false, true, true, false)), EmptyString)))),
    true) :: (((String ((Ascii (false, true, false, false, false, false,
    true, false)), (String ((Ascii (true, true, false, true, false, true,
    true, false)), EmptyString)))), true) :: (((String ((Ascii (false, true,
    false, false, false, false, true, false)), (String ((Ascii (false, true,
    false, false, true, true, true, false)), EmptyString)))),
    true) :: (((String ((Ascii (true, true, false, false, false, false, true,
    false)), (String ((Ascii (true, false, false, false, false, true, true,
    false)), EmptyString)))), true) :: (((String ((Ascii (true, true, false,
    false, false, false, true, false)), (String ((Ascii (false, false, true,
    false, false, true, true, false)), EmptyString)))), true) :: (((String
    ((Ascii (true, true, false, false, false, false, true, false)), (String
    ((Ascii (true, false, true, false, false, true, true, false)),
    EmptyString)))), true) :: (((String ((Ascii (true, true, false, false,
    false, false, true, false)), (String ((Ascii (false, true, true, false,
    false, true, true, false)), EmptyString)))), true) :: (((String ((Ascii
    (true, true, false, false, false, false, true, false)), (String ((Ascii
    (false, false, true, true, false, true, true, false)), EmptyString)))),
    true) :: (((String ((Ascii (true, true, false, false, false, false, true,
    false)), (String ((Ascii (true, false, true, true, false, true, true,
    false)), EmptyString)))), true) :: (((String ((Ascii (true, true, false,
    false, false, false, true, false)), (String ((Ascii (false, true, true,
    true, false, true, true, false)), EmptyString)))), true) :: (((String
    ((Ascii (true, true, false, false, false, false, true, false)), (String
    ((Ascii (true, true, true, true, false, true, true, false)),
    EmptyString)))), true) :: (((String ((Ascii (true, true, false, false,
    false, false, true, false)), (String ((Ascii (false, true, false, false,
    true, true, true, false)), EmptyString)))), true) :: (((String ((Ascii
    (true, true, false, false, false, false, true, false)), (String ((Ascii
    (true, true, false, false, true, true, true, false)), EmptyString)))),
    true) :: (((String ((Ascii (true, true, false, false, false, false, true,
    false)), (String ((Ascii (true, false, true, false, true, true, true,
    false)), EmptyString)))), true) :: (((String ((Ascii (false, false, true,
    false, false, false, true, false)), (String ((Ascii (false, true, false,
    false, false, true, true, false)), EmptyString)))), true) :: (((String
    ((Ascii (false, false, true, false, false, false, true, false)), (String
    ((Ascii (true, true, false, false, true, true, true, false)),
    EmptyString)))), true) :: (((String ((Ascii (false, false, true, false,
    false, false, true, false)), (String ((Ascii (true, false, false, true,
    true, true, true, false)), EmptyString)))), true) :: (((String ((Ascii
    (true, false, true, false, false, false, true, false)), (String ((Ascii
    (false, true, false, false, true, true, true, false)), EmptyString)))),
    true) :: (((String ((Ascii (true, false, true, false, false, false, true,
    false)), (String ((Ascii (true, true, false, false, true, true, true,
    false)), EmptyString)))), true) :: (((String ((Ascii (true, false, true,
    false, false, false, true, false)), (String ((Ascii (true, false, true,
    false, true, true, true, false)), EmptyString)))), true) :: (((String
    ((Ascii (false, true, true, false, false, false, true, false)),
    EmptyString)), true) :: (((String ((Ascii (false, true, true, false,
    false, false, true, false)), (String ((Ascii (true, false, true, false,
    false, true, true, false)), EmptyString)))), true) :: (((String ((Ascii
    (false, true, true, false, false, false, true, false)), (String ((Ascii
    (false, false, true, true, false, true, true, false)), EmptyString)))),
    true) :: (((String ((Ascii (false, true, true, false, false, false, true,
    false)), (String ((Ascii (true, false, true, true, false, true, true,
    false)), EmptyString)))), true) :: (((String ((Ascii (false, true, true,
    false, false, false, true, false)), (String ((Ascii (false, true, false,
    false, true, true, true, false)), EmptyString)))), true) :: (((String
    ((Ascii (true, true, true, false, false, false, true, false)), (String
    ((Ascii (true, false, false, false, false, true, true, false)),
    EmptyString)))), true) :: (((String ((Ascii (true, true, true, false,
    false, false, true, false)), (String ((Ascii (false, false, true, false,
    false, true, true, false)), EmptyString)))), true) :: (((String ((Ascii
    (true, true, true, false, false, false, true, false)), (String ((Ascii
    (true, false, true, false, false, true, true, false)), EmptyString)))),
    true) :: (((String ((Ascii (false, false, false, true, false, false,
    true, false)), EmptyString)), true) :: (((String ((Ascii (false, false,
    false, true, false, false, true, false)), (String ((Ascii (true, false,
    true, false, false, true, true, false)), EmptyString)))),
    true) :: (((String ((Ascii (false, false, false, true, false, false,
    true, false)), (String ((Ascii (false, true, true, false, false, true,
    true, false)), EmptyString)))), true) :: (((String ((Ascii (false, false,
    false, true, false, false, true, false)), (String ((Ascii (true, true,
    true, false, false, true, true, false)), EmptyString)))),
    true) :: (((String ((Ascii (false, false, false, true, false, false,
    true, false)), (String ((Ascii (true, true, true, true, false, true,
    true, false)), EmptyString)))), true) :: (((String ((Ascii (false, false,
    false, true, false, false, true, false)), (String ((Ascii (true, true,
    false, false, true, true, true, false)), EmptyString)))),
    true) :: (((String ((Ascii (true, false, false, true, false, false, true,
    false)), EmptyString)), true) :: (((String ((Ascii (true, false, false,
    true, false, false, true, false)), (String ((Ascii (false, true, true,
    true, false, true, true, false)), EmptyString)))), true) :: (((String
    ((Ascii (true, false, false, true, false, false, true, false)), (String
    ((Ascii (false, true, false, false, true, true, true, false)),
    EmptyString)))), true) :: (((String ((Ascii (true, true, false, true,
    false, false, true, false)), EmptyString)), true) :: (((String ((Ascii
    (true, true, false, true, false, false, true, false)), (String ((Ascii
    (false, true, false, false, true, true, true, false)), EmptyString)))),
    true) :: (((String ((Ascii (false, false, true, true, false, false, true,
    false)), (String ((Ascii (true, false, false, false, false, true, true,
    false)), EmptyString)))), true) :: (((String ((Ascii (false, false, true,
    true, false, false, true, false)), (String ((Ascii (true, false, false,
    true, false, true, true, false)), EmptyString)))), true) :: (((String
    ((Ascii (false, false, true, true, false, false, true, false)), (String
    ((Ascii (false, true, false, false, true, true, true, false)),
    EmptyString)))), true) :: (((String ((Ascii (false, false, true, true,
    false, false, true, false)), (String ((Ascii (true, false, true, false,
    true, true, true, false)), EmptyString)))), true) :: (((String ((Ascii
    (false, false, true, true, false, false, true, false)), (String ((Ascii
    (false, true, true, false, true, true, true, false)), EmptyString)))),
    true) :: (((String ((Ascii (true, false, true, true, false, false, true,
    false)), (String ((Ascii (true, true, false, false, false, true, true,
    false)), EmptyString)))), true) :: (((String ((Ascii (true, false, true,
    true, false, false, true, false)), (String ((Ascii (false, false, true,
    false, false, true, true, false)), EmptyString)))), true) :: (((String
    ((Ascii (true, false, true, true, false, false, true, false)), (String
    ((Ascii (true, true, true, false, false, true, true, false)),
    EmptyString)))), true) :: (((String ((Ascii (true, false, true, true,
    false, false, true, false)), (String ((Ascii (false, true, true, true,
    false, true, true, false)), EmptyString)))), true) :: (((String ((Ascii
    (true, false, true, true, false, false, true, false)), (String ((Ascii
    (true, true, true, true, false, true, true, false)), EmptyString)))),
    true) :: (((String ((Ascii (true, false, true, true, false, false, true,
    false)), (String ((Ascii (false, false, true, false, true, true, true,
    false)), EmptyString)))), true) :: (((String ((Ascii (false, true, true,
    true, false, false, true, false)), EmptyString)), true) :: (((String
    ((Ascii (false, true, true, true, false, false, true, false)), (String
    ((Ascii (true, false, false, false, false, true, true, false)),
    EmptyString)))), true) :: (((String ((Ascii (false, true, true, true,
    false, false, true, false)), (String ((Ascii (false, true, false, false,
    false, true, true, false)), EmptyString)))), true) :: (((String ((Ascii
    (false, true, true, true, false, false, true, false)), (String ((Ascii
    (false, false, true, false, false, true, true, false)), EmptyString)))),
    true) :: (((String ((Ascii (false, true, true, true, false, false, true,
    false)), (String ((Ascii (true, false, true, false, false, true, true,
    false)), EmptyString)))), true) :: (((String ((Ascii (false, true, true,
    true, false, false, true, false)), (String ((Ascii (false, false, false,
    true, false, true, true, false)), EmptyString)))), true) :: (((String
    ((Ascii (false, true, true, true, false, false, true, false)), (String
    ((Ascii (true, false, false, true, false, true, true, false)),
    EmptyString)))), true) :: (((String ((Ascii (false, true, true, true,
    false, false, true, false)), (String ((Ascii (true, true, true, true,
    false, true, true, false)), EmptyString)))), true) :: (((String ((Ascii
    (false, true, true, true, false, false, true, false)), (String ((Ascii
    (false, false, false, false, true, true, true, false)), EmptyString)))),
    true) :: (((String ((Ascii (true, true, true, true, false, false, true,
    false)), EmptyString)), true) :: (((String ((Ascii (true, true, true,
    true, false, false, true, false)), (String ((Ascii (true, true, true,
    false, false, true, true, false)), EmptyString)))), true) :: (((String
    ((Ascii (true, true, true, true, false, false, true, false)), (String
    ((Ascii (true, true, false, false, true, true, true, false)),
    EmptyString)))), true) :: (((String ((Ascii (false, false, false, false,
    true, false, true, false)), EmptyString)), true) :: (((String ((Ascii
    (false, false, false, false, true, false, true, false)), (String ((Ascii
    (true, false, false, false, false, true, true, false)), EmptyString)))),
    true) :: (((String ((Ascii (false, false, false, false, true, false,
    true, false)), (String ((Ascii (false, true, false, false, false, true,
    true, false)), EmptyString)))), true) :: (((String ((Ascii (false, false,
    false, false, true, false, true, false)), (String ((Ascii (false, false,
    true, false, false, true, true, false)), EmptyString)))),
    true) :: (((String ((Ascii (false, false, false, false, true, false,
    true, false)), (String ((Ascii (true, false, true, true, false, true,
    true, false)), EmptyString)))), true) :: (((String ((Ascii (false, false,
    false, false, true, false, true, false)), (String ((Ascii (true, true,
    true, true, false, true, true, false)), EmptyString)))),
    true) :: (((String ((Ascii (false, false, false, false, true, false,
    true, false)), (String ((Ascii (false, true, false, false, true, true,
    true, false)), EmptyString)))), true) :: (((String ((Ascii (false, false,
    false, false, true, false, true, false)), (String ((Ascii (false, false,
    true, false, true, true, true, false)), EmptyString)))),
    true) :: (((String ((Ascii (false, false, false, false, true, false,
    true, false)), (String ((Ascii (true, false, true, false, true, true,
    true, false)), EmptyString)))), true) :: (((String ((Ascii (false, true,
    false, false, true, false, true, false)), (String ((Ascii (true, false,
    false, false, false, true, true, false)), EmptyString)))),
    true) :: (((String ((Ascii (false, true, false, false, true, false, true,
    false)), (String ((Ascii (false, true, false, false, false, true, true,
    false)), EmptyString)))), true) :: (((String ((Ascii (false, true, false,
    false, true, false, true, false)), (String ((Ascii (true, false, true,
    false, false, true, true, false)), EmptyString)))), true) :: (((String
    ((Ascii (false, true, false, false, true, false, true, false)), (String
    ((Ascii (false, true, true, false, false, true, true, false)),
    EmptyString)))), true) :: (((String ((Ascii (false, true, false, false,
    true, false, true, false)), (String ((Ascii (true, true, true, false,
    false, true, true, false)), EmptyString)))), true) :: (((String ((Ascii
    (false, true, false, false, true, false, true, false)), (String ((Ascii
    (false, false, false, true, false, true, true, false)), EmptyString)))),
    true) :: (((String ((Ascii (false, true, false, false, true, false, true,
    false)), (String ((Ascii (false, true, true, true, false, true, true,
    false)), EmptyString)))), true) :: (((String ((Ascii (false, true, false,
    false, true, false, true, false)), (String ((Ascii (true, false, true,
    false, true, true, true, false)), EmptyString)))), true) :: (((String
    ((Ascii (true, true, false, false, true, false, true, false)),
    EmptyString)), true) :: (((String ((Ascii (true, true, false, false,
    true, false, true, false)), (String ((Ascii (false, true, false, false,
    false, true, true, false)), EmptyString)))), true) :: (((String ((Ascii
    (true, true, false, false, true, false, true, false)), (String ((Ascii
    (true, true, false, false, false, true, true, false)), EmptyString)))),
    true) :: (((String ((Ascii (true, true, false, false, true, false, true,
    false)), (String ((Ascii (true, false, true, false, false, true, true,
    false)), EmptyString)))), true) :: (((String ((Ascii (true, true, false,
    false, true, false, true, false)), (String ((Ascii (true, true, true,
    false, false, true, true, false)), EmptyString)))), true) :: (((String
    ((Ascii (true, true, false, false, true, false, true, false)), (String
    ((Ascii (true, false, false, true, false, true, true, false)),
    EmptyString)))), true) :: (((String ((Ascii (true, true, false, false,
    true, false, true, false)), (String ((Ascii (true, false, true, true,
    false, true, true, false)), EmptyString)))), true) :: (((String ((Ascii
    (true, true, false, false, true, false, true, false)), (String ((Ascii
    (false, true, true, true, false, true, true, false)), EmptyString)))),
    true) :: (((String ((Ascii (true, true, false, false, true, false, true,
    false)), (String ((Ascii (false, true, false, false, true, true, true,
    false)), EmptyString)))), true) :: (((String ((Ascii (false, false, true,
    false, true, false, true, false)), (String ((Ascii (true, false, false,
    false, false, true, true, false)), EmptyString)))), true) :: (((String
    ((Ascii (false, false, true, false, true, false, true, false)), (String
    ((Ascii (false, true, false, false, false, true, true, false)),
    EmptyString)))), true) :: (((String ((Ascii (false, false, true, false,
    true, false, true, false)), (String ((Ascii (true, true, false, false,
    false, true, true, false)), EmptyString)))), true) :: (((String ((Ascii
    (false, false, true, false, true, false, true, false)), (String ((Ascii
    (true, false, true, false, false, true, true, false)), EmptyString)))),
    true) :: (((String ((Ascii (false, false, true, false, true, false, true,
    false)), (String ((Ascii (false, false, false, true, false, true, true,
    false)), EmptyString)))), true) :: (((String ((Ascii (false, false, true,
    false, true, false, true, false)), (String ((Ascii (true, false, false,
    true, false, true, true, false)), EmptyString)))), true) :: (((String
    ((Ascii (false, false, true, false, true, false, true, false)), (String
    ((Ascii (false, false, true, true, false, true, true, false)),
    EmptyString)))), true) :: (((String ((Ascii (false, false, true, false,
    true, false, true, false)), (String ((Ascii (true, false, true, true,
    false, true, true, false)), EmptyString)))), true) :: (((String ((Ascii
    (false, false, true, false, true, false, true, false)), (String ((Ascii
    (true, true, false, false, true, true, true, false)), EmptyString)))),
    true) :: (((String ((Ascii (true, false, true, false, true, false, true,
    false)), EmptyString)), true) :: (((String ((Ascii (false, true, true,
    false, true, false, true, false)), EmptyString)), true) :: (((String
    ((Ascii (true, true, true, false, true, false, true, false)),
    EmptyString)), true) :: (((String ((Ascii (false, false, false, true,
    true, false, true, false)), (String ((Ascii (true, false, true, false,
    false, true, true, false)), EmptyString)))), true) :: (((String ((Ascii
    (true, false, false, true, true, false, true, false)), EmptyString)),
    true) :: (((String ((Ascii (true, false, false, true, true, false, true,
    false)), (String ((Ascii (false, true, false, false, false, true, true,
    false)), EmptyString)))), true) :: (((String ((Ascii (false, true, false,
    true, true, false, true, false)), (String ((Ascii (false, true, true,
    true, false, true, true, false)), EmptyString)))), true) :: (((String
    ((Ascii (false, true, false, true, true, false, true, false)), (String
    ((Ascii (false, true, false, false, true, true, true, false)),
    EmptyString)))),
    true) :: []))))))))))))))))))))))))))))))))))))))))))))))))))))))))))))))))))))))))))))))))))))))))))))))))))))))))))))))))))))

(** val is_upper : ascii -> bool **)

let is_upper c =
  let n0 = n_of_ascii c in
  (&&) (N.leb (Npos (XI (XO (XO (XO (XO (XO XH))))))) n0)
    (N.leb n0 (Npos (XO (XI (XO (XI (XI (XO XH))))))))

(** val is_lower : ascii -> bool **)

let is_lower c =
  let n0 = n_of_ascii c in
  (&&) (N.leb (Npos (XI (XO (XO (XO (XO (XI XH))))))) n0)
    (N.leb n0 (Npos (XO (XI (XO (XI (XI (XI XH))))))))

(** val span_digits : text -> text * text **)

let rec span_digits l = match l with
| [] -> ([], [])
| c :: r ->
  if is_digit c
  then let (d, rest) = span_digits r in ((c :: d), rest)
  else ([], l)

(** val strip_prefix : text -> text -> text option **)

let rec strip_prefix p l =
  match p with
  | [] -> Some l
  | a :: p' ->
    (match l with
     | [] -> None
     | b :: l' -> if ascii_eqb a b then strip_prefix p' l' else None)

(** val punct : ascii -> token option **)

let punct c =
  let n0 = n_of_ascii c in
  if N.eqb n0 (Npos (XI (XI (XI (XI (XO XH))))))
  then Some TSlash
  else if N.eqb n0 (Npos (XO (XO (XO (XI (XO XH))))))
       then Some TLp
       else if N.eqb n0 (Npos (XI (XO (XO (XI (XO XH))))))
            then Some TRp
            else if N.eqb n0 (Npos (XI (XO (XI (XI (XO XH))))))
                 then Some TDash
                 else if N.eqb n0 (Npos (XO (XI (XO (XI (XI XH))))))
                      then Some TColon
                      else if N.eqb n0 (Npos (XO (XO (XI (XI (XO XH))))))
                           then Some TComma
                           else if N.eqb n0 (Npos (XI (XO (XI (XI (XI XH))))))
                                then Some TEq
                                else None

(** val lex1 : text -> (token * text) option **)

let lex1 l = match l with
| [] -> None
| c :: r ->
  if is_digit c
  then if N.eqb (n_of_ascii c) (Npos (XO (XO (XO (XO (XI XH))))))
       then None
       else let (d, rest) = span_digits r in
            Some ((TNum (Z.of_N (digits_val N0 (c :: d)))), rest)
  else if is_upper c
       then (match r with
             | [] ->
               (match z_of_symbol (c :: []) with
                | Some z0 -> Some ((TSym z0), r)
                | None -> None)
             | c2 :: r2 ->
               (match if is_lower c2
                      then z_of_symbol (c :: (c2 :: []))
                      else None with
                | Some z0 -> Some ((TSym z0), r2)
                | None ->
                  (match z_of_symbol (c :: []) with
                   | Some z0 -> Some ((TSym z0), r)
                   | None -> None)))
       else (match punct c with
             | Some k -> Some (k, r)
             | None ->
               (match strip_prefix
                        (t (String ((Ascii (true, false, true, true, false,
                          true, true, false)), (String ((Ascii (true, false,
                          false, false, false, true, true, false)), (String
                          ((Ascii (true, true, false, false, true, true,
                          true, false)), (String ((Ascii (true, true, false,
                          false, true, true, true, false)),
                          EmptyString))))))))) l with
                | Some rest -> Some (TMass, rest)
                | None ->
                  (match strip_prefix
                           (t (String ((Ascii (false, true, false, false,
                             true, true, true, false)), (String ((Ascii
                             (true, false, false, false, false, true, true,
                             false)), (String ((Ascii (false, false, true,
                             false, false, true, true, false)),
                             EmptyString))))))) l with
                   | Some rest -> Some (TRad, rest)
                   | None -> None)))

(** val lex_fuel : nat -> text -> token list option **)

let rec lex_fuel fuel l = match l with
| [] -> Some []
| _ :: _ ->
  (match fuel with
   | O -> None
   | S f ->
     (match lex1 l with
      | Some p ->
        let (k, rest) = p in
        (match lex_fuel f rest with
         | Some ks -> Some (k :: ks)
         | None -> None)
      | None -> None))

(** val lex_text : text -> token list option **)

let lex_text l =
  lex_fuel (length l) l

type key0 =
| KMass
| KRad

type ast = { items : (n * z) list; tuples : (z * z) list;
             blocks : (z * (key0 * z) list) list }

(** val parse_items : nat -> token list -> (n * z) list * token list **)

let rec parse_items fuel l =
  match fuel with
  | O -> ([], l)
  | S f ->
    (match l with
     | [] -> ([], l)
     | t0 :: r ->
       (match t0 with
        | TSym z0 ->
          (match r with
           | [] ->
             let (it, rest) = parse_items f r in
             (((z0, (Zpos XH)) :: it), rest)
           | t1 :: r0 ->
             (match t1 with
              | TNum c ->
                if Z.leb (Zpos (XO XH)) c
                then let (it, rest) = parse_items f r0 in
                     (((z0, c) :: it), rest)
                else (((z0, (Zpos XH)) :: []), ((TNum c) :: r0))
              | _ ->
                let (it, rest) = parse_items f r in
                (((z0, (Zpos XH)) :: it), rest)))
        | _ -> ([], l)))

(** val match_order : (n * bool) list -> n list -> bool **)

let rec match_order order syms =
  match order with
  | [] -> (match syms with
           | [] -> true
           | _ :: _ -> false)
  | p :: o' ->
    let (z0, opt) = p in
    (match syms with
     | [] -> if opt then match_order o' [] else false
     | s :: syms' ->
       if N.eqb s z0
       then match_order o' syms'
       else if opt then match_order o' syms else false)

(** val order_of_rule : (string * bool) list -> (n * bool) list **)

let order_of_rule r =
  flat_map (fun p ->
    match z_of_symbol (t (fst p)) with
    | Some z0 -> (z0, (snd p)) :: []
    | None -> []) r

(** val with_carbon : (n * bool) list **)

let with_carbon =
  order_of_rule with_carbon_g4

(** val without_carbon : (n * bool) list **)

let without_carbon =
  order_of_rule without_carbon_g4

(** val formula_ok : (n * z) list -> bool **)

let formula_ok it =
  let syms = map fst it in
  (||) (match_order with_carbon syms) (match_order without_carbon syms)

(** val parse_tuples : nat -> token list -> (z * z) list * token list **)

let rec parse_tuples fuel l =
  match fuel with
  | O -> ([], l)
  | S f ->
    (match l with
     | [] -> ([], l)
     | t0 :: l0 ->
       (match t0 with
        | TLp ->
          (match l0 with
           | [] -> ([], l)
           | t1 :: l1 ->
             (match t1 with
              | TNum a ->
                (match l1 with
                 | [] -> ([], l)
                 | t2 :: l2 ->
                   (match t2 with
                    | TDash ->
                      (match l2 with
                       | [] -> ([], l)
                       | t3 :: l3 ->
                         (match t3 with
                          | TNum b ->
                            (match l3 with
                             | [] -> ([], l)
                             | t4 :: r ->
                               (match t4 with
                                | TRp ->
                                  let (ts, rest) = parse_tuples f r in
                                  (((a, b) :: ts), rest)
                                | _ -> ([], l)))
                          | _ -> ([], l)))
                    | _ -> ([], l)))
              | _ -> ([], l)))
        | _ -> ([], l)))

(** val parse_prop : token list -> ((key0 * z) * token list) option **)

let parse_prop = function
| [] -> None
| t0 :: l0 ->
  (match t0 with
   | TMass ->
     (match l0 with
      | [] -> None
      | t1 :: l1 ->
        (match t1 with
         | TEq ->
           (match l1 with
            | [] -> None
            | t2 :: r ->
              (match t2 with
               | TNum v -> Some ((KMass, v), r)
               | _ -> None))
         | _ -> None))
   | TRad ->
     (match l0 with
      | [] -> None
      | t1 :: l1 ->
        (match t1 with
         | TEq ->
           (match l1 with
            | [] -> None
            | t2 :: r ->
              (match t2 with
               | TNum v -> Some ((KRad, v), r)
               | _ -> None))
         | _ -> None))
   | _ -> None)

(** val parse_props :
    nat -> token list -> ((key0 * z) list * token list) option **)

let rec parse_props fuel l =
  match fuel with
  | O -> None
  | S f ->
    (match parse_prop l with
     | Some p0 ->
       let (p, r) = p0 in
       (match r with
        | [] -> Some ((p :: []), r)
        | t0 :: r' ->
          (match t0 with
           | TComma ->
             (match parse_props f r' with
              | Some p1 -> let (ps, rest) = p1 in Some ((p :: ps), rest)
              | None -> None)
           | _ -> Some ((p :: []), r)))
     | None -> None)

(** val parse_blocks :
    nat -> token list -> ((z * (key0 * z) list) list * token list) option **)

let rec parse_blocks fuel l =
  match fuel with
  | O -> None
  | S f ->
    (match l with
     | [] -> Some ([], l)
     | t0 :: l0 ->
       (match t0 with
        | TLp ->
          (match l0 with
           | [] -> Some ([], l)
           | t1 :: l1 ->
             (match t1 with
              | TNum i ->
                (match l1 with
                 | [] -> Some ([], l)
                 | t2 :: r ->
                   (match t2 with
                    | TColon ->
                      (match parse_props f r with
                       | Some p ->
                         let (ps, l2) = p in
                         (match l2 with
                          | [] -> None
                          | t3 :: r' ->
                            (match t3 with
                             | TRp ->
                               (match parse_blocks f r' with
                                | Some p0 ->
                                  let (bs, rest) = p0 in
                                  Some (((i, ps) :: bs), rest)
                                | None -> None)
                             | _ -> None))
                       | None -> None)
                    | _ -> Some ([], l)))
              | _ -> Some ([], l)))
        | _ -> Some ([], l)))

(** val parse_tokens : token list -> ast option **)

let parse_tokens l =
  let fuel = S (length l) in
  let (it, r1) = parse_items fuel l in
  if negb (formula_ok it)
  then None
  else (match r1 with
        | [] -> None
        | t0 :: r2 ->
          (match t0 with
           | TSlash ->
             let (ts, r3) = parse_tuples fuel r2 in
             (match r3 with
              | [] -> Some { items = it; tuples = ts; blocks = [] }
              | t1 :: r4 ->
                (match t1 with
                 | TSlash ->
                   (match parse_blocks fuel r4 with
                    | Some p ->
                      let (bs, l0) = p in
                      (match l0 with
                       | [] -> Some { items = it; tuples = ts; blocks = bs }
                       | _ :: _ -> None)
                    | None -> None)
                 | _ -> None))
           | _ -> None))

type perr =
| ELex
| ESyntax
| ESelfLoop
| EBadIndex
| EDupAttr

(** val expand : (n * z) list -> n list **)

let expand it =
  flat_map (fun p -> repeat (fst p) (Z.to_nat (snd p))) it

(** val flat_props : (z * (key0 * z) list) list -> (z * (key0 * z)) list **)

let flat_props bs =
  flat_map (fun b -> map (fun p -> ((fst b), p)) (snd b)) bs

(** val key_eqb : key0 -> key0 -> bool **)

let key_eqb a b =
  match a with
  | KMass -> (match b with
              | KMass -> true
              | KRad -> false)
  | KRad -> (match b with
             | KMass -> false
             | KRad -> true)

(** val has_dup : (z * (key0 * z)) list -> bool **)

let rec has_dup = function
| [] -> false
| p :: r ->
  let (i, p0) = p in
  let (k, _) = p0 in
  (||)
    (existsb (fun q -> (&&) (Z.eqb (fst q) i) (key_eqb (fst (snd q)) k)) r)
    (has_dup r)

(** val find_prop : (z * (key0 * z)) list -> z -> key0 -> z option **)

let rec find_prop l i k =
  match l with
  | [] -> None
  | p :: r ->
    let (j, p0) = p in
    let (k', v) = p0 in
    if (&&) (Z.eqb j i) (key_eqb k' k) then Some v else find_prop r i k

(** val dedup_pairs : (n * n) list -> (n * n) list **)

let dedup_pairs l =
  fold_right (fun e acc ->
    if existsb (fun e' ->
         (&&) (N.eqb (fst e') (fst e)) (N.eqb (snd e') (snd e))) acc
    then acc
    else e :: acc) [] l

(** val sem : ast -> (perr, (unit, unit) mol) sum **)

let sem a =
  let zs = isort nleb (expand a.items) in
  let n0 = Z.of_nat (length zs) in
  if existsb (fun e -> Z.eqb (fst e) (snd e)) a.tuples
  then Inl ESelfLoop
  else if has_dup (flat_props a.blocks)
       then Inl EDupAttr
       else if existsb (fun e -> (||) (Z.ltb n0 (fst e)) (Z.ltb n0 (snd e)))
                 a.tuples
            then Inl EBadIndex
            else if existsb (fun b -> Z.ltb n0 (fst b)) a.blocks
                 then Inl EBadIndex
                 else let props = flat_props a.blocks in
                      let atoms0 =
                        map (fun p -> { lbl = (fst p); zn = (snd p); mass =
                          (find_prop props (Z.add (Z.of_N (fst p)) (Zpos XH))
                            KMass); rad =
                          (find_prop props (Z.add (Z.of_N (fst p)) (Zpos XH))
                            KRad); part = N0; pay = () })
                          (enumerate_from N0 zs)
                      in
                      let bonds0 =
                        map (fun e -> (((fst e), (snd e)), ()))
                          (dedup_pairs
                            (map (fun e ->
                              norm_pair ((Z.to_N (Z.sub (fst e) (Zpos XH))),
                                (Z.to_N (Z.sub (snd e) (Zpos XH))))) a.tuples))
                      in
                      Inr { atoms = atoms0; bonds = bonds0 }

(** val ref_parse : text -> (perr, (unit, unit) mol) sum **)

let ref_parse s =
  match lex_text s with
  | Some ts ->
    (match parse_tokens ts with
     | Some a -> sem a
     | None -> Inl ESyntax)
  | None -> Inl ELex

type merr =
| EParser
| EOther

type 'a res = (merr, 'a) sum

(** val ok : 'a1 -> 'a1 res **)

let ok x =
  Inr x

(** val bind : 'a1 res -> ('a1 -> 'a2 res) -> 'a2 res **)

let bind r f =
  match r with
  | Inl e -> Inl e
  | Inr x -> f x

(** val of_opt : merr -> 'a1 option -> 'a1 res **)

let of_opt e = function
| Some x -> Inr x
| None -> Inl e

(** val code : ascii -> n **)

let code =
  n_of_ascii

(** val is_code : n -> ascii -> bool **)

let is_code n0 c =
  N.eqb (code c) n0

(** val sp : ascii **)

let sp =
  ascii_of_N (Npos (XO (XO (XO (XO (XO XH))))))

(** val is_linebreak : ascii -> bool **)

let is_linebreak c =
  let n0 = code c in
  (||)
    ((||)
      ((||)
        ((||)
          ((||)
            ((||)
              ((||) (N.eqb n0 (Npos (XO (XI (XO XH)))))
                (N.eqb n0 (Npos (XI (XO (XI XH))))))
              (N.eqb n0 (Npos (XI (XI (XO XH))))))
            (N.eqb n0 (Npos (XO (XO (XI XH))))))
          (N.eqb n0 (Npos (XO (XO (XI (XI XH)))))))
        (N.eqb n0 (Npos (XI (XO (XI (XI XH)))))))
      (N.eqb n0 (Npos (XO (XI (XI (XI XH)))))))
    (N.eqb n0 (Npos (XI (XO (XI (XO (XO (XO (XO XH)))))))))

(** val splitlines_aux : text -> text -> text list **)

let rec splitlines_aux cur = function
| [] -> (match cur with
         | [] -> []
         | _ :: _ -> (rev0 cur) :: [])
| c :: r ->
  if is_linebreak c
  then (rev0 cur) :: (match r with
                      | [] -> []
                      | c2 :: r2 ->
                        if (&&) (is_code (Npos (XI (XO (XI XH)))) c)
                             (is_code (Npos (XO (XI (XO XH)))) c2)
                        then splitlines_aux [] r2
                        else splitlines_aux [] r)
  else splitlines_aux (c :: cur) r

(** val splitlines : text -> text list **)

let splitlines s =
  splitlines_aux [] s

(** val is_space : ascii -> bool **)

let is_space c =
  let n0 = code c in
  (||)
    ((||)
      ((||)
        ((||) (N.eqb n0 (Npos (XO (XO (XO (XO (XO XH)))))))
          (N.eqb n0 (Npos (XI (XO (XO XH))))))
        (N.eqb n0 (Npos (XI (XI (XI (XI XH)))))))
      (N.eqb n0 (Npos (XO (XO (XO (XO (XO (XI (XO XH))))))))))
    (is_linebreak c)

(** val lstrip_by : (ascii -> bool) -> text -> text **)

let rec lstrip_by f l = match l with
| [] -> []
| c :: r -> if f c then lstrip_by f r else l

(** val rstrip_by : (ascii -> bool) -> text -> text **)

let rstrip_by f l =
  rev0 (lstrip_by f (rev0 l))

(** val rstrip : text -> text **)

let rstrip l =
  rstrip_by is_space l

(** val strip : text -> text **)

let strip l =
  lstrip_by is_space (rstrip l)

(** val strip_sp : text -> text **)

let strip_sp l =
  lstrip_by (is_code (Npos (XO (XO (XO (XO (XO XH)))))))
    (rstrip_by (is_code (Npos (XO (XO (XO (XO (XO XH))))))) l)

(** val split_on_aux : (ascii -> bool) -> text -> text -> text list **)

let rec split_on_aux f cur = function
| [] -> (rev0 cur) :: []
| c :: r ->
  if f c
  then (rev0 cur) :: (split_on_aux f [] r)
  else split_on_aux f (c :: cur) r

(** val split_on : (ascii -> bool) -> text -> text list **)

let split_on f l =
  split_on_aux f [] l

(** val nonempty : text -> bool **)

let nonempty = function
| [] -> false
| _ :: _ -> true

(** val split_ws : text -> text list **)

let split_ws l =
  filter nonempty (split_on is_space l)

(** val starts_with : text -> text -> bool **)

let rec starts_with p l =
  match p with
  | [] -> true
  | a :: p' ->
    (match l with
     | [] -> false
     | b :: l' -> (&&) (ascii_eqb a b) (starts_with p' l'))

(** val ends_with_char : n -> text -> bool **)

let ends_with_char n0 l =
  match rev0 l with
  | [] -> false
  | c :: _ -> is_code n0 c

(** val join_with : text -> text list -> text **)

let rec join_with sep = function
| [] -> []
| x :: r ->
  (match r with
   | [] -> x
   | _ :: _ -> app x (app sep (join_with sep r)))

(** val slice : nat -> nat -> text -> text **)

let slice a b l =
  firstn (sub b a) (skipn a l)

(** val int_digits : n -> bool -> text -> n option **)

let rec int_digits acc prev_digit = function
| [] -> if prev_digit then Some acc else None
| c :: r ->
  if is_digit c
  then int_digits (N.add (N.mul (Npos (XO (XI (XO XH)))) acc) (digit_val c))
         true r
  else if (&&) (is_code (Npos (XI (XI (XI (XI (XI (XO XH))))))) c) prev_digit
       then (match r with
             | [] -> None
             | c2 :: _ -> if is_digit c2 then int_digits acc false r else None)
       else None

(** val py_int : text -> z option **)

let py_int s =
  match strip s with
  | [] -> None
  | c :: r ->
    if is_code (Npos (XI (XO (XI (XI (XO XH)))))) c
    then option_map (fun n0 -> Z.opp (Z.of_N n0)) (int_digits N0 false r)
    else if is_code (Npos (XI (XI (XO (XI (XO XH)))))) c
         then option_map Z.of_N (int_digits N0 false r)
         else option_map Z.of_N (int_digits N0 false (c :: r))

(** val int_of : text -> z res **)

let int_of s =
  of_opt EOther (py_int s)

(** val all_digits : text -> bool **)

let rec all_digits = function
| [] -> true
| c :: r -> (&&) (is_digit c) (all_digits r)

(** val float_mantissa : text -> bool **)

let float_mantissa l =
  match split_on (is_code (Npos (XO (XI (XI (XI (XO XH))))))) l with
  | [] -> false
  | a :: l0 ->
    (match l0 with
     | [] -> (&&) (nonempty a) (all_digits a)
     | b :: l1 ->
       (match l1 with
        | [] ->
          (&&) ((&&) ((||) (nonempty a) (nonempty b)) (all_digits a))
            (all_digits b)
        | _ :: _ -> false))

(** val unsign : text -> text **)

let unsign l = match l with
| [] -> []
| c :: r ->
  if (||) (is_code (Npos (XI (XO (XI (XI (XO XH)))))) c)
       (is_code (Npos (XI (XI (XO (XI (XO XH)))))) c)
  then r
  else l

(** val is_e : ascii -> bool **)

let is_e c =
  (||) (is_code (Npos (XI (XO (XI (XO (XO (XI XH))))))) c)
    (is_code (Npos (XI (XO (XI (XO (XO (XO XH))))))) c)

(** val py_float_ok : text -> bool **)

let py_float_ok s =
  let b = unsign (strip s) in
  (match split_on is_e b with
   | [] -> false
   | m :: l ->
     (match l with
      | [] -> float_mantissa m
      | e :: l0 ->
        (match l0 with
         | [] ->
           (&&) ((&&) (float_mantissa m) (nonempty (unsign e)))
             (all_digits (unsign e))
         | _ :: _ -> false)))

(** val nth_tok : nat -> text list -> text res **)

let rec nth_tok n0 l =
  match n0 with
  | O -> (match l with
          | [] -> Inl EOther
          | x :: _ -> ok x)
  | S k -> (match l with
            | [] -> Inl EOther
            | _ :: r -> nth_tok k r)

type ratom = { r_idx : z; r_sym : text; r_zn : n; r_chg : z option;
               r_mass : z option; r_rad : z option; r_x : text; r_y : 
               text; r_z : text }

type rbond = (z * z) * z

(** val detect_isotope : text -> text * z **)

let detect_isotope s =
  match assoc_text hydrogen_isotopes s with
  | Some p -> p
  | None -> (s, Z0)

(** val dict_set :
    ('a1 -> 'a1 -> bool) -> 'a1 -> 'a2 -> ('a1 * 'a2) list -> ('a1 * 'a2) list **)

let rec dict_set eqb0 k v = function
| [] -> (k, v) :: []
| p :: r ->
  let (k', v') = p in
  if eqb0 k' k then (k, v) :: r else (k', v') :: (dict_set eqb0 k v r)

type rpay = { p_sym : text; p_chg : z option; p_x : text; p_y : text;
              p_z : text }

(** val index_of_Z : z -> z list -> n -> n option **)

let rec index_of_Z k l i =
  match l with
  | [] -> None
  | x :: r -> if Z.eqb x k then Some i else index_of_Z k r (N.succ i)

(** val bond_eqb : (n * n) -> (n * n) -> bool **)

let bond_eqb a b =
  (||) ((&&) (N.eqb (fst a) (fst b)) (N.eqb (snd a) (snd b)))
    ((&&) (N.eqb (fst a) (snd b)) (N.eqb (snd a) (fst b)))

(** val add_edge :
    (n * n) -> 'a1 -> ((n * n) * 'a1) list -> ((n * n) * 'a1) list **)

let rec add_edge e d = function
| [] -> (((fst e), (snd e)), d) :: []
| b :: r ->
  if bond_eqb (ends b) e
  then (((fst (fst b)), (snd (fst b))), d) :: r
  else b :: (add_edge e d r)

(** val graph_from_molecule :
    ratom list -> rbond list -> (rpay, z) mol res **)

let graph_from_molecule ats bds =
  let keys = map (fun r -> r.r_idx) ats in
  let atoms0 =
    map (fun p ->
      let a = snd p in
      { lbl = (fst p); zn = a.r_zn; mass = a.r_mass; rad = a.r_rad; part =
      N0; pay = { p_sym = a.r_sym; p_chg = a.r_chg; p_x = a.r_x; p_y = a.r_y;
      p_z = a.r_z } }) (enumerate_from N0 ats)
  in
  let add0 = fun b acc ->
    bind acc (fun l ->
      match index_of_Z (fst (fst b)) keys N0 with
      | Some u ->
        (match index_of_Z (snd (fst b)) keys N0 with
         | Some v -> ok (add_edge (u, v) (snd b) l)
         | None -> Inl EOther)
      | None -> Inl EOther)
  in
  bind (fold_left (fun acc b -> add0 b acc) bds (ok [])) (fun bonds0 ->
    ok { atoms = atoms0; bonds = bonds0 })

(** val wrap_limit : nat **)

let wrap_limit =
  S (S (S (S (S (S (S (S (S (S (S (S (S (S (S (S (S (S (S (S (S (S (S (S (S
    (S (S (S (S (S (S (S (S (S (S (S (S (S (S (S (S (S (S (S (S (S (S (S (S
    (S (S (S (S (S (S (S (S (S (S (S (S (S (S (S (S (S (S (S (S (S (S (S
    O)))))))))))))))))))))))))))))))))))))))))))))))))))))))))))))))))))))))

(** val wrap_chunk : nat **)

let wrap_chunk =
  S (S (S (S (S (S (S (S (S (S (S (S (S (S (S (S (S (S (S (S (S (S (S (S (S
    (S (S (S (S (S (S (S (S (S (S (S (S (S (S (S (S (S (S (S (S (S (S (S (S
    (S (S (S (S (S (S (S (S (S (S (S (S (S (S (S (S (S (S (S (S (S (S
    O))))))))))))))))))))))))))))))))))))))))))))))))))))))))))))))))))))))

(** val v30_prefix : string **)

let v30_prefix =
  String ((Ascii (true, false, true, true, false, false, true, false)),
    (String ((Ascii (false, false, false, false, false, true, false, false)),
    (String ((Ascii (false, false, false, false, false, true, false, false)),
    (String ((Ascii (false, true, true, false, true, false, true, false)),
    (String ((Ascii (true, true, false, false, true, true, false, false)),
    (String ((Ascii (false, false, false, false, true, true, false, false)),
    (String ((Ascii (false, false, false, false, false, true, false, false)),
    EmptyString)))))))))))))

(** val v2000_atom_slices : (nat * nat) list **)

let v2000_atom_slices =
  (O, (S (S (S (S (S (S (S (S (S (S O))))))))))) :: (((S (S (S (S (S (S (S (S
    (S (S O)))))))))), (S (S (S (S (S (S (S (S (S (S (S (S (S (S (S (S (S (S
    (S (S O))))))))))))))))))))) :: (((S (S (S (S (S (S (S (S (S (S (S (S (S
    (S (S (S (S (S (S (S O)))))))))))))))))))), (S (S (S (S (S (S (S (S (S (S
    (S (S (S (S (S (S (S (S (S (S (S (S (S (S (S (S (S (S (S (S
    O))))))))))))))))))))))))))))))) :: (((S (S (S (S (S (S (S (S (S (S (S (S
    (S (S (S (S (S (S (S (S (S (S (S (S (S (S (S (S (S (S (S
    O))))))))))))))))))))))))))))))), (S (S (S (S (S (S (S (S (S (S (S (S (S
    (S (S (S (S (S (S (S (S (S (S (S (S (S (S (S (S (S (S (S (S (S
    O))))))))))))))))))))))))))))))))))) :: (((S (S (S (S (S (S (S (S (S (S
    (S (S (S (S (S (S (S (S (S (S (S (S (S (S (S (S (S (S (S (S (S (S (S (S
    (S (S O)))))))))))))))))))))))))))))))))))), (S (S (S (S (S (S (S (S (S
    (S (S (S (S (S (S (S (S (S (S (S (S (S (S (S (S (S (S (S (S (S (S (S (S
    (S (S (S (S (S (S O)))))))))))))))))))))))))))))))))))))))) :: []))))

(** val v2000_bond_slices : (nat * nat) list **)

let v2000_bond_slices =
  (O, (S (S (S O)))) :: (((S (S (S O))), (S (S (S (S (S (S O))))))) :: (((S
    (S (S (S (S (S O)))))), (S (S (S (S (S (S (S (S (S O)))))))))) :: []))

(** val v2000_count_slices : (nat * nat) list **)

let v2000_count_slices =
  ((S (S (S (S (S (S O)))))), (S (S (S (S (S (S (S (S (S O)))))))))) :: []

(** val v2000_tuple_offset : nat **)

let v2000_tuple_offset =
  S (S (S (S (S (S (S (S (S (S O)))))))))

(** val v2000_tuple_length : nat **)

let v2000_tuple_length =
  S (S (S (S (S (S (S (S O)))))))

(** val v3000_keyword_exact : bool **)

let v3000_keyword_exact =
  true

(** val v30 : text **)

let v30 =
  t (String ((Ascii (true, false, true, true, false, false, true, false)),
    (String ((Ascii (false, false, false, false, false, true, false, false)),
    (String ((Ascii (false, false, false, false, false, true, false, false)),
    (String ((Ascii (false, true, true, false, true, false, true, false)),
    (String ((Ascii (true, true, false, false, true, true, false, false)),
    (String ((Ascii (false, false, false, false, true, true, false, false)),
    (String ((Ascii (false, false, false, false, false, true, false, false)),
    EmptyString))))))))))))))

(** val concat_dash : nat -> text list -> text list res **)

let rec concat_dash fuel lines =
  match fuel with
  | O -> ok lines
  | S f ->
    (match lines with
     | [] -> ok []
     | cur :: l ->
       (match l with
        | [] -> ok (cur :: [])
        | next :: rest ->
          if (&&) (starts_with v30 cur)
               (ends_with_char (Npos (XI (XO (XI (XI (XO XH)))))) cur)
          then if starts_with v30 next
               then concat_dash f
                      ((app (removelast cur)
                         (skipn (S (S (S (S (S (S (S O))))))) next)) :: rest)
               else Inl EParser
          else bind (concat_dash f (next :: rest)) (fun r -> ok (cur :: r))))

(** val tokenize : text -> text list **)

let tokenize line =
  filter nonempty
    (split_on (is_code (Npos (XO (XO (XO (XO (XO XH))))))) (rstrip line))

(** val tokenize_lines : text list -> text list list res **)

let tokenize_lines lines =
  bind (concat_dash (length lines) lines) (fun ls -> ok (map tokenize ls))

(** val nth_line : nat -> text list list -> text list res **)

let rec nth_line n0 l =
  match n0 with
  | O -> (match l with
          | [] -> Inl EOther
          | x :: _ -> ok x)
  | S k -> (match l with
            | [] -> Inl EOther
            | _ :: r -> nth_line k r)

(** val join_sp : text list -> text **)

let join_sp l =
  join_with (sp :: []) l

(** val is_infix : text -> text -> bool **)

let rec is_infix p l =
  (||) (starts_with p l) (match l with
                          | [] -> false
                          | _ :: r -> is_infix p r)

(** val key_matches : text -> text -> bool **)

let key_matches key1 tok =
  if v3000_keyword_exact
  then (match split_on (is_code (Npos (XI (XO (XI (XI (XI XH))))))) tok with
        | [] -> false
        | k :: _ -> text_eqb k key1)
  else is_infix key1 tok

(** val prop_values : text -> text list -> z list res **)

let rec prop_values key1 = function
| [] -> ok []
| tk :: r ->
  if key_matches key1 tk
  then bind
         (nth_tok (S O)
           (split_on (is_code (Npos (XI (XO (XI (XI (XI XH))))))) tk))
         (fun v ->
         bind (int_of v) (fun n0 ->
           bind (prop_values key1 r) (fun rest -> ok (n0 :: rest))))
  else prop_values key1 r

(** val last_nonzero : z list -> z option **)

let last_nonzero l =
  match rev0 l with
  | [] -> None
  | v :: _ -> if Z.eqb v Z0 then None else Some v

(** val parse_atom_line : text list -> ratom option res **)

let parse_atom_line line =
  bind (nth_tok (S (S O)) line) (fun i ->
    bind (int_of i) (fun idx ->
      bind (nth_tok (S (S (S O))) line) (fun s ->
        if text_eqb s
             (t (String ((Ascii (false, true, false, true, false, true,
               false, false)), EmptyString)))
        then ok None
        else let (sym, iso) = detect_isotope s in
             bind (of_opt EOther (z_of_symbol sym)) (fun zn0 ->
               bind (nth_tok (S (S (S (S O)))) line) (fun x ->
                 bind (nth_tok (S (S (S (S (S O))))) line) (fun y ->
                   bind (nth_tok (S (S (S (S (S (S O)))))) line) (fun z0 ->
                     if negb
                          ((&&) ((&&) (py_float_ok x) (py_float_ok y))
                            (py_float_ok z0))
                     then Inl EOther
                     else bind
                            (prop_values
                              (t (String ((Ascii (true, true, false, false,
                                false, false, true, false)), (String ((Ascii
                                (false, false, false, true, false, false,
                                true, false)), (String ((Ascii (true, true,
                                true, false, false, false, true, false)),
                                EmptyString))))))) line) (fun chg ->
                            bind
                              (if Z.eqb iso Z0
                               then prop_values
                                      (t (String ((Ascii (true, false, true,
                                        true, false, false, true, false)),
                                        (String ((Ascii (true, false, false,
                                        false, false, false, true, false)),
                                        (String ((Ascii (true, true, false,
                                        false, true, false, true, false)),
                                        (String ((Ascii (true, true, false,
                                        false, true, false, true, false)),
                                        EmptyString))))))))) line
                               else ok (iso :: [])) (fun mass0 ->
                              bind
                                (prop_values
                                  (t (String ((Ascii (false, true, false,
                                    false, true, false, true, false)),
                                    (String ((Ascii (true, false, false,
                                    false, false, false, true, false)),
                                    (String ((Ascii (false, false, true,
                                    false, false, false, true, false)),
                                    EmptyString))))))) line) (fun rad0 ->
                                ok (Some { r_idx = (Z.sub idx (Zpos XH));
                                  r_sym = sym; r_zn = zn0; r_chg =
                                  (last_nonzero chg); r_mass =
                                  (last_nonzero mass0); r_rad =
                                  (last_nonzero rad0); r_x = x; r_y = y;
                                  r_z = z0 })))))))))))

(** val expect_block : text -> text list -> unit res **)

let expect_block what line =
  if text_eqb (join_sp (skipn (S (S O)) line)) what
  then ok ()
  else Inl EParser

(** val parse_atoms :
    text list list -> (z * ratom) list -> z list -> ((z * ratom) list * z
    list) res **)

let rec parse_atoms ls atoms0 stars =
  match ls with
  | [] -> ok (atoms0, stars)
  | l :: r ->
    bind (nth_tok (S (S O)) l) (fun i ->
      bind (int_of i) (fun idx ->
        bind (parse_atom_line l) (fun a ->
          match a with
          | Some a' ->
            parse_atoms r (dict_set Z.eqb (Z.sub idx (Zpos XH)) a' atoms0)
              stars
          | None ->
            parse_atoms r atoms0 (app stars ((Z.sub idx (Zpos XH)) :: [])))))

(** val strip_prefix_b : text -> text -> text option **)

let rec strip_prefix_b p l =
  match p with
  | [] -> Some l
  | a :: p' ->
    (match l with
     | [] -> None
     | b :: l' -> if ascii_eqb a b then strip_prefix_b p' l' else None)

(** val find_sub : text -> text -> text option **)

let rec find_sub p l =
  match strip_prefix_b p l with
  | Some r -> Some r
  | None -> (match l with
             | [] -> None
             | _ :: r -> find_sub p r)

(** val upto_last_paren : text -> text option **)

let rec upto_last_paren = function
| [] -> None
| c :: r ->
  (match upto_last_paren r with
   | Some x -> Some (c :: x)
   | None ->
     if is_code (Npos (XI (XO (XO (XI (XO XH)))))) c then Some [] else None)

(** val ints_of : text list -> z list res **)

let rec ints_of = function
| [] -> ok []
| x :: r ->
  bind (int_of x) (fun n0 -> bind (ints_of r) (fun ns -> ok (n0 :: ns)))

(** val star_endpoints : text list -> z -> (z * z) list res **)

let star_endpoints line start =
  match find_sub
          (t (String ((Ascii (true, false, true, false, false, false, true,
            false)), (String ((Ascii (false, true, true, true, false, false,
            true, false)), (String ((Ascii (false, false, true, false, false,
            false, true, false)), (String ((Ascii (false, false, false,
            false, true, false, true, false)), (String ((Ascii (false, false,
            true, false, true, false, true, false)), (String ((Ascii (true,
            true, false, false, true, false, true, false)), (String ((Ascii
            (true, false, true, true, true, true, false, false)), (String
            ((Ascii (false, false, false, true, false, true, false, false)),
            EmptyString))))))))))))))))) (join_sp line) with
  | Some after ->
    (match upto_last_paren after with
     | Some inner ->
       (match inner with
        | [] -> ok []
        | _ :: _ ->
          bind (ints_of (split_ws inner)) (fun nums ->
            match nums with
            | [] -> Inl EOther
            | n0 :: es ->
              if Z.eqb n0 (Z.of_nat (length es))
              then ok (map (fun e -> (start, (Z.sub e (Zpos XH)))) es)
              else Inl EParser))
     | None -> ok [])
  | None -> ok []

(** val memZ : z -> z list -> bool **)

let memZ a l =
  existsb (Z.eqb a) l

(** val bkey_eqb : (z * z) -> (z * z) -> bool **)

let bkey_eqb a b =
  (&&) (Z.eqb (fst a) (fst b)) (Z.eqb (snd a) (snd b))

(** val parse_bonds :
    text list list -> z list -> ((z * z) * z) list -> ((z * z) * z) list res **)

let rec parse_bonds ls stars acc =
  match ls with
  | [] -> ok acc
  | l :: r ->
    bind (nth_tok (S (S (S (S O)))) l) (fun t4 ->
      bind (int_of t4) (fun a1 ->
        bind (nth_tok (S (S (S (S (S O))))) l) (fun t5 ->
          bind (int_of t5) (fun a2 ->
            bind (nth_tok (S (S (S O))) l) (fun t3 ->
              bind (int_of t3) (fun ty ->
                let i1 = Z.sub a1 (Zpos XH) in
                let i2 = Z.sub a2 (Zpos XH) in
                bind
                  (if (&&) (memZ i1 stars) (memZ i2 stars)
                   then Inl EParser
                   else if memZ i1 stars
                        then star_endpoints l i2
                        else if memZ i2 stars
                             then star_endpoints l i1
                             else ok ((i1, i2) :: [])) (fun tuples0 ->
                  parse_bonds r stars
                    (fold_left (fun d k -> dict_set bkey_eqb k ty d) tuples0
                      acc))))))))

(** val to_nat_idx : z -> nat res **)

let to_nat_idx z0 =
  if Z.ltb z0 Z0 then Inl EOther else ok (Z.to_nat z0)

(** val take_lines : nat -> nat -> 'a1 list -> 'a1 list **)

let take_lines a n0 l =
  firstn n0 (skipn a l)

(** val read_v3000 : text list -> (ratom list * rbond list) res **)

let read_v3000 lines =
  bind (tokenize_lines lines) (fun tl ->
    bind (nth_line (S (S (S (S (S O))))) tl) (fun counts ->
      bind (nth_tok (S (S O)) counts) (fun kw ->
        if (||)
             (negb
               (text_eqb kw
                 (t (String ((Ascii (true, true, false, false, false, false,
                   true, false)), (String ((Ascii (true, true, true, true,
                   false, false, true, false)), (String ((Ascii (true, false,
                   true, false, true, false, true, false)), (String ((Ascii
                   (false, true, true, true, false, false, true, false)),
                   (String ((Ascii (false, false, true, false, true, false,
                   true, false)), (String ((Ascii (true, true, false, false,
                   true, false, true, false)), EmptyString)))))))))))))))
             (Nat.ltb (length counts) (S (S (S (S (S O))))))
        then Inl EParser
        else bind (nth_tok (S (S (S O))) counts) (fun tc ->
               bind (int_of tc) (fun acz ->
                 bind (to_nat_idx acz) (fun ac ->
                   bind (nth_line (S (S (S (S (S (S O)))))) tl) (fun l6 ->
                     bind
                       (expect_block
                         (t (String ((Ascii (false, true, false, false,
                           false, false, true, false)), (String ((Ascii
                           (true, false, true, false, false, false, true,
                           false)), (String ((Ascii (true, true, true, false,
                           false, false, true, false)), (String ((Ascii
                           (true, false, false, true, false, false, true,
                           false)), (String ((Ascii (false, true, true, true,
                           false, false, true, false)), (String ((Ascii
                           (false, false, false, false, false, true, false,
                           false)), (String ((Ascii (true, false, false,
                           false, false, false, true, false)), (String
                           ((Ascii (false, false, true, false, true, false,
                           true, false)), (String ((Ascii (true, true, true,
                           true, false, false, true, false)), (String ((Ascii
                           (true, false, true, true, false, false, true,
                           false)), EmptyString))))))))))))))))))))) l6)
                       (fun _ ->
                       bind
                         (nth_line (add (S (S (S (S (S (S (S O))))))) ac) tl)
                         (fun le ->
                         bind
                           (expect_block
                             (t (String ((Ascii (true, false, true, false,
                               false, false, true, false)), (String ((Ascii
                               (false, true, true, true, false, false, true,
                               false)), (String ((Ascii (false, false, true,
                               false, false, false, true, false)), (String
                               ((Ascii (false, false, false, false, false,
                               true, false, false)), (String ((Ascii (true,
                               false, false, false, false, false, true,
                               false)), (String ((Ascii (false, false, true,
                               false, true, false, true, false)), (String
                               ((Ascii (true, true, true, true, false, false,
                               true, false)), (String ((Ascii (true, false,
                               true, true, false, false, true, false)),
                               EmptyString))))))))))))))))) le) (fun _ ->
                           bind
                             (parse_atoms
                               (take_lines (S (S (S (S (S (S (S O))))))) ac
                                 tl) [] []) (fun asr0 ->
                             let (atoms0, stars) = asr0 in
                             bind (nth_tok (S (S (S (S O)))) counts)
                               (fun tb ->
                               bind (int_of tb) (fun bcz ->
                                 bind
                                   (if Z.eqb bcz Z0
                                    then ok []
                                    else bind (to_nat_idx bcz) (fun bc ->
                                           let off =
                                             add
                                               (add (S (S (S (S (S (S (S
                                                 O))))))) ac) (S (S O))
                                           in
                                           bind (nth_line (sub off (S O)) tl)
                                             (fun lb ->
                                             bind
                                               (expect_block
                                                 (t (String ((Ascii (false,
                                                   true, false, false, false,
                                                   false, true, false)),
                                                   (String ((Ascii (true,
                                                   false, true, false, false,
                                                   false, true, false)),
                                                   (String ((Ascii (true,
                                                   true, true, false, false,
                                                   false, true, false)),
                                                   (String ((Ascii (true,
                                                   false, false, true, false,
                                                   false, true, false)),
                                                   (String ((Ascii (false,
                                                   true, true, true, false,
                                                   false, true, false)),
                                                   (String ((Ascii (false,
                                                   false, false, false,
                                                   false, true, false,
                                                   false)), (String ((Ascii
                                                   (false, true, false,
                                                   false, false, false, true,
                                                   false)), (String ((Ascii
                                                   (true, true, true, true,
                                                   false, false, true,
                                                   false)), (String ((Ascii
                                                   (false, true, true, true,
                                                   false, false, true,
                                                   false)), (String ((Ascii
                                                   (false, false, true,
                                                   false, false, false, true,
                                                   false)),
                                                   EmptyString)))))))))))))))))))))
                                                 lb) (fun _ ->
                                               bind
                                                 (nth_line (add off bc) tl)
                                                 (fun lbe ->
                                                 bind
                                                   (expect_block
                                                     (t (String ((Ascii
                                                       (true, false, true,
                                                       false, false, false,
                                                       true, false)), (String
                                                       ((Ascii (false, true,
                                                       true, true, false,
                                                       false, true, false)),
                                                       (String ((Ascii
                                                       (false, false, true,
                                                       false, false, false,
                                                       true, false)), (String
                                                       ((Ascii (false, false,
                                                       false, false, false,
                                                       true, false, false)),
                                                       (String ((Ascii
                                                       (false, true, false,
                                                       false, false, false,
                                                       true, false)), (String
                                                       ((Ascii (true, true,
                                                       true, true, false,
                                                       false, true, false)),
                                                       (String ((Ascii
                                                       (false, true, true,
                                                       true, false, false,
                                                       true, false)), (String
                                                       ((Ascii (false, false,
                                                       true, false, false,
                                                       false, true, false)),
                                                       EmptyString)))))))))))))))))
                                                     lbe) (fun _ ->
                                                   parse_bonds
                                                     (take_lines off bc tl)
                                                     stars []))))))
                                   (fun bonds0 ->
                                   if forallb (fun b ->
                                        (&&)
                                          (memZ (fst (fst b))
                                            (map fst atoms0))
                                          (memZ (snd (fst b))
                                            (map fst atoms0))) bonds0
                                   then ok ((map snd atoms0),
                                          (map (fun b -> (((fst (fst b)),
                                            (snd (fst b))), (snd b))) bonds0))
                                   else Inl EParser))))))))))))))

(** val to_int0 : text -> z res **)

let to_int0 s =
  match strip_sp s with
  | [] -> ok Z0
  | _ :: _ -> int_of s

(** val float_field_ok : text -> bool **)

let float_field_ok s =
  match strip_sp s with
  | [] -> true
  | _ :: _ -> py_float_ok s

(** val nth_slice : nat -> (nat * nat) list -> (nat * nat) -> nat * nat **)

let nth_slice =
  nth

(** val aslice : nat -> text -> text **)

let aslice n0 line =
  let p = nth_slice n0 v2000_atom_slices (O, O) in slice (fst p) (snd p) line

(** val bslice : nat -> text -> text **)

let bslice n0 line =
  let p = nth_slice n0 v2000_bond_slices (O, O) in slice (fst p) (snd p) line

(** val charge_code : z -> (bool * z) option **)

let charge_code c =
  let rec go = function
  | [] -> None
  | p :: r -> let (k, v) = p in if Z.eqb k c then Some v else go r
  in go v2000_charge_table

(** val parse_atom_line0 : n -> text -> ratom res **)

let parse_atom_line0 i line =
  let (sym, iso) = detect_isotope (strip_sp (aslice (S (S (S O))) line)) in
  bind (of_opt EOther (z_of_symbol sym)) (fun zn0 ->
    let x = aslice O line in
    let y = aslice (S O) line in
    let z0 = aslice (S (S O)) line in
    if negb
         ((&&) ((&&) (float_field_ok x) (float_field_ok y))
           (float_field_ok z0))
    then Inl EOther
    else bind (to_int0 (aslice (S (S (S (S O)))) line)) (fun cc ->
           let cr = charge_code cc in
           ok { r_idx = (Z.of_N i); r_sym = sym; r_zn = zn0; r_chg =
             (match cr with
              | Some p -> let (b, v) = p in if b then Some v else None
              | None -> None); r_mass =
             (if Z.eqb iso Z0 then None else Some iso); r_rad =
             (match cr with
              | Some p -> let (b, v) = p in if b then None else Some v
              | None -> None); r_x = x; r_y = y; r_z = z0 }))

(** val parse_atom_lines : n -> text list -> ratom list res **)

let rec parse_atom_lines i = function
| [] -> ok []
| l :: r ->
  bind (parse_atom_line0 i l) (fun a ->
    bind (parse_atom_lines (N.succ i) r) (fun rest -> ok (a :: rest)))

(** val valid_index : nat -> z -> bool **)

let valid_index n0 i =
  (&&) (Z.leb Z0 i) (Z.ltb i (Z.of_nat n0))

(** val parse_bond_lines :
    nat -> text list -> ((z * z) * z) list -> ((z * z) * z) list res **)

let rec parse_bond_lines n0 ls acc =
  match ls with
  | [] -> ok acc
  | l :: r ->
    bind (to_int0 (bslice O l)) (fun a1 ->
      bind (to_int0 (bslice (S O) l)) (fun a2 ->
        if negb (valid_index n0 (Z.sub a1 (Zpos XH)))
        then Inl EParser
        else if negb (valid_index n0 (Z.sub a2 (Zpos XH)))
             then Inl EParser
             else bind (to_int0 (bslice (S (S O)) l)) (fun ty ->
                    parse_bond_lines n0 r
                      (dict_set (fun a b ->
                        (&&) (Z.eqb (fst a) (fst b)) (Z.eqb (snd a) (snd b)))
                        ((Z.sub a1 (Zpos XH)), (Z.sub a2 (Zpos XH))) ty acc))))

(** val assignments : nat -> text -> nat -> nat -> (z * z) list res **)

let rec assignments n0 line k i =
  match k with
  | O -> ok []
  | S k' ->
    let start = add v2000_tuple_offset (mul i v2000_tuple_length) in
    bind (to_int0 (slice start (add start (S (S (S O)))) line)) (fun a ->
      bind
        (to_int0
          (slice (add start (S (S (S (S O)))))
            (add start (S (S (S (S (S (S (S O)))))))) line)) (fun v ->
        if negb (valid_index n0 (Z.sub a (Zpos XH)))
        then Inl EParser
        else bind (assignments n0 line k' (S i)) (fun rest ->
               ok (((Z.sub a (Zpos XH)), v) :: rest))))

(** val parse_assignments : nat -> text -> (z * z) list res **)

let parse_assignments n0 line =
  let p = nth_slice O v2000_count_slices (O, O) in
  bind (to_int0 (slice (fst p) (snd p) line)) (fun cnt ->
    assignments n0 line (Z.to_nat cnt) O)

type pkind =
| PChg
| PRad
| PIso

type extra = { x_chg : z option; x_rad : z option; x_mass : z option }

(** val set_extra : pkind -> z -> extra -> extra **)

let set_extra k v e =
  match k with
  | PChg -> { x_chg = (Some v); x_rad = e.x_rad; x_mass = e.x_mass }
  | PRad -> { x_chg = e.x_chg; x_rad = (Some v); x_mass = e.x_mass }
  | PIso -> { x_chg = e.x_chg; x_rad = e.x_rad; x_mass = (Some v) }

(** val merge_extra :
    pkind -> (z * z) list -> (z * extra) list -> (z * extra) list **)

let rec merge_extra k asg d =
  match asg with
  | [] -> d
  | p :: r ->
    let (a, v) = p in
    let cur =
      match let rec get = function
            | [] -> None
            | p0 :: r' ->
              let (k', e) = p0 in if Z.eqb k' a then Some e else get r'
            in get d with
      | Some e -> e
      | None -> { x_chg = None; x_rad = None; x_mass = None }
    in
    merge_extra k r (dict_set Z.eqb a (set_extra k v cur) d)

(** val attribute_block :
    nat -> text list -> (z * extra) list -> bool -> ((z * extra) list * bool)
    res **)

let rec attribute_block n0 ls d reset =
  match ls with
  | [] -> Inl EParser
  | l :: r ->
    if starts_with
         (t (String ((Ascii (true, false, true, true, false, false, true,
           false)), (String ((Ascii (false, false, false, false, false, true,
           false, false)), (String ((Ascii (false, false, false, false,
           false, true, false, false)), (String ((Ascii (true, true, false,
           false, false, false, true, false)), (String ((Ascii (false, false,
           false, true, false, false, true, false)), (String ((Ascii (true,
           true, true, false, false, false, true, false)),
           EmptyString))))))))))))) l
    then bind (parse_assignments n0 l) (fun a ->
           attribute_block n0 r (merge_extra PChg a d) true)
    else if starts_with
              (t (String ((Ascii (true, false, true, true, false, false,
                true, false)), (String ((Ascii (false, false, false, false,
                false, true, false, false)), (String ((Ascii (false, false,
                false, false, false, true, false, false)), (String ((Ascii
                (false, true, false, false, true, false, true, false)),
                (String ((Ascii (true, false, false, false, false, false,
                true, false)), (String ((Ascii (false, false, true, false,
                false, false, true, false)), EmptyString))))))))))))) l
         then bind (parse_assignments n0 l) (fun a ->
                attribute_block n0 r (merge_extra PRad a d) true)
         else if starts_with
                   (t (String ((Ascii (true, false, true, true, false, false,
                     true, false)), (String ((Ascii (false, false, false,
                     false, false, true, false, false)), (String ((Ascii
                     (false, false, false, false, false, true, false,
                     false)), (String ((Ascii (true, false, false, true,
                     false, false, true, false)), (String ((Ascii (true,
                     true, false, false, true, false, true, false)), (String
                     ((Ascii (true, true, true, true, false, false, true,
                     false)), EmptyString))))))))))))) l
              then bind (parse_assignments n0 l) (fun a ->
                     attribute_block n0 r (merge_extra PIso a d) reset)
              else if text_eqb l
                        (t (String ((Ascii (true, false, true, true, false,
                          false, true, false)), (String ((Ascii (false,
                          false, false, false, false, true, false, false)),
                          (String ((Ascii (false, false, false, false, false,
                          true, false, false)), (String ((Ascii (true, false,
                          true, false, false, false, true, false)), (String
                          ((Ascii (false, true, true, true, false, false,
                          true, false)), (String ((Ascii (false, false, true,
                          false, false, false, true, false)),
                          EmptyString)))))))))))))
                   then ok (d, reset)
                   else attribute_block n0 r d reset

(** val nz : z option -> z option **)

let nz = function
| Some v -> if Z.eqb v Z0 then None else Some v
| None -> None

(** val over : z option -> z option -> z option **)

let over new0 old =
  match nz new0 with
  | Some v -> Some v
  | None -> old

(** val apply_extra : (z * extra) list -> bool -> ratom -> ratom **)

let apply_extra d reset a =
  let chg0 = if reset then None else a.r_chg in
  let rad0 = if reset then None else a.r_rad in
  (match let rec get = function
         | [] -> None
         | p :: r' ->
           let (k', e) = p in if Z.eqb k' a.r_idx then Some e else get r'
         in get d with
   | Some e ->
     { r_idx = a.r_idx; r_sym = a.r_sym; r_zn = a.r_zn; r_chg =
       (over e.x_chg chg0); r_mass = (over e.x_mass a.r_mass); r_rad =
       (over e.x_rad rad0); r_x = a.r_x; r_y = a.r_y; r_z = a.r_z }
   | None ->
     { r_idx = a.r_idx; r_sym = a.r_sym; r_zn = a.r_zn; r_chg = chg0;
       r_mass = a.r_mass; r_rad = rad0; r_x = a.r_x; r_y = a.r_y; r_z =
       a.r_z })

(** val to_nat_idx0 : z -> nat res **)

let to_nat_idx0 z0 =
  if Z.ltb z0 Z0 then Inl EOther else ok (Z.to_nat z0)

(** val read_v2000 : text list -> (ratom list * rbond list) res **)

let read_v2000 lines =
  bind (nth_tok (S (S (S O))) lines) (fun l3 ->
    bind (to_int0 (slice O (S (S (S O))) l3)) (fun acz ->
      bind (to_int0 (slice (S (S (S O))) (S (S (S (S (S (S O)))))) l3))
        (fun bcz ->
        bind
          (to_int0
            (slice (S (S (S (S (S (S O)))))) (S (S (S (S (S (S (S (S (S
              O))))))))) l3)) (fun lcz ->
          bind (to_nat_idx0 acz) (fun ac ->
            bind (to_nat_idx0 bcz) (fun bc ->
              bind (to_nat_idx0 lcz) (fun lc ->
                let atom_lines = firstn ac (skipn (S (S (S (S O)))) lines) in
                bind (parse_atom_lines N0 atom_lines) (fun atoms0 ->
                  let n0 = length atoms0 in
                  bind
                    (parse_bond_lines n0
                      (firstn bc (skipn (add (S (S (S (S O)))) ac) lines)) [])
                    (fun bonds0 ->
                    bind
                      (attribute_block n0
                        (skipn (add (add (S (S (S (S O)))) ac) lc) lines) []
                        false) (fun ex ->
                      let (d, reset) = ex in
                      ok ((map (apply_extra d reset) atoms0),
                        (map (fun b -> (((fst (fst b)), (snd (fst b))),
                          (snd b))) bonds0))))))))))))

(** val last_text : text list -> text **)

let last_text l =
  last l []

(** val read_molfile : text -> (rpay, z) mol res **)

let read_molfile s =
  let lines = splitlines s in
  bind (nth_tok (S (S (S O))) lines) (fun l3 ->
    let ver =
      last_text
        (split_on (is_code (Npos (XO (XO (XO (XO (XO XH))))))) (rstrip l3))
    in
    bind
      (if text_eqb ver
            (t (String ((Ascii (false, true, true, false, true, false, true,
              false)), (String ((Ascii (true, true, false, false, true, true,
              false, false)), (String ((Ascii (false, false, false, false,
              true, true, false, false)), (String ((Ascii (false, false,
              false, false, true, true, false, false)), (String ((Ascii
              (false, false, false, false, true, true, false, false)),
              EmptyString)))))))))))
       then read_v3000 lines
       else if text_eqb ver
                 (t (String ((Ascii (false, true, true, false, true, false,
                   true, false)), (String ((Ascii (false, true, false, false,
                   true, true, false, false)), (String ((Ascii (false, false,
                   false, false, true, true, false, false)), (String ((Ascii
                   (false, false, false, false, true, true, false, false)),
                   (String ((Ascii (false, false, false, false, true, true,
                   false, false)), EmptyString)))))))))))
            then read_v2000 lines
            else Inl EParser) (fun ab ->
      graph_from_molecule (fst ab) (snd ab)))

(** val prefix : text **)

let prefix =
  t v30_prefix

(** val dash : ascii **)

let dash =
  ascii_of_N (Npos (XI (XO (XI (XI (XO XH))))))

(** val wrap : nat -> text -> text list **)

let rec wrap fuel line =
  match fuel with
  | O -> (app prefix line) :: []
  | S f ->
    if Nat.leb (length line) wrap_limit
    then (app prefix line) :: []
    else (app prefix (app (firstn wrap_chunk line) (dash :: []))) :: 
           (wrap f (skipn wrap_chunk line))

(** val v30_line : text -> text list **)

let v30_line line =
  wrap (length line) line

(** val tN : n -> text **)

let tN =
  text_of_N

(** val tZ : z -> text **)

let tZ =
  text_of_Z

(** val spt : text **)

let spt =
  sp :: []

(** val opt_prop : string -> (z -> bool) -> z option -> text **)

let opt_prop name cond = function
| Some v ->
  if cond v
  then app spt
         (app (t name)
           (app
             (t (String ((Ascii (true, false, true, true, true, true, false,
               false)), EmptyString))) (tZ v)))
  else []
| None -> []

(** val chg_ok : z -> bool **)

let chg_ok v =
  (&&) ((&&) (negb (Z.eqb v Z0)) (Z.leb (Zneg (XI (XI (XI XH)))) v))
    (Z.leb v (Zpos (XI (XI (XI XH)))))

(** val rad_ok : z -> bool **)

let rad_ok v =
  (&&) (Z.ltb Z0 v) (Z.leb v (Zpos (XI XH)))

(** val mass_ok : z -> bool **)

let mass_ok v =
  Z.ltb Z0 v

(** val atom_line : rpay atom -> text **)

let atom_line x =
  app (tN (N.add x.lbl (Npos XH)))
    (app spt
      (app x.pay.p_sym
        (app spt
          (app x.pay.p_x
            (app spt
              (app x.pay.p_y
                (app spt
                  (app x.pay.p_z
                    (app spt
                      (app
                        (t (String ((Ascii (false, false, false, false, true,
                          true, false, false)), EmptyString)))
                        (app
                          (opt_prop (String ((Ascii (true, true, false,
                            false, false, false, true, false)), (String
                            ((Ascii (false, false, false, true, false, false,
                            true, false)), (String ((Ascii (true, true, true,
                            false, false, false, true, false)),
                            EmptyString)))))) chg_ok x.pay.p_chg)
                          (app
                            (opt_prop (String ((Ascii (false, true, false,
                              false, true, false, true, false)), (String
                              ((Ascii (true, false, false, false, false,
                              false, true, false)), (String ((Ascii (false,
                              false, true, false, false, false, true,
                              false)), EmptyString)))))) rad_ok x.rad)
                            (opt_prop (String ((Ascii (true, false, true,
                              true, false, false, true, false)), (String
                              ((Ascii (true, false, false, false, false,
                              false, true, false)), (String ((Ascii (true,
                              true, false, false, true, false, true, false)),
                              (String ((Ascii (true, true, false, false,
                              true, false, true, false)), EmptyString))))))))
                              mass_ok x.mass)))))))))))))

(** val bond_line : (n * ((n * n) * z option)) -> text **)

let bond_line ib =
  let b = snd ib in
  app (tN (fst ib))
    (app spt
      (app (tZ (opt_default (Zpos XH) (snd b)))
        (app spt
          (app (tN (N.add (fst (fst b)) (Npos XH)))
            (app spt (tN (N.add (snd (fst b)) (Npos XH))))))))

(** val header : text -> text list **)

let header line2 =
  [] :: (line2 :: ([] :: ((t (String ((Ascii (false, false, false, false,
                            false, true, false, false)), (String ((Ascii
                            (false, false, false, false, false, true, false,
                            false)), (String ((Ascii (false, false, false,
                            false, true, true, false, false)), (String
                            ((Ascii (false, false, false, false, false, true,
                            false, false)), (String ((Ascii (false, false,
                            false, false, false, true, false, false)),
                            (String ((Ascii (false, false, false, false,
                            true, true, false, false)), (String ((Ascii
                            (false, false, false, false, false, true, false,
                            false)), (String ((Ascii (false, false, false,
                            false, false, true, false, false)), (String
                            ((Ascii (false, false, false, false, true, true,
                            false, false)), (String ((Ascii (false, false,
                            false, false, false, true, false, false)),
                            (String ((Ascii (false, false, false, false,
                            false, true, false, false)), (String ((Ascii
                            (false, false, false, false, false, true, false,
                            false)), (String ((Ascii (false, false, false,
                            false, false, true, false, false)), (String
                            ((Ascii (false, false, false, false, false, true,
                            false, false)), (String ((Ascii (false, false,
                            false, false, true, true, false, false)), (String
                            ((Ascii (false, false, false, false, false, true,
                            false, false)), (String ((Ascii (false, false,
                            false, false, false, true, false, false)),
                            (String ((Ascii (false, false, false, false,
                            true, true, false, false)), (String ((Ascii
                            (false, false, false, false, false, true, false,
                            false)), (String ((Ascii (false, false, false,
                            false, false, true, false, false)), (String
                            ((Ascii (false, false, false, false, false, true,
                            false, false)), (String ((Ascii (false, false,
                            false, false, false, true, false, false)),
                            (String ((Ascii (false, false, false, false,
                            false, true, false, false)), (String ((Ascii
                            (false, false, false, false, false, true, false,
                            false)), (String ((Ascii (false, false, false,
                            false, false, true, false, false)), (String
                            ((Ascii (false, false, false, false, false, true,
                            false, false)), (String ((Ascii (false, false,
                            false, false, false, true, false, false)),
                            (String ((Ascii (false, false, false, false,
                            false, true, false, false)), (String ((Ascii
                            (false, false, false, false, false, true, false,
                            false)), (String ((Ascii (false, false, false,
                            false, false, true, false, false)), (String
                            ((Ascii (true, false, false, true, true, true,
                            false, false)), (String ((Ascii (true, false,
                            false, true, true, true, false, false)), (String
                            ((Ascii (true, false, false, true, true, true,
                            false, false)), (String ((Ascii (false, false,
                            false, false, false, true, false, false)),
                            (String ((Ascii (false, true, true, false, true,
                            false, true, false)), (String ((Ascii (true,
                            true, false, false, true, true, false, false)),
                            (String ((Ascii (false, false, false, false,
                            true, true, false, false)), (String ((Ascii
                            (false, false, false, false, true, true, false,
                            false)), (String ((Ascii (false, false, false,
                            false, true, true, false, false)),
                            EmptyString))))))))))))))))))))))))))))))))))))))))))))))))))))))))))))))))))))))))))))))) :: [])))

(** val write_lines : text -> (rpay, z option) mol -> text list **)

let write_lines line2 m =
  app (header line2)
    (app
      (v30_line
        (t (String ((Ascii (false, true, false, false, false, false, true,
          false)), (String ((Ascii (true, false, true, false, false, false,
          true, false)), (String ((Ascii (true, true, true, false, false,
          false, true, false)), (String ((Ascii (true, false, false, true,
          false, false, true, false)), (String ((Ascii (false, true, true,
          true, false, false, true, false)), (String ((Ascii (false, false,
          false, false, false, true, false, false)), (String ((Ascii (true,
          true, false, false, false, false, true, false)), (String ((Ascii
          (false, false, true, false, true, false, true, false)), (String
          ((Ascii (true, false, false, false, false, false, true, false)),
          (String ((Ascii (false, true, false, false, false, false, true,
          false)), EmptyString))))))))))))))))))))))
      (app
        (v30_line
          (app
            (t (String ((Ascii (true, true, false, false, false, false, true,
              false)), (String ((Ascii (true, true, true, true, false, false,
              true, false)), (String ((Ascii (true, false, true, false, true,
              false, true, false)), (String ((Ascii (false, true, true, true,
              false, false, true, false)), (String ((Ascii (false, false,
              true, false, true, false, true, false)), (String ((Ascii (true,
              true, false, false, true, false, true, false)), (String ((Ascii
              (false, false, false, false, false, true, false, false)),
              EmptyString)))))))))))))))
            (app (tN (N.of_nat (length m.atoms)))
              (app spt
                (app (tN (N.of_nat (length m.bonds)))
                  (t (String ((Ascii (false, false, false, false, false,
                    true, false, false)), (String ((Ascii (false, false,
                    false, false, true, true, false, false)), (String ((Ascii
                    (false, false, false, false, false, true, false, false)),
                    (String ((Ascii (false, false, false, false, true, true,
                    false, false)), (String ((Ascii (false, false, false,
                    false, false, true, false, false)), (String ((Ascii
                    (false, false, false, false, true, true, false, false)),
                    EmptyString))))))))))))))))))
        (app
          (v30_line
            (t (String ((Ascii (false, true, false, false, false, false,
              true, false)), (String ((Ascii (true, false, true, false,
              false, false, true, false)), (String ((Ascii (true, true, true,
              false, false, false, true, false)), (String ((Ascii (true,
              false, false, true, false, false, true, false)), (String
              ((Ascii (false, true, true, true, false, false, true, false)),
              (String ((Ascii (false, false, false, false, false, true,
              false, false)), (String ((Ascii (true, false, false, false,
              false, false, true, false)), (String ((Ascii (false, false,
              true, false, true, false, true, false)), (String ((Ascii (true,
              true, true, true, false, false, true, false)), (String ((Ascii
              (true, false, true, true, false, false, true, false)),
              EmptyString))))))))))))))))))))))
          (app (flat_map (fun x -> v30_line (atom_line x)) m.atoms)
            (app
              (v30_line
                (t (String ((Ascii (true, false, true, false, false, false,
                  true, false)), (String ((Ascii (false, true, true, true,
                  false, false, true, false)), (String ((Ascii (false, false,
                  true, false, false, false, true, false)), (String ((Ascii
                  (false, false, false, false, false, true, false, false)),
                  (String ((Ascii (true, false, false, false, false, false,
                  true, false)), (String ((Ascii (false, false, true, false,
                  true, false, true, false)), (String ((Ascii (true, true,
                  true, true, false, false, true, false)), (String ((Ascii
                  (true, false, true, true, false, false, true, false)),
                  EmptyString))))))))))))))))))
              (app
                (match m.bonds with
                 | [] -> []
                 | _ :: _ ->
                   app
                     (v30_line
                       (t (String ((Ascii (false, true, false, false, false,
                         false, true, false)), (String ((Ascii (true, false,
                         true, false, false, false, true, false)), (String
                         ((Ascii (true, true, true, false, false, false,
                         true, false)), (String ((Ascii (true, false, false,
                         true, false, false, true, false)), (String ((Ascii
                         (false, true, true, true, false, false, true,
                         false)), (String ((Ascii (false, false, false,
                         false, false, true, false, false)), (String ((Ascii
                         (false, true, false, false, false, false, true,
                         false)), (String ((Ascii (true, true, true, true,
                         false, false, true, false)), (String ((Ascii (false,
                         true, true, true, false, false, true, false)),
                         (String ((Ascii (false, false, true, false, false,
                         false, true, false)),
                         EmptyString))))))))))))))))))))))
                     (app
                       (flat_map (fun ib -> v30_line (bond_line ib))
                         (enumerate_from (Npos XH) m.bonds))
                       (v30_line
                         (t (String ((Ascii (true, false, true, false, false,
                           false, true, false)), (String ((Ascii (false,
                           true, true, true, false, false, true, false)),
                           (String ((Ascii (false, false, true, false, false,
                           false, true, false)), (String ((Ascii (false,
                           false, false, false, false, true, false, false)),
                           (String ((Ascii (false, true, false, false, false,
                           false, true, false)), (String ((Ascii (true, true,
                           true, true, false, false, true, false)), (String
                           ((Ascii (false, true, true, true, false, false,
                           true, false)), (String ((Ascii (false, false,
                           true, false, false, false, true, false)),
                           EmptyString))))))))))))))))))))
                (app
                  (v30_line
                    (t (String ((Ascii (true, false, true, false, false,
                      false, true, false)), (String ((Ascii (false, true,
                      true, true, false, false, true, false)), (String
                      ((Ascii (false, false, true, false, false, false, true,
                      false)), (String ((Ascii (false, false, false, false,
                      false, true, false, false)), (String ((Ascii (true,
                      true, false, false, false, false, true, false)),
                      (String ((Ascii (false, false, true, false, true,
                      false, true, false)), (String ((Ascii (true, false,
                      false, false, false, false, true, false)), (String
                      ((Ascii (false, true, false, false, false, false, true,
                      false)), EmptyString))))))))))))))))))
                  ((t (String ((Ascii (true, false, true, true, false, false,
                     true, false)), (String ((Ascii (false, false, false,
                     false, false, true, false, false)), (String ((Ascii
                     (false, false, false, false, false, true, false,
                     false)), (String ((Ascii (true, false, true, false,
                     false, false, true, false)), (String ((Ascii (false,
                     true, true, true, false, false, true, false)), (String
                     ((Ascii (false, false, true, false, false, false, true,
                     false)), EmptyString))))))))))))) :: []))))))))

(** val nl : ascii **)

let nl =
  ascii_of_N (Npos (XO (XI (XO XH))))

(** val write_molfile : text -> (rpay, z option) mol -> text **)

let write_molfile line2 m =
  join_with (nl :: []) (write_lines line2 m)

(** val atom_lbl_leb : 'a1 atom -> 'a1 atom -> bool **)

let atom_lbl_leb x y =
  N.leb x.lbl y.lbl

(** val sort_by_label : ('a1, 'a2) mol -> ('a1, 'a2) mol **)

let sort_by_label m =
  { atoms = (isort atom_lbl_leb m.atoms); bonds = m.bonds }

(** val permute1 : n list -> ('a1, 'a2) mol -> ('a1, 'a2) mol **)

let permute1 perm m =
  sort_by_label (relabel (fun_of_map (combine perm (labels m))) m)

(** val pair_leb0 : (n * n) -> (n * n) -> bool **)

let pair_leb0 a b =
  if N.ltb (fst a) (fst b)
  then true
  else if N.eqb (fst a) (fst b) then N.leb (snd a) (snd b) else false

(** val edge_set : ('a1, 'a2) mol -> (n * n) list **)

let edge_set m =
  isort pair_leb0 (map (fun b -> norm_pair (ends b)) m.bonds)

(** val pairs_eqb : (n * n) list -> (n * n) list -> bool **)

let rec pairs_eqb a b =
  match a with
  | [] -> (match b with
           | [] -> true
           | _ :: _ -> false)
  | x :: a' ->
    (match b with
     | [] -> false
     | y :: b' ->
       (&&) ((&&) (N.eqb (fst x) (fst y)) (N.eqb (snd x) (snd y)))
         (pairs_eqb a' b'))

(** val same_edges : ('a1, 'a2) mol -> ('a1, 'a2) mol -> bool **)

let same_edges m m' =
  pairs_eqb (edge_set m) (edge_set m')

(** val enforce : ('a1, 'a2) mol -> bool **)

let enforce m =
  let n0 = N.of_nat (length m.atoms) in
  let e = N.of_nat (length m.bonds) in
  (&&) (N.ltb (Npos XH) e)
    (negb (N.eqb (N.mul (Npos (XO XH)) e) (N.mul n0 (N.sub n0 (Npos XH)))))

(** val retry :
    ('a1, 'a2) mol -> ('a1, 'a2) mol -> n list list -> (('a1, 'a2) mol * nat)
    option **)

let rec retry m cur shuffles =
  if same_edges m cur
  then (match shuffles with
        | [] -> None
        | s :: r ->
          option_map (fun p -> ((fst p), (S (snd p))))
            (retry m (permute1 s m) r))
  else Some (cur, O)

(** val permute :
    n list list -> ('a1, 'a2) mol -> (('a1, 'a2) mol * nat) option **)

let permute shuffles m =
  match shuffles with
  | [] -> None
  | s :: r ->
    let first = permute1 s m in
    if enforce m
    then option_map (fun p -> ((fst p), (snd p))) (retry m first r)
    else Some (first, O)

(** val canonicalize_with :
    (n * n) list -> ('a1, 'a2) mol -> ('a1, 'a2) mol option **)

let canonicalize_with lam m =
  canonicalize (fun _ _ -> lam) m
