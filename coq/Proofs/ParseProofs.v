(* ParseProofs.v -- C10: the reference reader of Model/Parse.v accepts exactly the
   published TUCAN grammar (tucan.ebnf / tucan.g4), and its listener semantics is
   what the property says.

   Part A is the SPECIFICATION: an inductive transcription of the EBNF over the token
   alphabet of Model/Token.v, rule by rule.  Parts B1.. are theorems about the model. *)
From Coq Require Import String.
From Coq Require Import List NArith ZArith Bool Ascii Lia.
From Coq Require Import Sorting.Sorted Sorting.Permutation.
Require Import Base Mol Text Token Parse.
Require Grammar Elements.
Import ListNotations.
Set Implicit Arguments.

(* ====================================================================== *)
(* A.  The grammar, over tokens                                            *)
(* ====================================================================== *)

(* greater_than_one  ::= "2" | ... | "9" | GREATER_THAN_NINE
   greater_than_zero ::= "1" | greater_than_one
   A numeral token carries its value; the two numeric classes are value ranges. *)
Definition Count (c : Z) : Prop := (2 <= c)%Z.        (* count      ::= greater_than_one  *)
Definition Index (i : Z) : Prop := (1 <= i)%Z.        (* node_index ::= greater_than_zero *)

(* A rule body  `x1? x2? x3 ...`  where every xi is an element rule
       xi ::= "Sym" count?
   The list gives (atomic number of Sym, is the occurrence followed by `?`).
   The third index is the listener's view: (atomic number, count or 1). *)
Inductive OptSeq : list (N * bool) -> list token -> list (N * Z) -> Prop :=
| OS_end   : OptSeq [] [] []
| OS_skip  : forall z rule ts it,                      (* an optional element is absent *)
    OptSeq rule ts it ->
    OptSeq ((z, true) :: rule) ts it
| OS_sym   : forall z opt rule ts it,                  (* "Sym" *)
    OptSeq rule ts it ->
    OptSeq ((z, opt) :: rule) (TSym z :: ts) ((z, 1%Z) :: it)
| OS_count : forall z opt rule c ts it,                (* "Sym" count *)
    Count c ->
    OptSeq rule ts it ->
    OptSeq ((z, opt) :: rule) (TSym z :: TNum c :: ts) ((z, c) :: it).

(* sum_formula ::= with_carbon | without_carbon *)
Definition Formula (ts : list token) (it : list (N * Z)) : Prop :=
  OptSeq Parse.with_carbon ts it \/ OptSeq Parse.without_carbon ts it.

(* tuple ::= "(" node_index "-" node_index ")" *)
Inductive Tuple : list token -> Z * Z -> Prop :=
| Tuple_intro : forall a b, Index a -> Index b ->
    Tuple [TLp; TNum a; TDash; TNum b; TRp] (a, b).

(* tuples ::= tuple* *)
Inductive Tuples : list token -> list (Z * Z) -> Prop :=
| Tuples_nil  : Tuples [] []
| Tuples_cons : forall t1 e ts es, Tuple t1 e -> Tuples ts es -> Tuples (t1 ++ ts) (e :: es).

(* node_property       ::= node_property_key "=" node_property_value
   node_property_key   ::= "mass" | "rad"
   node_property_value ::= greater_than_zero *)
Inductive NodeProperty : list token -> key * Z -> Prop :=
| NP_mass : forall v, Index v -> NodeProperty [TMass; TEq; TNum v] (KMass, v)
| NP_rad  : forall v, Index v -> NodeProperty [TRad; TEq; TNum v] (KRad, v).

(* node_property ("," node_property)* *)
Inductive NodeProperties : list token -> list (key * Z) -> Prop :=
| NPs_one  : forall t1 p, NodeProperty t1 p -> NodeProperties t1 [p]
| NPs_more : forall t1 p ts ps, NodeProperty t1 p -> NodeProperties ts ps ->
    NodeProperties (t1 ++ TComma :: ts) (p :: ps).

(* node_attribute ::= "(" node_index ":" node_property ("," node_property)* ")" *)
Inductive NodeAttribute : list token -> Z * list (key * Z) -> Prop :=
| NA_intro : forall i tps ps, Index i -> NodeProperties tps ps ->
    NodeAttribute (TLp :: TNum i :: TColon :: tps ++ [TRp]) (i, ps).

(* node_attributes ::= node_attribute* *)
Inductive NodeAttributes : list token -> list (Z * list (key * Z)) -> Prop :=
| NAs_nil  : NodeAttributes [] []
| NAs_cons : forall t1 b ts bs, NodeAttribute t1 b -> NodeAttributes ts bs ->
    NodeAttributes (t1 ++ ts) (b :: bs).

(* tucan ::= sum_formula "/" tuples ("/" node_attributes)? *)
Inductive Sentence : list token -> ast -> Prop :=
| S_plain : forall tf it tt tu,
    Formula tf it -> Tuples tt tu ->
    Sentence (tf ++ TSlash :: tt) (mkAst it tu [])
| S_attrs : forall tf it tt tu ta bs,
    Formula tf it -> Tuples tt tu -> NodeAttributes ta bs ->
    Sentence (tf ++ TSlash :: tt ++ TSlash :: ta) (mkAst it tu bs).

(* The lexer never produces a numeral below 1 (there is no such token in the grammar:
   every numeral is greater_than_zero).  Token lists are a bigger type, so the
   soundness theorem about `parse_tokens` on arbitrary token lists carries this
   side condition; `lex_text_tok_ok` discharges it for every lexed string. *)
Definition tok_ok (k : token) : Prop := match k with TNum z => (1 <= z)%Z | _ => True end.

(* ====================================================================== *)
(* B1.  parse_tokens  <->  Sentence                                         *)
(* ====================================================================== *)

(* ---- formula: items, independent of the rule ---- *)
(* (element count?)* : what parse_items recognises *)
Inductive Items : list token -> list (N * Z) -> Prop :=
| I_end   : Items [] []
| I_sym   : forall z ts it, Items ts it -> Items (TSym z :: ts) ((z, 1%Z) :: it)
| I_count : forall z c ts it, Count c -> Items ts it -> Items (TSym z :: TNum c :: ts) ((z, c) :: it).

Lemma OptSeq_Items : forall rule ts it, OptSeq rule ts it -> Items ts it.
Proof. induction 1; try constructor; auto. Qed.

Lemma OptSeq_syms_incl : forall rule ts it, OptSeq rule ts it ->
  incl (map fst it) (map fst rule).
Proof.
  induction 1; simpl.
  - apply incl_refl.
  - apply incl_tl; assumption.
  - apply incl_cons; [left; reflexivity | apply incl_tl; assumption].
  - apply incl_cons; [left; reflexivity | apply incl_tl; assumption].
Qed.

Lemma match_order_OptSeq : forall rule ts it,
  Items ts it -> match_order rule (map fst it) = true -> OptSeq rule ts it.
Proof.
  induction rule as [|[z opt] rule IH]; intros ts it HI HM.
  - destruct it as [|p it]; simpl in HM; [|discriminate].
    inversion HI; subst. constructor.
  - destruct it as [|[s c] it]; simpl in HM.
    + destruct opt; [|discriminate]. apply OS_skip. apply IH; assumption.
    + destruct (N.eqb s z) eqn:E.
      * apply N.eqb_eq in E; subst s.
        inversion HI; subst.
        -- apply OS_sym. apply IH; assumption.
        -- apply OS_count; [assumption|]. apply IH; assumption.
      * destruct opt; [|discriminate]. apply OS_skip. apply IH; assumption.
Qed.

Lemma OptSeq_match_order : forall rule ts it,
  NoDup (map fst rule) -> OptSeq rule ts it -> match_order rule (map fst it) = true.
Proof.
  intros rule ts it ND H; induction H; simpl in *.
  - reflexivity.
  - inversion ND as [|? ? Hnin ND']; subst.
    specialize (IHOptSeq ND').
    destruct (map fst it) as [|s syms] eqn:E; [assumption|].
    destruct (N.eqb s z) eqn:Es; [|assumption].
    apply N.eqb_eq in Es; subst s. exfalso. apply Hnin.
    apply (OptSeq_syms_incl H). rewrite E. left; reflexivity.
  - inversion ND; subst. rewrite N.eqb_refl. auto.
  - inversion ND; subst. rewrite N.eqb_refl. auto.
Qed.

(* unfolding equations, to keep `simpl` away from the deep patterns *)
Lemma parse_items_S : forall f l, parse_items (S f) l =
  match l with
  | TSym z :: l' =>
    match l' with
    | TNum c :: r => if Z.leb 2 c then let (it, rest) := parse_items f r in ((z, c) :: it, rest)
                     else ([(z, 1%Z)], l')
    | _ => let (it, rest) := parse_items f l' in ((z, 1%Z) :: it, rest)
    end
  | _ => ([], l)
  end.
Proof. intros f l. destruct l as [|[] [|[] ?]]; reflexivity. Qed.

Lemma parse_items_sound : forall fuel l it rest,
  parse_items fuel l = (it, rest) -> exists pre, l = pre ++ rest /\ Items pre it.
Proof.
  induction fuel as [|f IH]; intros l it rest H.
  - simpl in H. inversion H; subst. exists []. split; [reflexivity|constructor].
  - rewrite parse_items_S in H.
    assert (Hnil : ([] : list (N * Z), l) = (it, rest) -> exists pre, l = pre ++ rest /\ Items pre it).
    { intros E; inversion E; subst. exists []. split; [reflexivity|constructor]. }
    destruct l as [|k l']; [auto|].
    destruct k; auto.
    assert (Hsym : (let (it0, rest0) := parse_items f l' in ((z, 1%Z) :: it0, rest0)) = (it, rest) ->
                   exists pre, TSym z :: l' = pre ++ rest /\ Items pre it).
    { destruct (parse_items f l') as [it0 rest0] eqn:E. intros E2; inversion E2; subst.
      destruct (IH _ _ _ E) as (pre & -> & HI).
      exists (TSym z :: pre). split; [reflexivity|constructor; assumption]. }
    destruct l' as [|k2 r]; [auto|].
    destruct k2; auto.
    destruct (Z.leb 2 z0) eqn:Ec.
    + destruct (parse_items f r) as [it0 rest0] eqn:E. inversion H; subst.
      destruct (IH _ _ _ E) as (pre & -> & HI).
      exists (TSym z :: TNum z0 :: pre). split; [reflexivity|].
      constructor; [apply Z.leb_le; assumption | assumption].
    + inversion H; subst. exists [TSym z]. split; [reflexivity|]. repeat constructor.
Qed.

Lemma parse_items_complete : forall tf it, Items tf it ->
  forall fuel r, (length tf <= fuel)%nat ->
  parse_items fuel (tf ++ TSlash :: r) = (it, TSlash :: r).
Proof.
  induction 1; intros fuel r Hf.
  - destruct fuel; reflexivity.
  - destruct fuel as [|f]; [simpl in Hf; lia|].
    rewrite parse_items_S. cbn [app].
    assert (E : parse_items f (ts ++ TSlash :: r) = (it, TSlash :: r))
      by (apply IHItems; simpl in Hf; lia).
    destruct ts as [|k ts'].
    + simpl in *. rewrite E. reflexivity.
    + inversion H; subst; cbn [app] in *; rewrite E; reflexivity.
  - destruct fuel as [|f]; [simpl in Hf; lia|].
    rewrite parse_items_S. cbn [app].
    unfold Count in H. apply Z.leb_le in H. rewrite H.
    rewrite IHItems by (simpl in Hf; lia). reflexivity.
Qed.

(* ---- tuples ---- *)
Lemma parse_tuples_S : forall f l, parse_tuples (S f) l =
  match l with
  | TLp :: TNum a :: TDash :: TNum b :: TRp :: r =>
      let (ts, rest) := parse_tuples f r in ((a, b) :: ts, rest)
  | _ => ([], l)
  end.
Proof. reflexivity. Qed.

Lemma Forall_tl : forall A (P : A -> Prop) x l, Forall P (x :: l) -> Forall P l.
Proof. intros A P x l H; inversion H; assumption. Qed.

Lemma parse_tuples_sound : forall fuel l tu rest,
  Forall tok_ok l -> parse_tuples fuel l = (tu, rest) ->
  exists pre, l = pre ++ rest /\ Tuples pre tu.
Proof.
  induction fuel as [|f IH]; intros l tu rest Hok H.
  - simpl in H. inversion H; subst. exists []. split; [reflexivity|constructor].
  - rewrite parse_tuples_S in H.
    assert (Hnil : ([] : list (Z * Z), l) = (tu, rest) -> exists pre, l = pre ++ rest /\ Tuples pre tu).
    { intros E; inversion E; subst. exists []. split; [reflexivity|constructor]. }
    destruct l as [|[] l]; auto.
    destruct l as [|[] l]; auto.
    destruct l as [|[] l]; auto.
    destruct l as [|[] l]; auto.
    destruct l as [|[] l]; auto.
    destruct (parse_tuples f l) as [ts0 rest0] eqn:E. inversion H; subst.
    assert (Hl : Forall tok_ok l) by (do 5 apply Forall_tl in Hok; assumption).
    destruct (IH _ _ _ Hl E) as (pre & -> & HT).
    exists ([TLp; TNum z; TDash; TNum z0; TRp] ++ pre). split; [reflexivity|].
    constructor; [|assumption].
    inversion Hok as [|? ? _ Hok1]; subst. inversion Hok1 as [|? ? Ha Hok2]; subst.
    inversion Hok2 as [|? ? _ Hok3]; subst. inversion Hok3 as [|? ? Hb _]; subst.
    constructor; assumption.
Qed.

Definition not_lp (l : list token) : Prop := match l with TLp :: _ => False | _ => True end.

Lemma parse_tuples_complete : forall tt tu, Tuples tt tu ->
  forall fuel r, (length tt <= fuel)%nat -> not_lp r ->
  parse_tuples fuel (tt ++ r) = (tu, r).
Proof.
  induction 1; intros fuel r Hf Hr.
  - destruct fuel; [reflexivity|]. rewrite parse_tuples_S. cbn [app].
    destruct r as [|[] ?]; try reflexivity. destruct Hr.
  - inversion H; subst.
    destruct fuel as [|f]; [simpl in Hf; lia|].
    rewrite parse_tuples_S. cbn [app].
    rewrite IHTuples; [reflexivity| simpl in Hf; lia | assumption].
Qed.

(* ---- node attributes ---- *)
Lemma parse_prop_sound : forall l p r, Forall tok_ok l -> parse_prop l = Some (p, r) ->
  exists pre, l = pre ++ r /\ NodeProperty pre p.
Proof.
  intros l p r Hok H. unfold parse_prop in H.
  destruct l as [|[] l]; try discriminate;
  destruct l as [|[] l]; try discriminate;
  destruct l as [|[] l]; try discriminate; inversion H; subst;
  (inversion Hok as [|? ? _ Hok1]; subst; inversion Hok1 as [|? ? _ Hok2]; subst;
   inversion Hok2 as [|? ? Hv _]; subst).
  - exists [TMass; TEq; TNum z]. split; [reflexivity|constructor; assumption].
  - exists [TRad; TEq; TNum z]. split; [reflexivity|constructor; assumption].
Qed.

Lemma parse_prop_complete : forall t1 p r, NodeProperty t1 p -> parse_prop (t1 ++ r) = Some (p, r).
Proof. intros t1 p r H; inversion H; reflexivity. Qed.

Lemma Forall_app_r : forall A (P : A -> Prop) l1 l2, Forall P (l1 ++ l2) -> Forall P l2.
Proof. intros A P l1 l2 H. apply Forall_app in H. tauto. Qed.

Lemma parse_props_S : forall f l, parse_props (S f) l =
  match parse_prop l with
  | None => None
  | Some (p, r) =>
    match r with
    | TComma :: r' => match parse_props f r' with Some (ps, rest) => Some (p :: ps, rest) | None => None end
    | _ => Some ([p], r)
    end
  end.
Proof. reflexivity. Qed.

Lemma parse_props_sound : forall fuel l ps rest,
  Forall tok_ok l -> parse_props fuel l = Some (ps, rest) ->
  exists pre, l = pre ++ rest /\ NodeProperties pre ps.
Proof.
  induction fuel as [|f IH]; intros l ps rest Hok H; [discriminate|].
  rewrite parse_props_S in H.
  destruct (parse_prop l) as [[p r]|] eqn:Ep; [|discriminate].
  destruct (parse_prop_sound Hok Ep) as (pre & -> & HP).
  assert (Hone : Some ([p], r) = Some (ps, rest) ->
                 exists pre0, pre ++ r = pre0 ++ rest /\ NodeProperties pre0 ps).
  { intros E; inversion E; subst. exists pre. split; [reflexivity|constructor; assumption]. }
  destruct r as [|k r']; auto.
  destruct k; auto.
  destruct (parse_props f r') as [[ps0 rest0]|] eqn:E; [|discriminate].
  inversion H; subst.
  assert (Hr : Forall tok_ok r') by (apply Forall_app_r in Hok; apply Forall_tl in Hok; assumption).
  destruct (IH _ _ _ Hr E) as (pre' & -> & HPs).
  exists (pre ++ TComma :: pre'). split.
  - rewrite <- app_assoc. reflexivity.
  - constructor; assumption.
Qed.

Definition not_comma (l : list token) : Prop := match l with TComma :: _ => False | _ => True end.

Lemma parse_props_complete : forall tps ps, NodeProperties tps ps ->
  forall fuel r, (length tps < fuel)%nat -> not_comma r ->
  parse_props fuel (tps ++ r) = Some (ps, r).
Proof.
  induction 1; intros fuel r Hf Hr.
  - destruct fuel as [|f]; [lia|]. rewrite parse_props_S.
    rewrite (parse_prop_complete _ H).
    destruct r as [|[] ?]; try reflexivity. destruct Hr.
  - destruct fuel as [|f]; [lia|]. rewrite parse_props_S.
    rewrite <- app_assoc. rewrite (parse_prop_complete _ H). cbn [app].
    rewrite IHNodeProperties; [reflexivity| |assumption].
    rewrite app_length in Hf. simpl in Hf. lia.
Qed.

Lemma parse_blocks_S : forall f l, parse_blocks (S f) l =
  match l with
  | TLp :: TNum i :: TColon :: r =>
    match parse_props f r with
    | Some (ps, TRp :: r') =>
        match parse_blocks f r' with Some (bs, rest) => Some ((i, ps) :: bs, rest) | None => None end
    | _ => None
    end
  | _ => Some ([], l)
  end.
Proof. reflexivity. Qed.

Lemma parse_blocks_sound : forall fuel l bs rest,
  Forall tok_ok l -> parse_blocks fuel l = Some (bs, rest) ->
  exists pre, l = pre ++ rest /\ NodeAttributes pre bs.
Proof.
  induction fuel as [|f IH]; intros l bs rest Hok H; [discriminate|].
  rewrite parse_blocks_S in H.
  assert (Hnil : Some ([] : list (Z * list (key * Z)), l) = Some (bs, rest) ->
                 exists pre, l = pre ++ rest /\ NodeAttributes pre bs).
  { intros E; inversion E; subst. exists []. split; [reflexivity|constructor]. }
  destruct l as [|[] l]; auto.
  destruct l as [|[] l]; auto.
  destruct l as [|[] l]; auto.
  destruct (parse_props f l) as [[ps r]|] eqn:Ep; [|discriminate].
  destruct r as [|[] r']; try discriminate.
  destruct (parse_blocks f r') as [[bs0 rest0]|] eqn:Eb; [|discriminate].
  inversion H; subst.
  assert (Hl : Forall tok_ok l) by (do 3 apply Forall_tl in Hok; assumption).
  destruct (parse_props_sound f Hl Ep) as (pre & -> & HPs).
  assert (Hr : Forall tok_ok r') by (apply Forall_app_r in Hl; apply Forall_tl in Hl; assumption).
  destruct (IH _ _ _ Hr Eb) as (pre' & -> & HAs).
  exists ((TLp :: TNum z :: TColon :: pre ++ [TRp]) ++ pre'). split.
  - simpl. rewrite <- !app_assoc. reflexivity.
  - constructor; [|assumption]. constructor; [|assumption].
    inversion Hok as [|? ? _ Hok1]; subst. inversion Hok1 as [|? ? Hi _]; subst. exact Hi.
Qed.

Lemma parse_blocks_complete : forall ta bs, NodeAttributes ta bs ->
  forall fuel, (length ta < fuel)%nat -> parse_blocks fuel ta = Some (bs, []).
Proof.
  induction 1; intros fuel Hf.
  - destruct fuel; [lia|]. reflexivity.
  - inversion H; subst.
    destruct fuel as [|f]; [lia|]. rewrite parse_blocks_S. cbn [app].
    rewrite <- app_assoc. cbn [app].
    simpl in Hf. rewrite !app_length in Hf. simpl in Hf.
    rewrite (parse_props_complete H2); [| lia | exact I].
    rewrite IHNodeAttributes by lia. reflexivity.
Qed.

(* ---- the rule tables have no repeated element (checked by computation) ---- *)
Fixpoint nodupN (l : list N) : bool :=
  match l with [] => true | x :: t => negb (memN x t) && nodupN t end.

Lemma memN_In : forall a l, memN a l = true <-> In a l.
Proof.
  intros a l. unfold memN. rewrite existsb_exists. split.
  - intros (x & Hin & E). apply N.eqb_eq in E. subst; assumption.
  - intros Hin. exists a. split; [assumption|apply N.eqb_refl].
Qed.

Lemma nodupN_sound : forall l, nodupN l = true -> NoDup l.
Proof.
  induction l as [|x t IH]; simpl; intros H; [constructor|].
  apply andb_true_iff in H. destruct H as [H1 H2]. constructor; [|auto].
  intros Hin. apply memN_In in Hin. rewrite Hin in H1. discriminate.
Qed.

Lemma with_carbon_nodup : NoDup (map fst Parse.with_carbon).
Proof. apply nodupN_sound. vm_compute. reflexivity. Qed.
Lemma without_carbon_nodup : NoDup (map fst Parse.without_carbon).
Proof. apply nodupN_sound. vm_compute. reflexivity. Qed.

Lemma formula_ok_Formula : forall ts it, Items ts it -> formula_ok it = true -> Formula ts it.
Proof.
  intros ts it HI H. unfold formula_ok in H. apply orb_true_iff in H.
  destruct H as [H|H]; [left|right]; apply match_order_OptSeq; assumption.
Qed.

Lemma Formula_formula_ok : forall ts it, Formula ts it -> formula_ok it = true.
Proof.
  intros ts it [H|H]; unfold formula_ok; apply orb_true_iff; [left|right].
  - exact (OptSeq_match_order with_carbon_nodup H).
  - exact (OptSeq_match_order without_carbon_nodup H).
Qed.

Lemma Formula_Items : forall ts it, Formula ts it -> Items ts it.
Proof. intros ts it [H|H]; exact (OptSeq_Items H). Qed.

Theorem parse_tokens_sound : forall ts a,
  Forall tok_ok ts -> parse_tokens ts = Some a -> Sentence ts a.
Proof.
  intros ts a Hok H. unfold parse_tokens in H.
  destruct (parse_items (S (length ts)) ts) as [it r1] eqn:Ei.
  destruct (formula_ok it) eqn:Ef; cbn [negb] in H; [|discriminate].
  destruct (parse_items_sound _ _ Ei) as (tf & E & HI).
  pose proof (formula_ok_Formula HI Ef) as HF.
  destruct r1 as [|[] r2]; try discriminate.
  destruct (parse_tuples (S (length ts)) r2) as [tu r3] eqn:Et.
  assert (Hr2 : Forall tok_ok r2).
  { rewrite E in Hok. apply Forall_app_r in Hok. apply Forall_tl in Hok. assumption. }
  destruct (parse_tuples_sound _ Hr2 Et) as (tt & E2 & HT).
  destruct r3 as [|[] r4]; try discriminate.
  - inversion H; subst a. rewrite E, E2, app_nil_r. constructor; assumption.
  - destruct (parse_blocks (S (length ts)) r4) as [[bs [|? ?]]|] eqn:Eb; try discriminate.
    inversion H; subst a.
    assert (Hr4 : Forall tok_ok r4).
    { rewrite E2 in Hr2. apply Forall_app_r in Hr2. apply Forall_tl in Hr2. assumption. }
    destruct (parse_blocks_sound _ Hr4 Eb) as (ta & E3 & HA).
    rewrite app_nil_r in E3. rewrite E, E2, E3. constructor; assumption.
Qed.

Theorem parse_tokens_complete : forall ts a, Sentence ts a -> parse_tokens ts = Some a.
Proof.
  intros ts a H. unfold parse_tokens. inversion H as [tf it tt tu HF HT | tf it tt tu ta bs HF HT HA]; subst.
  - rewrite (parse_items_complete (Formula_Items HF)) by (rewrite app_length; lia).
    rewrite (Formula_formula_ok HF). cbn [negb].
    rewrite <- (app_nil_r tt) at 2.
    rewrite (parse_tuples_complete HT); [reflexivity| |exact I].
    rewrite app_length. simpl. lia.
  - rewrite (parse_items_complete (Formula_Items HF)) by (rewrite app_length; lia).
    rewrite (Formula_formula_ok HF). cbn [negb].
    rewrite (parse_tuples_complete HT); [| |exact I].
    + rewrite (parse_blocks_complete HA); [reflexivity|].
      rewrite !app_length. simpl. rewrite app_length. simpl. lia.
    + rewrite !app_length. simpl. rewrite app_length. simpl. lia.
Qed.

(* the token grammar is unambiguous as far as the listener can see *)
Corollary Sentence_unambiguous : forall ts a a', Sentence ts a -> Sentence ts a' -> a = a'.
Proof.
  intros ts a a' H H'. apply parse_tokens_complete in H. apply parse_tokens_complete in H'.
  congruence.
Qed.

(* the two alternatives of sum_formula overlap only on the empty formula *)
Lemma OptSeq_mandatory_head : forall z rule ts it, OptSeq ((z, false) :: rule) ts it ->
  exists ts', ts = TSym z :: ts'.
Proof. intros z rule ts it H; inversion H; subst; eauto. Qed.

Lemma OptSeq_first_sym : forall rule ts it, OptSeq rule ts it ->
  match ts with TSym z :: _ => In z (map fst rule) | [] => True | _ => False end.
Proof.
  induction 1; simpl; auto.
  destruct ts as [|[] ?]; auto.
Qed.

Lemma with_carbon_head : hd_error Parse.with_carbon = Some (6%N, false).
Proof. vm_compute. reflexivity. Qed.
Lemma without_carbon_no_C : memN 6 (map fst Parse.without_carbon) = false.
Proof. vm_compute. reflexivity. Qed.

Lemma Formula_alternatives_disjoint : forall ts it it',
  OptSeq Parse.with_carbon ts it -> OptSeq Parse.without_carbon ts it' -> False.
Proof.
  intros ts it it' H1 H2.
  pose proof with_carbon_head as Hh.
  destruct Parse.with_carbon as [|p rule]; [discriminate|]. simpl in Hh. inversion Hh; subst p.
  destruct (OptSeq_mandatory_head H1) as (ts' & ->).
  apply OptSeq_first_sym in H2. apply memN_In in H2.
  rewrite without_carbon_no_C in H2. discriminate.
Qed.

(* ====================================================================== *)
(* Lexer: every numeral token is >= 1                                       *)
(* ====================================================================== *)
Lemma digits_val_ge : forall l acc, (acc <= digits_val acc l)%N.
Proof.
  induction l as [|c r IH]; intros acc; cbn [digits_val]; [lia|].
  eapply N.le_trans; [|apply IH]. lia.
Qed.

Lemma punct_tok_ok : forall c k, punct c = Some k -> tok_ok k.
Proof.
  intros c k. unfold punct.
  repeat match goal with |- context [if ?b then _ else _] => destruct b end;
  intros H; inversion H; exact I.
Qed.

Lemma lex1_tok_ok : forall l k rest, lex1 l = Some (k, rest) -> tok_ok k.
Proof.
  intros l k rest H. destruct k; try exact I.
  unfold lex1 in H. destruct l as [|c r]; [discriminate|].
  destruct (is_digit c) eqn:Ed.
  - destruct (N.eqb (N_of_ascii c) 48) eqn:E0; [discriminate|].
    destruct (span_digits r) as [d rest0]. inversion H; subst.
    change (digits_val 0 (c :: d)) with (digits_val (digit_val c) d).
    pose proof (digits_val_ge d (digit_val c)) as Hge.
    unfold is_digit in Ed. apply andb_true_iff in Ed. destruct Ed as [E1 E2].
    apply N.leb_le in E1. apply N.eqb_neq in E0.
    set (v := digits_val (digit_val c) d) in *.
    unfold digit_val in Hge. simpl tok_ok. lia.
  - repeat match type of H with
           | context [match ?x with _ => _ end] => destruct x eqn:?
           end; try discriminate; inversion H; subst;
    match goal with E : punct _ = Some _ |- _ => exact (punct_tok_ok _ E) end.
Qed.

Lemma lex_fuel_tok_ok : forall fuel l ts, lex_fuel fuel l = Some ts -> Forall tok_ok ts.
Proof.
  induction fuel as [|f IH]; intros l ts H.
  - destruct l; simpl in H; [inversion H; constructor|discriminate].
  - destruct l as [|c r]; [simpl in H; inversion H; constructor|].
    cbn [lex_fuel] in H.
    destruct (lex1 (c :: r)) as [[k rest]|] eqn:E1; [|discriminate].
    destruct (lex_fuel f rest) as [ks|] eqn:E2; [|discriminate].
    inversion H; subst. constructor; [exact (lex1_tok_ok _ E1)|exact (IH _ _ E2)].
Qed.

Lemma lex_text_tok_ok : forall s ts, lex_text s = Some ts -> Forall tok_ok ts.
Proof. intros s ts. apply lex_fuel_tok_ok. Qed.

(* ====================================================================== *)
(* B2 / B3.  ref_parse                                                     *)
(* ====================================================================== *)
Theorem ref_parse_sound_complete : forall s g,
  ref_parse s = inr g <->
  exists ts a, lex_text s = Some ts /\ Sentence ts a /\ sem a = inr g.
Proof.
  intros s g. unfold ref_parse. split.
  - destruct (lex_text s) as [ts|] eqn:El; [|discriminate].
    destruct (parse_tokens ts) as [a|] eqn:Ep; [|discriminate].
    intros H. exists ts, a. split; [reflexivity|]. split; [|assumption].
    apply parse_tokens_sound; [exact (lex_text_tok_ok _ El)|assumption].
  - intros (ts & a & El & HS & Hs). rewrite El. rewrite (parse_tokens_complete HS). assumption.
Qed.

Lemma sem_error_kinds : forall a e, sem a = inl e -> e = ESelfLoop \/ e = EDupAttr \/ e = EBadIndex.
Proof.
  intros a e. unfold sem.
  repeat match goal with |- context [if ?b then _ else _] => destruct b end;
  intros H; inversion H; auto.
Qed.

(* every outcome of ref_parse, by kind *)
Theorem ref_parse_lex_error : forall s, ref_parse s = inl ELex <-> lex_text s = None.
Proof.
  intros s. unfold ref_parse. destruct (lex_text s) as [ts|]; [|tauto].
  split; [|discriminate]. destruct (parse_tokens ts) as [a|]; [|discriminate].
  intros H. destruct (sem_error_kinds _ H) as [E|[E|E]]; discriminate.
Qed.

Theorem ref_parse_syntax_error : forall s,
  ref_parse s = inl ESyntax <-> exists ts, lex_text s = Some ts /\ forall a, ~ Sentence ts a.
Proof.
  intros s. unfold ref_parse. destruct (lex_text s) as [ts|] eqn:El.
  - destruct (parse_tokens ts) as [a|] eqn:Ep.
    + split.
      * intros H. destruct (sem_error_kinds _ H) as [E|[E|E]]; discriminate.
      * intros (ts' & E & Hn). inversion E; subst ts'. exfalso. apply (Hn a).
        apply parse_tokens_sound; [exact (lex_text_tok_ok _ El)|assumption].
    + split; [|reflexivity]. intros _. exists ts. split; [reflexivity|].
      intros a HS. rewrite (parse_tokens_complete HS) in Ep. discriminate.
  - split; [discriminate|]. intros (ts & E & _). discriminate.
Qed.

Theorem ref_parse_sem_error : forall s e, e <> ELex -> e <> ESyntax ->
  (ref_parse s = inl e <-> exists ts a, lex_text s = Some ts /\ Sentence ts a /\ sem a = inl e).
Proof.
  intros s e He1 He2. unfold ref_parse. split.
  - destruct (lex_text s) as [ts|] eqn:El; [|congruence].
    destruct (parse_tokens ts) as [a|] eqn:Ep; [|congruence].
    intros H. exists ts, a. split; [reflexivity|]. split; [|assumption].
    apply parse_tokens_sound; [exact (lex_text_tok_ok _ El)|assumption].
  - intros (ts & a & El & HS & Hs). rewrite El. rewrite (parse_tokens_complete HS). assumption.
Qed.

Theorem ref_parse_errors_typed : forall s e, ref_parse s = inl e ->
  (e = ELex <-> lex_text s = None) /\
  (e = ESyntax <-> exists ts, lex_text s = Some ts /\ forall a, ~ Sentence ts a) /\
  ((e = ESelfLoop \/ e = EDupAttr \/ e = EBadIndex) <->
   exists ts a, lex_text s = Some ts /\ Sentence ts a /\ sem a = inl e).
Proof.
  intros s e H. split; [|split].
  - split.
    + intros ->. apply ref_parse_lex_error. assumption.
    + intros El. apply ref_parse_lex_error in El. congruence.
  - split.
    + intros ->. apply ref_parse_syntax_error. assumption.
    + intros Hs. apply ref_parse_syntax_error in Hs. congruence.
  - split.
    + intros He. apply ref_parse_sem_error; [| |assumption];
      destruct He as [->|[->| ->]]; discriminate.
    + intros (ts & a & _ & _ & Hs). exact (sem_error_kinds _ Hs).
Qed.

(* total function: an outcome is a graph or one of the five error kinds, nothing else *)
Theorem ref_parse_total : forall s,
  (exists g, ref_parse s = inr g) \/
  (exists e, ref_parse s = inl e /\
     (e = ELex \/ e = ESyntax \/ e = ESelfLoop \/ e = EBadIndex \/ e = EDupAttr)).
Proof.
  intros s. destruct (ref_parse s) as [e|g]; [right|left; eauto].
  exists e. split; [reflexivity|]. destruct e; tauto.
Qed.

(* ====================================================================== *)
(* B6.  Side conditions on the generated tables                            *)
(* ====================================================================== *)
Example rest_matches_g4_ok : Grammar.rest_matches_g4 = true := eq_refl.
Example rest_matches_ebnf_ok : Grammar.rest_matches_ebnf = true := eq_refl.
Example with_carbon_g4_ebnf : Grammar.with_carbon_g4 = Grammar.with_carbon_ebnf.
Proof. vm_compute. reflexivity. Qed.
Example without_carbon_g4_ebnf : Grammar.without_carbon_g4 = Grammar.without_carbon_ebnf.
Proof. vm_compute. reflexivity. Qed.

Definition str_mem (s : string) (l : list string) : bool := existsb (String.eqb s) l.
Definition str_set_eqb (l1 l2 : list string) : bool :=
  forallb (fun s => str_mem s l2) l1 && forallb (fun s => str_mem s l1) l2.

(* the symbols of with_carbon are exactly the 118 element symbols; without_carbon lacks only C *)
Example with_carbon_symbols :
  str_set_eqb (map fst Grammar.with_carbon_g4) (map fst Elements.element_table) = true.
Proof. vm_compute. reflexivity. Qed.
Example without_carbon_symbols :
  str_set_eqb ("C"%string :: map fst Grammar.without_carbon_g4) (map fst Elements.element_table) = true
  /\ str_mem "C" (map fst Grammar.without_carbon_g4) = false.
Proof. vm_compute. split; reflexivity. Qed.
Example element_table_length : length Elements.element_table = 118%nat.
Proof. vm_compute. reflexivity. Qed.
(* every symbol of the rules resolved to an atomic number (order_of_rule drops nothing) *)
Example with_carbon_length : length Parse.with_carbon = 118%nat.
Proof. vm_compute. reflexivity. Qed.
Example without_carbon_length : length Parse.without_carbon = 117%nat.
Proof. vm_compute. reflexivity. Qed.
Example with_carbon_g4_length : length Grammar.with_carbon_g4 = 118%nat.
Proof. vm_compute. reflexivity. Qed.
Example without_carbon_g4_length : length Grammar.without_carbon_g4 = 117%nat.
Proof. vm_compute. reflexivity. Qed.
(* only the leading C of with_carbon is mandatory *)
Example with_carbon_optional_flags :
  map snd Parse.with_carbon = false :: repeat true 117 /\ map snd Parse.without_carbon = repeat true 117.
Proof. vm_compute. split; reflexivity. Qed.
(* with_carbon is C H? followed by without_carbon minus H: same elements, same alphabetical order *)
Example with_carbon_tail :
  tl (tl (map fst Parse.with_carbon)) = filter (fun z => negb (N.eqb z 1)) (map fst Parse.without_carbon).
Proof. vm_compute. reflexivity. Qed.

(* ====================================================================== *)
(* B7.  Non-vacuity                                                         *)
(* ====================================================================== *)
Definition graph_view (r : perr + mol unit unit) : option (list (N * N * option Z * option Z * N) * list (N * N)) :=
  match r with
  | inr g => Some (map (fun x => (lbl x, zn x, mass x, rad x, part x)) (atoms g), map (@ends unit) (bonds g))
  | inl _ => None
  end.

Example ex_ethanol :
  graph_view (ref_parse (t "C2H6O/(1-7)(2-7)(3-7)(4-8)(5-8)(6-9)(7-8)(8-9)")) =
  Some ([(0, 1, None, None, 0); (1, 1, None, None, 0); (2, 1, None, None, 0); (3, 1, None, None, 0);
         (4, 1, None, None, 0); (5, 1, None, None, 0); (6, 6, None, None, 0); (7, 6, None, None, 0);
         (8, 8, None, None, 0)]%N,
        [(0, 6); (1, 6); (2, 6); (3, 7); (4, 7); (5, 8); (6, 7); (7, 8)]%N).
Proof. vm_compute. reflexivity. Qed.
Example ex_attrs :
  graph_view (ref_parse (t "CH4/(1-2)/(1:mass=2,rad=3)")) =
  Some ([(0, 1, Some 2%Z, Some 3%Z, 0); (1, 1, None, None, 0); (2, 1, None, None, 0);
         (3, 1, None, None, 0); (4, 6, None, None, 0)]%N, [(0, 1)]%N).
Proof. vm_compute. reflexivity. Qed.
Example ex_dup_bond_is_one_bond :
  graph_view (ref_parse (t "CH4/(2-1)(1-2)")) = graph_view (ref_parse (t "CH4/(1-2)")).
Proof. vm_compute. reflexivity. Qed.
Example ex_count_one : ref_parse (t "C1H4/") = inl ESyntax.
Proof. vm_compute. reflexivity. Qed.
Example ex_self_loop : ref_parse (t "CH4/(1-1)") = inl ESelfLoop.
Proof. vm_compute. reflexivity. Qed.
Example ex_bad_index : ref_parse (t "CH4/(1-9)") = inl EBadIndex.
Proof. vm_compute. reflexivity. Qed.
Example ex_bad_attr_index : ref_parse (t "CH4//(6:mass=2)") = inl EBadIndex.
Proof. vm_compute. reflexivity. Qed.
Example ex_dup_attr : ref_parse (t "CH4//(1:mass=2,mass=3)") = inl EDupAttr.
Proof. vm_compute. reflexivity. Qed.
Example ex_dup_attr_two_blocks : ref_parse (t "CH4//(1:mass=2)(1:mass=2)") = inl EDupAttr.
Proof. vm_compute. reflexivity. Qed.
Example ex_not_hill : ref_parse (t "H2C/") = inl ESyntax.
Proof. vm_compute. reflexivity. Qed.
Example ex_leading_zero : ref_parse (t "C02/") = inl ELex.
Proof. vm_compute. reflexivity. Qed.
Example ex_empty_string : ref_parse (t "") = inl ESyntax.
Proof. vm_compute. reflexivity. Qed.
Example ex_empty_molecule : ref_parse (t "/") = inr (mkMol [] []).
Proof. vm_compute. reflexivity. Qed.

(* the grammar side is inhabited too: a derivation, not a run of the parser *)
Example ex_sentence_slash : Sentence [TSlash] (mkAst [] [] []).
Proof.
  apply (@S_plain [] [] [] []); [|constructor].
  right. apply match_order_OptSeq; [constructor|]. vm_compute. reflexivity.
Qed.

(* ====================================================================== *)
(* B4.  The listener semantics `sem`, declaratively                         *)
(* ====================================================================== *)

(* ---- insertion sort ---- *)
Section IsortFacts.
  Variable A : Type.
  Variable leb : A -> A -> bool.
  Variable R : A -> A -> Prop.
  Hypothesis leb_R : forall x y, leb x y = true -> R x y.
  Hypothesis nleb_R : forall x y, leb x y = false -> R y x.

  Lemma insert_perm : forall x l, Permutation (insert leb x l) (x :: l).
  Proof.
    induction l as [|y t IH]; simpl; [apply Permutation_refl|].
    destruct (leb x y); [apply Permutation_refl|].
    eapply Permutation_trans; [apply perm_skip; exact IH|apply perm_swap].
  Qed.
  Lemma isort_perm : forall l, Permutation (isort leb l) l.
  Proof.
    induction l as [|x t IH]; simpl; [constructor|].
    eapply Permutation_trans; [apply insert_perm|apply perm_skip; exact IH].
  Qed.
  Lemma insert_hdrel : forall a x l, R a x -> HdRel R a l -> HdRel R a (insert leb x l).
  Proof.
    intros a x l Hax Hl. destruct l as [|y t]; simpl; [constructor; assumption|].
    destruct (leb x y); constructor; [assumption|]. inversion Hl; assumption.
  Qed.
  Lemma insert_sorted : forall x l, Sorted R l -> Sorted R (insert leb x l).
  Proof.
    induction l as [|y t IH]; simpl; intros Hs.
    - repeat constructor.
    - destruct (leb x y) eqn:E.
      + constructor; [assumption|]. constructor. apply leb_R; assumption.
      + inversion Hs; subst. constructor; [apply IH; assumption|].
        apply insert_hdrel; [apply nleb_R; assumption|assumption].
  Qed.
  Lemma isort_sorted : forall l, Sorted R (isort leb l).
  Proof. induction l; simpl; [constructor|apply insert_sorted; assumption]. Qed.
End IsortFacts.

Lemma isort_Nleb_sorted : forall l, Sorted N.le (isort Nleb l).
Proof.
  apply isort_sorted; unfold Nleb; intros x y H.
  - apply N.leb_le; assumption.
  - apply N.leb_gt in H. lia.
Qed.
Lemma isort_length : forall A (leb : A -> A -> bool) l, length (isort leb l) = length l.
Proof. intros. apply Permutation_length. apply isort_perm. Qed.

(* ---- enumerate ---- *)
Lemma enumerate_from_fst : forall A (l : list A) i, map fst (enumerate_from i l) = N_seq i (length l).
Proof. induction l as [|x t IH]; intros i; simpl; [reflexivity|]. rewrite IH. reflexivity. Qed.
Lemma enumerate_from_snd : forall A (l : list A) i, map snd (enumerate_from i l) = l.
Proof. induction l as [|x t IH]; intros i; simpl; [reflexivity|]. rewrite IH. reflexivity. Qed.

(* ---- booleans over lists ---- *)
Lemma existsb_false : forall A (f : A -> bool) l,
  existsb f l = false <-> forall x, In x l -> f x = false.
Proof.
  induction l as [|y t IH]; simpl.
  - split; [intros _ x []|reflexivity].
  - rewrite orb_false_iff, IH. split.
    + intros [H1 H2] x [<-|Hin]; auto.
    + intros H. split; [apply H; left; reflexivity|intros x Hin; apply H; right; assumption].
Qed.

Lemma key_eqb_eq : forall a b, key_eqb a b = true <-> a = b.
Proof. intros [] []; simpl; split; congruence. Qed.

(* (index, key) of an attribute assignment *)
Definition ikey (q : Z * (key * Z)) : Z * key := (fst q, fst (snd q)).

Lemma ikey_existsb : forall i k r,
  existsb (fun q : Z * (key * Z) => Z.eqb (fst q) i && key_eqb (fst (snd q)) k) r = true
  <-> In (i, k) (map ikey r).
Proof.
  intros i k r. rewrite existsb_exists, in_map_iff. split.
  - intros (q & Hin & E). apply andb_true_iff in E. destruct E as [E1 E2].
    apply Z.eqb_eq in E1. apply key_eqb_eq in E2. exists q. split; [|assumption].
    unfold ikey. congruence.
  - intros (q & E & Hin). exists q. split; [assumption|]. unfold ikey in E. inversion E.
    rewrite Z.eqb_refl. simpl. apply key_eqb_eq. reflexivity.
Qed.

Lemma has_dup_NoDup : forall l, has_dup l = false <-> NoDup (map ikey l).
Proof.
  induction l as [|[i [k w]] r IH]; simpl.
  - split; [constructor|reflexivity].
  - rewrite orb_false_iff, IH. split.
    + intros [H1 H2]. constructor; [|assumption]. unfold ikey at 1; simpl.
      intros Hin. apply ikey_existsb in Hin. congruence.
    + intros H. inversion H as [|? ? Hnin ND]; subst. split; [|assumption].
      destruct (existsb _ r) eqn:E; [|reflexivity].
      apply ikey_existsb in E. contradiction.
Qed.

Lemma find_prop_In : forall l i k v, NoDup (map ikey l) ->
  (find_prop l i k = Some v <-> In (i, (k, v)) l).
Proof.
  induction l as [|[j [k' w]] r IH]; intros i k v ND; simpl.
  - split; [discriminate|tauto].
  - inversion ND as [|? ? Hnin ND']; subst. unfold ikey in Hnin at 1; simpl in Hnin.
    destruct (Z.eqb j i && key_eqb k' k) eqn:E.
    + apply andb_true_iff in E. destruct E as [E1 E2].
      apply Z.eqb_eq in E1. apply key_eqb_eq in E2. subst j k'. split.
      * intros H; inversion H; left; reflexivity.
      * intros [H|H]; [inversion H; reflexivity|].
        exfalso. apply Hnin. apply in_map_iff. exists (i, (k, v)). split; [reflexivity|assumption].
    + rewrite (IH i k v ND'). split; [tauto|].
      intros [H|H]; [|assumption]. inversion H; subst.
      rewrite Z.eqb_refl in E. simpl in E.
      assert (key_eqb k k = true) by (apply key_eqb_eq; reflexivity). congruence.
Qed.

Lemma find_prop_None : forall l i k, find_prop l i k = None <-> ~ In (i, k) (map ikey l).
Proof.
  induction l as [|[j [k' w]] r IH]; intros i k; simpl.
  - tauto.
  - destruct (Z.eqb j i && key_eqb k' k) eqn:E.
    + apply andb_true_iff in E. destruct E as [E1 E2].
      apply Z.eqb_eq in E1. apply key_eqb_eq in E2. subst. unfold ikey at 1; simpl.
      split; [discriminate|]. intros H; exfalso; apply H; left; reflexivity.
    + rewrite IH. unfold ikey at 1; simpl. split; [|tauto].
      intros H [H'|H']; [|tauto]. inversion H'; subst.
      rewrite Z.eqb_refl in E. simpl in E.
      assert (key_eqb k k = true) by (apply key_eqb_eq; reflexivity). congruence.
Qed.

Lemma flat_props_In : forall bs i k v,
  In (i, (k, v)) (flat_props bs) <-> exists ps, In (i, ps) bs /\ In (k, v) ps.
Proof.
  intros bs i k v. unfold flat_props. rewrite in_flat_map. split.
  - intros ([j ps] & Hin & H). simpl in H. apply in_map_iff in H. destruct H as (p & E & Hp).
    inversion E; subst. exists ps. split; assumption.
  - intros (ps & Hin & Hp). exists (i, ps). split; [assumption|]. simpl.
    apply in_map_iff. exists (k, v). split; [reflexivity|assumption].
Qed.

(* ---- bond set ---- *)
Lemma pair_existsb : forall (e : N * N) acc,
  existsb (fun e' => N.eqb (fst e') (fst e) && N.eqb (snd e') (snd e)) acc = true <-> In e acc.
Proof.
  intros [u v] acc. rewrite existsb_exists. simpl. split.
  - intros ([u' v'] & Hin & E). simpl in E. apply andb_true_iff in E. destruct E as [E1 E2].
    apply N.eqb_eq in E1. apply N.eqb_eq in E2. subst. assumption.
  - intros Hin. exists (u, v). split; [assumption|]. simpl. rewrite !N.eqb_refl. reflexivity.
Qed.

Lemma dedup_pairs_In : forall l e, In e (dedup_pairs l) <-> In e l.
Proof.
  induction l as [|x t IH]; intros e; simpl; [tauto|].
  fold (dedup_pairs t).
  destruct (existsb _ (dedup_pairs t)) eqn:E.
  - apply pair_existsb in E. rewrite IH. split; [tauto|].
    intros [<-|H]; [apply IH; assumption|assumption].
  - simpl. rewrite IH. tauto.
Qed.

Lemma dedup_pairs_NoDup : forall l, NoDup (dedup_pairs l).
Proof.
  induction l as [|x t IH]; simpl; [constructor|].
  fold (dedup_pairs t).
  destruct (existsb _ (dedup_pairs t)) eqn:E; [assumption|].
  constructor; [|assumption]. intros Hin. apply pair_existsb in Hin. congruence.
Qed.

Lemma norm_pair_spec : forall x y u v,
  norm_pair (x, y) = (u, v) <-> (u <= v)%N /\ ((x, y) = (u, v) \/ (y, x) = (u, v)).
Proof.
  intros x y u v. unfold norm_pair. simpl. destruct (N.leb x y) eqn:E.
  - apply N.leb_le in E. split.
    + intros H; inversion H; subst. split; [assumption|left; reflexivity].
    + intros [Hle [H|H]]; inversion H; subst; [reflexivity|].
      assert (u = v) by lia. subst; reflexivity.
  - apply N.leb_gt in E. split.
    + intros H; inversion H; subst. split; [lia|right; reflexivity].
    + intros [Hle [H|H]]; inversion H; subst; [lia|reflexivity].
Qed.

(* ---- the conditions of `sem`, named ---- *)
Definition n_atoms (a : ast) : Z := Z.of_nat (length (expand (items a))).

Definition NoSelfLoop (a : ast) : Prop := forall u v, In (u, v) (tuples a) -> u <> v.
Definition NoDupAttr (a : ast) : Prop := NoDup (map ikey (flat_props (blocks a))).
Definition IndicesExist (a : ast) : Prop :=
  (forall u v, In (u, v) (tuples a) -> (u <= n_atoms a)%Z /\ (v <= n_atoms a)%Z) /\
  (forall i ps, In (i, ps) (blocks a) -> (i <= n_atoms a)%Z).

Definition c_loop (a : ast) : bool := existsb (fun e => Z.eqb (fst e) (snd e)) (tuples a).
Definition c_dup (a : ast) : bool := has_dup (flat_props (blocks a)).
Definition c_bad_bond (a : ast) : bool :=
  existsb (fun e => Z.ltb (n_atoms a) (fst e) || Z.ltb (n_atoms a) (snd e)) (tuples a).
Definition c_bad_attr (a : ast) : bool :=
  existsb (fun b : Z * list (key * Z) => Z.ltb (n_atoms a) (fst b)) (blocks a).
Definition sem_mol (a : ast) : mol unit unit :=
  let props := flat_props (blocks a) in
  mkMol (map (fun p => mkAtom (fst p) (snd p)
                              (find_prop props (Z.of_N (fst p) + 1) KMass)
                              (find_prop props (Z.of_N (fst p) + 1) KRad) 0%N tt)
             (enumerate_from 0 (isort Nleb (expand (items a)))))
        (map (fun e => (fst e, snd e, tt))
             (dedup_pairs (map (fun e => norm_pair (Z.to_N (fst e - 1), Z.to_N (snd e - 1))) (tuples a)))).

Lemma sem_eq : forall a, sem a =
  if c_loop a then inl ESelfLoop else if c_dup a then inl EDupAttr
  else if c_bad_bond a then inl EBadIndex else if c_bad_attr a then inl EBadIndex
  else inr (sem_mol a).
Proof.
  intros a. unfold sem, c_loop, c_dup, c_bad_bond, c_bad_attr, sem_mol, n_atoms.
  rewrite isort_length. reflexivity.
Qed.

Lemma c_loop_spec : forall a, c_loop a = false <-> NoSelfLoop a.
Proof.
  intros a. unfold c_loop, NoSelfLoop. rewrite existsb_false. split.
  - intros H u v Hin. specialize (H _ Hin). simpl in H. apply Z.eqb_neq in H. assumption.
  - intros H [u v] Hin. simpl. apply Z.eqb_neq. apply H. assumption.
Qed.
Lemma c_dup_spec : forall a, c_dup a = false <-> NoDupAttr a.
Proof. intros a. apply has_dup_NoDup. Qed.
Lemma c_bad_spec : forall a, c_bad_bond a = false /\ c_bad_attr a = false <-> IndicesExist a.
Proof.
  intros a. unfold c_bad_bond, c_bad_attr, IndicesExist. rewrite !existsb_false. split.
  - intros [H1 H2]. split.
    + intros u v Hin. specialize (H1 _ Hin). simpl in H1. apply orb_false_iff in H1.
      destruct H1 as [Hu Hv]. apply Z.ltb_ge in Hu. apply Z.ltb_ge in Hv. split; assumption.
    + intros i ps Hin. specialize (H2 _ Hin). simpl in H2. apply Z.ltb_ge in H2. assumption.
  - intros [H1 H2]. split.
    + intros [u v] Hin. simpl. destruct (H1 _ _ Hin) as [Hu Hv].
      apply orb_false_iff. split; apply Z.ltb_ge; assumption.
    + intros [i ps] Hin. simpl. apply Z.ltb_ge. exact (H2 _ _ Hin).
Qed.

Lemma bool_false_iff_neg : forall (b : bool) (P : Prop), (b = false <-> P) -> (b = true <-> ~ P).
Proof. intros [] P H; split; intros H'; try discriminate; try reflexivity; intuition discriminate. Qed.

(* acceptance *)
Theorem sem_accepts_iff : forall a,
  (exists g, sem a = inr g) <-> NoSelfLoop a /\ NoDupAttr a /\ IndicesExist a.
Proof.
  intros a. rewrite sem_eq, <- c_loop_spec, <- c_dup_spec, <- c_bad_spec.
  destruct (c_loop a), (c_dup a), (c_bad_bond a), (c_bad_attr a); split;
    try (intros (g & H); discriminate); try (intros; eexists; reflexivity);
    try tauto; intuition discriminate.
Qed.

Theorem sem_accepts_value : forall a g, sem a = inr g -> g = sem_mol a.
Proof.
  intros a g. rewrite sem_eq.
  destruct (c_loop a), (c_dup a), (c_bad_bond a), (c_bad_attr a); intros H; inversion H; reflexivity.
Qed.

(* rejection: which error, with the listener's priorities
   (self-loop and duplicate attribute are raised while walking the tree, index
   validation happens afterwards in to_graph) *)
Theorem sem_errors_iff : forall a,
  (sem a = inl ESelfLoop <-> ~ NoSelfLoop a) /\
  (sem a = inl EDupAttr <-> NoSelfLoop a /\ ~ NoDupAttr a) /\
  (sem a = inl EBadIndex <-> NoSelfLoop a /\ NoDupAttr a /\ ~ IndicesExist a) /\
  sem a <> inl ELex /\ sem a <> inl ESyntax.
Proof.
  intros a. rewrite sem_eq, <- c_loop_spec, <- c_dup_spec, <- c_bad_spec.
  destruct (c_loop a), (c_dup a), (c_bad_bond a), (c_bad_attr a);
    repeat split; try discriminate; try reflexivity; try tauto; intuition discriminate.
Qed.

(* the graph of an accepted ast *)
Theorem sem_graph_spec : forall a g, sem a = inr g ->
  let props := flat_props (blocks a) in
  (* atoms: exactly those of the formula, numbered 0.. by non-decreasing atomic number *)
  labels g = N_seq 0 (length (expand (items a))) /\
  map (@zn unit) (atoms g) = isort Nleb (expand (items a)) /\
  Sorted N.le (map (@zn unit) (atoms g)) /\
  Permutation (map (@zn unit) (atoms g)) (expand (items a)) /\
  (* attributes: exactly the listed ones, on the indexed atoms (index = label + 1) *)
  (forall x, In x (atoms g) ->
     part x = 0%N /\
     mass x = find_prop props (Z.of_N (lbl x) + 1) KMass /\
     rad x = find_prop props (Z.of_N (lbl x) + 1) KRad /\
     (forall v, mass x = Some v <-> In (Z.of_N (lbl x) + 1, (KMass, v))%Z props) /\
     (forall v, rad x = Some v <-> In (Z.of_N (lbl x) + 1, (KRad, v))%Z props)) /\
  (* bonds: exactly the listed tuples, as a set of unordered pairs, shifted to 0-based *)
  (forall u v, In (u, v, tt) (bonds g) <->
     (u <= v)%N /\ exists x y, (In (x, y) (tuples a) \/ In (y, x) (tuples a)) /\
                               u = Z.to_N (x - 1) /\ v = Z.to_N (y - 1)) /\
  NoDup (map (@ends unit) (bonds g)).
Proof.
  intros a g H props.
  assert (ND : NoDupAttr a).
  { assert (Hex : exists g, sem a = inr g) by eauto. apply sem_accepts_iff in Hex. tauto. }
  apply sem_accepts_value in H. subst g. unfold sem_mol, labels. cbn [atoms bonds].
  repeat split.
  - rewrite map_map. cbn [lbl]. rewrite <- (map_map fst (fun x => x)), map_id.
    rewrite enumerate_from_fst, isort_length. reflexivity.
  - rewrite map_map. cbn [zn]. apply enumerate_from_snd.
  - rewrite map_map. cbn [zn]. rewrite enumerate_from_snd. apply isort_Nleb_sorted.
  - rewrite map_map. cbn [zn]. rewrite enumerate_from_snd. apply isort_perm.
  - apply in_map_iff in H. destruct H as (p & <- & _). reflexivity.
  - apply in_map_iff in H. destruct H as (p & <- & _). reflexivity.
  - apply in_map_iff in H. destruct H as (p & <- & _). reflexivity.
  - apply in_map_iff in H. destruct H as (p & <- & _). cbn [mass lbl].
    apply find_prop_In. exact ND.
  - apply in_map_iff in H. destruct H as (p & <- & _). cbn [mass lbl].
    apply find_prop_In. exact ND.
  - apply in_map_iff in H. destruct H as (p & <- & _). cbn [rad lbl].
    apply find_prop_In. exact ND.
  - apply in_map_iff in H. destruct H as (p & <- & _). cbn [rad lbl].
    apply find_prop_In. exact ND.
  - apply in_map_iff in H. destruct H as ([u' v'] & E & Hin). simpl in E. inversion E; subst u' v'.
    apply (proj1 (dedup_pairs_In _ _)) in Hin. apply in_map_iff in Hin. destruct Hin as ([x y] & E' & _).
    simpl in E'. apply norm_pair_spec in E'. tauto.
  - apply in_map_iff in H. destruct H as ([u' v'] & E & Hin). simpl in E. inversion E; subst u' v'.
    apply (proj1 (dedup_pairs_In _ _)) in Hin. apply in_map_iff in Hin. destruct Hin as ([x y] & E' & Hxy).
    simpl in E'. apply norm_pair_spec in E'. destruct E' as [_ [E'|E']]; inversion E'.
    + exists x, y. auto.
    + exists y, x. auto.
  - intros (Hle & x & y & Hin & -> & ->).
    apply in_map_iff. exists (Z.to_N (x - 1), Z.to_N (y - 1)). split; [reflexivity|].
    apply dedup_pairs_In. apply in_map_iff. destruct Hin as [Hin|Hin].
    + exists (x, y). split; [|assumption]. simpl. apply norm_pair_spec. auto.
    + exists (y, x). split; [|assumption]. simpl. apply norm_pair_spec. auto.
  - rewrite map_map. unfold ends. cbn [fst snd].
    rewrite (map_ext _ (fun x => x)) by (intros []; reflexivity). rewrite map_id.
    apply dedup_pairs_NoDup.
Qed.

(* ---- what the grammar guarantees about the numbers of a sentence ---- *)
Record ast_wf (a : ast) : Prop := {
  wf_counts : forall z c, In (z, c) (items a) -> (1 <= c)%Z;
  wf_tuples : forall u v, In (u, v) (tuples a) -> (1 <= u)%Z /\ (1 <= v)%Z;
  wf_blocks : forall i ps, In (i, ps) (blocks a) ->
                (1 <= i)%Z /\ ps <> [] /\ forall k v, In (k, v) ps -> (1 <= v)%Z }.

Lemma Items_counts : forall ts it, Items ts it -> forall z c, In (z, c) it -> (1 <= c)%Z.
Proof.
  induction 1; intros z' c' Hin; simpl in Hin.
  - destruct Hin.
  - destruct Hin as [E|Hin]; [inversion E; lia|eauto].
  - destruct Hin as [E|Hin]; [inversion E; subst; unfold Count in H; lia|eauto].
Qed.
Lemma Tuples_indices : forall tt tu, Tuples tt tu ->
  forall u v, In (u, v) tu -> (1 <= u)%Z /\ (1 <= v)%Z.
Proof.
  induction 1; intros u v Hin; simpl in Hin; [destruct Hin|].
  destruct Hin as [E|Hin]; [|eauto]. subst e. inversion H; subst. split; assumption.
Qed.
Lemma NodeProperty_value : forall t1 k v, NodeProperty t1 (k, v) -> (1 <= v)%Z.
Proof. intros t1 k v H; inversion H; assumption. Qed.
Lemma NodeProperties_values : forall tps ps, NodeProperties tps ps ->
  ps <> [] /\ forall k v, In (k, v) ps -> (1 <= v)%Z.
Proof.
  induction 1; (split; [discriminate|]); intros k v Hin; simpl in Hin.
  - destruct Hin as [E|[]]. subst p. exact (NodeProperty_value H).
  - destruct Hin as [E|Hin]; [subst p; exact (NodeProperty_value H)|].
    destruct IHNodeProperties as [_ IH]. eauto.
Qed.
Lemma NodeAttributes_indices : forall ta bs, NodeAttributes ta bs ->
  forall i ps, In (i, ps) bs -> (1 <= i)%Z /\ ps <> [] /\ forall k v, In (k, v) ps -> (1 <= v)%Z.
Proof.
  induction 1; intros i ps Hin; simpl in Hin; [destruct Hin|].
  destruct Hin as [E|Hin]; [|eauto]. subst b. inversion H; subst.
  split; [assumption|]. exact (NodeProperties_values H5).
Qed.

Theorem Sentence_wf : forall ts a, Sentence ts a -> ast_wf a.
Proof.
  intros ts a H; inversion H; subst; constructor; cbn [items tuples blocks].
  - exact (Items_counts (Formula_Items H0)).
  - exact (Tuples_indices H1).
  - intros i ps [].
  - exact (Items_counts (Formula_Items H0)).
  - exact (Tuples_indices H1).
  - exact (NodeAttributes_indices H2).
Qed.

(* number of atoms = sum of the counts *)
Definition count_sum (it : list (N * Z)) : Z := fold_right (fun p s => (snd p + s)%Z) 0%Z it.
Lemma expand_length : forall it, (forall z c, In (z, c) it -> (0 <= c)%Z) ->
  Z.of_nat (length (expand it)) = count_sum it.
Proof.
  induction it as [|[z c] it IH]; intros Hc; [reflexivity|].
  unfold expand in *. cbn [flat_map count_sum fold_right fst snd].
  rewrite app_length, repeat_length, Nat2Z.inj_add, IH.
  - rewrite Z2Nat.id; [reflexivity|]. apply (Hc z). left; reflexivity.
  - intros z' c' Hin. apply (Hc z'). right; assumption.
Qed.
Corollary Sentence_n_atoms : forall ts a, Sentence ts a -> n_atoms a = count_sum (items a).
Proof.
  intros ts a H. apply expand_length. intros z c Hin.
  pose proof (wf_counts (Sentence_wf H) _ _ Hin). lia.
Qed.

(* C10, acceptance side, in one statement *)
Theorem ref_parse_accepts_iff : forall s g,
  ref_parse s = inr g <->
  exists ts a, lex_text s = Some ts /\ Sentence ts a /\
               NoSelfLoop a /\ NoDupAttr a /\ IndicesExist a /\ g = sem_mol a.
Proof.
  intros s g. rewrite ref_parse_sound_complete. split.
  - intros (ts & a & El & HS & Hs). exists ts, a. split; [assumption|]. split; [assumption|].
    assert (Hex : exists g, sem a = inr g) by eauto. apply sem_accepts_iff in Hex.
    destruct Hex as (H1 & H2 & H3).
    split; [assumption|]. split; [assumption|]. split; [assumption|].
    exact (sem_accepts_value _ Hs).
  - intros (ts & a & El & HS & H1 & H2 & H3 & ->). exists ts, a. split; [assumption|]. split; [assumption|].
    assert (Hex : exists g, sem a = inr g) by (apply sem_accepts_iff; tauto).
    destruct Hex as (g & Hg). rewrite Hg. f_equal. exact (sem_accepts_value _ Hg).
Qed.

(* ====================================================================== *)
(* B5.  The tokens spell exactly the input                                  *)
(* ====================================================================== *)

(* ---- characters ---- *)
Lemma N_of_ascii_inj : forall a b, N_of_ascii a = N_of_ascii b -> a = b.
Proof. intros a b H. rewrite <- (ascii_N_embedding a), <- (ascii_N_embedding b), H. reflexivity. Qed.
Lemma ascii_eqb_eq : forall a b, ascii_eqb a b = true -> a = b.
Proof. intros a b H. apply N_of_ascii_inj. apply N.eqb_eq. exact H. Qed.
Lemma text_eqb_eq : forall a b, text_eqb a b = true -> a = b.
Proof.
  induction a as [|x a IH]; intros [|y b] H; simpl in H; try discriminate; [reflexivity|].
  apply andb_true_iff in H. destruct H as [H1 H2].
  rewrite (ascii_eqb_eq _ _ H1), (IH _ H2). reflexivity.
Qed.
Lemma strip_prefix_app : forall p l rest, strip_prefix p l = Some rest -> l = p ++ rest.
Proof.
  induction p as [|a p IH]; intros l rest H; simpl in H.
  - inversion H; reflexivity.
  - destruct l as [|b l]; [discriminate|].
    destruct (ascii_eqb a b) eqn:E; [|discriminate].
    rewrite (ascii_eqb_eq _ _ E), (IH _ _ H). reflexivity.
Qed.

(* ---- element symbols ---- *)
Lemma assoc_symbol_of : forall (l : list (text * N)) s z,
  NoDup (map snd l) -> assoc_text l s = Some z -> symbol_of_in l z = Some s.
Proof.
  induction l as [|[k v] r IH]; intros s z ND H; simpl in *; [discriminate|].
  inversion ND as [|? ? Hnin ND']; subst.
  destruct (text_eqb k s) eqn:E.
  - inversion H; subst. rewrite N.eqb_refl. rewrite (text_eqb_eq _ _ E). reflexivity.
  - destruct (N.eqb v z) eqn:Ez.
    + apply N.eqb_eq in Ez; subst v. exfalso. apply Hnin.
      clear -H. induction r as [|[k' v'] r IH]; simpl in *; [discriminate|].
      destruct (text_eqb k' s); [inversion H; left; reflexivity|right; auto].
    + apply IH; assumption.
Qed.

Lemma elem_table_numbers_nodup : NoDup (map snd elem_table).
Proof. apply nodupN_sound. vm_compute. reflexivity. Qed.

Lemma z_of_symbol_symbol_of : forall s z, z_of_symbol s = Some z -> symbol_of z = Some s.
Proof. intros s z. apply assoc_symbol_of. exact elem_table_numbers_nodup. Qed.

(* ---- decimal numerals ---- *)
Definition dcons (k : N) (d : Decimal.uint) : Decimal.uint :=
  match k with
  | 0 => Decimal.D0 d | 1 => Decimal.D1 d | 2 => Decimal.D2 d | 3 => Decimal.D3 d | 4 => Decimal.D4 d
  | 5 => Decimal.D5 d | 6 => Decimal.D6 d | 7 => Decimal.D7 d | 8 => Decimal.D8 d | _ => Decimal.D9 d
  end%N.
Fixpoint uint_of_digits (l : text) : Decimal.uint :=
  match l with [] => Decimal.Nil | c :: r => dcons (digit_val c) (uint_of_digits r) end.

Lemma le9_cases : forall k : N, (k <= 9)%N ->
  k = 0%N \/ k = 1%N \/ k = 2%N \/ k = 3%N \/ k = 4%N \/ k = 5%N \/ k = 6%N \/ k = 7%N \/ k = 8%N \/ k = 9%N.
Proof. intros k H. lia. Qed.

Lemma dcons_string : forall k d, (k <= 9)%N ->
  list_ascii_of_string (DecimalString.NilEmpty.string_of_uint (dcons k d)) =
  ascii_of_N (48 + k) :: list_ascii_of_string (DecimalString.NilEmpty.string_of_uint d).
Proof.
  intros k d H. destruct (le9_cases H) as [->|[->|[->|[->|[->|[->|[->|[->|[->| ->]]]]]]]]]; reflexivity.
Qed.

Lemma dcons_acc : forall k d acc, (k <= 9)%N ->
  exists acc', Pos.of_uint_acc (dcons k d) acc = Pos.of_uint_acc d acc' /\
               N.pos acc' = (10 * N.pos acc + k)%N.
Proof.
  intros k d acc H.
  destruct (le9_cases H) as [->|[->|[->|[->|[->|[->|[->|[->|[->| ->]]]]]]]]];
    cbn [dcons Pos.of_uint_acc]; eexists; (split; [reflexivity|]); lia.
Qed.

Lemma is_digit_val : forall c, is_digit c = true ->
  (digit_val c <= 9)%N /\ c = ascii_of_N (48 + digit_val c).
Proof.
  intros c H. unfold is_digit in H. apply andb_true_iff in H. destruct H as [H1 H2].
  apply N.leb_le in H1. apply N.leb_le in H2. unfold digit_val. split; [lia|].
  replace (48 + (N_of_ascii c - 48))%N with (N_of_ascii c) by lia.
  symmetry. apply ascii_N_embedding.
Qed.

Lemma uint_of_digits_string : forall l, forallb is_digit l = true ->
  list_ascii_of_string (DecimalString.NilEmpty.string_of_uint (uint_of_digits l)) = l.
Proof.
  induction l as [|c r IH]; intros H; [reflexivity|].
  cbn [forallb] in H. apply andb_true_iff in H. destruct H as [Hc Hr].
  destruct (is_digit_val _ Hc) as [Hk Ec].
  cbn [uint_of_digits]. rewrite dcons_string by assumption. rewrite IH by assumption.
  rewrite <- Ec. reflexivity.
Qed.

Lemma uint_of_digits_acc : forall l acc, forallb is_digit l = true ->
  N.pos (Pos.of_uint_acc (uint_of_digits l) acc) = digits_val (N.pos acc) l.
Proof.
  induction l as [|c r IH]; intros acc H; [reflexivity|].
  cbn [forallb] in H. apply andb_true_iff in H. destruct H as [Hc Hr].
  destruct (is_digit_val _ Hc) as [Hk _].
  cbn [uint_of_digits digits_val].
  destruct (dcons_acc (uint_of_digits r) acc Hk) as (acc' & -> & E).
  rewrite IH by assumption. rewrite E. reflexivity.
Qed.

(* first digit not 0 *)
Lemma uint_of_digits_value : forall c d,
  is_digit c = true -> N.eqb (N_of_ascii c) 48 = false -> forallb is_digit d = true ->
  N.of_uint (uint_of_digits (c :: d)) = digits_val 0 (c :: d) /\
  Decimal.unorm (uint_of_digits (c :: d)) = uint_of_digits (c :: d) /\
  uint_of_digits (c :: d) <> Decimal.Nil.
Proof.
  intros c d Hc H0 Hd.
  destruct (is_digit_val _ Hc) as [Hk _].
  assert (Hnz : digit_val c <> 0%N).
  { unfold digit_val. unfold is_digit in Hc. apply andb_true_iff in Hc. destruct Hc as [H1 _].
    apply N.leb_le in H1. apply N.eqb_neq in H0. lia. }
  change (digits_val 0 (c :: d)) with (digits_val (digit_val c) d).
  cbn [uint_of_digits]. unfold N.of_uint.
  destruct (le9_cases Hk) as [E|[E|[E|[E|[E|[E|[E|[E|[E|E]]]]]]]]]; [contradiction|..];
    rewrite E; cbn [dcons Pos.of_uint Decimal.unorm];
    (split; [apply uint_of_digits_acc; assumption|split; [reflexivity|discriminate]]).
Qed.

Lemma text_of_Z_of_N : forall n, text_of_Z (Z.of_N n) = text_of_N n.
Proof. intros [|p]; reflexivity. Qed.

(* the decimal round trip: str(int(ds)) = ds for a numeral without leading zero *)
Lemma decimal_round_trip : forall c d,
  is_digit c = true -> N.eqb (N_of_ascii c) 48 = false -> forallb is_digit d = true ->
  text_of_Z (Z.of_N (digits_val 0 (c :: d))) = c :: d.
Proof.
  intros c d Hc H0 Hd.
  destruct (uint_of_digits_value c d Hc H0 Hd) as (Ev & En & Hnil).
  rewrite text_of_Z_of_N. unfold text_of_N. rewrite <- Ev.
  rewrite DecimalN.Unsigned.to_of, En.
  unfold t. replace (DecimalString.NilZero.string_of_uint (uint_of_digits (c :: d)))
    with (DecimalString.NilEmpty.string_of_uint (uint_of_digits (c :: d))).
  - apply uint_of_digits_string. cbn [forallb]. rewrite Hc, Hd. reflexivity.
  - destruct (uint_of_digits (c :: d)); [contradiction|reflexivity..].
Qed.

Lemma span_digits_spec : forall l d rest, span_digits l = (d, rest) ->
  l = d ++ rest /\ forallb is_digit d = true.
Proof.
  induction l as [|c r IH]; intros d rest H; simpl in H.
  - inversion H; subst. split; reflexivity.
  - destruct (is_digit c) eqn:E.
    + destruct (span_digits r) as [d0 rest0] eqn:Es. inversion H; subst.
      destruct (IH _ _ eq_refl) as [-> Hd]. split; [reflexivity|].
      cbn [forallb]. rewrite E, Hd. reflexivity.
    + inversion H; subst. split; reflexivity.
Qed.

Lemma punct_print : forall c k, punct c = Some k -> [c] = print_token k.
Proof.
  intros c k. unfold punct.
  repeat match goal with
         | |- context [if N.eqb ?x ?y then _ else _] =>
           let E := fresh "E" in destruct (N.eqb x y) eqn:E;
           [apply N.eqb_eq in E; intros H; inversion H; subst;
            rewrite <- (ascii_N_embedding c), E; reflexivity|]
         end.
  discriminate.
Qed.

Lemma print_sym : forall s z, z_of_symbol s = Some z -> print_token (TSym z) = s.
Proof. intros s z H. simpl. rewrite (z_of_symbol_symbol_of _ H). reflexivity. Qed.

Lemma lex1_print : forall l k rest, lex1 l = Some (k, rest) -> l = print_token k ++ rest.
Proof.
  intros l k rest H. unfold lex1 in H. destruct l as [|c r]; [discriminate|].
  destruct (is_digit c) eqn:Ed.
  - destruct (N.eqb (N_of_ascii c) 48) eqn:E0; [discriminate|].
    destruct (span_digits r) as [d rest0] eqn:Es. inversion H; subst.
    destruct (span_digits_spec _ Es) as [-> Hd].
    cbn [print_token].
    change (c :: d ++ rest = text_of_Z (Z.of_N (digits_val 0 (c :: d))) ++ rest).
    rewrite (decimal_round_trip c d Ed E0 Hd). reflexivity.
  - destruct (is_upper c).
    + destruct r as [|c2 r2].
      * destruct (z_of_symbol [c]) as [z|] eqn:Ez; [|discriminate]. inversion H; subst.
        rewrite (print_sym _ Ez). reflexivity.
      * destruct (if is_lower c2 then z_of_symbol [c; c2] else None) as [z|] eqn:E2.
        -- inversion H; subst. destruct (is_lower c2); [|discriminate].
           rewrite (print_sym _ E2). reflexivity.
        -- destruct (z_of_symbol [c]) as [z|] eqn:Ez; [|discriminate]. inversion H; subst.
           rewrite (print_sym _ Ez). reflexivity.
    + destruct (punct c) as [k0|] eqn:Ep.
      * inversion H; subst. rewrite <- (punct_print _ Ep). reflexivity.
      * destruct (strip_prefix (t "mass") (c :: r)) as [rest0|] eqn:Em.
        -- inversion H; subst. exact (strip_prefix_app _ _ Em).
        -- destruct (strip_prefix (t "rad") (c :: r)) as [rest0|] eqn:Er; [|discriminate].
           inversion H; subst. exact (strip_prefix_app _ _ Er).
Qed.

Lemma lex_fuel_print : forall fuel l ts, lex_fuel fuel l = Some ts -> print_tokens ts = l.
Proof.
  induction fuel as [|f IH]; intros l ts H.
  - destruct l; simpl in H; [inversion H; reflexivity|discriminate].
  - destruct l as [|c r]; [simpl in H; inversion H; reflexivity|].
    cbn [lex_fuel] in H.
    destruct (lex1 (c :: r)) as [[k rest]|] eqn:E1; [|discriminate].
    destruct (lex_fuel f rest) as [ks|] eqn:E2; [|discriminate].
    inversion H; subst. unfold print_tokens. cbn [flat_map].
    fold (print_tokens ks). rewrite (IH _ _ E2). symmetry. exact (lex1_print _ E1).
Qed.

Theorem lex_text_print : forall s ts, lex_text s = Some ts -> print_tokens ts = s.
Proof. intros s ts. apply lex_fuel_print. Qed.

(* hence lexing is injective: two accepted strings with the same tokens are the same string *)
Corollary lex_text_inj : forall s s' ts, lex_text s = Some ts -> lex_text s' = Some ts -> s = s'.
Proof. intros s s' ts H H'. rewrite <- (lex_text_print _ H), <- (lex_text_print _ H'). reflexivity. Qed.

(* why parse_tokens_sound carries `Forall tok_ok ts`: parse_tokens does not re-check that
   indices and values are >= 1 (the lexer cannot produce anything else), so on the larger
   type of raw token lists it accepts a list that is no sentence.  Not a defect of the
   reader on strings: `lex_text_tok_ok` rules the case out. *)
Example ex_tok_ok_needed :
  parse_tokens [TSlash; TLp; TNum 0; TDash; TNum 5; TRp] = Some (mkAst [] [(0, 5)%Z] []) /\
  forall a, ~ Sentence [TSlash; TLp; TNum 0; TDash; TNum 5; TRp] a.
Proof.
  split; [vm_compute; reflexivity|].
  intros a HS. pose proof (parse_tokens_complete HS) as E. vm_compute in E. inversion E; subst a.
  destruct (wf_tuples (Sentence_wf HS) 0%Z 5%Z) as [H _]; [left; reflexivity|]. lia.
Qed.
