(* PartitionProofs.v -- the partition classes do not depend on how the molecule is numbered or
   listed (property C13, first part; the induction that C04 and C01 build on). *)
From Coq Require Import List NArith ZArith Bool Lia Permutation.
Require Import Base Mol Partition SortProofs MolProofs.
Import ListNotations.

Lemma rank_perm {K} (kleb : K -> K -> bool) :
  (forall x y, kleb x y = true \/ kleb y x = true) ->
  (forall x y z, kleb x y = true -> kleb y z = true -> kleb x z = true) ->
  (forall x y, kleb x y = true -> kleb y x = true -> x = y) ->
  forall ks ks' k, Permutation ks ks' -> rank kleb ks k = rank kleb ks' k.
Proof.
  intros Ht Htr Ha ks ks' k HP. unfold rank.
  rewrite (isort_perm_invariant _ kleb Ht Htr Ha ks ks' HP). reflexivity.
Qed.

Lemma maxN_list_perm l l' : Permutation l l' -> maxN_list l = maxN_list l'.
Proof.
  induction 1 as [|x l l' HP IH|x y l|l l' l'' HP1 IH1 HP2 IH2]; simpl.
  - reflexivity.
  - rewrite IH. reflexivity.
  - destruct (maxN_list l) as [z|]; f_equal; lia.
  - congruence.
Qed.

Definition flv {V} (f : N -> N) (kv : N * V) : N * V := (f (fst kv), snd kv).
Definition optl {V} (o : option V) : list V := match o with Some v => [v] | None => [] end.

(* Two descriptions of one molecule, as far as a refinement round can see: labels related by an
   injective f, the (label, value) pairs and the normalised bonds are permutations of each other. *)
Section OneRound.
  Context {P B P' B' : Type}.
  Variable V : Type.
  Variable leb nleb : V -> V -> bool.
  Hypothesis leb_total : forall x y, leb x y = true \/ leb y x = true.
  Hypothesis leb_trans : forall x y z, leb x y = true -> leb y z = true -> leb x z = true.
  Hypothesis leb_antisym : forall x y, leb x y = true -> leb y x = true -> x = y.
  Hypothesis nleb_total : forall x y, nleb x y = true \/ nleb y x = true.
  Hypothesis nleb_trans : forall x y z, nleb x y = true -> nleb y z = true -> nleb x z = true.
  Hypothesis nleb_antisym : forall x y, nleb x y = true -> nleb y x = true -> x = y.
  Variable m : mol P B.
  Variable m' : mol P' B'.
  Variable f : N -> N.
  Variable val : atom P -> V.
  Variable val' : atom P' -> V.
  Hypothesis Hwf : wfg m.
  Hypothesis Hwf' : wfg m'.
  Hypothesis Hinj : inj_on f (labels m).
  Hypothesis Hbonds : Permutation (map (fun b => norm_pair (fpair f (ends b))) (bonds m))
                                  (map (fun b => norm_pair (ends b)) (bonds m')).
  Hypothesis Hatoms : Permutation (map (flv f) (map (lv_of val) (atoms m))) (map (lv_of val') (atoms m')).

  Let lvs := map (lv_of val) (atoms m).
  Let lvs' := map (lv_of val') (atoms m').
  Lemma fst_lvs : map fst lvs = labels m.
  Proof. unfold lvs, labels. rewrite map_map. reflexivity. Qed.
  Lemma fst_lvs' : map fst lvs' = labels m'.
  Proof. unfold lvs', labels. rewrite map_map. reflexivity. Qed.

  Lemma lookup_rel n : In n (labels m) -> lookup lvs' (f n) = lookup lvs n.
  Proof.
    intros Hn. rewrite <- (lookup_perm V (map (flv f) lvs) lvs' (f n)).
    - apply lookup_map_key; rewrite fst_lvs; assumption.
    - eapply Permutation_NoDup; [apply Permutation_sym, Permutation_map, Hatoms|].
      fold lvs'. rewrite fst_lvs'. apply Hwf'.
    - exact Hatoms.
  Qed.

  Lemma nbr_vals_lookup {Q C} (g : mol Q C) (vl : atom Q -> V) a :
    nbr_vals vl g a = flat_map (fun n => optl (lookup (map (lv_of vl) (atoms g)) n)) (nbrs g a).
  Proof.
    unfold nbr_vals. apply flat_map_ext. intros n. unfold lv_of. rewrite <- find_atom_lookup.
    destruct (find_atom (atoms g) n); reflexivity.
  Qed.

  Lemma nbr_vals_rel a : In a (labels m) -> Permutation (nbr_vals val' m' (f a)) (nbr_vals val m a).
  Proof.
    intros Ha. rewrite !nbr_vals_lookup. fold lvs lvs'.
    rewrite (Permutation_flat_map _ (nbrs_relabel m m' f Hwf Hwf' Hinj Hbonds a Ha)).
    rewrite !flat_map_concat_map, map_map. apply Permutation_refl'. f_equal.
    apply map_ext_in. intros n Hn. rewrite lookup_rel; [reflexivity|]. eapply nbrs_in_labels; [exact Hwf | exact Hn].
  Qed.

  Lemma keyL_rel l v : In l (labels m) -> keyL nleb val' m' (f l, v) = keyL nleb val m (l, v).
  Proof.
    intros Hl. unfold keyL; simpl. f_equal.
    apply isort_perm_invariant; auto. apply nbr_vals_rel, Hl.
  Qed.

  Lemma keys_rel : Permutation (keys_of nleb val' m') (keys_of nleb val m).
  Proof.
    unfold keys_of.
    rewrite <- (map_map (lv_of val') (keyL nleb val' m')), <- (map_map (lv_of val) (keyL nleb val m)).
    rewrite <- (Permutation_map (keyL nleb val' m') Hatoms).
    rewrite map_map. apply Permutation_refl'. apply map_ext_in.
    intros [l v] Hin. unfold flv; simpl. apply keyL_rel.
    rewrite <- fst_lvs. apply (in_map fst) in Hin. exact Hin.
  Qed.

  Let kleb := lex leb.
  Lemma rank_rel k : rank kleb (keys_of nleb val' m') k = rank kleb (keys_of nleb val m) k.
  Proof.
    apply rank_perm; [apply lex_total; assumption | apply lex_trans; assumption | apply lex_antisym; assumption | apply keys_rel].
  Qed.

  (* value of corresponding atoms *)
  Lemma val_rel x x' : In x (atoms m) -> In x' (atoms m') -> lbl x' = f (lbl x) -> val' x' = val x.
  Proof.
    intros Hx Hx' Hl.
    assert (H1 : lookup lvs' (lbl x') = Some (val' x')).
    { apply lookup_in; [rewrite fst_lvs'; apply Hwf'|]. unfold lvs'. apply (in_map (lv_of val')) in Hx'. exact Hx'. }
    assert (H2 : lookup lvs (lbl x) = Some (val x)).
    { apply lookup_in; [rewrite fst_lvs; apply Hwf|]. unfold lvs. apply (in_map (lv_of val)) in Hx. exact Hx. }
    rewrite Hl, lookup_rel in H1; [congruence|]. apply in_map, Hx.
  Qed.

  (* one round of partition_molecule_by_attribute is label independent *)
  Theorem class_rel x x' : In x (atoms m) -> In x' (atoms m') -> lbl x' = f (lbl x) ->
    class_of leb nleb val' m' x' = class_of leb nleb val m x.
  Proof.
    intros Hx Hx' Hl. unfold class_of. fold kleb. rewrite rank_rel. f_equal.
    unfold lv_of. rewrite Hl, (val_rel x x' Hx Hx' Hl). apply keyL_rel. apply in_map, Hx.
  Qed.

  (* ... and re-establishes the relation for the next round (values = new classes) *)
  Definition G (lv : N * V) : N * N := (fst lv, rank kleb (keys_of nleb val m) (keyL nleb val m lv)).
  Definition G' (lv : N * V) : N * N := (fst lv, rank kleb (keys_of nleb val' m') (keyL nleb val' m' lv)).
  Lemma part_pairs_after :
    map (lv_of (@part P)) (atoms (partition_by leb nleb val m)) = map G lvs.
  Proof. unfold partition_by, lvs; simpl. rewrite !map_map. apply map_ext. intros x. reflexivity. Qed.
  Lemma part_pairs_after' :
    map (lv_of (@part P')) (atoms (partition_by leb nleb val' m')) = map G' lvs'.
  Proof. unfold partition_by, lvs'; simpl. rewrite !map_map. apply map_ext. intros x. reflexivity. Qed.

  Theorem round_atoms_rel :
    Permutation (map (flv f) (map (lv_of (@part P)) (atoms (partition_by leb nleb val m))))
                (map (lv_of (@part P')) (atoms (partition_by leb nleb val' m'))).
  Proof.
    rewrite part_pairs_after, part_pairs_after'. unfold lvs'.
    rewrite <- (Permutation_map G' Hatoms). fold lvs.
    rewrite !map_map. apply Permutation_refl'. apply map_ext_in.
    intros [l v] Hin. unfold flv, G, G'; simpl. f_equal.
    assert (Hl : In l (labels m)) by (rewrite <- fst_lvs; apply (in_map fst) in Hin; exact Hin).
    rewrite rank_rel. f_equal. symmetry. apply keyL_rel, Hl.
  Qed.
End OneRound.

(* partition_by keeps labels and bonds *)
Lemma partition_by_labels {P B V} leb nleb (val : atom P -> V) (m : mol P B) :
  labels (partition_by leb nleb val m) = labels m.
Proof. unfold partition_by, labels; simpl. rewrite map_map. apply map_ext. reflexivity. Qed.
Lemma partition_by_bonds {P B V} leb nleb (val : atom P -> V) (m : mol P B) :
  bonds (partition_by leb nleb val m) = bonds m.
Proof. reflexivity. Qed.
Lemma partition_by_wfg {P B V} leb nleb (val : atom P -> V) (m : mol P B) :
  wfg m -> wfg (partition_by leb nleb val m).
Proof. unfold wfg. rewrite partition_by_labels, partition_by_bonds. auto. Qed.
Lemma partition_by_length {P B V} leb nleb (val : atom P -> V) (m : mol P B) :
  length (atoms (partition_by leb nleb val m)) = length (atoms m).
Proof. unfold partition_by; simpl. apply map_length. Qed.

(* ---------- the relation carried through all rounds ---------- *)
Section Rounds.
  Context {P B P' B' : Type}.
  Variable f : N -> N.

  (* what a round by the class attribute can see *)
  Definition RelPart (m : mol P B) (m' : mol P' B') : Prop :=
    wfg m /\ wfg m' /\ inj_on f (labels m) /\
    Permutation (map (fun b => norm_pair (fpair f (ends b))) (bonds m)) (map (fun b => norm_pair (ends b)) (bonds m')) /\
    Permutation (map (flv f) (map (lv_of (@part P)) (atoms m))) (map (lv_of (@part P')) (atoms m')).

  Lemma RelPart_step m m' : RelPart m m' -> RelPart (partition_by_part m) (partition_by_part m').
  Proof.
    intros (Hw & Hw' & Hi & Hb & Ha). unfold partition_by_part.
    split; [|split; [|split; [|split]]].
    - apply partition_by_wfg, Hw.
    - apply partition_by_wfg, Hw'.
    - rewrite partition_by_labels. exact Hi.
    - exact Hb.
    - apply (round_atoms_rel N Nleb Ngeb Nleb_total Nleb_trans Nleb_antisym Ngeb_total Ngeb_trans Ngeb_antisym
               m m' f (@part P) (@part P') Hw Hw' Hi Hb Ha).
  Qed.

  Lemma RelPart_nparts m m' : RelPart m m' -> nparts m' = nparts m.
  Proof.
    intros (_ & _ & _ & _ & Ha). unfold nparts. apply maxN_list_perm.
    apply (Permutation_map snd) in Ha. rewrite !map_map in Ha. simpl in Ha.
    apply Permutation_sym. exact Ha.
  Qed.

  Lemma RelPart_refine fuel : forall m m', RelPart m m' ->
    match refine fuel m, refine fuel m' with
    | Some r, Some r' => RelPart r r'
    | None, None => True
    | _, _ => False
    end.
  Proof.
    induction fuel as [|fuel IH]; intros m m' HR; simpl; [exact I|].
    pose proof (RelPart_step m m' HR) as HS.
    rewrite (RelPart_nparts _ _ HS), (RelPart_nparts _ _ HR).
    destruct (nparts (partition_by_part m)) as [k'|]; [|exact I].
    destruct (nparts m) as [k|]; [|exact I].
    destruct (N.eqb k' k); [exact HS | apply IH, HS].
  Qed.

  Lemma RelPart_class m m' : RelPart m m' ->
    forall x x', In x (atoms m) -> In x' (atoms m') -> lbl x' = f (lbl x) -> part x' = part x.
  Proof.
    intros (Hw & Hw' & Hi & Hb & Ha) x x' Hx Hx' Hl.
    apply (val_rel N m m' f (@part P) (@part P') Hw Hw' Hi Ha x x' Hx Hx' Hl).
  Qed.
End Rounds.

(* ---------- refinement only writes the class attribute ---------- *)
Definition frame {P} (x : atom P) := (lbl x, zn x, mass x, rad x, pay x).
Lemma partition_by_frame {P B V} leb nleb (val : atom P -> V) (m : mol P B) :
  map frame (atoms (partition_by leb nleb val m)) = map frame (atoms m).
Proof. unfold partition_by; simpl. rewrite map_map. apply map_ext. reflexivity. Qed.
Lemma refine_frame {P B} fuel : forall (m r : mol P B), refine fuel m = Some r ->
  map frame (atoms r) = map frame (atoms m) /\ bonds r = bonds m.
Proof.
  induction fuel as [|fuel IH]; intros m r; simpl; [discriminate|].
  destruct (nparts (partition_by_part m)) as [k'|]; [|discriminate].
  destruct (nparts m) as [k|]; [|discriminate].
  destruct (N.eqb k' k).
  - intros E; inversion E; subst. split; [apply partition_by_frame | reflexivity].
  - intros E. destruct (IH _ _ E) as [H1 H2]. split.
    + rewrite H1. apply partition_by_frame.
    + rewrite H2. reflexivity.
Qed.
Lemma classes_frame {P B} (m r : mol P B) : classes m = Some r ->
  map frame (atoms r) = map frame (atoms m) /\ bonds r = bonds m.
Proof.
  unfold classes. intros E. destruct (refine_frame _ _ _ E) as [H1 H2]. split.
  - rewrite H1. apply partition_by_frame.
  - rewrite H2. reflexivity.
Qed.
Lemma classes_labels {P B} (m r : mol P B) : classes m = Some r -> labels r = labels m.
Proof.
  intros E. destruct (classes_frame m r E) as [H _]. apply (f_equal (map (fun p => fst (fst (fst (fst p)))))) in H.
  rewrite !map_map in H. exact H.
Qed.
Lemma classes_wfg {P B} (m r : mol P B) : classes m = Some r -> wfg m -> wfg r.
Proof.
  intros E. destruct (classes_frame m r E) as [_ Hb]. unfold wfg. rewrite (classes_labels m r E), Hb. auto.
Qed.
