(* Respell.v -- C11: meaning-preserving respellings of a TUCAN string's syntax tree denote the
   same molecule.  A denotational equivalence `SemEq f a a'` on syntax trees (same formula, tuple
   sets and attribute assignments corresponding under a renumbering f of the atom indices that
   keeps every index inside its element block) gives `sem` results related by `SameMol`; every
   syntactic respelling of the property text is an instance, and `SemEq` is closed under
   composition and inverse. *)
From Coq Require Import List NArith ZArith Bool Lia Permutation.
Require Import Base Mol Parse SortProofs MolProofs SameMol ViewProofs ParseProofs.
Import ListNotations.
Local Open Scope Z_scope.
Set Implicit Arguments.

(* ====================================================================== *)
(* 1. the denotational equivalence                                         *)
(* ====================================================================== *)

(* the atoms of the formula in the order in which `sem` numbers them *)
Definition zs_of (a : ast) : list N := isort Nleb (expand (items a)).
Definition in_range (a : ast) (i : Z) : Prop := (1 <= i <= n_atoms a)%Z.
(* atomic number of the atom with 1-based index i *)
Definition elem_at (a : ast) (i : Z) : N := nth (Z.to_nat (i - 1)) (zs_of a) 0%N.

(* f renumbers the atom indices 1..n of a: a bijection (inverse g) that maps 1..n onto itself and
   every index to an index of the same element, i.e. every element block onto itself *)
Record Renumbering (a : ast) (f g : Z -> Z) : Prop := mkRenum {
  rn_gf : forall i, g (f i) = i;
  rn_fg : forall i, f (g i) = i;
  rn_range : forall i, in_range a i -> in_range a (f i);
  rn_range_inv : forall i, in_range a i -> in_range a (g i);
  rn_elem : forall i, in_range a i -> elem_at a (f i) = elem_at a i }.

(* u and v are joined by a tuple, written in either direction, any number of times *)
Definition adj (ts : list (Z * Z)) (u v : Z) : Prop := In (u, v) ts \/ In (v, u) ts.

Record SemEq (f : Z -> Z) (a a' : ast) : Prop := mkSemEq {
  se_items : items a' = items a;
  se_renum : exists g, Renumbering a f g;
  se_tuples : forall u v, adj (tuples a) u v <-> adj (tuples a') (f u) (f v);
  se_bidx : forall i, In i (map fst (blocks a)) <-> In (f i) (map fst (blocks a'));
  se_props : forall i k v, In (i, (k, v)) (flat_props (blocks a)) <-> In (f i, (k, v)) (flat_props (blocks a'));
  se_nodup : NoDupAttr a <-> NoDupAttr a' }.

(* what the grammar guarantees about indices (node_index ::= greater_than_zero); `sem` itself only
   checks the upper bound *)
Definition IndexPos (a : ast) : Prop :=
  (forall u v, In (u, v) (tuples a) -> (1 <= u)%Z /\ (1 <= v)%Z) /\
  (forall i ps, In (i, ps) (blocks a) -> (1 <= i)%Z).
Lemma ast_wf_IndexPos a : ast_wf a -> IndexPos a.
Proof.
  intros [_ Ht Hb]. split; [exact Ht|]. intros i ps Hin. apply (Hb i ps Hin).
Qed.

(* the label map induced by f on the 0-based labels of the graph *)
Definition lab (f : Z -> Z) (l : N) : N := Z.to_N (f (Z.of_N l + 1) - 1).

(* ---------- small facts ---------- *)
Lemma zs_len a : Z.of_nat (length (zs_of a)) = n_atoms a.
Proof. unfold zs_of, n_atoms. rewrite ParseProofs.isort_length. reflexivity. Qed.

Lemma in_fst_blocks (bs : list (Z * list (key * Z))) i : In i (map fst bs) <-> exists ps, In (i, ps) bs.
Proof.
  rewrite in_map_iff. split.
  - intros ([j ps] & E & Hin). simpl in E. subst j. exists ps. exact Hin.
  - intros (ps & Hin). exists (i, ps). split; [reflexivity | exact Hin].
Qed.

Lemma adj_sym ts u v : adj ts u v <-> adj ts v u.
Proof. unfold adj. tauto. Qed.

Lemma option_ext {A} (o o' : option A) : (forall v, o = Some v <-> o' = Some v) -> o = o'.
Proof.
  intros H. destruct o as [x|], o' as [y|]; try reflexivity.
  - symmetry. apply H. reflexivity.
  - pose proof (proj1 (H x) eq_refl). discriminate.
  - pose proof (proj2 (H y) eq_refl). discriminate.
Qed.

Lemma NoDup_map_inj_in {A C} (h : A -> C) l :
  (forall x y, In x l -> In y l -> h x = h y -> x = y) -> NoDup l -> NoDup (map h l).
Proof.
  induction l as [|x t IH]; intros Hinj Hnd; simpl; [constructor|].
  inversion Hnd as [|? ? Hnotin Hnd']; subst. constructor.
  - rewrite in_map_iff. intros (y & Hy & Hin). apply Hnotin.
    assert (y = x) by (apply Hinj; [right; exact Hin | left; reflexivity | exact Hy]). subst; exact Hin.
  - apply IH; [|exact Hnd']. intros p q Hp Hq. apply Hinj; right; assumption.
Qed.

Lemma NoDup_fst {A C} (l : list (A * C)) : NoDup (map fst l) -> NoDup l.
Proof. apply NoDup_map_inv. Qed.

Lemma Nseq_ge i n x : In x (N_seq i n) -> (i <= x)%N.
Proof. revert i; induction n as [|n IH]; intros i; simpl; [intros []|]. intros [<-|H]; [lia|]. apply IH in H. lia. Qed.
Lemma Nseq_NoDup i n : NoDup (N_seq i n).
Proof.
  revert i; induction n as [|n IH]; intros i; simpl; constructor; [|apply IH].
  intros H. apply Nseq_ge in H. lia.
Qed.

Lemma enumerate_from_In (zs : list N) : forall s l z,
  In (l, z) (enumerate_from s zs) <-> exists k, (k < length zs)%nat /\ l = (s + N.of_nat k)%N /\ nth k zs 0%N = z.
Proof.
  induction zs as [|y t IH]; intros s l z; simpl.
  - split; [intros [] | intros (k & Hk & _); lia].
  - split.
    + intros [E|H].
      * inversion E; subst. exists 0%nat. repeat split; lia.
      * apply IH in H. destruct H as (k & Hk & -> & <-). exists (S k). repeat split; lia.
    + intros (k & Hk & -> & <-). destruct k as [|k].
      * left. f_equal. lia.
      * right. apply IH. exists k. repeat split; lia.
Qed.

(* ---------- the atoms of sem_mol, one by one ---------- *)
Definition atom_of (a : ast) (l : N) : atom unit :=
  mkAtom l (nth (N.to_nat l) (zs_of a) 0%N)
         (find_prop (flat_props (blocks a)) (Z.of_N l + 1) KMass)
         (find_prop (flat_props (blocks a)) (Z.of_N l + 1) KRad) 0%N tt.

Lemma sem_mol_atoms_In a x :
  In x (atoms (sem_mol a)) <-> exists l, in_range a (Z.of_N l + 1) /\ x = atom_of a l.
Proof.
  unfold sem_mol, in_range; cbn [atoms]. rewrite <- zs_len. fold (zs_of a). rewrite in_map_iff. split.
  - intros ([l z] & <- & Hin). apply enumerate_from_In in Hin. destruct Hin as (k & Hk & -> & <-).
    exists (N.of_nat k). split; [lia|]. unfold atom_of. cbn [fst snd]. rewrite Nnat.Nat2N.id. reflexivity.
  - intros (l & Hl & ->). exists (l, nth (N.to_nat l) (zs_of a) 0%N). split; [reflexivity|].
    apply enumerate_from_In. exists (N.to_nat l). repeat split; lia.
Qed.

Lemma sem_mol_labels a : labels (sem_mol a) = N_seq 0 (length (zs_of a)).
Proof.
  unfold labels, sem_mol; cbn [atoms]. rewrite map_map. cbn [lbl].
  rewrite <- (map_map fst (fun x => x)), map_id. apply enumerate_from_fst.
Qed.
Lemma sem_mol_label_range a l : In l (labels (sem_mol a)) -> in_range a (Z.of_N l + 1).
Proof.
  unfold labels. rewrite in_map_iff. intros (x & <- & Hx). apply sem_mol_atoms_In in Hx.
  destruct Hx as (l & Hl & ->). exact Hl.
Qed.

(* ---------- the bonds of sem_mol ---------- *)
Definition np1 (e : Z * Z) : N * N := norm_pair (Z.to_N (fst e - 1), Z.to_N (snd e - 1)).

Lemma sem_mol_bonds a : bonds (sem_mol a) = map (fun e => (fst e, snd e, tt)) (dedup_pairs (map np1 (tuples a))).
Proof. reflexivity. Qed.

Lemma np1_swap x y : np1 (y, x) = np1 (x, y).
Proof. unfold np1; simpl. apply norm_pair_swap. Qed.

Lemma sem_mol_nbonds a :
  map (fun b : N * N * unit => norm_pair (ends b)) (bonds (sem_mol a)) = dedup_pairs (map np1 (tuples a)).
Proof.
  rewrite sem_mol_bonds, map_map. rewrite <- (map_id (dedup_pairs _)) at 2.
  apply map_ext_in. intros e He. apply dedup_pairs_In, in_map_iff in He. destruct He as (xy & <- & _).
  unfold ends; cbn [fst snd]. unfold np1. rewrite <- surjective_pairing. apply norm_pair_idem.
Qed.

Lemma sem_mol_fbonds a (F : N -> N) :
  map (fun b : N * N * unit => norm_pair (fpair F (ends b))) (bonds (sem_mol a)) =
  map (fun e => norm_pair (fpair F e)) (dedup_pairs (map np1 (tuples a))).
Proof.
  rewrite sem_mol_bonds, map_map. apply map_ext. intros [u v]. reflexivity.
Qed.

(* ====================================================================== *)
(* 2. SemEq-related syntax trees denote the same molecule                  *)
(* ====================================================================== *)
Definition AllInRange (a : ast) : Prop :=
  (forall u v, In (u, v) (tuples a) -> in_range a u /\ in_range a v) /\
  (forall i, In i (map fst (blocks a)) -> in_range a i).

Lemma AllInRange_intro a : IndexPos a -> IndicesExist a -> AllInRange a.
Proof.
  intros [Pt Pb] [It Ib]. split.
  - intros u v Hin. destruct (Pt u v Hin), (It u v Hin). unfold in_range. lia.
  - intros i Hin. apply in_fst_blocks in Hin. destruct Hin as (ps & Hin).
    pose proof (Pb i ps Hin). pose proof (Ib i ps Hin). unfold in_range. lia.
Qed.
Lemma AllInRange_elim a : AllInRange a -> IndexPos a /\ IndicesExist a.
Proof.
  intros [Ht Hb]. unfold in_range in *. split; split.
  - intros u v Hin. destruct (Ht u v Hin). lia.
  - intros i ps Hin. assert (H : In i (map fst (blocks a))) by (apply in_fst_blocks; eauto). apply Hb in H. lia.
  - intros u v Hin. destruct (Ht u v Hin). lia.
  - intros i ps Hin. assert (H : In i (map fst (blocks a))) by (apply in_fst_blocks; eauto). apply Hb in H. lia.
Qed.

Section Main.
  Variable f : Z -> Z.
  Variables a a' : ast.
  Hypothesis HE : SemEq f a a'.

  Lemma semeq_n : n_atoms a' = n_atoms a.
  Proof. unfold n_atoms. rewrite (se_items HE). reflexivity. Qed.
  Lemma semeq_zs : zs_of a' = zs_of a.
  Proof. unfold zs_of. rewrite (se_items HE). reflexivity. Qed.
  Lemma semeq_range i : in_range a' i <-> in_range a i.
  Proof. unfold in_range. rewrite semeq_n. tauto. Qed.

  Lemma semeq_noselfloop : NoSelfLoop a <-> NoSelfLoop a'.
  Proof.
    destruct (se_renum HE) as (g & Hg). split; intros H u v Hin E; subst v.
    - assert (Hadj : adj (tuples a') (f (g u)) (f (g u))) by (rewrite (rn_fg Hg); left; exact Hin).
      apply (se_tuples HE) in Hadj. destruct Hadj as [Hadj|Hadj]; exact (H _ _ Hadj eq_refl).
    - assert (Hadj : adj (tuples a) u u) by (left; exact Hin).
      apply (se_tuples HE) in Hadj. destruct Hadj as [Hadj|Hadj]; exact (H _ _ Hadj eq_refl).
  Qed.

  Lemma semeq_allinrange : AllInRange a -> AllInRange a'.
  Proof.
    destruct (se_renum HE) as (g & Hg). intros [Ht Hb]. split.
    - intros u v Hin.
      assert (Hadj : adj (tuples a') (f (g u)) (f (g v))) by (rewrite !(rn_fg Hg); left; exact Hin).
      apply (se_tuples HE) in Hadj. rewrite !semeq_range.
      rewrite <- (rn_fg Hg u), <- (rn_fg Hg v).
      destruct Hadj as [Hadj|Hadj]; destruct (Ht _ _ Hadj); split; apply (rn_range Hg); assumption.
    - intros i Hin. rewrite <- (rn_fg Hg i) in Hin. apply (se_bidx HE) in Hin. apply Hb in Hin.
      rewrite semeq_range, <- (rn_fg Hg i). apply (rn_range Hg). exact Hin.
  Qed.

  Lemma lab_spec g l : Renumbering a f g -> in_range a (Z.of_N l + 1) -> (Z.of_N (lab f l) + 1 = f (Z.of_N l + 1))%Z.
  Proof.
    intros Hg Hl. apply (rn_range Hg) in Hl. unfold lab, in_range in *. lia.
  Qed.
  Lemma lab_inj g l l' : Renumbering a f g ->
    in_range a (Z.of_N l + 1) -> in_range a (Z.of_N l' + 1) -> lab f l = lab f l' -> l = l'.
  Proof.
    intros Hg Hl Hl' E.
    assert (E' : f (Z.of_N l + 1) = f (Z.of_N l' + 1)).
    { rewrite <- (@lab_spec _ _ Hg Hl), <- (@lab_spec _ _ Hg Hl'), E. reflexivity. }
    apply (f_equal g) in E'. rewrite !(rn_gf Hg) in E'. lia.
  Qed.

  Lemma find_prop_corr i k : NoDupAttr a ->
    find_prop (flat_props (blocks a')) (f i) k = find_prop (flat_props (blocks a)) i k.
  Proof.
    intros ND. assert (ND' : NoDupAttr a') by (apply (se_nodup HE); exact ND).
    apply option_ext. intros v. rewrite (find_prop_In _ _ _ _ ND), (find_prop_In _ _ _ _ ND').
    symmetry. apply (se_props HE).
  Qed.

  Lemma atom_of_ident g l : Renumbering a f g -> NoDupAttr a -> in_range a (Z.of_N l + 1) ->
    ident (atom_of a' (lab f l)) = ident (atom_of a l).
  Proof.
    intros Hg ND Hl. unfold ident, atom_of. cbn [zn mass rad].
    rewrite (@lab_spec _ _ Hg Hl), !(find_prop_corr _ _ ND), semeq_zs.
    pose proof (@rn_elem _ _ _ Hg _ Hl) as He. unfold elem_at in He.
    replace (N.to_nat (lab f l)) with (Z.to_nat (f (Z.of_N l + 1) - 1)) by (unfold lab; lia).
    rewrite He. replace (Z.to_nat (Z.of_N l + 1 - 1)) with (N.to_nat l) by lia. reflexivity.
  Qed.

  Lemma np1_lab g x y : Renumbering a f g -> in_range a x -> in_range a y ->
    norm_pair (fpair (lab f) (np1 (x, y))) = np1 (f x, f y).
  Proof.
    intros Hg Hx Hy. unfold np1 at 1. rewrite norm_fpair_norm. unfold fpair, np1, lab. cbn [fst snd].
    unfold in_range in *.
    replace (Z.of_N (Z.to_N (x - 1)) + 1)%Z with x by lia.
    replace (Z.of_N (Z.to_N (y - 1)) + 1)%Z with y by lia. reflexivity.
  Qed.

  Definition good_pair (e : N * N) : Prop :=
    (fst e <= snd e)%N /\ in_range a (Z.of_N (fst e) + 1) /\ in_range a (Z.of_N (snd e) + 1).
  Lemma np1_good x y : in_range a x -> in_range a y -> good_pair (np1 (x, y)).
  Proof.
    intros Hx Hy. unfold good_pair, np1, norm_pair, in_range in *. cbn [fst snd].
    destruct (N.leb (Z.to_N (x - 1)) (Z.to_N (y - 1))) eqn:E; cbn [fst snd];
      [apply N.leb_le in E | apply N.leb_gt in E]; lia.
  Qed.

  Theorem semeq_same_molecule_core :
    IndexPos a -> NoSelfLoop a -> NoDupAttr a -> IndicesExist a ->
    NoSelfLoop a' /\ NoDupAttr a' /\ IndicesExist a' /\ IndexPos a' /\
    SameMol (lab f) (sem_mol a) (sem_mol a').
  Proof.
    intros Hpos HL ND HI.
    pose proof (AllInRange_intro Hpos HI) as HR.
    pose proof (semeq_allinrange HR) as HR'.
    destruct (AllInRange_elim HR') as [Hpos' HI'].
    destruct (se_renum HE) as (g & Hg).
    split; [apply semeq_noselfloop; exact HL|]. split; [apply (se_nodup HE); exact ND|].
    split; [exact HI'|]. split; [exact Hpos'|].
    assert (Hinj : inj_on (lab f) (labels (sem_mol a))).
    { intros l l' Hl Hl'. apply (@lab_inj _ _ _ Hg); apply sem_mol_label_range; assumption. }
    split; [exact Hinj|]. split.
    - (* atoms *)
      apply NoDup_Permutation.
      + apply NoDup_fst. rewrite map_map. cbn [fst].
        change (NoDup (map (fun x : atom unit => lab f (lbl x)) (atoms (sem_mol a)))).
        rewrite <- (map_map (@lbl unit) (lab f)). apply NoDup_map_inj_on; [exact Hinj|].
        change (NoDup (labels (sem_mol a))). rewrite sem_mol_labels. apply Nseq_NoDup.
      + apply NoDup_fst. rewrite map_map. cbn [fst]. change (NoDup (labels (sem_mol a'))).
        rewrite sem_mol_labels. apply Nseq_NoDup.
      + intros [l' d]. rewrite !in_map_iff. split.
        * intros (x & E & Hx). apply sem_mol_atoms_In in Hx. destruct Hx as (l & Hl & ->).
          exists (atom_of a' (lab f l)). split.
          -- rewrite (@atom_of_ident _ _ Hg ND Hl). exact E.
          -- apply sem_mol_atoms_In. exists (lab f l). split; [|reflexivity].
             rewrite (@lab_spec _ _ Hg Hl). apply semeq_range, (rn_range Hg), Hl.
        * intros (x' & E & Hx'). apply sem_mol_atoms_In in Hx'. destruct Hx' as (l0 & Hl0 & ->).
          apply semeq_range in Hl0.
          set (l := Z.to_N (g (Z.of_N l0 + 1) - 1)).
          assert (Hgl : in_range a (g (Z.of_N l0 + 1))) by (apply (rn_range_inv Hg); exact Hl0).
          assert (El : (Z.of_N l + 1 = g (Z.of_N l0 + 1))%Z) by (unfold l, in_range in *; lia).
          assert (Hl : in_range a (Z.of_N l + 1)) by (rewrite El; exact Hgl).
          assert (Elab : lab f l = l0).
          { pose proof (@lab_spec _ _ Hg Hl) as H. rewrite El, (rn_fg Hg) in H. lia. }
          exists (atom_of a l). split.
          -- change (lbl (atom_of a l)) with l. rewrite <- (@atom_of_ident _ _ Hg ND Hl), Elab. exact E.
          -- apply sem_mol_atoms_In. exists l. split; [exact Hl | reflexivity].
    - (* bonds *)
      rewrite sem_mol_fbonds, sem_mol_nbonds.
      assert (Hgood : forall e, In e (dedup_pairs (map np1 (tuples a))) -> good_pair e).
      { intros e He. apply dedup_pairs_In, in_map_iff in He. destruct He as ([x y] & <- & Hxy).
        destruct (proj1 HR _ _ Hxy). apply np1_good; assumption. }
      apply NoDup_Permutation.
      + apply NoDup_map_inj_in; [|apply dedup_pairs_NoDup].
        intros [u v] [u' v'] He He' E. apply Hgood in He, He'.
        destruct He as (Hle & Hu & Hv), He' as (Hle' & Hu' & Hv'). cbn [fst snd] in *.
        destruct (norm_pair_cases _ _ E) as [E'|E']; unfold fpair in E'; cbn [fst snd] in E'; inversion E' as [[E1 E2]].
        * apply (@lab_inj _ _ _ Hg) in E1; [|assumption|assumption]. apply (@lab_inj _ _ _ Hg) in E2; [|assumption|assumption].
          subst; reflexivity.
        * apply (@lab_inj _ _ _ Hg) in E1; [|assumption|assumption]. apply (@lab_inj _ _ _ Hg) in E2; [|assumption|assumption].
          subst. assert (u = v) by lia. subst; reflexivity.
      + apply dedup_pairs_NoDup.
      + intros p. rewrite in_map_iff. split.
        * intros (e & <- & He). apply dedup_pairs_In, in_map_iff in He. destruct He as ([x y] & <- & Hxy).
          destruct (proj1 HR _ _ Hxy) as [Hx Hy]. rewrite (@np1_lab _ _ _ Hg Hx Hy).
          assert (Hadj : adj (tuples a) x y) by (left; exact Hxy).
          apply (se_tuples HE) in Hadj. apply dedup_pairs_In, in_map_iff. destruct Hadj as [Hadj|Hadj].
          -- exists (f x, f y). split; [reflexivity | exact Hadj].
          -- exists (f y, f x). split; [apply np1_swap | exact Hadj].
        * intros Hp. apply dedup_pairs_In, in_map_iff in Hp. destruct Hp as ([x' y'] & <- & Hxy').
          assert (Hadj : adj (tuples a') (f (g x')) (f (g y'))) by (rewrite !(rn_fg Hg); left; exact Hxy').
          apply (se_tuples HE) in Hadj. destruct Hadj as [Hadj|Hadj]; destruct (proj1 HR _ _ Hadj) as [H1 H2].
          -- exists (np1 (g x', g y')). split.
             ++ rewrite (@np1_lab _ _ _ Hg H1 H2), !(rn_fg Hg). reflexivity.
             ++ apply dedup_pairs_In, in_map_iff. exists (g x', g y'). split; [reflexivity | exact Hadj].
          -- exists (np1 (g y', g x')). split.
             ++ rewrite (@np1_lab _ _ _ Hg H1 H2), !(rn_fg Hg). apply np1_swap.
             ++ apply dedup_pairs_In, in_map_iff. exists (g y', g x'). split; [reflexivity | exact Hadj].
  Qed.
End Main.

(* the main theorem: the graph of the respelled tree is the graph of the original with the atoms
   renamed by the label map that f induces *)
Theorem semeq_same_molecule f a a' g :
  SemEq f a a' -> IndexPos a -> sem a = inr g ->
  exists g', sem a' = inr g' /\ SameMol (lab f) g g' /\
             length (atoms g') = length (atoms g) /\ length (bonds g') = length (bonds g) /\
             IndexPos a'.
Proof.
  intros HE Hpos Hs.
  assert (Hacc : exists g, sem a = inr g) by eauto.
  apply sem_accepts_iff in Hacc. destruct Hacc as (HL & ND & HI).
  apply sem_accepts_value in Hs. subst g.
  destruct (semeq_same_molecule_core HE Hpos HL ND HI) as (HL' & ND' & HI' & Hpos' & HS).
  assert (Hacc' : exists g', sem a' = inr g') by (apply sem_accepts_iff; auto).
  destruct Hacc' as (g' & Hs'). assert (Eg : g' = sem_mol a') by (apply sem_accepts_value; exact Hs'). subst g'.
  exists (sem_mol a'). split; [exact Hs'|]. split; [exact HS|].
  destruct HS as (_ & Ha & Hb). apply Permutation_length in Ha, Hb. rewrite !map_length in Ha, Hb.
  split; [symmetry; exact Ha|]. split; [symmetry; exact Hb | exact Hpos'].
Qed.

(* errors correspond as well, as soon as both trees have positive indices *)
Lemma semeq_indices_exist f a a' : SemEq f a a' -> IndexPos a -> IndicesExist a -> IndicesExist a'.
Proof.
  intros HE Hpos HI. apply AllInRange_elim. apply (semeq_allinrange HE). apply AllInRange_intro; assumption.
Qed.

(* ====================================================================== *)
(* 3. SemEq is an equivalence (identity, inverse, composition)             *)
(* ====================================================================== *)
Lemma Renumbering_id a : Renumbering a (fun i => i) (fun i => i).
Proof. constructor; auto. Qed.

Lemma SemEq_refl a : SemEq (fun i => i) a a.
Proof.
  constructor; try tauto; try reflexivity. exists (fun i => i). apply Renumbering_id.
Qed.

Lemma Renumbering_inverse_unique a f g g0 :
  (forall i, g (f i) = i) -> (forall i, f (g i) = i) -> Renumbering a f g0 -> forall i, g i = g0 i.
Proof.
  intros Hgf Hfg H0 i. rewrite <- (Hfg i) at 2. rewrite (rn_gf H0). reflexivity.
Qed.

Lemma SemEq_sym f g a a' :
  (forall i, g (f i) = i) -> (forall i, f (g i) = i) -> SemEq f a a' -> SemEq g a' a.
Proof.
  intros Hgf Hfg HE. destruct (se_renum HE) as (g0 & H0).
  pose proof (@Renumbering_inverse_unique a f g g0 Hgf Hfg H0) as Eg.
  assert (Hel : forall i, elem_at a' i = elem_at a i) by (intros i; unfold elem_at; rewrite (semeq_zs HE); reflexivity).
  constructor.
  - symmetry. apply (se_items HE).
  - exists f. constructor; try assumption.
    + intros i Hi. apply (semeq_range HE). apply (semeq_range HE) in Hi. rewrite Eg. apply (rn_range_inv H0), Hi.
    + intros i Hi. apply (semeq_range HE). apply (semeq_range HE) in Hi. apply (rn_range H0), Hi.
    + intros i Hi. apply (semeq_range HE) in Hi. rewrite !Hel.
      assert (Hgi : in_range a (g i)) by (rewrite Eg; apply (rn_range_inv H0), Hi).
      pose proof (@rn_elem _ _ _ H0 _ Hgi) as E. rewrite Hfg in E. symmetry. exact E.
  - intros u v. rewrite (se_tuples HE (g u) (g v)), !Hfg. tauto.
  - intros i. rewrite (se_bidx HE (g i)), Hfg. tauto.
  - intros i k v. rewrite (se_props HE (g i) k v), Hfg. tauto.
  - symmetry. apply (se_nodup HE).
Qed.
Lemma SemEq_sym_ex f a a' : SemEq f a a' -> exists g, SemEq g a' a.
Proof.
  intros HE. destruct (se_renum HE) as (g & Hg). exists g.
  apply (@SemEq_sym f g a a' (rn_gf Hg) (rn_fg Hg) HE).
Qed.

Lemma SemEq_trans f1 f2 a b c : SemEq f1 a b -> SemEq f2 b c -> SemEq (fun i => f2 (f1 i)) a c.
Proof.
  intros H1 H2. destruct (se_renum H1) as (g1 & R1). destruct (se_renum H2) as (g2 & R2).
  assert (Hel : forall i, elem_at b i = elem_at a i) by (intros i; unfold elem_at; rewrite (semeq_zs H1); reflexivity).
  constructor.
  - rewrite (se_items H2). apply (se_items H1).
  - exists (fun i => g1 (g2 i)). constructor.
    + intros i. rewrite (rn_gf R2), (rn_gf R1). reflexivity.
    + intros i. rewrite (rn_fg R1), (rn_fg R2). reflexivity.
    + intros i Hi. apply (semeq_range H1). apply (rn_range R2). apply (semeq_range H1). apply (rn_range R1), Hi.
    + intros i Hi. apply (rn_range_inv R1). apply (semeq_range H1). apply (rn_range_inv R2). apply (semeq_range H1), Hi.
    + intros i Hi. rewrite <- (@rn_elem _ _ _ R1 _ Hi), <- !Hel.
      apply (@rn_elem _ _ _ R2). apply (semeq_range H1). apply (rn_range R1), Hi.
  - intros u v. rewrite (se_tuples H1 u v). apply (se_tuples H2).
  - intros i. rewrite (se_bidx H1 i). apply (se_bidx H2).
  - intros i k v. rewrite (se_props H1 i k v). apply (se_props H2).
  - rewrite (se_nodup H1). apply (se_nodup H2).
Qed.

(* the label maps compose and invert with the renumberings (on the labels that exist) *)
Lemma lab_id l : lab (fun i => i) l = l.
Proof. unfold lab. lia. Qed.

Theorem semeq_errors f a a' : SemEq f a a' -> IndexPos a -> IndexPos a' ->
  forall e, sem a = inl e <-> sem a' = inl e.
Proof.
  intros HE Hpos Hpos' e. destruct (SemEq_sym_ex HE) as (g & HE').
  assert (HI : IndicesExist a <-> IndicesExist a').
  { split; [apply (semeq_indices_exist HE Hpos) | apply (semeq_indices_exist HE' Hpos')]. }
  pose proof (semeq_noselfloop HE) as HL. pose proof (se_nodup HE) as HD.
  destruct (sem_errors_iff a) as (A1 & A2 & A3 & A4 & A5).
  destruct (sem_errors_iff a') as (B1 & B2 & B3 & B4 & B5).
  destruct e.
  - split; intros H; [elim (A4 H) | elim (B4 H)].
  - split; intros H; [elim (A5 H) | elim (B5 H)].
  - rewrite A1, B1. clear - HL. tauto.
  - rewrite A3, B3. clear - HL HD HI. tauto.
  - rewrite A2, B2. clear - HL HD. tauto.
Qed.

(* ====================================================================== *)
(* 4. the syntactic respellings are instances                              *)
(* ====================================================================== *)
Lemma semeq_id_intro a a' :
  items a' = items a ->
  (forall u v, adj (tuples a) u v <-> adj (tuples a') u v) ->
  (forall i, In i (map fst (blocks a)) <-> In i (map fst (blocks a'))) ->
  Permutation (flat_props (blocks a)) (flat_props (blocks a')) ->
  SemEq (fun i => i) a a'.
Proof.
  intros Hit Ht Hb Hp. constructor; try assumption.
  - exists (fun i => i). apply Renumbering_id.
  - intros i k v. split; apply Permutation_in; [exact Hp | apply Permutation_sym, Hp].
  - unfold NoDupAttr. pose proof (Permutation_map ikey Hp) as Hp'.
    split; apply Permutation_NoDup; [exact Hp' | apply Permutation_sym, Hp'].
Qed.

Lemma adj_same_set ts ts' : (forall p, In p ts <-> In p ts') -> forall u v, adj ts u v <-> adj ts' u v.
Proof. intros H u v. unfold adj. rewrite !H. tauto. Qed.

Section Steps.
  Variable it : list (N * Z).

  (* --- tuples --- *)
  Lemma respell_tuple_set ts ts' bs :
    (forall u v, adj ts u v <-> adj ts' u v) -> SemEq (fun i => i) (mkAst it ts bs) (mkAst it ts' bs).
  Proof.
    intros H. apply semeq_id_intro; cbn [items tuples blocks]; [reflexivity | exact H | tauto | apply Permutation_refl].
  Qed.

  Lemma respell_tuple_order ts ts' bs :
    Permutation ts ts' -> SemEq (fun i => i) (mkAst it ts bs) (mkAst it ts' bs).
  Proof.
    intros HP. apply respell_tuple_set, adj_same_set. intros p.
    split; apply Permutation_in; [exact HP | apply Permutation_sym, HP].
  Qed.

  Lemma respell_tuple_swap l1 u v l2 bs :
    SemEq (fun i => i) (mkAst it (l1 ++ (u, v) :: l2) bs) (mkAst it (l1 ++ (v, u) :: l2) bs).
  Proof.
    apply respell_tuple_set. intros x y. unfold adj. rewrite !in_app_iff. simpl.
    split; intros [[H|[H|H]]|[H|[H|H]]]; try (inversion H; subst); auto 8.
  Qed.

  (* writing a tuple that is already there once more, anywhere *)
  Lemma respell_tuple_repeat l1 l2 e bs :
    In e (l1 ++ l2) -> SemEq (fun i => i) (mkAst it (l1 ++ l2) bs) (mkAst it (l1 ++ e :: l2) bs).
  Proof.
    intros He. apply respell_tuple_set, adj_same_set. intros p.
    rewrite in_app_iff in He. rewrite !in_app_iff. simpl. split; [tauto|].
    intros [H|[<-|H]]; tauto.
  Qed.
  (* ... and leaving out a repetition *)
  Lemma respell_tuple_unrepeat l1 l2 e bs :
    In e (l1 ++ l2) -> SemEq (fun i => i) (mkAst it (l1 ++ e :: l2) bs) (mkAst it (l1 ++ l2) bs).
  Proof.
    intros He. apply (@SemEq_sym (fun i => i) (fun i => i)); auto. apply respell_tuple_repeat, He.
  Qed.

  (* --- attribute blocks --- *)
  Lemma respell_block_set ts bs bs' :
    (forall i, In i (map fst bs) <-> In i (map fst bs')) ->
    Permutation (flat_props bs) (flat_props bs') ->
    SemEq (fun i => i) (mkAst it ts bs) (mkAst it ts bs').
  Proof.
    intros H1 H2. apply semeq_id_intro; cbn [items tuples blocks]; [reflexivity | tauto | exact H1 | exact H2].
  Qed.

  Lemma respell_block_order ts bs bs' :
    Permutation bs bs' -> SemEq (fun i => i) (mkAst it ts bs) (mkAst it ts bs').
  Proof.
    intros HP. apply respell_block_set.
    - pose proof (Permutation_map fst HP) as HP'. intros i.
      split; apply Permutation_in; [exact HP' | apply Permutation_sym, HP'].
    - unfold flat_props. apply Permutation_flat_map. exact HP.
  Qed.

  Lemma flat_props_split l1 (i : Z) ps qs l2 :
    flat_props (l1 ++ (i, ps ++ qs) :: l2) = flat_props (l1 ++ (i, ps) :: (i, qs) :: l2).
  Proof.
    unfold flat_props. rewrite !flat_map_app. cbn [flat_map fst snd]. rewrite map_app, <- !app_assoc. reflexivity.
  Qed.

  Lemma respell_block_split ts l1 i ps qs l2 :
    SemEq (fun i => i) (mkAst it ts (l1 ++ (i, ps ++ qs) :: l2)) (mkAst it ts (l1 ++ (i, ps) :: (i, qs) :: l2)).
  Proof.
    apply respell_block_set.
    - intros j. rewrite !map_app, !in_app_iff. simpl. tauto.
    - rewrite flat_props_split. apply Permutation_refl.
  Qed.
  Lemma respell_block_merge ts l1 i ps qs l2 :
    SemEq (fun i => i) (mkAst it ts (l1 ++ (i, ps) :: (i, qs) :: l2)) (mkAst it ts (l1 ++ (i, ps ++ qs) :: l2)).
  Proof.
    apply (@SemEq_sym (fun i => i) (fun i => i)); auto. apply respell_block_split.
  Qed.

  Lemma respell_prop_order ts l1 i ps ps' l2 :
    Permutation ps ps' ->
    SemEq (fun i => i) (mkAst it ts (l1 ++ (i, ps) :: l2)) (mkAst it ts (l1 ++ (i, ps') :: l2)).
  Proof.
    intros HP. apply respell_block_set.
    - intros j. rewrite !map_app, !in_app_iff. simpl. tauto.
    - unfold flat_props. rewrite !flat_map_app. cbn [flat_map fst snd].
      apply Permutation_app_head, Permutation_app_tail, Permutation_map, HP.
  Qed.
End Steps.

(* --- renumbering the atoms inside the element blocks --- *)
Definition renumber (f : Z -> Z) (a : ast) : ast :=
  mkAst (items a)
        (map (fun e => (f (fst e), f (snd e))) (tuples a))
        (map (fun b => (f (fst b), snd b)) (blocks a)).

Lemma flat_props_renumber (f : Z -> Z) bs :
  flat_props (map (fun b => (f (fst b), snd b)) bs) = map (fun q => (f (fst q), snd q)) (flat_props bs).
Proof.
  unfold flat_props. induction bs as [|[i ps] t IH]; simpl; [reflexivity|].
  rewrite IH, map_app, map_map. reflexivity.
Qed.

Lemma respell_renumber a f g : Renumbering a f g -> SemEq f a (renumber f a).
Proof.
  intros Hg.
  assert (Hinj : forall x y, f x = f y -> x = y).
  { intros x y E. apply (f_equal g) in E. rewrite !(rn_gf Hg) in E. exact E. }
  constructor; unfold renumber; cbn [items tuples blocks].
  - reflexivity.
  - exists g. exact Hg.
  - assert (H : forall u v, In (f u, f v) (map (fun e => (f (fst e), f (snd e))) (tuples a)) <-> In (u, v) (tuples a)).
    { intros u v. rewrite in_map_iff. split.
      - intros ([x y] & E & Hin). cbn [fst snd] in E. inversion E as [[E1 E2]].
        apply Hinj in E1, E2. subst. exact Hin.
      - intros Hin. exists (u, v). split; [reflexivity | exact Hin]. }
    intros u v. unfold adj. rewrite !H. tauto.
  - intros i. rewrite map_map. cbn [fst]. rewrite !in_map_iff. split.
    + intros (b & E & Hin). exists b. split; [rewrite E; reflexivity | exact Hin].
    + intros (b & E & Hin). exists b. split; [apply Hinj, E | exact Hin].
  - intros i k v. rewrite flat_props_renumber, in_map_iff. split.
    + intros Hin. exists (i, (k, v)). split; [reflexivity | exact Hin].
    + intros ([j q] & E & Hin). cbn [fst snd] in E. inversion E as [[E1 E2]]. apply Hinj in E1. subst. exact Hin.
  - unfold NoDupAttr. cbn [blocks]. rewrite flat_props_renumber, map_map.
    replace (map (fun x : Z * (key * Z) => ikey (f (fst x), snd x)) (flat_props (blocks a)))
      with (map (fun ik : Z * key => (f (fst ik), snd ik)) (map ikey (flat_props (blocks a))))
      by (rewrite map_map; reflexivity).
    split.
    + apply NoDup_map_inj_in. intros [i k] [j k'] _ _ E. cbn [fst snd] in E. inversion E as [[E1 E2]].
      apply Hinj in E1. subst; reflexivity.
    + apply NoDup_map_inv.
Qed.

(* a permutation given on 1..n only, extended by the identity *)
Definition extend (n : Z) (f : Z -> Z) (i : Z) : Z := if (1 <=? i) && (i <=? n) then f i else i.

Lemma extend_in n f i : 1 <= i <= n -> extend n f i = f i.
Proof. intros H. unfold extend. replace (1 <=? i) with true by lia. replace (i <=? n) with true by lia. reflexivity. Qed.
Lemma extend_out n f i : ~ (1 <= i <= n) -> extend n f i = i.
Proof.
  intros H. unfold extend. destruct (1 <=? i) eqn:E1; [|reflexivity]. destruct (i <=? n) eqn:E2; [|reflexivity]. lia.
Qed.

Lemma extend_renumbering a f g :
  (forall i, in_range a i -> in_range a (f i) /\ g (f i) = i) ->
  (forall i, in_range a i -> in_range a (g i) /\ f (g i) = i) ->
  (forall i, in_range a i -> elem_at a (f i) = elem_at a i) ->
  Renumbering a (extend (n_atoms a) f) (extend (n_atoms a) g).
Proof.
  intros Hf Hg He. unfold in_range in *.
  assert (dec : forall i, (1 <= i <= n_atoms a) \/ ~ (1 <= i <= n_atoms a)) by (intros; lia).
  constructor.
  - intros i. destruct (dec i) as [Hi|Hi].
    + rewrite (extend_in f Hi). destruct (Hf i Hi) as [H1 H2]. rewrite (extend_in g H1). exact H2.
    + rewrite (extend_out f Hi). apply (extend_out g Hi).
  - intros i. destruct (dec i) as [Hi|Hi].
    + rewrite (extend_in g Hi). destruct (Hg i Hi) as [H1 H2]. rewrite (extend_in f H1). exact H2.
    + rewrite (extend_out g Hi). apply (extend_out f Hi).
  - intros i Hi. rewrite (extend_in f Hi). apply Hf, Hi.
  - intros i Hi. rewrite (extend_in g Hi). apply Hg, Hi.
  - intros i Hi. rewrite (extend_in f Hi). apply He, Hi.
Qed.

(* on a tree whose indices all exist, only the values of f on 1..n matter *)
Lemma renumber_extend a f : AllInRange a -> renumber (extend (n_atoms a) f) a = renumber f a.
Proof.
  intros [Ht Hb]. unfold renumber. f_equal.
  - apply map_ext_in. intros [u v] Hin. destruct (Ht u v Hin) as [Hu Hv]. cbn [fst snd].
    rewrite (extend_in f Hu), (extend_in f Hv). reflexivity.
  - apply map_ext_in. intros [i ps] Hin. cbn [fst snd]. f_equal. apply extend_in.
    apply Hb, in_fst_blocks. exists ps. exact Hin.
Qed.

Corollary respell_renumber_on_range a f g :
  AllInRange a ->
  (forall i, in_range a i -> in_range a (f i) /\ g (f i) = i) ->
  (forall i, in_range a i -> in_range a (g i) /\ f (g i) = i) ->
  (forall i, in_range a i -> elem_at a (f i) = elem_at a i) ->
  SemEq (extend (n_atoms a) f) a (renumber f a).
Proof.
  intros HR Hf Hg He. rewrite <- (renumber_extend f HR).
  apply respell_renumber with (g := extend (n_atoms a) g). apply extend_renumbering; assumption.
Qed.

(* ====================================================================== *)
(* 5. any finite combination of respellings                                *)
(* ====================================================================== *)
Inductive Respell : ast -> ast -> Prop :=
| Rs_refl a : Respell a a
| Rs_trans a b c : Respell a b -> Respell b c -> Respell a c
| Rs_tuple_order it ts ts' bs : Permutation ts ts' -> Respell (mkAst it ts bs) (mkAst it ts' bs)
| Rs_tuple_swap it l1 u v l2 bs : Respell (mkAst it (l1 ++ (u, v) :: l2) bs) (mkAst it (l1 ++ (v, u) :: l2) bs)
| Rs_tuple_repeat it l1 l2 e bs : In e (l1 ++ l2) -> Respell (mkAst it (l1 ++ l2) bs) (mkAst it (l1 ++ e :: l2) bs)
| Rs_tuple_unrepeat it l1 l2 e bs : In e (l1 ++ l2) -> Respell (mkAst it (l1 ++ e :: l2) bs) (mkAst it (l1 ++ l2) bs)
| Rs_block_order it ts bs bs' : Permutation bs bs' -> Respell (mkAst it ts bs) (mkAst it ts bs')
| Rs_block_split it ts l1 i ps qs l2 :
    Respell (mkAst it ts (l1 ++ (i, ps ++ qs) :: l2)) (mkAst it ts (l1 ++ (i, ps) :: (i, qs) :: l2))
| Rs_block_merge it ts l1 i ps qs l2 :
    Respell (mkAst it ts (l1 ++ (i, ps) :: (i, qs) :: l2)) (mkAst it ts (l1 ++ (i, ps ++ qs) :: l2))
| Rs_prop_order it ts l1 i ps ps' l2 :
    Permutation ps ps' -> Respell (mkAst it ts (l1 ++ (i, ps) :: l2)) (mkAst it ts (l1 ++ (i, ps') :: l2))
| Rs_renumber a f g : Renumbering a f g -> Respell a (renumber f a).

Theorem respell_semeq a a' : Respell a a' -> exists f, SemEq f a a'.
Proof.
  induction 1 as [a | a b c _ [f1 H1] _ [f2 H2] | | | | | | | | | a f g Hg].
  - eexists. apply SemEq_refl.
  - eexists. apply (SemEq_trans H1 H2).
  - eexists. apply respell_tuple_order; assumption.
  - eexists. apply respell_tuple_swap.
  - eexists. apply respell_tuple_repeat; assumption.
  - eexists. apply respell_tuple_unrepeat; assumption.
  - eexists. apply respell_block_order; assumption.
  - eexists. apply respell_block_split.
  - eexists. apply respell_block_merge.
  - eexists. apply respell_prop_order; assumption.
  - exists f. apply (respell_renumber Hg).
Qed.

Theorem respell_same_molecule a a' g :
  Respell a a' -> IndexPos a -> sem a = inr g ->
  exists g' F, sem a' = inr g' /\ SameMol F g g' /\
               length (atoms g') = length (atoms g) /\ length (bonds g') = length (bonds g).
Proof.
  intros HR Hpos Hs. destruct (respell_semeq HR) as (f & HE).
  destruct (semeq_same_molecule HE Hpos Hs) as (g' & Hs' & HS & Ha & Hb & _).
  exists g', (lab f). auto.
Qed.

(* the closure is symmetric: every step can be undone by a step *)
Lemma renumber_renumber f g a : (forall i, g (f i) = i) -> renumber g (renumber f a) = a.
Proof.
  intros Hgf. destruct a as [it ts bs]. unfold renumber; cbn [items tuples blocks]. f_equal.
  - rewrite map_map. rewrite <- (map_id ts) at 2. apply map_ext. intros [u v]. cbn [fst snd]. rewrite !Hgf. reflexivity.
  - rewrite map_map. rewrite <- (map_id bs) at 2. apply map_ext. intros [i ps]. cbn [fst snd]. rewrite Hgf. reflexivity.
Qed.
Lemma Renumbering_inv a f g : Renumbering a f g -> Renumbering (renumber f a) g f.
Proof.
  intros Hg. constructor.
  - apply (rn_fg Hg).
  - apply (rn_gf Hg).
  - apply (rn_range_inv Hg).
  - apply (rn_range Hg).
  - intros i Hi. change (elem_at a (g i) = elem_at a i).
    assert (Hgi : in_range a (g i)) by (apply (rn_range_inv Hg); exact Hi).
    pose proof (@rn_elem _ _ _ Hg _ Hgi) as E. rewrite (rn_fg Hg) in E. symmetry. exact E.
Qed.
Theorem Respell_sym a a' : Respell a a' -> Respell a' a.
Proof.
  induction 1 as [a | a b c _ IH1 _ IH2 | | | | | | | | | a f g Hg].
  - apply Rs_refl.
  - apply (Rs_trans IH2 IH1).
  - apply Rs_tuple_order, Permutation_sym; assumption.
  - apply Rs_tuple_swap.
  - apply Rs_tuple_unrepeat; assumption.
  - apply Rs_tuple_repeat; assumption.
  - apply Rs_block_order, Permutation_sym; assumption.
  - apply Rs_block_merge.
  - apply Rs_block_split.
  - apply Rs_prop_order, Permutation_sym; assumption.
  - pose proof (Rs_renumber (Renumbering_inv Hg)) as H.
    rewrite (@renumber_renumber f g a (rn_gf Hg)) in H. exact H.
Qed.

(* ====================================================================== *)
(* 6. down to the string: respelled trees give the same TUCAN string       *)
(* ====================================================================== *)
Lemma sem_mol_label_in a l : in_range a (Z.of_N l + 1) -> In l (labels (sem_mol a)).
Proof.
  intros Hl. unfold labels. apply in_map_iff. exists (atom_of a l). split; [reflexivity|].
  apply sem_mol_atoms_In. exists l. split; [exact Hl | reflexivity].
Qed.

Lemma sem_mol_wfg a : IndexPos a -> NoSelfLoop a -> IndicesExist a -> wfg (sem_mol a).
Proof.
  intros Hpos HL HI. pose proof (AllInRange_intro Hpos HI) as [Ht _]. split.
  - rewrite sem_mol_labels. apply Nseq_NoDup.
  - intros b Hb. rewrite sem_mol_bonds in Hb. apply in_map_iff in Hb. destruct Hb as (e & <- & He).
    apply dedup_pairs_In, in_map_iff in He. destruct He as ([x y] & <- & Hxy).
    destruct (Ht _ _ Hxy) as [Hx Hy]. pose proof (HL _ _ Hxy) as Hne.
    destruct (np1_good Hx Hy) as (_ & H1 & H2). unfold ends. cbn [fst snd].
    split; [|split; apply sem_mol_label_in; assumption].
    unfold np1, norm_pair, in_range in *. cbn [fst snd].
    destruct (N.leb (Z.to_N (x - 1)) (Z.to_N (y - 1))); cbn [fst snd]; lia.
Qed.

Lemma sem_mol_nozero a x : ast_wf a -> NoDupAttr a -> In x (atoms (sem_mol a)) ->
  mass x <> Some 0 /\ rad x <> Some 0.
Proof.
  intros Hwf ND Hx. apply sem_mol_atoms_In in Hx. destruct Hx as (l & _ & ->). unfold atom_of. cbn [mass rad].
  split; intros E; apply (find_prop_In _ _ _ _ ND) in E; apply flat_props_In in E; destruct E as (ps & Hb & Hp);
    destruct (wf_blocks Hwf _ _ Hb) as (_ & _ & Hv); apply Hv in Hp; lia.
Qed.

Require Import Canon Pipeline CanonProofs CanonView TucanProofs.

Section ToString.
  Variable canon : list (N * N) -> list (N * N) -> list (N * N).
  Hypothesis HH1 : H1 canon.
  Hypothesis HH2 : H2 canon.

  (* C11 for trees: SemEq-related trees of sentences are both rejected by `sem`, or both accepted
     with graphs that canonicalize and serialize to the same string *)
  Theorem semeq_same_tucan f a a' g :
    SemEq f a a' -> ast_wf a -> sem a = inr g ->
    exists g', sem a' = inr g' /\ tucan canon g = tucan canon g' /\ tucan_tokens canon g = tucan_tokens canon g'.
  Proof.
    intros HE Hwf Hs. pose proof (ast_wf_IndexPos Hwf) as Hpos.
    destruct (semeq_same_molecule HE Hpos Hs) as (g' & Hs' & HS & _).
    assert (Hacc : exists g, sem a = inr g) by eauto.
    apply sem_accepts_iff in Hacc. destruct Hacc as (HL & ND & HI).
    assert (Eg : g = sem_mol a) by (apply sem_accepts_value; exact Hs). subst g.
    pose proof (sem_mol_wfg Hpos HL HI) as Hw.
    assert (Hnz : forall x, In x (atoms (sem_mol a)) -> nozero x).
    { intros x Hx. apply (@sem_mol_nozero a x Hwf ND Hx). }
    exists g'. split; [exact Hs'|]. split.
    - apply (tucan_invariant canon HH1 HH2 (lab f) (sem_mol a) g' Hw HS Hnz).
    - apply (tucan_tokens_invariant canon HH1 HH2 (lab f) (sem_mol a) g' Hw HS Hnz).
  Qed.

  Theorem respell_same_tucan a a' g :
    Respell a a' -> ast_wf a -> sem a = inr g ->
    exists g', sem a' = inr g' /\ tucan canon g = tucan canon g' /\ tucan_tokens canon g = tucan_tokens canon g'.
  Proof.
    intros HR Hwf Hs. destruct (respell_semeq HR) as (f & HE). apply (semeq_same_tucan HE Hwf Hs).
  Qed.
End ToString.

(* ====================================================================== *)
(* 7. a renumbering given as an injective map of 1..n into itself          *)
(* ====================================================================== *)
Definition range_list (n : Z) : list Z := map Z.of_nat (seq 1 (Z.to_nat n)).
Lemma range_list_In n i : In i (range_list n) <-> 1 <= i <= n.
Proof.
  unfold range_list. rewrite in_map_iff. split.
  - intros (k & <- & Hk). apply in_seq in Hk. lia.
  - intros H. exists (Z.to_nat i). split; [lia|]. apply in_seq. lia.
Qed.
Lemma range_list_NoDup n : NoDup (range_list n).
Proof. apply NoDup_map_inj_in; [intros; lia | apply seq_NoDup]. Qed.

Definition inverse_on (n : Z) (f : Z -> Z) (j : Z) : Z :=
  match find (fun i => Z.eqb (f i) j) (range_list n) with Some i => i | None => j end.

Lemma inverse_on_spec n f :
  (forall i, 1 <= i <= n -> 1 <= f i <= n) ->
  (forall i j, 1 <= i <= n -> 1 <= j <= n -> f i = f j -> i = j) ->
  (forall i, 1 <= i <= n -> inverse_on n f (f i) = i) /\
  (forall j, 1 <= j <= n -> 1 <= inverse_on n f j <= n /\ f (inverse_on n f j) = j).
Proof.
  intros Hr Hinj.
  assert (Hsurj : forall j, 1 <= j <= n -> exists i, 1 <= i <= n /\ f i = j).
  { assert (Hincl : incl (range_list n) (map f (range_list n))).
    { apply NoDup_length_incl.
      - apply NoDup_map_inj_in; [|apply range_list_NoDup].
        intros x y Hx Hy. apply Hinj; apply range_list_In; assumption.
      - rewrite map_length. lia.
      - intros y Hy. apply in_map_iff in Hy. destruct Hy as (x & <- & Hx).
        apply range_list_In, Hr, range_list_In, Hx. }
    intros j Hj. apply range_list_In, Hincl, in_map_iff in Hj. destruct Hj as (i & E & Hi).
    exists i. split; [apply range_list_In, Hi | exact E]. }
  assert (Hfind : forall j, 1 <= j <= n ->
            exists i, find (fun i => Z.eqb (f i) j) (range_list n) = Some i /\ 1 <= i <= n /\ f i = j).
  { intros j Hj. destruct (find (fun i => Z.eqb (f i) j) (range_list n)) as [i|] eqn:E.
    - apply find_some in E. destruct E as [Hi E]. apply Z.eqb_eq in E.
      exists i. split; [reflexivity|]. split; [apply range_list_In, Hi | exact E].
    - destruct (Hsurj j Hj) as (i & Hi & Ei).
      pose proof (find_none _ _ E i (proj2 (range_list_In n i) Hi)) as H. simpl in H.
      rewrite Ei, Z.eqb_refl in H. discriminate. }
  split.
  - intros i Hi. unfold inverse_on. destruct (Hfind (f i) (Hr i Hi)) as (k & -> & Hk & Ek). apply Hinj; assumption.
  - intros j Hj. unfold inverse_on. destruct (Hfind j Hj) as (k & -> & Hk & Ek). split; assumption.
Qed.

Corollary respell_renumber_inj a f :
  AllInRange a ->
  (forall i, in_range a i -> in_range a (f i)) ->
  (forall i j, in_range a i -> in_range a j -> f i = f j -> i = j) ->
  (forall i, in_range a i -> elem_at a (f i) = elem_at a i) ->
  SemEq (extend (n_atoms a) f) a (renumber f a).
Proof.
  intros HR Hr Hinj He. destruct (@inverse_on_spec (n_atoms a) f Hr Hinj) as [G1 G2].
  apply respell_renumber_on_range with (g := inverse_on (n_atoms a) f); try assumption.
  intros i Hi. split; [apply Hr, Hi | apply G1, Hi].
Qed.

(* ====================================================================== *)
(* 8. non-vacuity: two spellings of ethanol                                *)
(* ====================================================================== *)
(* a decision procedure for "the same tuple set up to direction" *)
Definition pair_mem (e : Z * Z) (l : list (Z * Z)) : bool :=
  existsb (fun p => Z.eqb (fst p) (fst e) && Z.eqb (snd p) (snd e)) l.
Definition adjb (ts : list (Z * Z)) (u v : Z) : bool := pair_mem (u, v) ts || pair_mem (v, u) ts.
Definition same_adjb (ts ts' : list (Z * Z)) : bool :=
  forallb (fun e => adjb ts' (fst e) (snd e)) ts && forallb (fun e => adjb ts (fst e) (snd e)) ts'.

Lemma pair_mem_In e l : pair_mem e l = true <-> In e l.
Proof.
  destruct e as [u v]. unfold pair_mem. rewrite existsb_exists. cbn [fst snd]. split.
  - intros ([x y] & Hin & E). cbn [fst snd] in E. apply andb_true_iff in E. destruct E as [E1 E2].
    apply Z.eqb_eq in E1, E2. subst. exact Hin.
  - intros Hin. exists (u, v). split; [exact Hin|]. cbn [fst snd]. rewrite !Z.eqb_refl. reflexivity.
Qed.
Lemma adjb_spec ts u v : adjb ts u v = true <-> adj ts u v.
Proof. unfold adjb, adj. rewrite orb_true_iff, !pair_mem_In. tauto. Qed.
Lemma same_adjb_sound ts ts' : same_adjb ts ts' = true -> forall u v, adj ts u v <-> adj ts' u v.
Proof.
  unfold same_adjb. rewrite andb_true_iff, !forallb_forall. intros [H1 H2] u v.
  split; intros [H|H].
  - apply H1 in H. apply adjb_spec in H. exact H.
  - apply H1 in H. apply adjb_spec, adj_sym in H. exact H.
  - apply H2 in H. apply adjb_spec in H. exact H.
  - apply H2 in H. apply adjb_spec, adj_sym in H. exact H.
Qed.

(* C2H6O/(1-7)(2-7)(3-7)(4-8)(5-8)(6-9)(7-8)(8-9)/(1:mass=2)(9:mass=18) : atoms 1-6 H, 7-8 C, 9 O *)
Definition eth1 : ast :=
  mkAst [(6%N, 2); (1%N, 6); (8%N, 1)]
        [(1, 7); (2, 7); (3, 7); (4, 8); (5, 8); (6, 9); (7, 8); (8, 9)]
        [(1, [(KMass, 2)]); (9, [(KMass, 18)])].
(* hydrogens renumbered 1<->6, 2<->3; tuples in reverse order, each written backwards; blocks swapped *)
Definition eth_f (i : Z) : Z := match i with 1 => 6 | 6 => 1 | 2 => 3 | 3 => 2 | _ => i end.
Definition eth2 : ast :=
  mkAst [(6%N, 2); (1%N, 6); (8%N, 1)]
        [(9, 8); (8, 7); (9, 1); (8, 5); (8, 4); (7, 2); (7, 3); (7, 6)]
        [(9, [(KMass, 18)]); (6, [(KMass, 2)])].

Example eth1_sem : sem eth1 = inr (sem_mol eth1).
Proof. vm_compute. reflexivity. Qed.
Example eth2_sem : sem eth2 = inr (sem_mol eth2).
Proof. vm_compute. reflexivity. Qed.
Example eth_graphs_differ : sem_mol eth1 <> sem_mol eth2.
Proof. vm_compute. discriminate. Qed.

Example eth1_wf : ast_wf eth1.
Proof.
  constructor; unfold eth1; cbn [items tuples blocks]; simpl In.
  - intros z c H. repeat (destruct H as [H|H]; [inversion H; subst; lia|]). contradiction.
  - intros u v H. repeat (destruct H as [H|H]; [inversion H; subst; lia|]). contradiction.
  - intros i ps H. repeat (destruct H as [H|H]; [inversion H; subst; (split; [lia|]); (split; [discriminate|]);
      intros k v Hv; simpl in Hv; repeat (destruct Hv as [Hv|Hv]; [inversion Hv; subst; lia|]); contradiction|]).
    contradiction.
Qed.

Example eth_renumbering : Renumbering eth1 eth_f eth_f.
Proof.
  assert (Hinv : forall i, eth_f (eth_f i) = i).
  { intros i. destruct i as [|p|p]; try reflexivity.
    destruct p as [p|p|]; try reflexivity; destruct p as [p|p|]; try reflexivity;
      destruct p as [p|p|]; try reflexivity; destruct p as [p|p|]; reflexivity. }
  assert (Hcases : forall i, in_range eth1 i -> i = 1 \/ i = 2 \/ i = 3 \/ i = 4 \/ i = 5 \/ i = 6 \/ i = 7 \/ i = 8 \/ i = 9).
  { intros i Hi. unfold in_range in Hi. change (n_atoms eth1) with 9 in Hi. lia. }
  constructor; try exact Hinv.
  - intros i Hi. apply Hcases in Hi. unfold in_range. change (n_atoms eth1) with 9.
    repeat (destruct Hi as [->|Hi]; [simpl; lia|]). subst i. simpl. lia.
  - intros i Hi. apply Hcases in Hi. unfold in_range. change (n_atoms eth1) with 9.
    repeat (destruct Hi as [->|Hi]; [simpl; lia|]). subst i. simpl. lia.
  - intros i Hi. apply Hcases in Hi.
    repeat (destruct Hi as [->|Hi]; [reflexivity|]). subst i. reflexivity.
Qed.

Example eth_semeq : SemEq eth_f eth1 eth2.
Proof.
  assert (S1 : SemEq eth_f eth1 (renumber eth_f eth1)) by (apply (respell_renumber eth_renumbering)).
  assert (S2 : SemEq (fun i => i) (renumber eth_f eth1) eth2).
  { apply semeq_id_intro.
    - reflexivity.
    - apply same_adjb_sound. vm_compute. reflexivity.
    - intros i. simpl. tauto.
    - simpl. apply perm_swap. }
  exact (SemEq_trans S1 S2).
Qed.

(* the same pair of spellings, reached by the named respelling steps *)
Example eth_respell : Respell eth1 eth2.
Proof.
  eapply Rs_trans; [apply (Rs_renumber eth_renumbering)|].
  unfold renumber, eth1, eth2; cbn [items tuples blocks map fst snd eth_f].
  eapply Rs_trans; [apply Rs_block_order, perm_swap|].
  eapply Rs_trans; [apply Rs_tuple_order, Permutation_rev|]. cbn [rev app].
  eapply Rs_trans; [apply (Rs_tuple_swap _ [] 8 9)|].
  eapply Rs_trans; [apply (Rs_tuple_swap _ [_] 7 8)|].
  eapply Rs_trans; [apply (Rs_tuple_swap _ [_; _] 1 9)|].
  eapply Rs_trans; [apply (Rs_tuple_swap _ [_; _; _] 5 8)|].
  eapply Rs_trans; [apply (Rs_tuple_swap _ [_; _; _; _] 4 8)|].
  eapply Rs_trans; [apply (Rs_tuple_swap _ [_; _; _; _; _] 2 7)|].
  eapply Rs_trans; [apply (Rs_tuple_swap _ [_; _; _; _; _; _] 3 7)|].
  apply (Rs_tuple_swap _ [_; _; _; _; _; _; _] 6 7 []).
Qed.

(* the theorem applied: the two graphs differ, and are related by the induced label map *)
Example eth_same_molecule :
  SameMol (lab eth_f) (sem_mol eth1) (sem_mol eth2) /\
  length (atoms (sem_mol eth2)) = 9%nat /\ length (bonds (sem_mol eth2)) = 8%nat.
Proof.
  destruct (semeq_same_molecule eth_semeq (ast_wf_IndexPos eth1_wf) eth1_sem) as (g' & Hs & HS & _).
  rewrite eth2_sem in Hs. inversion Hs; subst g'. split; [exact HS|]. split; reflexivity.
Qed.

(* a respelling that is not meaning preserving is not a SemEq: dropping a bond *)
Example eth_not_semeq f :
  ~ SemEq f eth1 (mkAst (items eth1) [(1, 7); (2, 7); (3, 7); (4, 8); (5, 8); (6, 9); (7, 8)] (blocks eth1)).
Proof.
  intros HE.
  destruct (semeq_same_molecule HE (ast_wf_IndexPos eth1_wf) eth1_sem) as (g' & Hs & _ & _ & Hb & _).
  vm_compute in Hs. inversion Hs; subst g'. vm_compute in Hb. discriminate.
Qed.

(* the same statements for a tree given as a whole *)
Corollary respell_tuple_order_ast a ts' :
  Permutation (tuples a) ts' -> SemEq (fun i => i) a (mkAst (items a) ts' (blocks a)).
Proof. destruct a as [it ts bs]. apply respell_tuple_order. Qed.
Corollary respell_block_order_ast a bs' :
  Permutation (blocks a) bs' -> SemEq (fun i => i) a (mkAst (items a) (tuples a) bs').
Proof. destruct a as [it ts bs]. apply respell_block_order. Qed.

(* the hypothesis IndexPos (guaranteed by the grammar: node_index ::= greater_than_zero) cannot be
   dropped: `sem` does not reject the index 0 and reads it as atom 1 *)
Definition h2_f (i : Z) : Z := match i with 1 => 2 | 2 => 1 | _ => i end.
Definition h2_bad : ast := mkAst [(1%N, 2)] [(0, 2)] [].
Example indexpos_needed :
  SemEq h2_f h2_bad (renumber h2_f h2_bad) /\
  sem h2_bad = inr (sem_mol h2_bad) /\ sem (renumber h2_f h2_bad) = inr (sem_mol (renumber h2_f h2_bad)) /\
  ~ SameMol (lab h2_f) (sem_mol h2_bad) (sem_mol (renumber h2_f h2_bad)).
Proof.
  split; [|split; [vm_compute; reflexivity | split; [vm_compute; reflexivity|]]].
  - apply respell_renumber with (g := h2_f).
    assert (Hinv : forall i, h2_f (h2_f i) = i).
    { intros i. destruct i as [|p|p]; try reflexivity.
      destruct p as [p|p|]; try reflexivity; destruct p as [p|p|]; reflexivity. }
    assert (Hcases : forall i, in_range h2_bad i -> i = 1 \/ i = 2).
    { intros i Hi. unfold in_range in Hi. change (n_atoms h2_bad) with 2 in Hi. lia. }
    constructor; try exact Hinv.
    + intros i Hi. apply Hcases in Hi. unfold in_range. change (n_atoms h2_bad) with 2.
      destruct Hi as [->| ->]; simpl; lia.
    + intros i Hi. apply Hcases in Hi. unfold in_range. change (n_atoms h2_bad) with 2.
      destruct Hi as [->| ->]; simpl; lia.
    + intros i Hi. apply Hcases in Hi. destruct Hi as [->| ->]; reflexivity.
  - intros (_ & _ & Hb). vm_compute in Hb. apply Permutation_length_1_inv in Hb. discriminate.
Qed.

Print Assumptions semeq_same_molecule.
Print Assumptions semeq_errors.
Print Assumptions SemEq_sym.
Print Assumptions SemEq_trans.
Print Assumptions respell_renumber.
Print Assumptions respell_renumber_inj.
Print Assumptions respell_semeq.
Print Assumptions respell_same_molecule.
Print Assumptions Respell_sym.
Print Assumptions semeq_same_tucan.
Print Assumptions respell_same_tucan.
Print Assumptions eth_same_molecule.
Print Assumptions eth_respell.
Print Assumptions eth_not_semeq.
Print Assumptions indexpos_needed.
