(* Respell.v -- C11: meaning-preserving respellings of a TUCAN string's syntax tree denote the
   same molecule.  A denotational equivalence `SemEq f a a'` on syntax trees (same formula, tuple
   sets and attribute assignments corresponding under a renumbering f of the atom indices that
   keeps every index inside its element block) gives `sem` results related by `SameMol`; every
   syntactic respelling of the property text is an instance, and `SemEq` is closed under
   composition and inverse. *)
From Coq Require Import List NArith ZArith Bool Lia Permutation.
Require Import Base Mol Parse SortProofs MolProofs SameMol ViewProofs ParseProofs.
Import ListNotations.
Local Open Scope Z_scope.
Set Implicit Arguments.

(* ====================================================================== *)
(* 1. the denotational equivalence                                         *)
(* ====================================================================== *)

(* the atoms of the formula in the order in which `sem` numbers them *)
Definition zs_of (a : ast) : list N := isort Nleb (expand (items a)).
Definition in_range (a : ast) (i : Z) : Prop := (1 <= i <= n_atoms a)%Z.
(* atomic number of the atom with 1-based index i *)
Definition elem_at (a : ast) (i : Z) : N := nth (Z.to_nat (i - 1)) (zs_of a) 0%N.

(* f renumbers the atom indices 1..n of a: a bijection (inverse g) that maps 1..n onto itself and
   every index to an index of the same element, i.e. every element block onto itself *)
Record Renumbering (a : ast) (f g : Z -> Z) : Prop := mkRenum {
  rn_gf : forall i, g (f i) = i;
  rn_fg : forall i, f (g i) = i;
  rn_range : forall i, in_range a i -> in_range a (f i);
  rn_range_inv : forall i, in_range a i -> in_range a (g i);
  rn_elem : forall i, in_range a i -> elem_at a (f i) = elem_at a i }.

(* u and v are joined by a tuple, written in either direction, any number of times *)
Definition adj (ts : list (Z * Z)) (u v : Z) : Prop := In (u, v) ts \/ In (v, u) ts.

Record SemEq (f : Z -> Z) (a a' : ast) : Prop := mkSemEq {
  se_items : items a' = items a;
  se_renum : exists g, Renumbering a f g;
  se_tuples : forall u v, adj (tuples a) u v <-> adj (tuples a') (f u) (f v);
  se_bidx : forall i, In i (map fst (blocks a)) <-> In (f i) (map fst (blocks a'));
  se_props : forall i k v, In (i, (k, v)) (flat_props (blocks a)) <-> In (f i, (k, v)) (flat_props (blocks a'));
  se_nodup : NoDupAttr a <-> NoDupAttr a' }.

(* what the grammar guarantees about indices (node_index ::= greater_than_zero); `sem` itself only
   checks the upper bound *)
Definition IndexPos (a : ast) : Prop :=
  (forall u v, In (u, v) (tuples a) -> (1 <= u)%Z /\ (1 <= v)%Z) /\
  (forall i ps, In (i, ps) (blocks a) -> (1 <= i)%Z).
Lemma ast_wf_IndexPos a : ast_wf a -> IndexPos a.
Proof.
  intros [_ Ht Hb]. split; [exact Ht|]. intros i ps Hin. apply (Hb i ps Hin).
Qed.

(* the label map induced by f on the 0-based labels of the graph *)
Definition lab (f : Z -> Z) (l : N) : N := Z.to_N (f (Z.of_N l + 1) - 1).

(* ---------- small facts ---------- *)
Lemma zs_len a : Z.of_nat (length (zs_of a)) = n_atoms a.
Proof. unfold zs_of, n_atoms. rewrite ParseProofs.isort_length. reflexivity. Qed.

Lemma in_fst_blocks (bs : list (Z * list (key * Z))) i : In i (map fst bs) <-> exists ps, In (i, ps) bs.
Proof.
  rewrite in_map_iff. split.
  - intros ([j ps] & E & Hin). simpl in E. subst j. exists ps. exact Hin.
  - intros (ps & Hin). exists (i, ps). split; [reflexivity | exact Hin].
Qed.

Lemma adj_sym ts u v : adj ts u v <-> adj ts v u.
Proof. unfold adj. tauto. Qed.

Lemma option_ext {A} (o o' : option A) : (forall v, o = Some v <-> o' = Some v) -> o = o'.
Proof.
  intros H. destruct o as [x|], o' as [y|]; try reflexivity.
  - symmetry. apply H. reflexivity.
  - pose proof (proj1 (H x) eq_refl). discriminate.
  - pose proof (proj2 (H y) eq_refl). discriminate.
Qed.

Lemma NoDup_map_inj_in {A C} (h : A -> C) l :
  (forall x y, In x l -> In y l -> h x = h y -> x = y) -> NoDup l -> NoDup (map h l).
Proof.
  induction l as [|x t IH]; intros Hinj Hnd; simpl; [constructor|].
  inversion Hnd as [|? ? Hnotin Hnd']; subst. constructor.
  - rewrite in_map_iff. intros (y & Hy & Hin). apply Hnotin.
    assert (y = x) by (apply Hinj; [right; exact Hin | left; reflexivity | exact Hy]). subst; exact Hin.
  - apply IH; [|exact Hnd']. intros p q Hp Hq. apply Hinj; right; assumption.
Qed.

Lemma NoDup_fst {A C} (l : list (A * C)) : NoDup (map fst l) -> NoDup l.
Proof. apply NoDup_map_inv. Qed.

Lemma Nseq_ge i n x : In x (N_seq i n) -> (i <= x)%N.
Proof. revert i; induction n as [|n IH]; intros i; simpl; [intros []|]. intros [<-|H]; [lia|]. apply IH in H. lia. Qed.
Lemma Nseq_NoDup i n : NoDup (N_seq i n).
Proof.
  revert i; induction n as [|n IH]; intros i; simpl; constructor; [|apply IH].
  intros H. apply Nseq_ge in H. lia.
Qed.

Lemma enumerate_from_In (zs : list N) : forall s l z,
  In (l, z) (enumerate_from s zs) <-> exists k, (k < length zs)%nat /\ l = (s + N.of_nat k)%N /\ nth k zs 0%N = z.
Proof.
  induction zs as [|y t IH]; intros s l z; simpl.
  - split; [intros [] | intros (k & Hk & _); lia].
  - split.
    + intros [E|H].
      * inversion E; subst. exists 0%nat. repeat split; lia.
      * apply IH in H. destruct H as (k & Hk & -> & <-). exists (S k). repeat split; lia.
    + intros (k & Hk & -> & <-). destruct k as [|k].
      * left. f_equal. lia.
      * right. apply IH. exists k. repeat split; lia.
Qed.

(* ---------- the atoms of sem_mol, one by one ---------- *)
Definition atom_of (a : ast) (l : N) : atom unit :=
  mkAtom l (nth (N.to_nat l) (zs_of a) 0%N)
         (find_prop (flat_props (blocks a)) (Z.of_N l + 1) KMass)
         (find_prop (flat_props (blocks a)) (Z.of_N l + 1) KRad) 0%N tt.

Lemma sem_mol_atoms_In a x :
  In x (atoms (sem_mol a)) <-> exists l, in_range a (Z.of_N l + 1) /\ x = atom_of a l.
Proof.
  unfold sem_mol, in_range; cbn [atoms]. rewrite <- zs_len. fold (zs_of a). rewrite in_map_iff. split.
  - intros ([l z] & <- & Hin). apply enumerate_from_In in Hin. destruct Hin as (k & Hk & -> & <-).
    exists (N.of_nat k). split; [lia|]. unfold atom_of. cbn [fst snd]. rewrite Nnat.Nat2N.id. reflexivity.
  - intros (l & Hl & ->). exists (l, nth (N.to_nat l) (zs_of a) 0%N). split; [reflexivity|].
    apply enumerate_from_In. exists (N.to_nat l). repeat split; lia.
Qed.

Lemma sem_mol_labels a : labels (sem_mol a) = N_seq 0 (length (zs_of a)).
Proof.
  unfold labels, sem_mol; cbn [atoms]. rewrite map_map. cbn [lbl].
  rewrite <- (map_map fst (fun x => x)), map_id. apply enumerate_from_fst.
Qed.
Lemma sem_mol_label_range a l : In l (labels (sem_mol a)) -> in_range a (Z.of_N l + 1).
Proof.
  unfold labels. rewrite in_map_iff. intros (x & <- & Hx). apply sem_mol_atoms_In in Hx.
  destruct Hx as (l & Hl & ->). exact Hl.
Qed.

(* ---------- the bonds of sem_mol ---------- *)
Definition np1 (e : Z * Z) : N * N := norm_pair (Z.to_N (fst e - 1), Z.to_N (snd e - 1)).

Lemma sem_mol_bonds a : bonds (sem_mol a) = map (fun e => (fst e, snd e, tt)) (dedup_pairs (map np1 (tuples a))).
Proof. reflexivity. Qed.

Lemma np1_swap x y : np1 (y, x) = np1 (x, y).
Proof. unfold np1; simpl. apply norm_pair_swap. Qed.

Lemma sem_mol_nbonds a :
  map (fun b : N * N * unit => norm_pair (ends b)) (bonds (sem_mol a)) = dedup_pairs (map np1 (tuples a)).
Proof.
  rewrite sem_mol_bonds, map_map. rewrite <- (map_id (dedup_pairs _)) at 2.
  apply map_ext_in. intros e He. apply dedup_pairs_In, in_map_iff in He. destruct He as (xy & <- & _).
  unfold ends; cbn [fst snd]. unfold np1. rewrite <- surjective_pairing. apply norm_pair_idem.
Qed.

Lemma sem_mol_fbonds a (F : N -> N) :
  map (fun b : N * N * unit => norm_pair (fpair F (ends b))) (bonds (sem_mol a)) =
  map (fun e => norm_pair (fpair F e)) (dedup_pairs (map np1 (tuples a))).
Proof.
  rewrite sem_mol_bonds, map_map. apply map_ext. intros [u v]. reflexivity.
Qed.

(* ====================================================================== *)
(* 2. SemEq-related syntax trees denote the same molecule                  *)
(* ====================================================================== *)
Definition AllInRange (a : ast) : Prop :=
  (forall u v, In (u, v) (tuples a) -> in_range a u /\ in_range a v) /\
  (forall i, In i (map fst (blocks a)) -> in_range a i).

Lemma AllInRange_intro a : IndexPos a -> IndicesExist a -> AllInRange a.
Proof.
  intros [Pt Pb] [It Ib]. split.
  - intros u v Hin. destruct (Pt u v Hin), (It u v Hin). unfold in_range. lia.
  - intros i Hin. apply in_fst_blocks in Hin. destruct Hin as (ps & Hin).
    pose proof (Pb i ps Hin). pose proof (Ib i ps Hin). unfold in_range. lia.
Qed.
Lemma AllInRange_elim a : AllInRange a -> IndexPos a /\ IndicesExist a.
Proof.
  intros [Ht Hb]. unfold in_range in *. split; split.
  - intros u v Hin. destruct (Ht u v Hin). lia.
  - intros i ps Hin. assert (H : In i (map fst (blocks a))) by (apply in_fst_blocks; eauto). apply Hb in H. lia.
  - intros u v Hin. destruct (Ht u v Hin). lia.
  - intros i ps Hin. assert (H : In i (map fst (blocks a))) by (apply in_fst_blocks; eauto). apply Hb in H. lia.
Qed.

Section Main.
  Variable f : Z -> Z.
  Variables a a' : ast.
  Hypothesis HE : SemEq f a a'.

  Lemma semeq_n : n_atoms a' = n_atoms a.
  Proof. unfold n_atoms. rewrite (se_items HE). reflexivity. Qed.
  Lemma semeq_zs : zs_of a' = zs_of a.
  Proof. unfold zs_of. rewrite (se_items HE). reflexivity. Qed.
  Lemma semeq_range i : in_range a' i <-> in_range a i.
  Proof. unfold in_range. rewrite semeq_n. tauto. Qed.

  Lemma semeq_noselfloop : NoSelfLoop a <-> NoSelfLoop a'.
  Proof.
    destruct (se_renum HE) as (g & Hg). split; intros H u v Hin E; subst v.
    - assert (Hadj : adj (tuples a') (f (g u)) (f (g u))) by (rewrite (rn_fg Hg); left; exact Hin).
      apply (se_tuples HE) in Hadj. destruct Hadj as [Hadj|Hadj]; exact (H _ _ Hadj eq_refl).
    - assert (Hadj : adj (tuples a) u u) by (left; exact Hin).
      apply (se_tuples HE) in Hadj. destruct Hadj as [Hadj|Hadj]; exact (H _ _ Hadj eq_refl).
  Qed.

  Lemma semeq_allinrange : AllInRange a -> AllInRange a'.
  Proof.
    destruct (se_renum HE) as (g & Hg). intros [Ht Hb]. split.
    - intros u v Hin.
      assert (Hadj : adj (tuples a') (f (g u)) (f (g v))) by (rewrite !(rn_fg Hg); left; exact Hin).
      apply (se_tuples HE) in Hadj. rewrite !semeq_range.
      rewrite <- (rn_fg Hg u), <- (rn_fg Hg v).
      destruct Hadj as [Hadj|Hadj]; destruct (Ht _ _ Hadj); split; apply (rn_range Hg); assumption.
    - intros i Hin. rewrite <- (rn_fg Hg i) in Hin. apply (se_bidx HE) in Hin. apply Hb in Hin.
      rewrite semeq_range, <- (rn_fg Hg i). apply (rn_range Hg). exact Hin.
  Qed.

  Lemma lab_spec g l : Renumbering a f g -> in_range a (Z.of_N l + 1) -> (Z.of_N (lab f l) + 1 = f (Z.of_N l + 1))%Z.
  Proof.
    intros Hg Hl. apply (rn_range Hg) in Hl. unfold lab, in_range in *. lia.
  Qed.
  Lemma lab_inj g l l' : Renumbering a f g ->
    in_range a (Z.of_N l + 1) -> in_range a (Z.of_N l' + 1) -> lab f l = lab f l' -> l = l'.
  Proof.
    intros Hg Hl Hl' E.
    assert (E' : f (Z.of_N l + 1) = f (Z.of_N l' + 1)).
    { rewrite <- (lab_spec _ Hg Hl), <- (lab_spec _ Hg Hl'), E. reflexivity. }
    apply (f_equal g) in E'. rewrite !(rn_gf Hg) in E'. lia.
  Qed.

  Lemma find_prop_corr i k : NoDupAttr a ->
    find_prop (flat_props (blocks a')) (f i) k = find_prop (flat_props (blocks a)) i k.
  Proof.
    intros ND. assert (ND' : NoDupAttr a') by (apply (se_nodup HE); exact ND).
    apply option_ext. intros v. rewrite (find_prop_In _ _ _ _ ND), (find_prop_In _ _ _ _ ND').
    symmetry. apply (se_props HE).
  Qed.

  Lemma atom_of_ident g l : Renumbering a f g -> NoDupAttr a -> in_range a (Z.of_N l + 1) ->
    ident (atom_of a' (lab f l)) = ident (atom_of a l).
  Proof.
    intros Hg ND Hl. unfold ident, atom_of. cbn [zn mass rad].
    rewrite (lab_spec _ Hg Hl), !(find_prop_corr _ _ ND), semeq_zs.
    pose proof (@rn_elem _ _ _ Hg _ Hl) as He. unfold elem_at in He.
    replace (N.to_nat (lab f l)) with (Z.to_nat (f (Z.of_N l + 1) - 1)) by (unfold lab; lia).
    rewrite He. replace (Z.to_nat (Z.of_N l + 1 - 1)) with (N.to_nat l) by lia. reflexivity.
  Qed.

  Lemma np1_lab g x y : Renumbering a f g -> in_range a x -> in_range a y ->
    norm_pair (fpair (lab f) (np1 (x, y))) = np1 (f x, f y).
  Proof.
    intros Hg Hx Hy. unfold np1 at 1. rewrite norm_fpair_norm. unfold fpair, np1, lab. cbn [fst snd].
    unfold in_range in *.
    replace (Z.of_N (Z.to_N (x - 1)) + 1)%Z with x by lia.
    replace (Z.of_N (Z.to_N (y - 1)) + 1)%Z with y by lia. reflexivity.
  Qed.

  Definition good_pair (e : N * N) : Prop :=
    (fst e <= snd e)%N /\ in_range a (Z.of_N (fst e) + 1) /\ in_range a (Z.of_N (snd e) + 1).
  Lemma np1_good x y : in_range a x -> in_range a y -> good_pair (np1 (x, y)).
  Proof.
    intros Hx Hy. unfold good_pair, np1, norm_pair, in_range in *. cbn [fst snd].
    destruct (N.leb (Z.to_N (x - 1)) (Z.to_N (y - 1))) eqn:E; cbn [fst snd];
      [apply N.leb_le in E | apply N.leb_gt in E]; lia.
  Qed.

  Theorem semeq_same_molecule_core :
    IndexPos a -> NoSelfLoop a -> NoDupAttr a -> IndicesExist a ->
    NoSelfLoop a' /\ NoDupAttr a' /\ IndicesExist a' /\ IndexPos a' /\
    SameMol (lab f) (sem_mol a) (sem_mol a').
  Proof.
    intros Hpos HL ND HI.
    pose proof (AllInRange_intro Hpos HI) as HR.
    pose proof (semeq_allinrange HR) as HR'.
    destruct (AllInRange_elim HR') as [Hpos' HI'].
    destruct (se_renum HE) as (g & Hg).
    split; [apply semeq_noselfloop; exact HL|]. split; [apply (se_nodup HE); exact ND|].
    split; [exact HI'|]. split; [exact Hpos'|].
    assert (Hinj : inj_on (lab f) (labels (sem_mol a))).
    { intros l l' Hl Hl'. apply (lab_inj _ _ Hg); apply sem_mol_label_range; assumption. }
    split; [exact Hinj|]. split.
    - (* atoms *)
      apply NoDup_Permutation.
      + apply NoDup_fst. rewrite map_map. cbn [fst].
        change (NoDup (map (fun x : atom unit => lab f (lbl x)) (atoms (sem_mol a)))).
        rewrite <- (map_map (@lbl unit) (lab f)). apply NoDup_map_inj_on; [exact Hinj|].
        change (NoDup (labels (sem_mol a))). rewrite sem_mol_labels. apply Nseq_NoDup.
      + apply NoDup_fst. rewrite map_map. cbn [fst]. change (NoDup (labels (sem_mol a'))).
        rewrite sem_mol_labels. apply Nseq_NoDup.
      + intros [l' d]. rewrite !in_map_iff. split.
        * intros (x & E & Hx). apply sem_mol_atoms_In in Hx. destruct Hx as (l & Hl & ->).
          exists (atom_of a' (lab f l)). split.
          -- rewrite (atom_of_ident _ Hg ND Hl). exact E.
          -- apply sem_mol_atoms_In. exists (lab f l). split; [|reflexivity].
             rewrite (lab_spec _ Hg Hl). apply semeq_range, (rn_range Hg), Hl.
        * intros (x' & E & Hx'). apply sem_mol_atoms_In in Hx'. destruct Hx' as (l0 & Hl0 & ->).
          apply semeq_range in Hl0.
          set (l := Z.to_N (g (Z.of_N l0 + 1) - 1)).
          assert (Hgl : in_range a (g (Z.of_N l0 + 1))) by (apply (rn_range_inv Hg); exact Hl0).
          assert (El : (Z.of_N l + 1 = g (Z.of_N l0 + 1))%Z) by (unfold l, in_range in *; lia).
          assert (Hl : in_range a (Z.of_N l + 1)) by (rewrite El; exact Hgl).
          assert (Elab : lab f l = l0).
          { pose proof (lab_spec _ Hg Hl) as H. rewrite El, (rn_fg Hg) in H. lia. }
          exists (atom_of a l). split.
          -- change (lbl (atom_of a l)) with l. rewrite <- (atom_of_ident _ Hg ND Hl), Elab. exact E.
          -- apply sem_mol_atoms_In. exists l. split; [exact Hl | reflexivity].
    - (* bonds *)
      rewrite sem_mol_fbonds, sem_mol_nbonds.
      assert (Hgood : forall e, In e (dedup_pairs (map np1 (tuples a))) -> good_pair e).
      { intros e He. apply dedup_pairs_In, in_map_iff in He. destruct He as ([x y] & <- & Hxy).
        destruct (proj1 HR _ _ Hxy). apply np1_good; assumption. }
      apply NoDup_Permutation.
      + apply NoDup_map_inj_in; [|apply dedup_pairs_NoDup].
        intros [u v] [u' v'] He He' E. apply Hgood in He, He'.
        destruct He as (Hle & Hu & Hv), He' as (Hle' & Hu' & Hv'). cbn [fst snd] in *.
        destruct (norm_pair_cases _ _ E) as [E'|E']; unfold fpair in E'; cbn [fst snd] in E'; inversion E' as [[E1 E2]].
        * apply (lab_inj _ _ Hg) in E1; [|assumption|assumption]. apply (lab_inj _ _ Hg) in E2; [|assumption|assumption].
          subst; reflexivity.
        * apply (lab_inj _ _ Hg) in E1; [|assumption|assumption]. apply (lab_inj _ _ Hg) in E2; [|assumption|assumption].
          subst. assert (u = v) by lia. subst; reflexivity.
      + apply dedup_pairs_NoDup.
      + intros p. rewrite in_map_iff. split.
        * intros (e & <- & He). apply dedup_pairs_In, in_map_iff in He. destruct He as ([x y] & <- & Hxy).
          destruct (proj1 HR _ _ Hxy) as [Hx Hy]. rewrite (np1_lab _ _ Hg Hx Hy).
          assert (Hadj : adj (tuples a) x y) by (left; exact Hxy).
          apply (se_tuples HE) in Hadj. apply dedup_pairs_In, in_map_iff. destruct Hadj as [Hadj|Hadj].
          -- exists (f x, f y). split; [reflexivity | exact Hadj].
          -- exists (f y, f x). split; [apply np1_swap | exact Hadj].
        * intros Hp. apply dedup_pairs_In, in_map_iff in Hp. destruct Hp as ([x' y'] & <- & Hxy').
          assert (Hadj : adj (tuples a') (f (g x')) (f (g y'))) by (rewrite !(rn_fg Hg); left; exact Hxy').
          apply (se_tuples HE) in Hadj. destruct Hadj as [Hadj|Hadj]; destruct (proj1 HR _ _ Hadj) as [H1 H2].
          -- exists (np1 (g x', g y')). split.
             ++ rewrite (np1_lab _ _ Hg H1 H2), !(rn_fg Hg). reflexivity.
             ++ apply dedup_pairs_In, in_map_iff. exists (g x', g y'). split; [reflexivity | exact Hadj].
          -- exists (np1 (g y', g x')). split.
             ++ rewrite (np1_lab _ _ Hg H1 H2), !(rn_fg Hg). apply np1_swap.
             ++ apply dedup_pairs_In, in_map_iff. exists (g y', g x'). split; [reflexivity | exact Hadj].
  Qed.
End Main.

(* the main theorem: the graph of the respelled tree is the graph of the original with the atoms
   renamed by the label map that f induces *)
Theorem semeq_same_molecule f a a' g :
  SemEq f a a' -> IndexPos a -> sem a = inr g ->
  exists g', sem a' = inr g' /\ SameMol (lab f) g g' /\
             length (atoms g') = length (atoms g) /\ length (bonds g') = length (bonds g) /\
             IndexPos a'.
Proof.
  intros HE Hpos Hs.
  assert (Hacc : exists g, sem a = inr g) by eauto.
  apply sem_accepts_iff in Hacc. destruct Hacc as (HL & ND & HI).
  apply sem_accepts_value in Hs. subst g.
  destruct (semeq_same_molecule_core HE Hpos HL ND HI) as (HL' & ND' & HI' & Hpos' & HS).
  assert (Hacc' : exists g', sem a' = inr g') by (apply sem_accepts_iff; auto).
  destruct Hacc' as (g' & Hs'). pose proof (sem_accepts_value _ _ Hs') as ->.
  exists (sem_mol a'). split; [exact Hs'|]. split; [exact HS|].
  destruct HS as (_ & Ha & Hb). apply Permutation_length in Ha, Hb. rewrite !map_length in Ha, Hb.
  repeat split; auto.
Qed.
