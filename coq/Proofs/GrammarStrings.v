(* GrammarStrings.v -- C10, read on strings: the reference reader accepts exactly the spellings
   of the sentences of the published grammar.

   ParseProofs states acceptance through the lexer: `ref_parse s = inr g` iff `lex_text s`
   is a token list that is a `Sentence`.  Here the lexer disappears from the statement:

     ref_parse s = inr g  <->  exists ts a, s = print_tokens ts /\ Sentence ts a /\ sem a = inr g

   i.e. s is the concatenation of the spellings of the terminals of a derivation.  The direction
   that needs work is <-: the spelling of a sentence is read back by the maximal-munch lexer as the
   very same token list (`Sentence_lex`).  With LexPrint.lex_print_roundtrip this is the decidable
   adjacency condition `lexable`, proved along the grammar:
     - every numeral of a sentence is >= 1 (Count / Index), every symbol is in the rule tables and
       so has a spelling;
     - a numeral is never directly followed by a numeral (a count is followed by a symbol or "/",
       an index by "-", ")" or ":", a property value by "," or ")");
     - a symbol is never directly followed by `mass` / `rad` (the formula is followed by "/").
   Consequently the grammar is unambiguous as a grammar of STRINGS (`spelling_unambiguous`). *)
From Coq Require Import String.
From Coq Require Import List NArith ZArith Bool Ascii Lia.
Require Import Base Mol Text Token Parse ParseProofs LexPrint.
Require Grammar Norm.
Import ListNotations.

(* ====================================================================== *)
(* 1.  Formula: Sym count? ... , symbols from the rule                      *)
(* ====================================================================== *)

Lemma nice_sym : forall z, symbol_of z <> None -> nice [TSym z].
Proof.
  intros z Hz. split; [|reflexivity].
  cbn [lexable hd_error]. unfold adj_ok. cbn [tok_valid].
  destruct (symbol_of z); [reflexivity|contradiction].
Qed.

Lemma nice_sym_count : forall z c, symbol_of z <> None -> Count c -> nice [TSym z; TNum c].
Proof.
  intros z c Hz Hc. split; [|reflexivity].
  assert (H1 : Z.leb 1 c = true) by (apply Z.leb_le; unfold Count in Hc; lia).
  cbn [lexable hd_error]. unfold adj_ok. cbn [tok_valid]. rewrite H1.
  destruct (symbol_of z); [reflexivity|contradiction].
Qed.

Lemma OptSeq_nice : forall rule ts it,
  (forall z, In z (map fst rule) -> symbol_of z <> None) ->
  OptSeq rule ts it -> nice ts.
Proof.
  intros rule ts it Hk H. induction H.
  - exact nice_nil.
  - apply IHOptSeq. intros z' Hz'. apply Hk. right; exact Hz'.
  - apply (nice_app [TSym z] ts).
    + apply nice_sym. apply Hk. left; reflexivity.
    + apply IHOptSeq. intros z' Hz'. apply Hk. right; exact Hz'.
  - apply (nice_app [TSym z; TNum c] ts).
    + apply nice_sym_count; [|assumption]. apply Hk. left; reflexivity.
    + apply IHOptSeq. intros z' Hz'. apply Hk. right; exact Hz'.
Qed.

Lemma Formula_nice : forall tf it, Formula tf it -> nice tf.
Proof.
  intros tf it [H|H].
  - apply (OptSeq_nice Parse.with_carbon tf it); [|exact H].
    intros z Hz. exact (Norm.order_of_rule_known Grammar.with_carbon_g4 z Hz).
  - apply (OptSeq_nice Parse.without_carbon tf it); [|exact H].
    intros z Hz. exact (Norm.order_of_rule_known Grammar.without_carbon_g4 z Hz).
Qed.

(* ====================================================================== *)
(* 2.  Tuples                                                               *)
(* ====================================================================== *)

Lemma Index_leb : forall i, Index i -> Z.leb 1 i = true.
Proof. intros i H. apply Z.leb_le. exact H. Qed.

Lemma Tuple_nice : forall t1 e, Tuple t1 e -> nice t1.
Proof.
  intros t1 e H. inversion H; subst. split; [|reflexivity].
  cbn [lexable hd_error]. unfold adj_ok. cbn [tok_valid].
  rewrite (Index_leb a), (Index_leb b) by assumption. reflexivity.
Qed.

Lemma Tuples_nice : forall tt tu, Tuples tt tu -> nice tt.
Proof.
  induction 1; [exact nice_nil|].
  apply nice_app; [exact (Tuple_nice _ _ H)|assumption].
Qed.

(* ====================================================================== *)
(* 3.  Node attributes                                                      *)
(* ====================================================================== *)

(* a property starts with `mass` / `rad`, so it is not `nice`; it is lexable before anything that
   does not start with a numeral, `mass` or `rad` *)
Lemma NodeProperty_lexable : forall t1 p, NodeProperty t1 p -> lexable t1 = true.
Proof.
  intros t1 p H. inversion H; subst;
    cbn [lexable hd_error]; unfold adj_ok; cbn [tok_valid];
    rewrite (Index_leb v) by assumption; reflexivity.
Qed.

Lemma NodeProperties_lexable_app : forall tps ps r, NodeProperties tps ps ->
  lexable r = true -> neutral_hd r = true -> lexable (tps ++ r) = true.
Proof.
  intros tps ps r H. revert r. induction H; intros r Hr Hn.
  - apply lexable_app; [exact (NodeProperty_lexable _ _ H)|assumption..].
  - rewrite <- app_assoc. cbn [app].
    apply lexable_app; [exact (NodeProperty_lexable _ _ H)| |reflexivity].
    cbn [lexable]. rewrite (IHNodeProperties r Hr Hn). destruct (hd_error (ts ++ r)); reflexivity.
Qed.

Lemma NodeAttribute_nice : forall t1 b, NodeAttribute t1 b -> nice t1.
Proof.
  intros t1 b H. inversion H; subst. split; [|reflexivity].
  pose proof (NodeProperties_lexable_app tps ps [TRp] H1 eq_refl eq_refl) as Hl.
  assert (Hhd : exists k r, tps ++ [TRp] = k :: r /\ (k = TMass \/ k = TRad)).
  { inversion H1 as [t1 p HP|t1 p ts ps' HP HPs]; subst; inversion HP; subst; cbn [app]; eauto. }
  destruct Hhd as (k & r & E & Hk). rewrite E in *.
  cbn [lexable hd_error] in *. rewrite Hl. unfold adj_ok. cbn [tok_valid].
  rewrite (Index_leb i) by assumption. destruct Hk; subst k; reflexivity.
Qed.

Lemma NodeAttributes_nice : forall ta bs, NodeAttributes ta bs -> nice ta.
Proof.
  induction 1; [exact nice_nil|].
  apply nice_app; [exact (NodeAttribute_nice _ _ H)|assumption].
Qed.

(* ====================================================================== *)
(* 4.  Sentences                                                            *)
(* ====================================================================== *)

Lemma nice_cons_slash : forall l, nice l -> nice (TSlash :: l).
Proof. intros l H. exact (nice_app [TSlash] l nice_slash H). Qed.

Lemma Sentence_nice : forall ts a, Sentence ts a -> nice ts.
Proof.
  intros ts a H. inversion H as [tf it tt tu HF HT | tf it tt tu ta bs HF HT HA]; subst.
  - apply nice_app; [exact (Formula_nice _ _ HF)|].
    apply nice_cons_slash. exact (Tuples_nice _ _ HT).
  - apply nice_app; [exact (Formula_nice _ _ HF)|].
    apply nice_cons_slash. apply nice_app; [exact (Tuples_nice _ _ HT)|].
    apply nice_cons_slash. exact (NodeAttributes_nice _ _ HA).
Qed.

(* the token list of a sentence satisfies the adjacency condition of the lexer *)
Theorem Sentence_lexable : forall ts a, Sentence ts a -> lexable ts = true.
Proof. intros ts a H. exact (proj1 (Sentence_nice ts a H)). Qed.

(* the spelling of a sentence is lexed back into the same token list *)
Theorem Sentence_lex : forall ts a, Sentence ts a -> lex_text (print_tokens ts) = Some ts.
Proof. intros ts a H. apply lex_print_roundtrip. exact (Sentence_lexable ts a H). Qed.

(* ====================================================================== *)
(* 5.  The lexer-free characterisation                                      *)
(* ====================================================================== *)

Theorem ref_parse_iff_sentence_string : forall s g,
  ref_parse s = inr g <->
  exists ts a, s = print_tokens ts /\ Sentence ts a /\ sem a = inr g.
Proof.
  intros s g. rewrite ref_parse_sound_complete. split.
  - intros (ts & a & El & HS & Hs). exists ts, a.
    split; [symmetry; exact (lex_text_print _ El)|]. split; assumption.
  - intros (ts & a & -> & HS & Hs). exists ts, a.
    split; [exact (Sentence_lex ts a HS)|]. split; assumption.
Qed.

Theorem accepted_iff : forall s,
  (exists g, ref_parse s = inr g) <->
  exists ts a, s = print_tokens ts /\ Sentence ts a /\
               NoSelfLoop a /\ NoDupAttr a /\ IndicesExist a.
Proof.
  intros s. split.
  - intros (g & H). apply ref_parse_iff_sentence_string in H.
    destruct H as (ts & a & E & HS & Hs). exists ts, a.
    split; [assumption|]. split; [assumption|].
    apply sem_accepts_iff. exists g. exact Hs.
  - intros (ts & a & E & HS & Hc). apply sem_accepts_iff in Hc. destruct Hc as (g & Hg).
    exists g. apply ref_parse_iff_sentence_string. exists ts, a. auto.
Qed.

(* the returned graph, without the lexer *)
Theorem ref_parse_iff_sentence_string_graph : forall s g,
  ref_parse s = inr g <->
  exists ts a, s = print_tokens ts /\ Sentence ts a /\
               NoSelfLoop a /\ NoDupAttr a /\ IndicesExist a /\ g = sem_mol a.
Proof.
  intros s g. rewrite ref_parse_accepts_iff. split.
  - intros (ts & a & El & HS & Hc). exists ts, a.
    split; [symmetry; exact (lex_text_print _ El)|]. split; assumption.
  - intros (ts & a & -> & HS & Hc). exists ts, a.
    split; [exact (Sentence_lex ts a HS)|]. split; assumption.
Qed.

(* The published grammar is unambiguous as a grammar of strings: a string is the spelling of at
   most one sentence, with one syntax tree. *)
Theorem spelling_unambiguous : forall ts a ts' a',
  Sentence ts a -> Sentence ts' a' -> print_tokens ts = print_tokens ts' -> ts = ts' /\ a = a'.
Proof.
  intros ts a ts' a' H H' E.
  pose proof (Sentence_lex ts a H) as L. pose proof (Sentence_lex ts' a' H') as L'.
  rewrite E, L' in L. inversion L; subst ts'.
  split; [reflexivity|]. exact (Sentence_unambiguous H H').
Qed.

(* A string that is not the spelling of a sentence is rejected, and the kind of the rejection says
   whether it is a sequence of terminals at all. *)
Theorem not_sentence_string_rejected : forall s,
  (forall ts a, s = print_tokens ts -> ~ Sentence ts a) ->
  ref_parse s = inl ELex \/ ref_parse s = inl ESyntax.
Proof.
  intros s Hn. destruct (lex_text s) as [ts|] eqn:El.
  - right. apply ref_parse_syntax_error. exists ts. split; [exact El|].
    intros a. apply Hn. symmetry. exact (lex_text_print _ El).
  - left. apply ref_parse_lex_error. exact El.
Qed.

(* ====================================================================== *)
(* 6.  The number rules, character by character                             *)
(* ====================================================================== *)

Lemma lexable_all_valid : forall ts, lexable ts = true -> forall k, In k ts -> tok_valid k = true.
Proof.
  induction ts as [|k0 r IH]; intros Hl k Hin; [destruct Hin|].
  pose proof (lexable_hd_valid _ _ Hl) as Hk0.
  cbn [lexable] in Hl. apply andb_true_iff in Hl. destruct Hl as [_ Hr].
  destruct Hin as [<-|Hin]; [exact Hk0|exact (IH Hr k Hin)].
Qed.

(* every numeral of a sentence is at least 1 ... *)
Theorem Sentence_numerals_pos : forall ts a, Sentence ts a -> forall z, In (TNum z) ts -> (1 <= z)%Z.
Proof.
  intros ts a H z Hin.
  pose proof (lexable_all_valid ts (Sentence_lexable ts a H) _ Hin) as Hv.
  cbn [tok_valid] in Hv. apply Z.leb_le. exact Hv.
Qed.

(* ... and every symbol token of a sentence has a spelling *)
Theorem Sentence_symbols_spelled : forall ts a, Sentence ts a ->
  forall z, In (TSym z) ts -> exists sp, symbol_of z = Some sp /\ print_token (TSym z) = sp /\ sp <> [].
Proof.
  intros ts a H z Hin.
  pose proof (lexable_all_valid ts (Sentence_lexable ts a H) _ Hin) as Hv.
  cbn [tok_valid] in Hv. cbn [print_token].
  destruct (symbol_of z) as [sp|] eqn:Es; [|discriminate].
  exists sp. split; [reflexivity|]. split; [reflexivity|].
  destruct (symbol_of_spec _ _ Es) as [Hshape _]. intros ->. discriminate Hshape.
Qed.

(* greater_than_zero / greater_than_one, as written: a non-empty run of decimal digits, no sign,
   no leading zero *)
Theorem Sentence_numerals_spelling : forall ts a, Sentence ts a ->
  forall z, In (TNum z) ts ->
  exists c d, print_token (TNum z) = c :: d /\ is_digit c = true /\ c <> "0"%char /\
              forallb is_digit d = true.
Proof.
  intros ts a H z Hin.
  destruct (text_of_Z_pos z (Sentence_numerals_pos ts a H z Hin)) as (c & d & Et & Hc & Hc0 & Hd & _).
  exists c, d. split; [exact Et|]. split; [exact Hc|]. split; [|exact Hd].
  intros ->. discriminate Hc0.
Qed.

(* the same, for an accepted string: it is the concatenation of the spellings of a token list
   in which every numeral is written that way *)
Theorem accepted_numerals_spelling : forall s g, ref_parse s = inr g ->
  exists ts, s = print_tokens ts /\
    forall z, In (TNum z) ts ->
    exists c d, print_token (TNum z) = c :: d /\ is_digit c = true /\ c <> "0"%char /\
                forallb is_digit d = true.
Proof.
  intros s g H. apply ref_parse_iff_sentence_string in H. destruct H as (ts & a & E & HS & _).
  exists ts. split; [exact E|]. exact (Sentence_numerals_spelling ts a HS).
Qed.

(* ====================================================================== *)
(* 7.  Non-vacuity                                                          *)
(* ====================================================================== *)

(* ethanol, deuterium on the hydroxyl hydrogen, a 13C radical centre:
   "C2H6O/(1-7)(2-7)(3-7)(4-8)(5-8)(6-9)(7-8)(8-9)/(6:mass=2)(7:mass=13,rad=2)" *)
Definition ex_ethanol_ast : ast :=
  mkAst [(6%N, 2%Z); (1%N, 6%Z); (8%N, 1%Z)]
        [(1, 7); (2, 7); (3, 7); (4, 8); (5, 8); (6, 9); (7, 8); (8, 9)]%Z
        [(6%Z, [(KMass, 2%Z)]); (7%Z, [(KMass, 13%Z); (KRad, 2%Z)])].

Lemma ex_ethanol_tok_ok : Forall tok_ok ex_ethanol_tokens.
Proof. unfold ex_ethanol_tokens. repeat constructor; cbn [tok_ok]; lia. Qed.

Example ex_ethanol_sentence : Sentence ex_ethanol_tokens ex_ethanol_ast.
Proof. apply parse_tokens_sound; [exact ex_ethanol_tok_ok|]. vm_compute. reflexivity. Qed.

Example ex_ethanol_string :
  print_tokens ex_ethanol_tokens =
  t "C2H6O/(1-7)(2-7)(3-7)(4-8)(5-8)(6-9)(7-8)(8-9)/(6:mass=2)(7:mass=13,rad=2)".
Proof. vm_compute. reflexivity. Qed.

(* theorem 2 on the example (the conclusion is also checked by computation in LexPrint) *)
Example ex_ethanol_sentence_lex : lex_text (print_tokens ex_ethanol_tokens) = Some ex_ethanol_tokens.
Proof. exact (Sentence_lex _ _ ex_ethanol_sentence). Qed.

Example ex_ethanol_sem : sem ex_ethanol_ast = inr (sem_mol ex_ethanol_ast).
Proof. vm_compute. reflexivity. Qed.

(* theorem 3 on the example, right to left: the string is accepted because it spells a sentence *)
Example ex_ethanol_accepted_by_grammar :
  ref_parse (t "C2H6O/(1-7)(2-7)(3-7)(4-8)(5-8)(6-9)(7-8)(8-9)/(6:mass=2)(7:mass=13,rad=2)")
  = inr (sem_mol ex_ethanol_ast).
Proof.
  apply ref_parse_iff_sentence_string. exists ex_ethanol_tokens, ex_ethanol_ast.
  split; [symmetry; exact ex_ethanol_string|]. split; [exact ex_ethanol_sentence|exact ex_ethanol_sem].
Qed.

Example ex_ethanol_accepted :
  exists g, ref_parse (t "C2H6O/(1-7)(2-7)(3-7)(4-8)(5-8)(6-9)(7-8)(8-9)/(6:mass=2)(7:mass=13,rad=2)") = inr g.
Proof.
  apply accepted_iff. exists ex_ethanol_tokens, ex_ethanol_ast.
  split; [symmetry; exact ex_ethanol_string|]. split; [exact ex_ethanol_sentence|].
  apply sem_accepts_iff. eexists. exact ex_ethanol_sem.
Qed.

(* theorem 3 left to right: the witnesses are forced (spelling_unambiguous) *)
Example ex_ethanol_unique : forall ts a,
  Sentence ts a -> print_tokens ts = print_tokens ex_ethanol_tokens ->
  ts = ex_ethanol_tokens /\ a = ex_ethanol_ast.
Proof. intros ts a H E. exact (spelling_unambiguous _ _ _ _ H ex_ethanol_sentence E). Qed.

(* The hypotheses matter: token lists that are NOT sentences need not survive spelling.
   "C" "mass" is read "Cm" "ass"; "1" "2" is read "12"; and the token list [C; 1; H4; /]
   (count 1, not in the grammar) does survive but is not a sentence. *)
Example ex_non_sentences :
  lex_text (print_tokens [TSym 6; TMass]) = None /\
  lex_text (print_tokens [TNum 1; TNum 2]) = Some [TNum 12] /\
  (lex_text (print_tokens [TSym 6; TNum 1; TSym 1; TNum 4; TSlash]) = Some [TSym 6; TNum 1; TSym 1; TNum 4; TSlash]
   /\ forall a, ~ Sentence [TSym 6; TNum 1; TSym 1; TNum 4; TSlash] a).
Proof.
  split; [vm_compute; reflexivity|]. split; [vm_compute; reflexivity|].
  split; [vm_compute; reflexivity|].
  intros a H. apply parse_tokens_complete in H. vm_compute in H. discriminate H.
Qed.

(* numerals of the example, character by character *)
Example ex_ethanol_numeral :
  In (TNum 13) ex_ethanol_tokens /\ print_token (TNum 13) = ["1"; "3"]%char.
Proof. split; [vm_compute; tauto|vm_compute; reflexivity]. Qed.

Print Assumptions Sentence_lexable.
Print Assumptions Sentence_lex.
Print Assumptions ref_parse_iff_sentence_string.
Print Assumptions accepted_iff.
Print Assumptions ref_parse_iff_sentence_string_graph.
Print Assumptions spelling_unambiguous.
Print Assumptions not_sentence_string_rejected.
Print Assumptions Sentence_numerals_pos.
Print Assumptions Sentence_symbols_spelled.
Print Assumptions Sentence_numerals_spelling.
Print Assumptions accepted_numerals_spelling.
Print Assumptions ex_ethanol_sentence.
Print Assumptions ex_ethanol_sentence_lex.
Print Assumptions ex_ethanol_accepted_by_grammar.
Print Assumptions ex_ethanol_accepted.
Print Assumptions ex_ethanol_unique.
Print Assumptions ex_non_sentences.
