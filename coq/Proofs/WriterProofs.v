(* WriterProofs.v -- lemmas about the V3000 writer (Model/Writer.v) and about how the V3000
   reader's continuation logic (Model/V3000.v: concat_dash, tokenize) undoes the writer's
   line wrapping.  Property C09. *)
From Coq Require Import String Lia Arith DecimalString.
Require Import Base Mol Text Molfile V3000 Writer.
Require Params.

Local Open Scope list_scope.
Local Open Scope nat_scope.

(* ------------------------------------------------------------------------------------ *)
(* 0. small facts on lists / texts                                                       *)
(* ------------------------------------------------------------------------------------ *)

(* [text] and [list ascii] are convertible but not syntactically equal: normalise before lia *)
Ltac tlia := unfold text in *; cbn [length app map] in *; lia.

Lemma ascii_eqb_refl : forall a, ascii_eqb a a = true.
Proof. intro a. unfold ascii_eqb. apply N.eqb_refl. Qed.

Lemma starts_with_app : forall p x, starts_with p (p ++ x) = true.
Proof.
  induction p as [|a p IH]; intro x; [reflexivity|].
  cbn [app starts_with]. rewrite ascii_eqb_refl, IH. reflexivity.
Qed.

Lemma ends_with_char_snoc : forall n l c, ends_with_char n (l ++ [c]) = is_code n c.
Proof. intros n l c. unfold ends_with_char. rewrite rev_unit. reflexivity. Qed.

Lemma ends_with_char_app : forall n a b, b <> [] -> ends_with_char n (a ++ b) = ends_with_char n b.
Proof.
  intros n a b Hb. destruct (exists_last Hb) as [b' [c ->]].
  rewrite app_assoc, !ends_with_char_snoc. reflexivity.
Qed.

Lemma skipn_app_exact : forall {A : Type} (a b : list A) n, length a = n -> skipn n (a ++ b) = b.
Proof.
  intros A a b n <-. rewrite skipn_app, skipn_all, Nat.sub_diag. reflexivity.
Qed.

Lemma is_code_dash : is_code 45 dash = true.
Proof. vm_compute. reflexivity. Qed.

(* ------------------------------------------------------------------------------------ *)
(* 1. the reader's splice loop: unfolding and fuel                                        *)
(* ------------------------------------------------------------------------------------ *)

(* "this line asks for a continuation" *)
Definition continues (l : text) : bool := starts_with v30 l && ends_with_char 45%N l.

Lemma concat_dash_nil : forall f, concat_dash f [] = ok [].
Proof. destruct f; reflexivity. Qed.

Lemma concat_dash_one : forall f cur, concat_dash f [cur] = ok [cur].
Proof. destruct f; reflexivity. Qed.

Lemma concat_dash_step : forall f cur next rest,
  concat_dash (S f) (cur :: next :: rest) =
  if continues cur then
    if starts_with v30 next then concat_dash f ((removelast cur ++ skipn 7 next) :: rest)
    else inl EParser
  else do r <- concat_dash f (next :: rest); ok (cur :: r).
Proof. reflexivity. Qed.

(* any fuel that covers the number of lines gives the same answer *)
Lemma concat_dash_fuel : forall f1 lines f2,
  length lines <= f1 -> length lines <= f2 -> concat_dash f1 lines = concat_dash f2 lines.
Proof.
  induction f1 as [|f1 IH]; intros lines f2 H1 H2.
  - destruct lines; [|simpl in H1; lia]. rewrite !concat_dash_nil. reflexivity.
  - destruct lines as [|cur [|next rest]].
    + rewrite !concat_dash_nil. reflexivity.
    + rewrite !concat_dash_one. reflexivity.
    + destruct f2 as [|f2]; [simpl in H2; lia|].
      rewrite !concat_dash_step. simpl in H1, H2.
      destruct (continues cur).
      * destruct (starts_with v30 next); [|reflexivity].
        apply IH; simpl; lia.
      * rewrite (IH (next :: rest) f2); [reflexivity| |]; simpl; lia.
Qed.

Lemma concat_dash_fuel_len : forall f lines,
  length lines <= f -> concat_dash f lines = concat_dash (length lines) lines.
Proof. intros. apply concat_dash_fuel; lia. Qed.

(* a line that does not ask for a continuation is passed through *)
Lemma concat_dash_plain : forall f cur rest,
  continues cur = false -> length (cur :: rest) <= f ->
  concat_dash f (cur :: rest) = do r <- concat_dash (length rest) rest; ok (cur :: r).
Proof.
  intros f cur rest Hc Hf. destruct f as [|f]; [simpl in Hf; lia|].
  destruct rest as [|next rest].
  - reflexivity.
  - rewrite concat_dash_step, Hc. simpl in Hf.
    rewrite (concat_dash_fuel_len f (next :: rest)); [reflexivity|simpl; lia].
Qed.

(* ------------------------------------------------------------------------------------ *)
(* 2. the wrapping loop, for arbitrary limit / chunk / prefix                            *)
(* ------------------------------------------------------------------------------------ *)

Section GWrap.
  Variables (limit chunk : nat) (p : text).

  (* the pieces before the prefix is put in front *)
  Fixpoint gchunks (fuel : nat) (line : text) : list text :=
    match fuel with
    | O => [line]
    | S f => if Nat.leb (length line) limit then [line]
             else (firstn chunk line ++ [dash]) :: gchunks f (skipn chunk line)
    end.
  Definition gwrap (fuel : nat) (line : text) : list text := map (app p) (gchunks fuel line).

  Lemma gchunks_S : forall f line,
    gchunks (S f) line =
    if Nat.leb (length line) limit then [line]
    else (firstn chunk line ++ [dash]) :: gchunks f (skipn chunk line).
  Proof. reflexivity. Qed.

  Lemma gchunks_nonempty : forall f line, exists c cs, gchunks f line = c :: cs.
  Proof.
    destruct f; intro line; [eexists; eexists; reflexivity|].
    rewrite gchunks_S. destruct (Nat.leb (length line) limit); eexists; eexists; reflexivity.
  Qed.

  (* ---- line lengths ---- *)
  Section Length.
    Variable bound : nat.
    Hypothesis Hchunk : 1 <= chunk.
    Hypothesis Hwrapped : length p + chunk + 1 <= bound.
    Hypothesis Hlast : length p + limit <= bound.

    Lemma gwrap_length : forall f line,
      length line <= f + limit -> Forall (fun l => length l <= bound) (gwrap f line).
    Proof.
      unfold gwrap. induction f as [|f IH]; intros line Hf.
      - cbn [gchunks map]. constructor; [|constructor]. rewrite app_length. simpl in Hf. lia.
      - rewrite gchunks_S. destruct (Nat.leb (length line) limit) eqn:E.
        + apply Nat.leb_le in E. cbn [map]. constructor; [|constructor]. rewrite app_length. lia.
        + apply Nat.leb_gt in E. cbn [map]. constructor.
          * rewrite !app_length, firstn_length. simpl. lia.
          * apply IH. rewrite skipn_length. lia.
    Qed.
  End Length.

  (* ---- content: dropping prefix and continuation dashes gives the line back ---- *)
  Fixpoint gunwrap (n : nat) (ls : list text) : text :=
    match ls with
    | [] => []
    | x :: r => match r with
                | [] => skipn n x
                | _ :: _ => removelast (skipn n x) ++ gunwrap n r
                end
    end.

  Lemma gunwrap_cons2 : forall n x y r,
    gunwrap n (x :: y :: r) = removelast (skipn n x) ++ gunwrap n (y :: r).
  Proof. reflexivity. Qed.

  Lemma gwrap_content : forall f line, gunwrap (length p) (gwrap f line) = line.
  Proof.
    unfold gwrap. induction f as [|f IH]; intro line.
    - cbn [gchunks map gunwrap]. apply skipn_app_exact. reflexivity.
    - rewrite gchunks_S. destruct (Nat.leb (length line) limit).
      + cbn [map gunwrap]. apply skipn_app_exact. reflexivity.
      + specialize (IH (skipn chunk line)).
        destruct (gchunks_nonempty f (skipn chunk line)) as [c [cs E]].
        rewrite E in *. cbn [map] in *. rewrite gunwrap_cons2.
        unfold text in *. rewrite IH, skipn_app_exact by reflexivity.
        rewrite removelast_last. apply firstn_skipn.
    Qed.

  (* ---- the reader undoes the wrapping ---- *)
  Section Reader.
    Hypothesis Hp_len : length p = 7.
    Hypothesis Hp_v30 : forall x, starts_with v30 (p ++ x) = true.

    (* acc: what previous splices have already accumulated behind the prefix *)
    Lemma concat_dash_gchunks : forall f line acc c cs rest fuel,
      gchunks f line = c :: cs ->
      ends_with_char 45%N (p ++ acc ++ line) = false ->
      S (length cs) + length rest <= fuel ->
      concat_dash fuel ((p ++ acc ++ c) :: map (app p) cs ++ rest)
      = do r <- concat_dash (length rest) rest; ok ((p ++ acc ++ line) :: r).
    Proof.
      induction f as [|f IH]; intros line acc c cs rest fuel E Hend Hfuel.
      - cbn [gchunks] in E. injection E as <- <-. cbn [map app].
        apply concat_dash_plain.
        + unfold continues. rewrite Hend. apply andb_false_r.
        + tlia.
      - rewrite gchunks_S in E. destruct (Nat.leb (length line) limit).
        + injection E as <- <-. cbn [map app].
          apply concat_dash_plain.
          * unfold continues. rewrite Hend. apply andb_false_r.
          * tlia.
        + injection E as <- <-.
          destruct (gchunks_nonempty f (skipn chunk line)) as [c' [cs' E']].
          rewrite E' in *. cbn [map app length] in *.
          destruct fuel as [|fuel]; [lia|].
          rewrite concat_dash_step.
          assert (Hc : continues (p ++ acc ++ firstn chunk line ++ [dash]) = true).
          { unfold continues. rewrite Hp_v30.
            rewrite !app_assoc, ends_with_char_snoc. apply is_code_dash. }
          rewrite Hc, Hp_v30.
          replace (removelast (p ++ acc ++ firstn chunk line ++ [dash]) ++ skipn 7 (p ++ c'))
            with (p ++ (acc ++ firstn chunk line) ++ c').
          * rewrite (IH (skipn chunk line) (acc ++ firstn chunk line) c' cs' rest fuel E').
            -- rewrite <- !app_assoc, firstn_skipn. reflexivity.
            -- rewrite <- !app_assoc, firstn_skipn. exact Hend.
            -- lia.
          * rewrite (skipn_app_exact p c' 7 Hp_len).
            rewrite !app_assoc, removelast_last. reflexivity.
    Qed.

    Lemma concat_dash_gwrap : forall f line rest fuel,
      ends_with_char 45%N (p ++ line) = false ->
      length (gwrap f line ++ rest) <= fuel ->
      concat_dash fuel (gwrap f line ++ rest)
      = do r <- concat_dash (length rest) rest; ok ((p ++ line) :: r).
    Proof.
      intros f line rest fuel Hend Hfuel. unfold gwrap in *.
      destruct (gchunks_nonempty f line) as [c [cs E]]. rewrite E in *.
      cbn [map app] in *.
      apply (concat_dash_gchunks f line [] c cs rest fuel E Hend).
      unfold text in *. cbn [length] in Hfuel. rewrite app_length, map_length in Hfuel. lia.
    Qed.
  End Reader.
End GWrap.

(* ------------------------------------------------------------------------------------ *)
(* 3. instantiation with the generated constants (gen/Params.v)                          *)
(*    If the constants change, the side conditions below are what stops compiling.       *)
(* ------------------------------------------------------------------------------------ *)

Definition max_line : nat := 79.       (* 80 with the newline *)

Lemma wrap_S : forall f line,
  wrap (S f) line =
  if Nat.leb (length line) Params.wrap_limit then [prefix ++ line]
  else (prefix ++ firstn Params.wrap_chunk line ++ [dash]) :: wrap f (skipn Params.wrap_chunk line).
Proof. reflexivity. Qed.

Lemma wrap_gwrap : forall f line,
  wrap f line = gwrap Params.wrap_limit Params.wrap_chunk prefix f line.
Proof.
  unfold gwrap. induction f as [|f IH]; intro line; [reflexivity|].
  rewrite wrap_S, gchunks_S. destruct (Nat.leb (length line) Params.wrap_limit); [reflexivity|].
  cbn [map]. rewrite IH. reflexivity.
Qed.

(* side conditions on the constants *)
Lemma params_chunk_pos : 1 <= Params.wrap_chunk.
Proof. apply Nat.leb_le. vm_compute. reflexivity. Qed.
Lemma params_chunk_le_limit : Params.wrap_chunk <= Params.wrap_limit.
Proof. apply Nat.leb_le. vm_compute. reflexivity. Qed.
Lemma params_wrapped_fits : length prefix + Params.wrap_chunk + 1 <= max_line.
Proof. apply Nat.leb_le. vm_compute. reflexivity. Qed.
Lemma params_last_fits : length prefix + Params.wrap_limit <= max_line.
Proof. apply Nat.leb_le. vm_compute. reflexivity. Qed.
Lemma prefix_length : length prefix = 7.
Proof. vm_compute. reflexivity. Qed.
Lemma prefix_is_v30 : prefix = v30.
Proof. vm_compute. reflexivity. Qed.
Lemma prefix_no_dash : ends_with_char 45%N prefix = false.
Proof. vm_compute. reflexivity. Qed.
Lemma prefix_v30 : forall x, starts_with v30 (prefix ++ x) = true.
Proof. intro x. rewrite prefix_is_v30. apply starts_with_app. Qed.

(* ---- priority 1: line lengths ---- *)
Lemma wrap_line_length : forall line, Forall (fun l => length l <= max_line) (v30_line line).
Proof.
  intro line. unfold v30_line. rewrite wrap_gwrap.
  apply gwrap_length.
  - exact params_chunk_pos.
  - exact params_wrapped_fits.
  - exact params_last_fits.
  - lia.
Qed.

Lemma header_length : forall line2,
  length line2 <= max_line -> Forall (fun l => length l <= max_line) (header line2).
Proof.
  intros line2 H. unfold header.
  apply Forall_cons; [apply Nat.le_0_l|].
  apply Forall_cons; [exact H|].
  apply Forall_cons; [apply Nat.le_0_l|].
  apply Forall_cons; [|apply Forall_nil].
  apply Nat.leb_le. vm_compute. reflexivity.
Qed.

Lemma flat_map_v30_length : forall (A : Type) (f : A -> text) (l : list A),
  Forall (fun l => length l <= max_line) (flat_map (fun x => v30_line (f x)) l).
Proof. intros A f l. apply Forall_flat_map, Forall_forall. intros x _. apply wrap_line_length. Qed.

Lemma write_lines_length : forall line2 m,
  length line2 <= max_line -> Forall (fun l => length l <= max_line) (write_lines line2 m).
Proof.
  intros line2 m H. unfold write_lines.
  repeat (apply Forall_app; split);
    try apply wrap_line_length; try apply flat_map_v30_length; try (apply header_length; exact H).
  - destruct (bonds m); [constructor|].
    repeat (apply Forall_app; split); try apply wrap_line_length; apply flat_map_v30_length.
  - constructor; [|constructor]. apply Nat.leb_le. vm_compute. reflexivity.
Qed.

(* how many lines: short lines are not wrapped, long ones are *)
Lemma v30_line_short : forall line,
  length line <= Params.wrap_limit -> v30_line line = [prefix ++ line].
Proof.
  intros line H. unfold v30_line. destruct (length line) eqn:E; [reflexivity|].
  rewrite wrap_S, E. apply Nat.leb_le in H. rewrite H. reflexivity.
Qed.

Lemma v30_line_long : forall line,
  Params.wrap_limit < length line ->
  v30_line line = (prefix ++ firstn Params.wrap_chunk line ++ [dash])
                  :: wrap (pred (length line)) (skipn Params.wrap_chunk line).
Proof.
  intros line H. unfold v30_line. destruct (length line) eqn:E; [lia|].
  rewrite wrap_S, E. apply Nat.leb_gt in H. rewrite H. reflexivity.
Qed.

(* ---- priority 2: content ---- *)
(* drop the 7-character prefix of every line and the last character (the continuation dash)
   of every line but the last, and concatenate *)
Definition unwrap_spec (ls : list text) : text := gunwrap 7 ls.

Lemma unwrap_spec_eqns :
  unwrap_spec [] = [] /\
  (forall x, unwrap_spec [x] = skipn 7 x) /\
  (forall x y r, unwrap_spec (x :: y :: r) = removelast (skipn 7 x) ++ unwrap_spec (y :: r)).
Proof. repeat split. Qed.

Lemma wrap_content : forall line, unwrap_spec (v30_line line) = line.
Proof.
  intro line. unfold unwrap_spec, v30_line. rewrite wrap_gwrap, <- prefix_length.
  apply gwrap_content.
Qed.

(* ---- priority 3: the reader undoes the writer ---- *)
Lemma no_dash_prefix : forall line,
  ends_with_char 45%N line = false -> ends_with_char 45%N (prefix ++ line) = false.
Proof.
  intros line H. destruct line as [|c l].
  - rewrite app_nil_r. exact prefix_no_dash.
  - rewrite ends_with_char_app; [exact H|discriminate].
Qed.

Theorem unwrap_wrap : forall line rest fuel,
  ends_with_char 45%N line = false ->
  length (v30_line line ++ rest) <= fuel ->
  concat_dash fuel (v30_line line ++ rest)
  = do r <- concat_dash (length rest) rest; ok ((prefix ++ line) :: r).
Proof.
  intros line rest fuel Hend Hfuel. unfold v30_line in *. rewrite wrap_gwrap in *.
  apply concat_dash_gwrap.
  - exact prefix_length.
  - exact prefix_v30.
  - apply no_dash_prefix, Hend.
  - exact Hfuel.
Qed.

(* blocks: [A] is read as [A'] whatever follows *)
Definition cd_block (A A' : list text) : Prop :=
  forall rest fuel, length (A ++ rest) <= fuel ->
  concat_dash fuel (A ++ rest) = do r <- concat_dash (length rest) rest; ok (A' ++ r).

Lemma cd_block_nil : cd_block [] [].
Proof.
  intros rest fuel H. cbn [app] in *. rewrite (concat_dash_fuel_len fuel rest H).
  destruct (concat_dash (length rest) rest); reflexivity.
Qed.

Lemma cd_block_plain : forall cur, continues cur = false -> cd_block [cur] [cur].
Proof. intros cur Hc rest fuel H. cbn [app] in *. apply concat_dash_plain; assumption. Qed.

Lemma cd_block_v30 : forall line, ends_with_char 45%N line = false -> cd_block (v30_line line) [prefix ++ line].
Proof. intros line Hend rest fuel H. apply unwrap_wrap; assumption. Qed.

Lemma cd_block_app : forall A A' B B', cd_block A A' -> cd_block B B' -> cd_block (A ++ B) (A' ++ B').
Proof.
  intros A A' B B' HA HB rest fuel H. rewrite <- !app_assoc in *.
  rewrite (HA (B ++ rest) fuel H).
  rewrite (HB rest (length (B ++ rest))) by lia.
  destruct (concat_dash (length rest) rest); cbn [bind ok]; [reflexivity|].
  rewrite app_assoc. reflexivity.
Qed.

Lemma cd_block_flat_map : forall (X : Type) (f : X -> list text) (g : X -> list text) (l : list X),
  (forall x, In x l -> cd_block (f x) (g x)) -> cd_block (flat_map f l) (flat_map g l).
Proof.
  intros X f g l. induction l as [|x l IH]; intro H.
  - exact cd_block_nil.
  - cbn [flat_map]. apply cd_block_app.
    + apply H. left. reflexivity.
    + apply IH. intros y Hy. apply H. right. exact Hy.
Qed.

Lemma cd_block_all_plain : forall ls, Forall (fun l => continues l = false) ls -> cd_block ls ls.
Proof.
  induction 1 as [|x l Hx _ IH]; [exact cd_block_nil|].
  change (cd_block ([x] ++ l) ([x] ++ l)). apply cd_block_app; [apply cd_block_plain, Hx|exact IH].
Qed.

Lemma cd_block_run : forall A A' fuel, cd_block A A' -> length A <= fuel -> concat_dash fuel A = ok A'.
Proof.
  intros A A' fuel H Hf. specialize (H [] fuel). rewrite !app_nil_r in H.
  rewrite H by exact Hf. cbn. rewrite app_nil_r. reflexivity.
Qed.

Lemma concat_dash_write : forall contents : list text,
  Forall (fun l => ends_with_char 45%N l = false) contents ->
  cd_block (flat_map v30_line contents) (map (app prefix) contents).
Proof.
  intros contents H.
  replace (map (app prefix) contents) with (flat_map (fun l => [prefix ++ l]) contents)
    by (induction contents; [reflexivity|cbn [flat_map map app]; f_equal; assumption]).
  apply cd_block_flat_map. intros x Hx. apply cd_block_v30.
  rewrite Forall_forall in H. apply H, Hx.
Qed.

Theorem tokenize_lines_write : forall contents : list text,
  Forall (fun l => ends_with_char 45%N l = false) contents ->
  tokenize_lines (flat_map v30_line contents) = ok (map (fun l => tokenize (prefix ++ l)) contents).
Proof.
  intros contents H. unfold tokenize_lines.
  rewrite (cd_block_run _ _ (length (flat_map v30_line contents)) (concat_dash_write contents H)) by lia.
  cbn. rewrite map_map. reflexivity.
Qed.

(* ------------------------------------------------------------------------------------ *)
(* 4. tokenisation                                                                       *)
(* ------------------------------------------------------------------------------------ *)

Definition spacefree (tk : text) : Prop := Forall (fun c => is_space c = false) tk.
(* a token: non-empty, no character Python's str.rstrip()/the split on " " would eat *)
Definition good_tok (tk : text) : Prop := tk <> [] /\ spacefree tk.
(* the split on " " without the empty fields, before rstrip *)
Definition toks (l : text) : list text := filter nonempty (split_on (is_code 32%N) l).

Lemma tokenize_toks : forall l, tokenize l = toks (rstrip l).
Proof. reflexivity. Qed.

Lemma is_space_code32 : forall c, is_space c = false -> is_code 32%N c = false.
Proof.
  intros c H. unfold is_space in H. cbv zeta in H.
  repeat (apply orb_false_iff in H; destruct H as [H _]). exact H.
Qed.

Lemma is_code_sp : is_code 32%N sp = true.
Proof. vm_compute. reflexivity. Qed.
Lemma is_space_sp : is_space sp = true.
Proof. vm_compute. reflexivity. Qed.

Lemma split_on_aux_tok : forall f tok cur l,
  Forall (fun c => f c = false) tok ->
  split_on_aux f cur (tok ++ l) = split_on_aux f (rev tok ++ cur) l.
Proof.
  intros f tok. induction tok as [|c tok IH]; intros cur l H; [reflexivity|].
  inversion H as [|? ? Hc Ht]; subst. cbn [app split_on_aux rev]. rewrite Hc, (IH _ _ Ht).
  rewrite <- app_assoc. reflexivity.
Qed.

Lemma spacefree_code32 : forall tk, spacefree tk -> Forall (fun c => is_code 32%N c = false) tk.
Proof. intros tk H. eapply Forall_impl; [|exact H]. intros c. apply is_space_code32. Qed.

Lemma nonempty_true : forall tk : text, tk <> [] -> nonempty tk = true.
Proof. destruct tk; [congruence|reflexivity]. Qed.

Lemma toks_tok_sp : forall tok rest, good_tok tok -> toks (tok ++ sp :: rest) = tok :: toks rest.
Proof.
  intros tok rest [Hne Hsf]. unfold toks, split_on.
  rewrite (split_on_aux_tok _ _ [] (sp :: rest) (spacefree_code32 tok Hsf)).
  cbn [split_on_aux]. rewrite is_code_sp, app_nil_r, rev_involutive.
  cbn [filter]. rewrite (nonempty_true tok Hne). reflexivity.
Qed.

Lemma toks_sp : forall rest, toks (sp :: rest) = toks rest.
Proof. intro rest. unfold toks, split_on. cbn [split_on_aux]. rewrite is_code_sp. reflexivity. Qed.

Lemma toks_tok : forall tok, good_tok tok -> toks tok = [tok].
Proof.
  intros tok [Hne Hsf]. unfold toks, split_on.
  rewrite <- (app_nil_r tok) at 1.
  rewrite (split_on_aux_tok _ _ [] [] (spacefree_code32 tok Hsf)).
  cbn [split_on_aux]. rewrite app_nil_r, rev_involutive.
  cbn [filter]. rewrite (nonempty_true tok Hne). reflexivity.
Qed.

Lemma toks_nil : toks [] = [].
Proof. reflexivity. Qed.

(* ---- rstrip ---- *)
Lemma lstrip_by_app : forall f x y,
  lstrip_by f (x ++ y) = match lstrip_by f x with [] => lstrip_by f y | _ :: _ => lstrip_by f x ++ y end.
Proof.
  intros f x y. induction x as [|c x IH]; [reflexivity|].
  cbn [app lstrip_by]. destruct (f c); [exact IH|reflexivity].
Qed.

Lemma rstrip_by_app : forall f a b,
  rstrip_by f (a ++ b) = match rstrip_by f b with [] => rstrip_by f a | _ :: _ => a ++ rstrip_by f b end.
Proof.
  intros f a b. unfold rstrip_by. rewrite rev_app_distr, lstrip_by_app.
  destruct (lstrip_by f (rev b)) as [|c r] eqn:E; [reflexivity|].
  rewrite rev_app_distr, rev_involutive.
  destruct (rev (c :: r)) eqn:E2; [|reflexivity].
  apply (f_equal (@rev ascii)) in E2. rewrite rev_involutive in E2. discriminate E2.
Qed.

Lemma rstrip_app : forall a b,
  rstrip (a ++ b) = match rstrip b with [] => rstrip a | _ :: _ => a ++ rstrip b end.
Proof. intros. apply rstrip_by_app. Qed.

Definition ends_nonspace (l : text) : Prop := exists l' c, l = l' ++ [c] /\ is_space c = false.

Lemma rstrip_ends_nonspace : forall l, ends_nonspace l -> rstrip l = l.
Proof.
  intros l [l' [c [-> Hc]]]. unfold rstrip, rstrip_by. rewrite rev_unit.
  cbn [lstrip_by]. rewrite Hc. rewrite <- rev_unit. apply rev_involutive.
Qed.

Lemma ends_nonspace_app : forall a b, ends_nonspace b -> ends_nonspace (a ++ b).
Proof. intros a b [l' [c [-> Hc]]]. exists (a ++ l'), c. rewrite app_assoc. auto. Qed.

Lemma good_tok_ends_nonspace : forall tk, good_tok tk -> ends_nonspace tk.
Proof.
  intros tk [Hne Hsf]. destruct (exists_last Hne) as [l' [c ->]]. exists l', c. split; [reflexivity|].
  apply Forall_app in Hsf. destruct Hsf as [_ Hc]. inversion Hc; assumption.
Qed.

Lemma ends_nonspace_nonnil : forall l, ends_nonspace l -> l <> [].
Proof. intros l [l' [c [-> _]]]. destruct l'; discriminate. Qed.

(* ---- join ---- *)
Lemma join_with_cons2 : forall sep (x y : text) r,
  join_with sep (x :: y :: r) = x ++ sep ++ join_with sep (y :: r).
Proof. reflexivity. Qed.

Lemma join_with_snoc : forall sep (l : list text) x,
  l <> [] -> join_with sep (l ++ [x]) = join_with sep l ++ sep ++ x.
Proof.
  intros sep l x. induction l as [|a l IH]; [congruence|]. intros _.
  destruct l as [|b l]; [reflexivity|].
  change ((a :: b :: l) ++ [x]) with (a :: b :: (l ++ [x])).
  rewrite !join_with_cons2. change (b :: l ++ [x]) with ((b :: l) ++ [x]).
  rewrite IH by discriminate. rewrite <- !app_assoc. reflexivity.
Qed.

Lemma join_ends_nonspace : forall tl, tl <> [] -> Forall good_tok tl -> ends_nonspace (join_with [sp] tl).
Proof.
  induction tl as [|a tl IH]; [congruence|]. intros _ H. inversion H as [|? ? Ha Ht]; subst.
  destruct tl as [|b tl].
  - apply good_tok_ends_nonspace, Ha.
  - rewrite join_with_cons2. apply ends_nonspace_app, ends_nonspace_app, IH; [discriminate|exact Ht].
Qed.

Lemma toks_join : forall tl, Forall good_tok tl -> toks (join_with [sp] tl) = tl.
Proof.
  induction tl as [|a tl IH]; intro H; [reflexivity|]. inversion H as [|? ? Ha Ht]; subst.
  destruct tl as [|b tl].
  - apply toks_tok, Ha.
  - rewrite join_with_cons2. cbn [app]. rewrite (toks_tok_sp _ _ Ha), (IH Ht). reflexivity.
Qed.

(* ---- priority 4 ---- *)
Theorem tokenize_join : forall tl, Forall good_tok tl -> tokenize (join_with [sp] tl) = tl.
Proof.
  intros tl H. rewrite tokenize_toks. destruct tl as [|a tl]; [reflexivity|].
  rewrite rstrip_ends_nonspace by (apply join_ends_nonspace; [discriminate|exact H]).
  apply toks_join, H.
Qed.

(* the prefix contributes its two tokens whatever follows *)
Lemma prefix_split : forall l, prefix ++ l = t "M" ++ sp :: sp :: (t "V30" ++ sp :: l).
Proof. reflexivity. Qed.
Lemma good_M : good_tok (t "M").
Proof. split; [discriminate|]. repeat constructor. Qed.
Lemma good_V30 : good_tok (t "V30").
Proof. split; [discriminate|]. repeat constructor. Qed.

Theorem tokenize_prefix : forall l, tokenize (prefix ++ l) = t "M" :: t "V30" :: tokenize l.
Proof.
  intro l. rewrite !tokenize_toks, rstrip_app.
  destruct (rstrip l) as [|c r] eqn:E.
  - vm_compute. reflexivity.
  - rewrite prefix_split, (toks_tok_sp _ _ good_M), toks_sp, (toks_tok_sp _ _ good_V30). reflexivity.
Qed.

Theorem tokenize_prefix_join : forall tl,
  Forall good_tok tl -> tokenize (prefix ++ join_with [sp] tl) = t "M" :: t "V30" :: tl.
Proof. intros tl H. rewrite tokenize_prefix, (tokenize_join tl H). reflexivity. Qed.

(* ------------------------------------------------------------------------------------ *)
(* 5. decimal numerals printed by str(int)                                               *)
(* ------------------------------------------------------------------------------------ *)

Definition numchar (c : ascii) : bool := is_digit c || is_code 45%N c.

Lemma numchar_not_space : forall c, numchar c = true -> is_space c = false.
Proof.
  intros [b0 b1 b2 b3 b4 b5 b6 b7];
    destruct b0, b1, b2, b3, b4, b5, b6, b7; vm_compute; intro H; try reflexivity; discriminate H.
Qed.

Lemma is_digit_numchar : forall c, is_digit c = true -> numchar c = true.
Proof. intros c H. unfold numchar. rewrite H. reflexivity. Qed.

Lemma is_digit_not_space : forall c, is_digit c = true -> is_space c = false.
Proof. intros c H. apply numchar_not_space, is_digit_numchar, H. Qed.

Lemma is_digit_not_dash : forall c, is_digit c = true -> is_code 45%N c = false.
Proof.
  intros [b0 b1 b2 b3 b4 b5 b6 b7];
    destruct b0, b1, b2, b3, b4, b5, b6, b7; vm_compute; intro H; try reflexivity; discriminate H.
Qed.

Definition all_digit (l : text) : Prop := Forall (fun c => is_digit c = true) l.

Lemma uint_all_digit : forall d, all_digit (t (NilEmpty.string_of_uint d)).
Proof.
  unfold all_digit, t.
  induction d; cbn [NilEmpty.string_of_uint list_ascii_of_string]; constructor; try assumption; reflexivity.
Qed.

Lemma nzuint_all_digit : forall d, all_digit (t (NilZero.string_of_uint d)).
Proof.
  intro d. destruct d; try apply uint_all_digit. unfold NilZero.string_of_uint.
  constructor; [reflexivity|constructor].
Qed.

Lemma nzuint_nonnil : forall d, t (NilZero.string_of_uint d) <> [].
Proof. destruct d; discriminate. Qed.

Lemma text_of_N_all_digit : forall n, all_digit (text_of_N n).
Proof. intro n. apply nzuint_all_digit. Qed.
Lemma text_of_N_nonnil : forall n, text_of_N n <> [].
Proof. intro n. apply nzuint_nonnil. Qed.

Lemma all_digit_spacefree : forall l, all_digit l -> spacefree l.
Proof. intros l H. eapply Forall_impl; [|exact H]. apply is_digit_not_space. Qed.

Lemma text_of_N_good : forall n, good_tok (text_of_N n).
Proof. intro n. split; [apply text_of_N_nonnil|apply all_digit_spacefree, text_of_N_all_digit]. Qed.

(* str(z) is an optional minus sign followed by a non-empty digit string *)
Lemma text_of_Z_shape : forall z, exists ds,
  ds <> [] /\ all_digit ds /\ (text_of_Z z = ds \/ text_of_Z z = dash :: ds).
Proof.
  intro z. unfold text_of_Z. destruct (Z.to_int z) as [d|d].
  - exists (t (NilZero.string_of_uint d)). split; [apply nzuint_nonnil|]. split; [apply nzuint_all_digit|].
    left. reflexivity.
  - exists (t (NilZero.string_of_uint d)). split; [apply nzuint_nonnil|]. split; [apply nzuint_all_digit|].
    right. reflexivity.
Qed.

Lemma text_of_Z_good : forall z, good_tok (text_of_Z z).
Proof.
  intro z. destruct (text_of_Z_shape z) as [ds [Hne [Hd [-> | ->]]]].
  - split; [exact Hne|apply all_digit_spacefree, Hd].
  - split; [discriminate|]. constructor; [reflexivity|apply all_digit_spacefree, Hd].
Qed.

(* ends in a digit, hence not in a dash and not in a blank *)
Definition ends_digit (l : text) : Prop := exists l' c, l = l' ++ [c] /\ is_digit c = true.

Lemma ends_digit_app : forall a b, ends_digit b -> ends_digit (a ++ b).
Proof. intros a b [l' [c [-> Hc]]]. exists (a ++ l'), c. rewrite app_assoc. auto. Qed.

Lemma all_digit_ends_digit : forall l, l <> [] -> all_digit l -> ends_digit l.
Proof.
  intros l Hne H. destruct (exists_last Hne) as [l' [c ->]]. exists l', c. split; [reflexivity|].
  apply Forall_app in H. destruct H as [_ H]. inversion H; assumption.
Qed.

Lemma text_of_N_ends_digit : forall n, ends_digit (text_of_N n).
Proof. intro n. apply all_digit_ends_digit; [apply text_of_N_nonnil|apply text_of_N_all_digit]. Qed.

Lemma text_of_Z_ends_digit : forall z, ends_digit (text_of_Z z).
Proof.
  intro z. destruct (text_of_Z_shape z) as [ds [Hne [Hd [-> | ->]]]].
  - apply all_digit_ends_digit; assumption.
  - apply (ends_digit_app [dash]), all_digit_ends_digit; assumption.
Qed.

Lemma ends_digit_no_dash : forall l, ends_digit l -> ends_with_char 45%N l = false.
Proof. intros l [l' [c [-> Hc]]]. rewrite ends_with_char_snoc. apply is_digit_not_dash, Hc. Qed.

Lemma ends_digit_nonspace : forall l, ends_digit l -> ends_nonspace l.
Proof. intros l [l' [c [-> Hc]]]. exists l', c. split; [reflexivity|apply is_digit_not_space, Hc]. Qed.

(* ------------------------------------------------------------------------------------ *)
(* 6. atom and bond lines are blank-separated token lists                                *)
(* ------------------------------------------------------------------------------------ *)

Definition opt_tok (name : string) (cond : Z -> bool) (o : option Z) : list text :=
  match o with Some v => if cond v then [t name ++ t "=" ++ tZ v] else [] | None => [] end.

Definition atom_toks (x : atom rpay) : list text :=
  [tN (lbl x + 1); p_sym (pay x); p_x (pay x); p_y (pay x); p_z (pay x); t "0"]
  ++ opt_tok "CHG" chg_ok (p_chg (pay x)) ++ opt_tok "RAD" rad_ok (rad x) ++ opt_tok "MASS" mass_ok (mass x).

Definition bond_toks (ib : N * (N * N * option Z)) : list text :=
  [tN (fst ib); tZ (opt_default 1%Z (snd (snd ib))); tN (fst (fst (snd ib)) + 1); tN (snd (fst (snd ib)) + 1)].

Lemma join_opt : forall (l : list text) name cond o,
  l <> [] -> join_with [sp] l ++ opt_prop name cond o = join_with [sp] (l ++ opt_tok name cond o).
Proof.
  intros l name cond o Hl. unfold opt_prop, opt_tok, spt.
  destruct o as [v|]; [destruct (cond v)|]; try (rewrite !app_nil_r; reflexivity).
  rewrite (join_with_snoc [sp] l _ Hl). reflexivity.
Qed.

Lemma atom_line_join : forall x, atom_line x = join_with [sp] (atom_toks x).
Proof.
  intro x. unfold atom_toks.
  set (l6 := [tN (lbl x + 1); p_sym (pay x); p_x (pay x); p_y (pay x); p_z (pay x); t "0"]).
  rewrite !app_assoc.
  rewrite <- !join_opt.
  - unfold l6, atom_line, spt. cbn [join_with]. rewrite <- !app_assoc. reflexivity.
  - discriminate.
  - unfold l6. destruct (opt_tok "CHG" chg_ok (p_chg (pay x))); discriminate.
  - unfold l6. destruct (opt_tok "CHG" chg_ok (p_chg (pay x))); discriminate.
Qed.

Lemma bond_line_join : forall ib, bond_line ib = join_with [sp] (bond_toks ib).
Proof. intro ib. unfold bond_line, bond_toks, spt. cbn [join_with]. reflexivity. Qed.

Lemma spacefree_app : forall a b, spacefree a -> spacefree b -> spacefree (a ++ b).
Proof. intros a b Ha Hb. apply Forall_app. split; assumption. Qed.

Lemma opt_tok_good : forall name cond o,
  spacefree (t name) -> Forall good_tok (opt_tok name cond o).
Proof.
  intros name cond o Hn. unfold opt_tok. destruct o as [v|]; [destruct (cond v)|]; try constructor; [|constructor].
  split.
  - destruct (text_of_Z_good v) as [Hne _]. unfold tZ. destruct (t name); cbn [app]; discriminate.
  - apply spacefree_app; [exact Hn|]. apply spacefree_app; [repeat constructor|apply text_of_Z_good].
Qed.

Lemma good_zero : good_tok (t "0").
Proof. split; [discriminate|repeat constructor]. Qed.

Lemma atom_toks_good : forall x,
  good_tok (p_sym (pay x)) -> good_tok (p_x (pay x)) -> good_tok (p_y (pay x)) -> good_tok (p_z (pay x)) ->
  Forall good_tok (atom_toks x).
Proof.
  intros x Hs Hx Hy Hz. unfold atom_toks.
  repeat (apply Forall_app; split).
  - repeat (apply Forall_cons; [first [apply text_of_N_good|assumption|exact good_zero]|]). apply Forall_nil.
  - apply opt_tok_good. repeat constructor.
  - apply opt_tok_good. repeat constructor.
  - apply opt_tok_good. repeat constructor.
Qed.

Lemma bond_toks_good : forall ib, Forall good_tok (bond_toks ib).
Proof.
  intro ib. unfold bond_toks.
  repeat (apply Forall_cons; [first [apply text_of_N_good|apply text_of_Z_good]|]). apply Forall_nil.
Qed.

Theorem tokenize_atom_line : forall x,
  good_tok (p_sym (pay x)) -> good_tok (p_x (pay x)) -> good_tok (p_y (pay x)) -> good_tok (p_z (pay x)) ->
  tokenize (prefix ++ atom_line x) = t "M" :: t "V30" :: atom_toks x.
Proof.
  intros x Hs Hx Hy Hz. rewrite atom_line_join. apply tokenize_prefix_join, atom_toks_good; assumption.
Qed.

Theorem tokenize_bond_line : forall ib,
  tokenize (prefix ++ bond_line ib) = t "M" :: t "V30" :: bond_toks ib.
Proof. intro ib. rewrite bond_line_join. apply tokenize_prefix_join, bond_toks_good. Qed.

(* atom and bond lines end in a digit whatever the symbol and coordinate tokens are, so the
   last piece written by the wrapping loop never looks like a continuation *)
Lemma opt_prop_ends_digit : forall name cond o a,
  ends_digit a -> ends_digit (a ++ opt_prop name cond o).
Proof.
  intros name cond o a Ha. unfold opt_prop. destruct o as [v|]; [destruct (cond v)|];
    try (rewrite app_nil_r; exact Ha).
  rewrite !app_assoc. apply ends_digit_app, text_of_Z_ends_digit.
Qed.

Lemma atom_line_ends_digit : forall x, ends_digit (atom_line x).
Proof.
  intro x. unfold atom_line. repeat (rewrite app_assoc).
  repeat apply opt_prop_ends_digit.
  apply ends_digit_app. exists [], "0"%char. split; reflexivity.
Qed.

Lemma bond_line_ends_digit : forall ib, ends_digit (bond_line ib).
Proof. intro ib. unfold bond_line. cbv zeta. repeat apply ends_digit_app. apply text_of_N_ends_digit. Qed.

Lemma atom_line_no_dash : forall x, ends_with_char 45%N (atom_line x) = false.
Proof. intro x. apply ends_digit_no_dash, atom_line_ends_digit. Qed.
Lemma bond_line_no_dash : forall ib, ends_with_char 45%N (bond_line ib) = false.
Proof. intro ib. apply ends_digit_no_dash, bond_line_ends_digit. Qed.

(* ------------------------------------------------------------------------------------ *)
(* 7. the whole file: what the reader's splice loop makes of write_lines                 *)
(* ------------------------------------------------------------------------------------ *)

Definition counts_line (m : mol rpay (option Z)) : text :=
  t "COUNTS " ++ tN (N.of_nat (length (atoms m))) ++ spt ++ tN (N.of_nat (length (bonds m))) ++ t " 0 0 0".

(* the contents handed to _add_v30_line, in order *)
Definition v30_contents (m : mol rpay (option Z)) : list text :=
  [t "BEGIN CTAB"; counts_line m; t "BEGIN ATOM"] ++ map atom_line (atoms m) ++ [t "END ATOM"]
  ++ (match bonds m with
      | [] => []
      | _ => [t "BEGIN BOND"] ++ map bond_line (enumerate_from 1 (bonds m)) ++ [t "END BOND"]
      end)
  ++ [t "END CTAB"].

(* the file with every wrapped line restored *)
Definition logical_lines (line2 : text) (m : mol rpay (option Z)) : list text :=
  header line2 ++ map (app prefix) (v30_contents m) ++ [t "M  END"].

Lemma flat_map_map : forall (A B C : Type) (f : B -> list C) (g : A -> B) (l : list A),
  flat_map f (map g l) = flat_map (fun x => f (g x)) l.
Proof. intros A B C f g l. induction l as [|a l IH]; [reflexivity|]. cbn [map flat_map]. rewrite IH. reflexivity. Qed.

Lemma write_lines_contents : forall line2 m,
  write_lines line2 m = header line2 ++ flat_map v30_line (v30_contents m) ++ [t "M  END"].
Proof.
  intros line2 m. unfold write_lines, v30_contents. fold (counts_line m).
  rewrite !flat_map_app, !flat_map_map. cbn [flat_map]. rewrite !app_nil_r.
  destruct (bonds m) as [|b bs].
  - cbn [flat_map app]. rewrite <- !app_assoc. reflexivity.
  - rewrite !flat_map_app, !flat_map_map. cbn [flat_map]. rewrite !app_nil_r.
    rewrite <- !app_assoc. reflexivity.
Qed.

Lemma counts_line_no_dash : forall m, ends_with_char 45%N (counts_line m) = false.
Proof.
  intro m. apply ends_digit_no_dash. unfold counts_line. repeat apply ends_digit_app.
  exists (t " 0 0 "), "0"%char. split; reflexivity.
Qed.

Lemma v30_contents_no_dash : forall m, Forall (fun l => ends_with_char 45%N l = false) (v30_contents m).
Proof.
  intro m. unfold v30_contents. repeat (apply Forall_app; split).
  - repeat (apply Forall_cons; [first [reflexivity|apply counts_line_no_dash]|]). apply Forall_nil.
  - apply Forall_map, Forall_forall. intros x _. apply atom_line_no_dash.
  - repeat constructor.
  - destruct (bonds m); [constructor|]. repeat (apply Forall_app; split).
    + repeat constructor.
    + apply Forall_map, Forall_forall. intros x _. apply bond_line_no_dash.
    + repeat constructor.
  - repeat constructor.
Qed.

Lemma header_plain : forall line2,
  continues line2 = false -> Forall (fun l => continues l = false) (header line2).
Proof.
  intros line2 H. unfold header.
  apply Forall_cons; [reflexivity|]. apply Forall_cons; [exact H|].
  apply Forall_cons; [reflexivity|]. apply Forall_cons; [vm_compute; reflexivity|apply Forall_nil].
Qed.

Lemma write_lines_block : forall line2 m,
  continues line2 = false -> cd_block (write_lines line2 m) (logical_lines line2 m).
Proof.
  intros line2 m H. rewrite write_lines_contents. unfold logical_lines.
  apply cd_block_app; [apply cd_block_all_plain, header_plain, H|].
  apply cd_block_app; [apply concat_dash_write, v30_contents_no_dash|].
  apply cd_block_plain. vm_compute. reflexivity.
Qed.

Theorem concat_dash_write_lines : forall line2 m fuel,
  continues line2 = false -> length (write_lines line2 m) <= fuel ->
  concat_dash fuel (write_lines line2 m) = ok (logical_lines line2 m).
Proof. intros line2 m fuel H Hf. apply cd_block_run; [apply write_lines_block, H|exact Hf]. Qed.

Theorem tokenize_lines_write_lines : forall line2 m,
  continues line2 = false ->
  tokenize_lines (write_lines line2 m) = ok (map tokenize (logical_lines line2 m)).
Proof.
  intros line2 m H. unfold tokenize_lines. rewrite concat_dash_write_lines by (try exact H; lia).
  reflexivity.
Qed.

(* ------------------------------------------------------------------------------------ *)
(* 8. non-vacuity                                                                        *)
(* ------------------------------------------------------------------------------------ *)

(* 150 characters; the 71st is a minus sign, so the first written line ends in "--" *)
Definition ex_line : text := repeat "a"%char 70 ++ [dash] ++ repeat "b"%char 79.

Example ex_line_length : length ex_line = 150.
Proof. vm_compute. reflexivity. Qed.
Example ex_line_wraps_twice : map (@length ascii) (v30_line ex_line) = [79; 79; 15].
Proof. vm_compute. reflexivity. Qed.
Example ex_line_double_dash :
  firstn 1 (v30_line ex_line) = [prefix ++ repeat "a"%char 70 ++ [dash; dash]].
Proof. vm_compute. reflexivity. Qed.
Example ex_line_restored : concat_dash 3 (v30_line ex_line) = ok [prefix ++ ex_line].
Proof. vm_compute. reflexivity. Qed.
Example ex_line_restored_in_context :
  concat_dash 5 ([t "x"] ++ v30_line ex_line ++ [t "M  END"]) = ok [t "x"; prefix ++ ex_line; t "M  END"].
Proof. vm_compute. reflexivity. Qed.
Example ex_unwrap_spec : unwrap_spec (v30_line ex_line) = ex_line.
Proof. vm_compute. reflexivity. Qed.
(* the hypothesis of unwrap_wrap is needed: a content line ending in a dash swallows its successor *)
Example ex_trailing_dash_needed :
  concat_dash 2 (v30_line (t "A-") ++ v30_line (t "B")) = ok [prefix ++ t "AB"].
Proof. vm_compute. reflexivity. Qed.
