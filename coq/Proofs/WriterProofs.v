(* WriterProofs.v -- lemmas about the V3000 writer (Model/Writer.v) and about how the V3000
   reader's continuation logic (Model/V3000.v: concat_dash, tokenize) undoes the writer's
   line wrapping.  Property C09. *)
From Coq Require Import String Lia Arith DecimalString DecimalPos DecimalN DecimalZ.
From Coq Require FinFun.
Require Import Base Mol Text Molfile V3000 Writer.
Require V2000.
Require Params.

Local Open Scope list_scope.
Local Open Scope nat_scope.

(* ------------------------------------------------------------------------------------ *)
(* 0. small facts on lists / texts                                                       *)
(* ------------------------------------------------------------------------------------ *)

(* [text] and [list ascii] are convertible but not syntactically equal: normalise before lia *)
Ltac tlia := unfold text in *; cbn [length app map] in *; lia.

Lemma ascii_eqb_refl : forall a, ascii_eqb a a = true.
Proof. intro a. unfold ascii_eqb. apply N.eqb_refl. Qed.

Lemma starts_with_app : forall p x, starts_with p (p ++ x) = true.
Proof.
  induction p as [|a p IH]; intro x; [reflexivity|].
  cbn [app starts_with]. rewrite ascii_eqb_refl, IH. reflexivity.
Qed.

Lemma ends_with_char_snoc : forall n l c, ends_with_char n (l ++ [c]) = is_code n c.
Proof. intros n l c. unfold ends_with_char. rewrite rev_unit. reflexivity. Qed.

Lemma ends_with_char_app : forall n a b, b <> [] -> ends_with_char n (a ++ b) = ends_with_char n b.
Proof.
  intros n a b Hb. destruct (exists_last Hb) as [b' [c ->]].
  rewrite app_assoc, !ends_with_char_snoc. reflexivity.
Qed.

Lemma skipn_app_exact : forall {A : Type} (a b : list A) n, length a = n -> skipn n (a ++ b) = b.
Proof.
  intros A a b n <-. rewrite skipn_app, skipn_all, Nat.sub_diag. reflexivity.
Qed.

Lemma is_code_dash : is_code 45 dash = true.
Proof. vm_compute. reflexivity. Qed.

(* ------------------------------------------------------------------------------------ *)
(* 1. the reader's splice loop: unfolding and fuel                                        *)
(* ------------------------------------------------------------------------------------ *)

(* "this line asks for a continuation" *)
Definition continues (l : text) : bool := starts_with v30 l && ends_with_char 45%N l.

Lemma concat_dash_nil : forall f, concat_dash f [] = ok [].
Proof. destruct f; reflexivity. Qed.

Lemma concat_dash_one : forall f cur, concat_dash f [cur] = ok [cur].
Proof. destruct f; reflexivity. Qed.

Lemma concat_dash_step : forall f cur next rest,
  concat_dash (S f) (cur :: next :: rest) =
  if continues cur then
    if starts_with v30 next then concat_dash f ((removelast cur ++ skipn 7 next) :: rest)
    else inl EParser
  else do r <- concat_dash f (next :: rest); ok (cur :: r).
Proof. reflexivity. Qed.

(* any fuel that covers the number of lines gives the same answer *)
Lemma concat_dash_fuel : forall f1 lines f2,
  length lines <= f1 -> length lines <= f2 -> concat_dash f1 lines = concat_dash f2 lines.
Proof.
  induction f1 as [|f1 IH]; intros lines f2 H1 H2.
  - destruct lines; [|simpl in H1; lia]. rewrite !concat_dash_nil. reflexivity.
  - destruct lines as [|cur [|next rest]].
    + rewrite !concat_dash_nil. reflexivity.
    + rewrite !concat_dash_one. reflexivity.
    + destruct f2 as [|f2]; [simpl in H2; lia|].
      rewrite !concat_dash_step. simpl in H1, H2.
      destruct (continues cur).
      * destruct (starts_with v30 next); [|reflexivity].
        apply IH; simpl; lia.
      * rewrite (IH (next :: rest) f2); [reflexivity| |]; simpl; lia.
Qed.

Lemma concat_dash_fuel_len : forall f lines,
  length lines <= f -> concat_dash f lines = concat_dash (length lines) lines.
Proof. intros. apply concat_dash_fuel; lia. Qed.

(* a line that does not ask for a continuation is passed through *)
Lemma concat_dash_plain : forall f cur rest,
  continues cur = false -> length (cur :: rest) <= f ->
  concat_dash f (cur :: rest) = do r <- concat_dash (length rest) rest; ok (cur :: r).
Proof.
  intros f cur rest Hc Hf. destruct f as [|f]; [simpl in Hf; lia|].
  destruct rest as [|next rest].
  - reflexivity.
  - rewrite concat_dash_step, Hc. simpl in Hf.
    rewrite (concat_dash_fuel_len f (next :: rest)); [reflexivity|simpl; lia].
Qed.

(* ------------------------------------------------------------------------------------ *)
(* 2. the wrapping loop, for arbitrary limit / chunk / prefix                            *)
(* ------------------------------------------------------------------------------------ *)

Section GWrap.
  Variables (limit chunk : nat) (p : text).

  (* the pieces before the prefix is put in front *)
  Fixpoint gchunks (fuel : nat) (line : text) : list text :=
    match fuel with
    | O => [line]
    | S f => if Nat.leb (length line) limit then [line]
             else (firstn chunk line ++ [dash]) :: gchunks f (skipn chunk line)
    end.
  Definition gwrap (fuel : nat) (line : text) : list text := map (app p) (gchunks fuel line).

  Lemma gchunks_S : forall f line,
    gchunks (S f) line =
    if Nat.leb (length line) limit then [line]
    else (firstn chunk line ++ [dash]) :: gchunks f (skipn chunk line).
  Proof. reflexivity. Qed.

  Lemma gchunks_nonempty : forall f line, exists c cs, gchunks f line = c :: cs.
  Proof.
    destruct f; intro line; [eexists; eexists; reflexivity|].
    rewrite gchunks_S. destruct (Nat.leb (length line) limit); eexists; eexists; reflexivity.
  Qed.

  (* ---- line lengths ---- *)
  Section Length.
    Variable bound : nat.
    Hypothesis Hchunk : 1 <= chunk.
    Hypothesis Hwrapped : length p + chunk + 1 <= bound.
    Hypothesis Hlast : length p + limit <= bound.

    Lemma gwrap_length : forall f line,
      length line <= f + limit -> Forall (fun l => length l <= bound) (gwrap f line).
    Proof.
      unfold gwrap. induction f as [|f IH]; intros line Hf.
      - cbn [gchunks map]. constructor; [|constructor]. rewrite app_length. simpl in Hf. lia.
      - rewrite gchunks_S. destruct (Nat.leb (length line) limit) eqn:E.
        + apply Nat.leb_le in E. cbn [map]. constructor; [|constructor]. rewrite app_length. lia.
        + apply Nat.leb_gt in E. cbn [map]. constructor.
          * rewrite !app_length, firstn_length. simpl. lia.
          * apply IH. rewrite skipn_length. lia.
    Qed.
  End Length.

  (* ---- content: dropping prefix and continuation dashes gives the line back ---- *)
  Fixpoint gunwrap (n : nat) (ls : list text) : text :=
    match ls with
    | [] => []
    | x :: r => match r with
                | [] => skipn n x
                | _ :: _ => removelast (skipn n x) ++ gunwrap n r
                end
    end.

  Lemma gunwrap_cons2 : forall n x y r,
    gunwrap n (x :: y :: r) = removelast (skipn n x) ++ gunwrap n (y :: r).
  Proof. reflexivity. Qed.

  Lemma gwrap_content : forall f line, gunwrap (length p) (gwrap f line) = line.
  Proof.
    unfold gwrap. induction f as [|f IH]; intro line.
    - cbn [gchunks map gunwrap]. apply skipn_app_exact. reflexivity.
    - rewrite gchunks_S. destruct (Nat.leb (length line) limit).
      + cbn [map gunwrap]. apply skipn_app_exact. reflexivity.
      + specialize (IH (skipn chunk line)).
        destruct (gchunks_nonempty f (skipn chunk line)) as [c [cs E]].
        rewrite E in *. cbn [map] in *. rewrite gunwrap_cons2.
        unfold text in *. rewrite IH, skipn_app_exact by reflexivity.
        rewrite removelast_last. apply firstn_skipn.
    Qed.

  (* ---- the reader undoes the wrapping ---- *)
  Section Reader.
    Hypothesis Hp_len : length p = 7.
    Hypothesis Hp_v30 : forall x, starts_with v30 (p ++ x) = true.

    (* acc: what previous splices have already accumulated behind the prefix *)
    Lemma concat_dash_gchunks : forall f line acc c cs rest fuel,
      gchunks f line = c :: cs ->
      ends_with_char 45%N (p ++ acc ++ line) = false ->
      S (length cs) + length rest <= fuel ->
      concat_dash fuel ((p ++ acc ++ c) :: map (app p) cs ++ rest)
      = do r <- concat_dash (length rest) rest; ok ((p ++ acc ++ line) :: r).
    Proof.
      induction f as [|f IH]; intros line acc c cs rest fuel E Hend Hfuel.
      - cbn [gchunks] in E. injection E as <- <-. cbn [map app].
        apply concat_dash_plain.
        + unfold continues. rewrite Hend. apply andb_false_r.
        + tlia.
      - rewrite gchunks_S in E. destruct (Nat.leb (length line) limit).
        + injection E as <- <-. cbn [map app].
          apply concat_dash_plain.
          * unfold continues. rewrite Hend. apply andb_false_r.
          * tlia.
        + injection E as <- <-.
          destruct (gchunks_nonempty f (skipn chunk line)) as [c' [cs' E']].
          rewrite E' in *. cbn [map app length] in *.
          destruct fuel as [|fuel]; [lia|].
          rewrite concat_dash_step.
          assert (Hc : continues (p ++ acc ++ firstn chunk line ++ [dash]) = true).
          { unfold continues. rewrite Hp_v30.
            rewrite !app_assoc, ends_with_char_snoc. apply is_code_dash. }
          rewrite Hc, Hp_v30.
          replace (removelast (p ++ acc ++ firstn chunk line ++ [dash]) ++ skipn 7 (p ++ c'))
            with (p ++ (acc ++ firstn chunk line) ++ c').
          * rewrite (IH (skipn chunk line) (acc ++ firstn chunk line) c' cs' rest fuel E').
            -- rewrite <- !app_assoc, firstn_skipn. reflexivity.
            -- rewrite <- !app_assoc, firstn_skipn. exact Hend.
            -- lia.
          * rewrite (skipn_app_exact p c' 7 Hp_len).
            rewrite !app_assoc, removelast_last. reflexivity.
    Qed.

    Lemma concat_dash_gwrap : forall f line rest fuel,
      ends_with_char 45%N (p ++ line) = false ->
      length (gwrap f line ++ rest) <= fuel ->
      concat_dash fuel (gwrap f line ++ rest)
      = do r <- concat_dash (length rest) rest; ok ((p ++ line) :: r).
    Proof.
      intros f line rest fuel Hend Hfuel. unfold gwrap in *.
      destruct (gchunks_nonempty f line) as [c [cs E]]. rewrite E in *.
      cbn [map app] in *.
      apply (concat_dash_gchunks f line [] c cs rest fuel E Hend).
      unfold text in *. cbn [length] in Hfuel. rewrite app_length, map_length in Hfuel. lia.
    Qed.
  End Reader.
End GWrap.

(* ------------------------------------------------------------------------------------ *)
(* 3. instantiation with the generated constants (gen/Params.v)                          *)
(*    If the constants change, the side conditions below are what stops compiling.       *)
(* ------------------------------------------------------------------------------------ *)

Definition max_line : nat := 79.       (* 80 with the newline *)

Lemma wrap_S : forall f line,
  wrap (S f) line =
  if Nat.leb (length line) Params.wrap_limit then [prefix ++ line]
  else (prefix ++ firstn Params.wrap_chunk line ++ [dash]) :: wrap f (skipn Params.wrap_chunk line).
Proof. reflexivity. Qed.

Lemma wrap_gwrap : forall f line,
  wrap f line = gwrap Params.wrap_limit Params.wrap_chunk prefix f line.
Proof.
  unfold gwrap. induction f as [|f IH]; intro line; [reflexivity|].
  rewrite wrap_S, gchunks_S. destruct (Nat.leb (length line) Params.wrap_limit); [reflexivity|].
  cbn [map]. rewrite IH. reflexivity.
Qed.

(* side conditions on the constants *)
Lemma params_chunk_pos : 1 <= Params.wrap_chunk.
Proof. apply Nat.leb_le. vm_compute. reflexivity. Qed.
Lemma params_chunk_le_limit : Params.wrap_chunk <= Params.wrap_limit.
Proof. apply Nat.leb_le. vm_compute. reflexivity. Qed.
Lemma params_wrapped_fits : length prefix + Params.wrap_chunk + 1 <= max_line.
Proof. apply Nat.leb_le. vm_compute. reflexivity. Qed.
Lemma params_last_fits : length prefix + Params.wrap_limit <= max_line.
Proof. apply Nat.leb_le. vm_compute. reflexivity. Qed.
Lemma prefix_length : length prefix = 7.
Proof. vm_compute. reflexivity. Qed.
Lemma prefix_is_v30 : prefix = v30.
Proof. vm_compute. reflexivity. Qed.
Lemma prefix_no_dash : ends_with_char 45%N prefix = false.
Proof. vm_compute. reflexivity. Qed.
Lemma prefix_v30 : forall x, starts_with v30 (prefix ++ x) = true.
Proof. intro x. rewrite prefix_is_v30. apply starts_with_app. Qed.

(* ---- priority 1: line lengths ---- *)
Lemma wrap_line_length : forall line, Forall (fun l => length l <= max_line) (v30_line line).
Proof.
  intro line. unfold v30_line. rewrite wrap_gwrap.
  apply gwrap_length.
  - exact params_chunk_pos.
  - exact params_wrapped_fits.
  - exact params_last_fits.
  - lia.
Qed.

Lemma header_length : forall line2,
  length line2 <= max_line -> Forall (fun l => length l <= max_line) (header line2).
Proof.
  intros line2 H. unfold header.
  apply Forall_cons; [apply Nat.le_0_l|].
  apply Forall_cons; [exact H|].
  apply Forall_cons; [apply Nat.le_0_l|].
  apply Forall_cons; [|apply Forall_nil].
  apply Nat.leb_le. vm_compute. reflexivity.
Qed.

Lemma flat_map_v30_length : forall (A : Type) (f : A -> text) (l : list A),
  Forall (fun l => length l <= max_line) (flat_map (fun x => v30_line (f x)) l).
Proof. intros A f l. apply Forall_flat_map, Forall_forall. intros x _. apply wrap_line_length. Qed.

Lemma write_lines_length : forall line2 m,
  length line2 <= max_line -> Forall (fun l => length l <= max_line) (write_lines line2 m).
Proof.
  intros line2 m H. unfold write_lines.
  repeat (apply Forall_app; split);
    try apply wrap_line_length; try apply flat_map_v30_length; try (apply header_length; exact H).
  - destruct (bonds m); [constructor|].
    repeat (apply Forall_app; split); try apply wrap_line_length; apply flat_map_v30_length.
  - constructor; [|constructor]. apply Nat.leb_le. vm_compute. reflexivity.
Qed.

(* how many lines: short lines are not wrapped, long ones are *)
Lemma v30_line_short : forall line,
  length line <= Params.wrap_limit -> v30_line line = [prefix ++ line].
Proof.
  intros line H. unfold v30_line. destruct (length line) eqn:E; [reflexivity|].
  rewrite wrap_S, E. apply Nat.leb_le in H. rewrite H. reflexivity.
Qed.

Lemma v30_line_long : forall line,
  Params.wrap_limit < length line ->
  v30_line line = (prefix ++ firstn Params.wrap_chunk line ++ [dash])
                  :: wrap (pred (length line)) (skipn Params.wrap_chunk line).
Proof.
  intros line H. unfold v30_line. destruct (length line) eqn:E; [lia|].
  rewrite wrap_S, E. apply Nat.leb_gt in H. rewrite H. reflexivity.
Qed.

(* ---- priority 2: content ---- *)
(* drop the 7-character prefix of every line and the last character (the continuation dash)
   of every line but the last, and concatenate *)
Definition unwrap_spec (ls : list text) : text := gunwrap 7 ls.

Lemma unwrap_spec_eqns :
  unwrap_spec [] = [] /\
  (forall x, unwrap_spec [x] = skipn 7 x) /\
  (forall x y r, unwrap_spec (x :: y :: r) = removelast (skipn 7 x) ++ unwrap_spec (y :: r)).
Proof. repeat split. Qed.

Lemma wrap_content : forall line, unwrap_spec (v30_line line) = line.
Proof.
  intro line. unfold unwrap_spec, v30_line. rewrite wrap_gwrap, <- prefix_length.
  apply gwrap_content.
Qed.

(* ---- priority 3: the reader undoes the writer ---- *)
Lemma no_dash_prefix : forall line,
  ends_with_char 45%N line = false -> ends_with_char 45%N (prefix ++ line) = false.
Proof.
  intros line H. destruct line as [|c l].
  - rewrite app_nil_r. exact prefix_no_dash.
  - rewrite ends_with_char_app; [exact H|discriminate].
Qed.

Theorem unwrap_wrap : forall line rest fuel,
  ends_with_char 45%N line = false ->
  length (v30_line line ++ rest) <= fuel ->
  concat_dash fuel (v30_line line ++ rest)
  = do r <- concat_dash (length rest) rest; ok ((prefix ++ line) :: r).
Proof.
  intros line rest fuel Hend Hfuel. unfold v30_line in *. rewrite wrap_gwrap in *.
  apply concat_dash_gwrap.
  - exact prefix_length.
  - exact prefix_v30.
  - apply no_dash_prefix, Hend.
  - exact Hfuel.
Qed.

(* blocks: [A] is read as [A'] whatever follows *)
Definition cd_block (A A' : list text) : Prop :=
  forall rest fuel, length (A ++ rest) <= fuel ->
  concat_dash fuel (A ++ rest) = do r <- concat_dash (length rest) rest; ok (A' ++ r).

Lemma cd_block_nil : cd_block [] [].
Proof.
  intros rest fuel H. cbn [app] in *. rewrite (concat_dash_fuel_len fuel rest H).
  destruct (concat_dash (length rest) rest); reflexivity.
Qed.

Lemma cd_block_plain : forall cur, continues cur = false -> cd_block [cur] [cur].
Proof. intros cur Hc rest fuel H. cbn [app] in *. apply concat_dash_plain; assumption. Qed.

Lemma cd_block_v30 : forall line, ends_with_char 45%N line = false -> cd_block (v30_line line) [prefix ++ line].
Proof. intros line Hend rest fuel H. apply unwrap_wrap; assumption. Qed.

Lemma cd_block_app : forall A A' B B', cd_block A A' -> cd_block B B' -> cd_block (A ++ B) (A' ++ B').
Proof.
  intros A A' B B' HA HB rest fuel H. rewrite <- !app_assoc in *.
  rewrite (HA (B ++ rest) fuel H).
  rewrite (HB rest (length (B ++ rest))) by lia.
  destruct (concat_dash (length rest) rest); cbn [bind ok]; [reflexivity|].
  rewrite app_assoc. reflexivity.
Qed.

Lemma cd_block_flat_map : forall (X : Type) (f : X -> list text) (g : X -> list text) (l : list X),
  (forall x, In x l -> cd_block (f x) (g x)) -> cd_block (flat_map f l) (flat_map g l).
Proof.
  intros X f g l. induction l as [|x l IH]; intro H.
  - exact cd_block_nil.
  - cbn [flat_map]. apply cd_block_app.
    + apply H. left. reflexivity.
    + apply IH. intros y Hy. apply H. right. exact Hy.
Qed.

Lemma cd_block_all_plain : forall ls, Forall (fun l => continues l = false) ls -> cd_block ls ls.
Proof.
  induction 1 as [|x l Hx _ IH]; [exact cd_block_nil|].
  change (cd_block ([x] ++ l) ([x] ++ l)). apply cd_block_app; [apply cd_block_plain, Hx|exact IH].
Qed.

Lemma cd_block_run : forall A A' fuel, cd_block A A' -> length A <= fuel -> concat_dash fuel A = ok A'.
Proof.
  intros A A' fuel H Hf. specialize (H [] fuel). rewrite !app_nil_r in H.
  rewrite H by exact Hf. cbn. rewrite app_nil_r. reflexivity.
Qed.

Lemma concat_dash_write : forall contents : list text,
  Forall (fun l => ends_with_char 45%N l = false) contents ->
  cd_block (flat_map v30_line contents) (map (app prefix) contents).
Proof.
  intros contents H.
  replace (map (app prefix) contents) with (flat_map (fun l => [prefix ++ l]) contents)
    by (induction contents; [reflexivity|cbn [flat_map map app]; f_equal; assumption]).
  apply cd_block_flat_map. intros x Hx. apply cd_block_v30.
  rewrite Forall_forall in H. apply H, Hx.
Qed.

(* the reader leaves the first four lines (three header lines and the version line) alone and
   runs the splice loop on the rest, with fuel [length lines] (four more than needed) *)
Lemma tokenize_lines_block : forall (hdr A A' : list text),
  length hdr = 4 -> cd_block A A' ->
  tokenize_lines (hdr ++ A) = ok (map tokenize (hdr ++ A')).
Proof.
  intros hdr A A' Hh HA. unfold tokenize_lines.
  assert (F : firstn 4 (hdr ++ A) = hdr).
  { rewrite <- Hh, firstn_app, Nat.sub_diag, firstn_all. cbn [firstn]. apply app_nil_r. }
  rewrite F, (skipn_app_exact hdr A 4 Hh).
  rewrite (cd_block_run A A' (length (hdr ++ A)) HA) by (rewrite app_length; lia).
  reflexivity.
Qed.

Theorem tokenize_lines_write : forall (hdr contents : list text),
  length hdr = 4 ->
  Forall (fun l => ends_with_char 45%N l = false) contents ->
  tokenize_lines (hdr ++ flat_map v30_line contents)
  = ok (map tokenize hdr ++ map (fun l => tokenize (prefix ++ l)) contents).
Proof.
  intros hdr contents Hh H.
  rewrite (tokenize_lines_block hdr _ _ Hh (concat_dash_write contents H)).
  rewrite map_app, map_map. reflexivity.
Qed.

(* ------------------------------------------------------------------------------------ *)
(* 4. tokenisation                                                                       *)
(* ------------------------------------------------------------------------------------ *)

Definition spacefree (tk : text) : Prop := Forall (fun c => is_space c = false) tk.
(* a token: non-empty, no character Python's str.rstrip()/the split on " " would eat *)
Definition good_tok (tk : text) : Prop := tk <> [] /\ spacefree tk.
(* the split on " " without the empty fields, before rstrip *)
Definition toks (l : text) : list text := filter nonempty (split_on (is_code 32%N) l).

Lemma tokenize_toks : forall l, tokenize l = toks (rstrip l).
Proof. reflexivity. Qed.

Lemma is_space_code32 : forall c, is_space c = false -> is_code 32%N c = false.
Proof.
  intros c H. unfold is_space in H. cbv zeta in H.
  repeat (apply orb_false_iff in H; destruct H as [H _]). exact H.
Qed.

Lemma is_code_sp : is_code 32%N sp = true.
Proof. vm_compute. reflexivity. Qed.
Lemma is_space_sp : is_space sp = true.
Proof. vm_compute. reflexivity. Qed.

Lemma split_on_aux_tok : forall f tok cur l,
  Forall (fun c => f c = false) tok ->
  split_on_aux f cur (tok ++ l) = split_on_aux f (rev tok ++ cur) l.
Proof.
  intros f tok. induction tok as [|c tok IH]; intros cur l H; [reflexivity|].
  inversion H as [|? ? Hc Ht]; subst. cbn [app split_on_aux rev]. rewrite Hc, (IH _ _ Ht).
  rewrite <- app_assoc. reflexivity.
Qed.

Lemma spacefree_code32 : forall tk, spacefree tk -> Forall (fun c => is_code 32%N c = false) tk.
Proof. intros tk H. eapply Forall_impl; [|exact H]. intros c. apply is_space_code32. Qed.

Lemma nonempty_true : forall tk : text, tk <> [] -> nonempty tk = true.
Proof. destruct tk; [congruence|reflexivity]. Qed.

Lemma toks_tok_sp : forall tok rest, good_tok tok -> toks (tok ++ sp :: rest) = tok :: toks rest.
Proof.
  intros tok rest [Hne Hsf]. unfold toks, split_on.
  rewrite (split_on_aux_tok _ _ [] (sp :: rest) (spacefree_code32 tok Hsf)).
  cbn [split_on_aux]. rewrite is_code_sp, app_nil_r, rev_involutive.
  cbn [filter]. rewrite (nonempty_true tok Hne). reflexivity.
Qed.

Lemma toks_sp : forall rest, toks (sp :: rest) = toks rest.
Proof. intro rest. unfold toks, split_on. cbn [split_on_aux]. rewrite is_code_sp. reflexivity. Qed.

Lemma toks_tok : forall tok, good_tok tok -> toks tok = [tok].
Proof.
  intros tok [Hne Hsf]. unfold toks, split_on.
  rewrite <- (app_nil_r tok) at 1.
  rewrite (split_on_aux_tok _ _ [] [] (spacefree_code32 tok Hsf)).
  cbn [split_on_aux]. rewrite app_nil_r, rev_involutive.
  cbn [filter]. rewrite (nonempty_true tok Hne). reflexivity.
Qed.

Lemma toks_nil : toks [] = [].
Proof. reflexivity. Qed.

(* ---- rstrip ---- *)
Lemma lstrip_by_app : forall f x y,
  lstrip_by f (x ++ y) = match lstrip_by f x with [] => lstrip_by f y | _ :: _ => lstrip_by f x ++ y end.
Proof.
  intros f x y. induction x as [|c x IH]; [reflexivity|].
  cbn [app lstrip_by]. destruct (f c); [exact IH|reflexivity].
Qed.

Lemma rstrip_by_app : forall f a b,
  rstrip_by f (a ++ b) = match rstrip_by f b with [] => rstrip_by f a | _ :: _ => a ++ rstrip_by f b end.
Proof.
  intros f a b. unfold rstrip_by. rewrite rev_app_distr, lstrip_by_app.
  destruct (lstrip_by f (rev b)) as [|c r] eqn:E; [reflexivity|].
  rewrite rev_app_distr, rev_involutive.
  destruct (rev (c :: r)) eqn:E2; [|reflexivity].
  apply (f_equal (@rev ascii)) in E2. rewrite rev_involutive in E2. discriminate E2.
Qed.

Lemma rstrip_app : forall a b,
  rstrip (a ++ b) = match rstrip b with [] => rstrip a | _ :: _ => a ++ rstrip b end.
Proof. intros. apply rstrip_by_app. Qed.

Definition ends_nonspace (l : text) : Prop := exists l' c, l = l' ++ [c] /\ is_space c = false.

Lemma rstrip_ends_nonspace : forall l, ends_nonspace l -> rstrip l = l.
Proof.
  intros l [l' [c [-> Hc]]]. unfold rstrip, rstrip_by. rewrite rev_unit.
  cbn [lstrip_by]. rewrite Hc. rewrite <- rev_unit. apply rev_involutive.
Qed.

Lemma ends_nonspace_app : forall a b, ends_nonspace b -> ends_nonspace (a ++ b).
Proof. intros a b [l' [c [-> Hc]]]. exists (a ++ l'), c. rewrite app_assoc. auto. Qed.

Lemma good_tok_ends_nonspace : forall tk, good_tok tk -> ends_nonspace tk.
Proof.
  intros tk [Hne Hsf]. destruct (exists_last Hne) as [l' [c ->]]. exists l', c. split; [reflexivity|].
  apply Forall_app in Hsf. destruct Hsf as [_ Hc]. inversion Hc; assumption.
Qed.

Lemma ends_nonspace_nonnil : forall l, ends_nonspace l -> l <> [].
Proof. intros l [l' [c [-> _]]]. destruct l'; discriminate. Qed.

(* ---- join ---- *)
Lemma join_with_cons2 : forall sep (x y : text) r,
  join_with sep (x :: y :: r) = x ++ sep ++ join_with sep (y :: r).
Proof. reflexivity. Qed.

Lemma join_with_snoc : forall sep (l : list text) x,
  l <> [] -> join_with sep (l ++ [x]) = join_with sep l ++ sep ++ x.
Proof.
  intros sep l x. induction l as [|a l IH]; [congruence|]. intros _.
  destruct l as [|b l]; [reflexivity|].
  change ((a :: b :: l) ++ [x]) with (a :: b :: (l ++ [x])).
  rewrite !join_with_cons2. change (b :: l ++ [x]) with ((b :: l) ++ [x]).
  rewrite IH by discriminate. rewrite <- !app_assoc. reflexivity.
Qed.

Lemma join_ends_nonspace : forall tl, tl <> [] -> Forall good_tok tl -> ends_nonspace (join_with [sp] tl).
Proof.
  induction tl as [|a tl IH]; [congruence|]. intros _ H. inversion H as [|? ? Ha Ht]; subst.
  destruct tl as [|b tl].
  - apply good_tok_ends_nonspace, Ha.
  - rewrite join_with_cons2. apply ends_nonspace_app, ends_nonspace_app, IH; [discriminate|exact Ht].
Qed.

Lemma toks_join : forall tl, Forall good_tok tl -> toks (join_with [sp] tl) = tl.
Proof.
  induction tl as [|a tl IH]; intro H; [reflexivity|]. inversion H as [|? ? Ha Ht]; subst.
  destruct tl as [|b tl].
  - apply toks_tok, Ha.
  - rewrite join_with_cons2. cbn [app]. rewrite (toks_tok_sp _ _ Ha), (IH Ht). reflexivity.
Qed.

(* ---- priority 4 ---- *)
Theorem tokenize_join : forall tl, Forall good_tok tl -> tokenize (join_with [sp] tl) = tl.
Proof.
  intros tl H. rewrite tokenize_toks. destruct tl as [|a tl]; [reflexivity|].
  rewrite rstrip_ends_nonspace by (apply join_ends_nonspace; [discriminate|exact H]).
  apply toks_join, H.
Qed.

(* the prefix contributes its two tokens whatever follows *)
Lemma prefix_split : forall l, prefix ++ l = t "M" ++ sp :: sp :: (t "V30" ++ sp :: l).
Proof. reflexivity. Qed.
Lemma good_M : good_tok (t "M").
Proof. split; [discriminate|]. repeat constructor. Qed.
Lemma good_V30 : good_tok (t "V30").
Proof. split; [discriminate|]. repeat constructor. Qed.

Theorem tokenize_prefix : forall l, tokenize (prefix ++ l) = t "M" :: t "V30" :: tokenize l.
Proof.
  intro l. rewrite !tokenize_toks, rstrip_app.
  destruct (rstrip l) as [|c r] eqn:E.
  - vm_compute. reflexivity.
  - rewrite prefix_split, (toks_tok_sp _ _ good_M), toks_sp, (toks_tok_sp _ _ good_V30). reflexivity.
Qed.

Theorem tokenize_prefix_join : forall tl,
  Forall good_tok tl -> tokenize (prefix ++ join_with [sp] tl) = t "M" :: t "V30" :: tl.
Proof. intros tl H. rewrite tokenize_prefix, (tokenize_join tl H). reflexivity. Qed.

(* ------------------------------------------------------------------------------------ *)
(* 5. decimal numerals printed by str(int)                                               *)
(* ------------------------------------------------------------------------------------ *)

Definition numchar (c : ascii) : bool := is_digit c || is_code 45%N c.

Lemma numchar_not_space : forall c, numchar c = true -> is_space c = false.
Proof.
  intros [b0 b1 b2 b3 b4 b5 b6 b7];
    destruct b0, b1, b2, b3, b4, b5, b6, b7; vm_compute; intro H; try reflexivity; discriminate H.
Qed.

Lemma is_digit_numchar : forall c, is_digit c = true -> numchar c = true.
Proof. intros c H. unfold numchar. rewrite H. reflexivity. Qed.

Lemma is_digit_not_space : forall c, is_digit c = true -> is_space c = false.
Proof. intros c H. apply numchar_not_space, is_digit_numchar, H. Qed.

Lemma is_digit_not_dash : forall c, is_digit c = true -> is_code 45%N c = false.
Proof.
  intros [b0 b1 b2 b3 b4 b5 b6 b7];
    destruct b0, b1, b2, b3, b4, b5, b6, b7; vm_compute; intro H; try reflexivity; discriminate H.
Qed.

Definition all_digit (l : text) : Prop := Forall (fun c => is_digit c = true) l.

Lemma uint_all_digit : forall d, all_digit (t (NilEmpty.string_of_uint d)).
Proof.
  unfold all_digit, t.
  induction d; cbn [NilEmpty.string_of_uint list_ascii_of_string]; constructor; try assumption; reflexivity.
Qed.

Lemma nzuint_all_digit : forall d, all_digit (t (NilZero.string_of_uint d)).
Proof.
  intro d. destruct d; try apply uint_all_digit. unfold NilZero.string_of_uint.
  constructor; [reflexivity|constructor].
Qed.

Lemma nzuint_nonnil : forall d, t (NilZero.string_of_uint d) <> [].
Proof. destruct d; discriminate. Qed.

Lemma text_of_N_all_digit : forall n, all_digit (text_of_N n).
Proof. intro n. apply nzuint_all_digit. Qed.
Lemma text_of_N_nonnil : forall n, text_of_N n <> [].
Proof. intro n. apply nzuint_nonnil. Qed.

Lemma all_digit_spacefree : forall l, all_digit l -> spacefree l.
Proof. intros l H. eapply Forall_impl; [|exact H]. apply is_digit_not_space. Qed.

Lemma text_of_N_good : forall n, good_tok (text_of_N n).
Proof. intro n. split; [apply text_of_N_nonnil|apply all_digit_spacefree, text_of_N_all_digit]. Qed.

(* str(z) is an optional minus sign followed by a non-empty digit string *)
Lemma text_of_Z_shape : forall z, exists ds,
  ds <> [] /\ all_digit ds /\ (text_of_Z z = ds \/ text_of_Z z = dash :: ds).
Proof.
  intro z. unfold text_of_Z. destruct (Z.to_int z) as [d|d].
  - exists (t (NilZero.string_of_uint d)). split; [apply nzuint_nonnil|]. split; [apply nzuint_all_digit|].
    left. reflexivity.
  - exists (t (NilZero.string_of_uint d)). split; [apply nzuint_nonnil|]. split; [apply nzuint_all_digit|].
    right. reflexivity.
Qed.

Lemma text_of_Z_good : forall z, good_tok (text_of_Z z).
Proof.
  intro z. destruct (text_of_Z_shape z) as [ds [Hne [Hd [-> | ->]]]].
  - split; [exact Hne|apply all_digit_spacefree, Hd].
  - split; [discriminate|]. constructor; [reflexivity|apply all_digit_spacefree, Hd].
Qed.

(* ends in a digit, hence not in a dash and not in a blank *)
Definition ends_digit (l : text) : Prop := exists l' c, l = l' ++ [c] /\ is_digit c = true.

Lemma ends_digit_app : forall a b, ends_digit b -> ends_digit (a ++ b).
Proof. intros a b [l' [c [-> Hc]]]. exists (a ++ l'), c. rewrite app_assoc. auto. Qed.

Lemma all_digit_ends_digit : forall l, l <> [] -> all_digit l -> ends_digit l.
Proof.
  intros l Hne H. destruct (exists_last Hne) as [l' [c ->]]. exists l', c. split; [reflexivity|].
  apply Forall_app in H. destruct H as [_ H]. inversion H; assumption.
Qed.

Lemma text_of_N_ends_digit : forall n, ends_digit (text_of_N n).
Proof. intro n. apply all_digit_ends_digit; [apply text_of_N_nonnil|apply text_of_N_all_digit]. Qed.

Lemma text_of_Z_ends_digit : forall z, ends_digit (text_of_Z z).
Proof.
  intro z. destruct (text_of_Z_shape z) as [ds [Hne [Hd [-> | ->]]]].
  - apply all_digit_ends_digit; assumption.
  - apply (ends_digit_app [dash]), all_digit_ends_digit; assumption.
Qed.

Lemma ends_digit_no_dash : forall l, ends_digit l -> ends_with_char 45%N l = false.
Proof. intros l [l' [c [-> Hc]]]. rewrite ends_with_char_snoc. apply is_digit_not_dash, Hc. Qed.

Lemma ends_digit_nonspace : forall l, ends_digit l -> ends_nonspace l.
Proof. intros l [l' [c [-> Hc]]]. exists l', c. split; [reflexivity|apply is_digit_not_space, Hc]. Qed.

(* ------------------------------------------------------------------------------------ *)
(* 6. atom and bond lines are blank-separated token lists                                *)
(* ------------------------------------------------------------------------------------ *)

Definition opt_tok (name : string) (cond : Z -> bool) (o : option Z) : list text :=
  match o with Some v => if cond v then [t name ++ t "=" ++ tZ v] else [] | None => [] end.

Definition atom_toks (x : atom rpay) : list text :=
  [tN (lbl x + 1); p_sym (pay x); p_x (pay x); p_y (pay x); p_z (pay x); t "0"]
  ++ opt_tok "CHG" chg_ok (p_chg (pay x)) ++ opt_tok "RAD" rad_ok (rad x) ++ opt_tok "MASS" mass_ok (mass x).

Definition bond_toks (ib : N * (N * N * option Z)) : list text :=
  [tN (fst ib); tZ (opt_default 1%Z (snd (snd ib))); tN (fst (fst (snd ib)) + 1); tN (snd (fst (snd ib)) + 1)].

Lemma join_opt : forall (l : list text) name cond o,
  l <> [] -> join_with [sp] l ++ opt_prop name cond o = join_with [sp] (l ++ opt_tok name cond o).
Proof.
  intros l name cond o Hl. unfold opt_prop, opt_tok, spt.
  destruct o as [v|]; [destruct (cond v)|]; try (rewrite !app_nil_r; reflexivity).
  rewrite (join_with_snoc [sp] l _ Hl). reflexivity.
Qed.

Lemma atom_line_join : forall x, atom_line x = join_with [sp] (atom_toks x).
Proof.
  intro x. unfold atom_toks.
  set (l6 := [tN (lbl x + 1); p_sym (pay x); p_x (pay x); p_y (pay x); p_z (pay x); t "0"]).
  rewrite !app_assoc.
  rewrite <- !join_opt.
  - unfold l6, atom_line, spt. cbn [join_with]. rewrite <- !app_assoc. reflexivity.
  - discriminate.
  - unfold l6. destruct (opt_tok "CHG" chg_ok (p_chg (pay x))); discriminate.
  - unfold l6. destruct (opt_tok "CHG" chg_ok (p_chg (pay x))); discriminate.
Qed.

Lemma bond_line_join : forall ib, bond_line ib = join_with [sp] (bond_toks ib).
Proof. intro ib. unfold bond_line, bond_toks, spt. cbn [join_with]. reflexivity. Qed.

Lemma spacefree_app : forall a b, spacefree a -> spacefree b -> spacefree (a ++ b).
Proof. intros a b Ha Hb. apply Forall_app. split; assumption. Qed.

Lemma opt_tok_good : forall name cond o,
  spacefree (t name) -> Forall good_tok (opt_tok name cond o).
Proof.
  intros name cond o Hn. unfold opt_tok. destruct o as [v|]; [destruct (cond v)|]; try constructor; [|constructor].
  split.
  - destruct (text_of_Z_good v) as [Hne _]. unfold tZ. destruct (t name); cbn [app]; discriminate.
  - apply spacefree_app; [exact Hn|]. apply spacefree_app; [repeat constructor|apply text_of_Z_good].
Qed.

Lemma good_zero : good_tok (t "0").
Proof. split; [discriminate|repeat constructor]. Qed.

Lemma atom_toks_good : forall x,
  good_tok (p_sym (pay x)) -> good_tok (p_x (pay x)) -> good_tok (p_y (pay x)) -> good_tok (p_z (pay x)) ->
  Forall good_tok (atom_toks x).
Proof.
  intros x Hs Hx Hy Hz. unfold atom_toks.
  repeat (apply Forall_app; split).
  - repeat (apply Forall_cons; [first [apply text_of_N_good|assumption|exact good_zero]|]). apply Forall_nil.
  - apply opt_tok_good. repeat constructor.
  - apply opt_tok_good. repeat constructor.
  - apply opt_tok_good. repeat constructor.
Qed.

Lemma bond_toks_good : forall ib, Forall good_tok (bond_toks ib).
Proof.
  intro ib. unfold bond_toks.
  repeat (apply Forall_cons; [first [apply text_of_N_good|apply text_of_Z_good]|]). apply Forall_nil.
Qed.

Theorem tokenize_atom_line : forall x,
  good_tok (p_sym (pay x)) -> good_tok (p_x (pay x)) -> good_tok (p_y (pay x)) -> good_tok (p_z (pay x)) ->
  tokenize (prefix ++ atom_line x) = t "M" :: t "V30" :: atom_toks x.
Proof.
  intros x Hs Hx Hy Hz. rewrite atom_line_join. apply tokenize_prefix_join, atom_toks_good; assumption.
Qed.

Theorem tokenize_bond_line : forall ib,
  tokenize (prefix ++ bond_line ib) = t "M" :: t "V30" :: bond_toks ib.
Proof. intro ib. rewrite bond_line_join. apply tokenize_prefix_join, bond_toks_good. Qed.

(* atom and bond lines end in a digit whatever the symbol and coordinate tokens are, so the
   last piece written by the wrapping loop never looks like a continuation *)
Lemma opt_prop_ends_digit : forall name cond o a,
  ends_digit a -> ends_digit (a ++ opt_prop name cond o).
Proof.
  intros name cond o a Ha. unfold opt_prop. destruct o as [v|]; [destruct (cond v)|];
    try (rewrite app_nil_r; exact Ha).
  rewrite !app_assoc. apply ends_digit_app, text_of_Z_ends_digit.
Qed.

Lemma atom_line_ends_digit : forall x, ends_digit (atom_line x).
Proof.
  intro x. unfold atom_line. repeat (rewrite app_assoc).
  repeat apply opt_prop_ends_digit.
  apply ends_digit_app. exists [], "0"%char. split; reflexivity.
Qed.

Lemma bond_line_ends_digit : forall ib, ends_digit (bond_line ib).
Proof. intro ib. unfold bond_line. cbv zeta. repeat apply ends_digit_app. apply text_of_N_ends_digit. Qed.

Lemma atom_line_no_dash : forall x, ends_with_char 45%N (atom_line x) = false.
Proof. intro x. apply ends_digit_no_dash, atom_line_ends_digit. Qed.
Lemma bond_line_no_dash : forall ib, ends_with_char 45%N (bond_line ib) = false.
Proof. intro ib. apply ends_digit_no_dash, bond_line_ends_digit. Qed.

(* ------------------------------------------------------------------------------------ *)
(* 7. the whole file: what the reader's splice loop makes of write_lines                 *)
(* ------------------------------------------------------------------------------------ *)

Definition counts_line (m : mol rpay (option Z)) : text :=
  t "COUNTS " ++ tN (N.of_nat (length (atoms m))) ++ spt ++ tN (N.of_nat (length (bonds m))) ++ t " 0 0 0".

(* the contents handed to _add_v30_line, in order *)
Definition v30_contents (m : mol rpay (option Z)) : list text :=
  [t "BEGIN CTAB"; counts_line m; t "BEGIN ATOM"] ++ map atom_line (atoms m) ++ [t "END ATOM"]
  ++ (match bonds m with
      | [] => []
      | _ => [t "BEGIN BOND"] ++ map bond_line (enumerate_from 1 (bonds m)) ++ [t "END BOND"]
      end)
  ++ [t "END CTAB"].

(* the file with every wrapped line restored *)
Definition logical_lines (line2 : text) (m : mol rpay (option Z)) : list text :=
  header line2 ++ map (app prefix) (v30_contents m) ++ [t "M  END"].

Lemma flat_map_map : forall (A B C : Type) (f : B -> list C) (g : A -> B) (l : list A),
  flat_map f (map g l) = flat_map (fun x => f (g x)) l.
Proof. intros A B C f g l. induction l as [|a l IH]; [reflexivity|]. cbn [map flat_map]. rewrite IH. reflexivity. Qed.

Lemma write_lines_contents : forall line2 m,
  write_lines line2 m = header line2 ++ flat_map v30_line (v30_contents m) ++ [t "M  END"].
Proof.
  intros line2 m. unfold write_lines, v30_contents. fold (counts_line m).
  rewrite !flat_map_app, !flat_map_map. cbn [flat_map]. rewrite !app_nil_r.
  destruct (bonds m) as [|b bs].
  - cbn [flat_map app]. rewrite <- !app_assoc. reflexivity.
  - rewrite !flat_map_app, !flat_map_map. cbn [flat_map]. rewrite !app_nil_r.
    rewrite <- !app_assoc. reflexivity.
Qed.

Lemma counts_line_no_dash : forall m, ends_with_char 45%N (counts_line m) = false.
Proof.
  intro m. apply ends_digit_no_dash. unfold counts_line. repeat apply ends_digit_app.
  exists (t " 0 0 "), "0"%char. split; reflexivity.
Qed.

Lemma v30_contents_no_dash : forall m, Forall (fun l => ends_with_char 45%N l = false) (v30_contents m).
Proof.
  intro m. unfold v30_contents. repeat (apply Forall_app; split).
  - repeat (apply Forall_cons; [first [reflexivity|apply counts_line_no_dash]|]). apply Forall_nil.
  - apply Forall_map, Forall_forall. intros x _. apply atom_line_no_dash.
  - repeat constructor.
  - destruct (bonds m); [constructor|]. repeat (apply Forall_app; split).
    + repeat constructor.
    + apply Forall_map, Forall_forall. intros x _. apply bond_line_no_dash.
    + repeat constructor.
  - repeat constructor.
Qed.

Lemma header_plain : forall line2,
  continues line2 = false -> Forall (fun l => continues l = false) (header line2).
Proof.
  intros line2 H. unfold header.
  apply Forall_cons; [reflexivity|]. apply Forall_cons; [exact H|].
  apply Forall_cons; [reflexivity|]. apply Forall_cons; [vm_compute; reflexivity|apply Forall_nil].
Qed.

Lemma write_lines_block : forall line2 m,
  continues line2 = false -> cd_block (write_lines line2 m) (logical_lines line2 m).
Proof.
  intros line2 m H. rewrite write_lines_contents. unfold logical_lines.
  apply cd_block_app; [apply cd_block_all_plain, header_plain, H|].
  apply cd_block_app; [apply concat_dash_write, v30_contents_no_dash|].
  apply cd_block_plain. vm_compute. reflexivity.
Qed.

(* the splice loop on the whole list, header included (what the reader did before it skipped
   the header): needs the second header line not to look like a continued V30 line *)
Theorem concat_dash_write_lines_whole : forall line2 m fuel,
  continues line2 = false -> length (write_lines line2 m) <= fuel ->
  concat_dash fuel (write_lines line2 m) = ok (logical_lines line2 m).
Proof. intros line2 m fuel H Hf. apply cd_block_run; [apply write_lines_block, H|exact Hf]. Qed.

(* what the reader does: the four header lines are set aside, whatever they contain *)
Lemma write_body_block : forall m,
  cd_block (flat_map v30_line (v30_contents m) ++ [t "M  END"])
           (map (app prefix) (v30_contents m) ++ [t "M  END"]).
Proof.
  intro m. apply cd_block_app; [apply concat_dash_write, v30_contents_no_dash|].
  apply cd_block_plain. vm_compute. reflexivity.
Qed.

Lemma header_length4 : forall line2, length (header line2) = 4.
Proof. reflexivity. Qed.

Theorem concat_dash_write_lines : forall line2 m fuel,
  length (skipn 4 (write_lines line2 m)) <= fuel ->
  concat_dash fuel (skipn 4 (write_lines line2 m)) = ok (skipn 4 (logical_lines line2 m)).
Proof.
  intros line2 m fuel. rewrite write_lines_contents. unfold logical_lines.
  rewrite !(skipn_app_exact (header line2) _ 4 (header_length4 line2)).
  intro Hf. apply cd_block_run; [apply write_body_block|exact Hf].
Qed.

Theorem tokenize_lines_write_lines : forall line2 m,
  tokenize_lines (write_lines line2 m) = ok (map tokenize (logical_lines line2 m)).
Proof.
  intros line2 m. rewrite write_lines_contents. unfold logical_lines.
  apply tokenize_lines_block; [apply header_length4|apply write_body_block].
Qed.

(* ------------------------------------------------------------------------------------ *)
(* 8. non-vacuity                                                                        *)
(* ------------------------------------------------------------------------------------ *)

(* 150 characters; the 71st is a minus sign, so the first written line ends in "--" *)
Definition ex_line : text := repeat "a"%char 70 ++ [dash] ++ repeat "b"%char 79.

Example ex_line_length : length ex_line = 150.
Proof. vm_compute. reflexivity. Qed.
Example ex_line_wraps_twice : map (@length ascii) (v30_line ex_line) = [79; 79; 15].
Proof. vm_compute. reflexivity. Qed.
Example ex_line_double_dash :
  firstn 1 (v30_line ex_line) = [prefix ++ repeat "a"%char 70 ++ [dash; dash]].
Proof. vm_compute. reflexivity. Qed.
Example ex_line_restored : concat_dash 3 (v30_line ex_line) = ok [prefix ++ ex_line].
Proof. vm_compute. reflexivity. Qed.
Example ex_line_restored_in_context :
  concat_dash 5 ([t "x"] ++ v30_line ex_line ++ [t "M  END"]) = ok [t "x"; prefix ++ ex_line; t "M  END"].
Proof. vm_compute. reflexivity. Qed.
Example ex_unwrap_spec : unwrap_spec (v30_line ex_line) = ex_line.
Proof. vm_compute. reflexivity. Qed.
(* the hypothesis of unwrap_wrap is needed: a content line ending in a dash swallows its successor *)
Example ex_trailing_dash_needed :
  concat_dash 2 (v30_line (t "A-") ++ v30_line (t "B")) = ok [prefix ++ t "AB"].
Proof. vm_compute. reflexivity. Qed.

(* ------------------------------------------------------------------------------------ *)
(* 9. int() reads back what str() printed                                                *)
(* ------------------------------------------------------------------------------------ *)

Lemma ascii_eqb_eq : forall a b, ascii_eqb a b = true -> a = b.
Proof.
  intros a b H. unfold ascii_eqb in H. apply N.eqb_eq in H.
  rewrite <- (ascii_N_embedding a), <- (ascii_N_embedding b), H. reflexivity.
Qed.

Lemma text_eqb_eq : forall a b, text_eqb a b = true -> a = b.
Proof.
  induction a as [|x a IH]; destruct b as [|y b]; cbn [text_eqb]; intro H; try discriminate H; [reflexivity|].
  apply andb_true_iff in H. destruct H as [H1 H2]. rewrite (ascii_eqb_eq _ _ H1), (IH _ H2). reflexivity.
Qed.

Lemma text_eqb_refl : forall a, text_eqb a a = true.
Proof. induction a as [|x a IH]; [reflexivity|]. cbn [text_eqb]. rewrite ascii_eqb_refl, IH. reflexivity. Qed.

Lemma strip_good : forall s, good_tok s -> strip s = s.
Proof.
  intros s H. unfold strip. rewrite (rstrip_ends_nonspace s (good_tok_ends_nonspace s H)).
  destruct H as [Hne Hsf]. destruct s as [|c r]; [congruence|].
  inversion Hsf as [|? ? Hc _]; subst. cbn [lstrip_by]. rewrite Hc. reflexivity.
Qed.

Lemma is_digit_not_plus : forall c, is_digit c = true -> is_code 43%N c = false.
Proof.
  intros [b0 b1 b2 b3 b4 b5 b6 b7];
    destruct b0, b1, b2, b3, b4, b5, b6, b7; vm_compute; intro H; try reflexivity; discriminate H.
Qed.

Lemma int_digits_all : forall l acc, all_digit l -> int_digits acc true l = Some (digits_val acc l).
Proof.
  induction l as [|c l IH]; intros acc H; [reflexivity|].
  inversion H as [|? ? Hc Hl]; subst. cbn [int_digits digits_val]. rewrite Hc. apply IH, Hl.
Qed.

Lemma int_digits_start : forall l, l <> [] -> all_digit l -> int_digits 0 false l = Some (digits_val 0 l).
Proof.
  intros l Hne H. destruct l as [|c l]; [congruence|].
  inversion H as [|? ? Hc Hl]; subst. cbn [int_digits digits_val]. rewrite Hc. apply int_digits_all, Hl.
Qed.

Lemma all_digit_good : forall l, l <> [] -> all_digit l -> good_tok l.
Proof. intros l Hne H. split; [exact Hne|apply all_digit_spacefree, H]. Qed.

Lemma py_int_digits : forall l, l <> [] -> all_digit l -> py_int l = Some (Z.of_N (digits_val 0 l)).
Proof.
  intros l Hne H. unfold py_int. rewrite (strip_good l (all_digit_good l Hne H)).
  destruct l as [|c r] eqn:E; [congruence|]. rewrite <- E in *.
  assert (Hc : is_digit c = true) by (rewrite E in H; inversion H; assumption).
  rewrite (is_digit_not_dash c Hc), (is_digit_not_plus c Hc).
  rewrite (int_digits_start l Hne H). reflexivity.
Qed.

Lemma py_int_neg_digits : forall l, l <> [] -> all_digit l ->
  py_int (dash :: l) = Some (Z.opp (Z.of_N (digits_val 0 l))).
Proof.
  intros l Hne H. unfold py_int.
  assert (G : good_tok (dash :: l)).
  { split; [discriminate|]. constructor; [reflexivity|apply all_digit_spacefree, H]. }
  rewrite (strip_good _ G). rewrite is_code_dash. rewrite (int_digits_start l Hne H). reflexivity.
Qed.

Lemma digits_val_uint : forall d a,
  digits_val (DecimalPos.Unsigned.of_lu a) (t (NilEmpty.string_of_uint d))
  = DecimalPos.Unsigned.of_lu (Decimal.revapp d a).
Proof.
  unfold t.
  induction d; intro a;
    cbn [NilEmpty.string_of_uint list_ascii_of_string digits_val Decimal.revapp]; [reflexivity|..];
    rewrite <- IHd; f_equal; cbn [DecimalPos.Unsigned.of_lu];
    match goal with |- context [digit_val ?c] =>
      let v := eval vm_compute in (digit_val c) in change (digit_val c) with v end; lia.
Qed.

Lemma digits_val_nzuint : forall d, digits_val 0 (t (NilZero.string_of_uint d)) = N.of_uint d.
Proof.
  intro d. unfold N.of_uint. rewrite DecimalPos.Unsigned.of_uint_alt. unfold Decimal.rev.
  rewrite <- digits_val_uint. destruct d; reflexivity.
Qed.

Lemma digits_val_text_of_N : forall n, digits_val 0 (text_of_N n) = n.
Proof. intro n. unfold text_of_N. rewrite digits_val_nzuint. apply DecimalN.Unsigned.of_to. Qed.

Lemma py_int_text_of_N : forall n, py_int (text_of_N n) = Some (Z.of_N n).
Proof.
  intro n. rewrite (py_int_digits _ (text_of_N_nonnil n) (text_of_N_all_digit n)), digits_val_text_of_N.
  reflexivity.
Qed.

Lemma py_int_text_of_Z : forall z, py_int (text_of_Z z) = Some z.
Proof.
  intro z. unfold text_of_Z. destruct z as [|p|p]; cbn [Z.to_int NilZero.string_of_int].
  - vm_compute. reflexivity.
  - rewrite (py_int_digits _ (nzuint_nonnil _) (nzuint_all_digit _)), digits_val_nzuint.
    unfold N.of_uint. rewrite DecimalPos.Unsigned.of_to. reflexivity.
  - change (t (String "-" (NilZero.string_of_uint (Pos.to_uint p))))
      with (dash :: t (NilZero.string_of_uint (Pos.to_uint p))).
    rewrite (py_int_neg_digits _ (nzuint_nonnil _) (nzuint_all_digit _)), digits_val_nzuint.
    unfold N.of_uint. rewrite DecimalPos.Unsigned.of_to. reflexivity.
Qed.

Lemma int_of_tN : forall n, int_of (tN n) = ok (Z.of_N n).
Proof. intro n. unfold int_of, tN. rewrite py_int_text_of_N. reflexivity. Qed.
Lemma int_of_tZ : forall z, int_of (tZ z) = ok z.
Proof. intro z. unfold int_of, tZ. rewrite py_int_text_of_Z. reflexivity. Qed.

(* ------------------------------------------------------------------------------------ *)
(* 10. reading an atom line back                                                         *)
(* ------------------------------------------------------------------------------------ *)

(* split: the first field *)
Lemma split_on_aux_head : forall f l cur, exists h tl, split_on_aux f cur l = (rev cur ++ h) :: tl.
Proof.
  intros f l. induction l as [|c r IH]; intro cur.
  - exists [], []. cbn [split_on_aux]. rewrite app_nil_r. reflexivity.
  - cbn [split_on_aux]. destruct (f c).
    + exists [], (split_on_aux f [] r). rewrite app_nil_r. reflexivity.
    + destruct (IH (c :: cur)) as [h [tl E]]. exists (c :: h), tl. rewrite E. cbn [rev].
      rewrite <- app_assoc. reflexivity.
Qed.

Lemma split_on_head_keep : forall f c r, f c = false -> exists h tl, split_on f (c :: r) = (c :: h) :: tl.
Proof.
  intros f c r H. unfold split_on. cbn [split_on_aux]. rewrite H.
  destruct (split_on_aux_head f r [c]) as [h [tl E]]. exists h, tl. exact E.
Qed.

Lemma split_on_head_sep : forall f c r, f c = true -> exists h tl, split_on f (c :: r) = [] :: h :: tl.
Proof.
  intros f c r H. unfold split_on. cbn [split_on_aux]. rewrite H.
  destruct (split_on_aux_head f r []) as [h [tl E]]. exists h, tl. rewrite E. reflexivity.
Qed.

Lemma split_on_two : forall f a b,
  Forall (fun c => f c = false) a -> Forall (fun c => f c = false) b ->
  forall s, f s = true -> split_on f (a ++ s :: b) = [a; b].
Proof.
  intros f a b Ha Hb s Hs. unfold split_on.
  rewrite (split_on_aux_tok f a [] (s :: b) Ha). cbn [split_on_aux]. rewrite Hs, app_nil_r, rev_involutive.
  rewrite <- (app_nil_r b) at 1. rewrite (split_on_aux_tok f b [] [] Hb). cbn [split_on_aux].
  rewrite app_nil_r, rev_involutive. reflexivity.
Qed.

(* ---- key=value tokens ---- *)
Lemma key_matches_exact : forall key tok,
  key_matches key tok = match split_on (is_code 61%N) tok with k :: _ => text_eqb k key | [] => false end.
Proof. reflexivity. Qed.     (* Params.v3000_keyword_exact = true *)

Lemma key_matches_first : forall k0 kr c r, ascii_eqb c k0 = false -> key_matches (k0 :: kr) (c :: r) = false.
Proof.
  intros k0 kr c r H. rewrite key_matches_exact. destruct (is_code 61%N c) eqn:E.
  - destruct (split_on_head_sep _ c r E) as [h [tl ->]]. reflexivity.
  - destruct (split_on_head_keep _ c r E) as [h [tl ->]]. cbn [text_eqb]. rewrite H. reflexivity.
Qed.

Definition no_eq (l : text) : Prop := Forall (fun c => is_code 61%N c = false) l.

Lemma is_digit_not_eq : forall c, numchar c = true -> is_code 61%N c = false.
Proof.
  intros [b0 b1 b2 b3 b4 b5 b6 b7];
    destruct b0, b1, b2, b3, b4, b5, b6, b7; vm_compute; intro H; try reflexivity; discriminate H.
Qed.

Lemma tZ_no_eq : forall v, no_eq (tZ v).
Proof.
  intro v. unfold tZ, no_eq. destruct (text_of_Z_shape v) as [ds [_ [Hd [-> | ->]]]].
  - eapply Forall_impl; [|exact Hd]. intros c Hc. apply is_digit_not_eq, is_digit_numchar, Hc.
  - constructor; [reflexivity|]. eapply Forall_impl; [|exact Hd].
    intros c Hc. apply is_digit_not_eq, is_digit_numchar, Hc.
Qed.

Lemma split_keyval : forall name v, no_eq (t name) ->
  split_on (is_code 61%N) (t name ++ t "=" ++ tZ v) = [t name; tZ v].
Proof. intros name v Hn. apply split_on_two; [exact Hn|apply tZ_no_eq|reflexivity]. Qed.

Definition keep (cond : Z -> bool) (o : option Z) : option Z :=
  match o with Some v => if cond v then Some v else None | None => None end.

Lemma prop_values_skip : forall key tk r, key_matches key tk = false -> prop_values key (tk :: r) = prop_values key r.
Proof. intros key tk r H. cbn [prop_values]. rewrite H. reflexivity. Qed.

Lemma prop_values_opt : forall key name cond o rest, no_eq (t name) ->
  prop_values key (opt_tok name cond o ++ rest) =
  if text_eqb (t name) key then
    match keep cond o with
    | Some v => do r <- prop_values key rest; ok (v :: r)
    | None => prop_values key rest
    end
  else prop_values key rest.
Proof.
  intros key name cond o rest Hn. unfold opt_tok, keep.
  destruct o as [v|]; [destruct (cond v)|]; cbn [app]; try (destruct (text_eqb (t name) key); reflexivity).
  cbn [prop_values]. rewrite key_matches_exact, (split_keyval name v Hn).
  destruct (text_eqb (t name) key); [|reflexivity].
  cbn [nth_tok bind ok]. rewrite int_of_tZ. reflexivity.
Qed.

Lemma last_nonzero_keep : forall cond o, (forall v, cond v = true -> v <> 0%Z) ->
  last_nonzero (match keep cond o with Some v => [v] | None => [] end) = keep cond o.
Proof.
  intros cond o H. unfold keep. destruct o as [v|]; [|reflexivity].
  destruct (cond v) eqn:E; [|reflexivity]. unfold last_nonzero. cbn [rev app].
  destruct (Z.eqb_spec v 0); [exfalso; exact (H v E e)|reflexivity].
Qed.

Lemma chg_ok_nonzero : forall v, chg_ok v = true -> v <> 0%Z.
Proof. intros v H. unfold chg_ok in H. destruct (Z.eqb_spec v 0); [subst; discriminate H|assumption]. Qed.
Lemma rad_ok_nonzero : forall v, rad_ok v = true -> v <> 0%Z.
Proof. intros v H. unfold rad_ok in H. apply andb_true_iff in H. destruct H as [H _]. apply Z.ltb_lt in H. lia. Qed.
Lemma mass_ok_nonzero : forall v, mass_ok v = true -> v <> 0%Z.
Proof. intros v H. unfold mass_ok in H. apply Z.ltb_lt in H. lia. Qed.

(* the writer only prints positive MASS= / RAD= values: the reader's "negative value" test never fires *)
Lemma last_negative_keep : forall cond o, (forall v, cond v = true -> (0 <= v)%Z) ->
  last_negative (match keep cond o with Some v => [v] | None => [] end) = false.
Proof.
  intros cond o H. unfold keep. destruct o as [v|]; [|reflexivity].
  destruct (cond v) eqn:E; [|reflexivity]. unfold last_negative. cbn [rev app].
  apply Z.ltb_ge. exact (H v E).
Qed.
Lemma rad_ok_nonneg : forall v, rad_ok v = true -> (0 <= v)%Z.
Proof. intros v H. unfold rad_ok in H. apply andb_true_iff in H. destruct H as [H _]. apply Z.ltb_lt in H. lia. Qed.
Lemma mass_ok_nonneg : forall v, mass_ok v = true -> (0 <= v)%Z.
Proof. intros v H. unfold mass_ok in H. apply Z.ltb_lt in H. lia. Qed.

(* ---- tokens that are never a property key ---- *)
Definition key_texts : list text := [t "CHG"; t "MASS"; t "RAD"].
Definition not_a_key (tk : text) : Prop := forall k, In k key_texts -> key_matches k tk = false.

Definition floatstart (c : ascii) : bool := is_digit c || is_code 45%N c || is_code 43%N c || is_code 46%N c.

Lemma floatstart_not_key : forall c, floatstart c = true ->
  ascii_eqb c "C" = false /\ ascii_eqb c "M" = false /\ ascii_eqb c "R" = false.
Proof.
  intros [b0 b1 b2 b3 b4 b5 b6 b7];
    destruct b0, b1, b2, b3, b4, b5, b6, b7; vm_compute; intro H; try (repeat split; reflexivity); discriminate H.
Qed.

Lemma floatstart_not_a_key : forall c r, floatstart c = true -> not_a_key (c :: r).
Proof.
  intros c r H k Hk. destruct (floatstart_not_key c H) as [H1 [H2 H3]].
  cbn in Hk. destruct Hk as [<- | [<- | [<- | []]]]; apply key_matches_first; assumption.
Qed.

Lemma all_digit_not_a_key : forall l, all_digit l -> not_a_key l.
Proof.
  intros l H. destruct l as [|c r]; [intros k Hk; cbn in Hk; destruct Hk as [<- | [<- | [<- | []]]]; reflexivity|].
  apply floatstart_not_a_key. inversion H as [|? ? Hc _]; subst. unfold floatstart. rewrite Hc. reflexivity.
Qed.

(* float(): the shapes the model accepts start with a digit, a sign or the point *)
Lemma float_mantissa_first : forall c h, float_mantissa (c :: h) = true -> is_digit c || is_code 46%N c = true.
Proof.
  intros c h H. destruct (is_code 46%N c) eqn:E; [apply orb_true_r|]. rewrite orb_false_r.
  unfold float_mantissa in H. destruct (split_on_head_keep _ c h E) as [h' [tl E']]. rewrite E' in H.
  destruct tl as [|b [|x y]].
  - cbn [all_digits] in H. destruct (is_digit c); [reflexivity|]. cbn in H. discriminate H.
  - cbn [all_digits] in H. destruct (is_digit c); [reflexivity|]. cbn in H. discriminate H.
  - discriminate H.
Qed.

Lemma float_mantissa_nil : float_mantissa [] = false.
Proof. reflexivity. Qed.

Lemma py_float_first : forall s, good_tok s -> py_float_ok s = true ->
  exists c r, s = c :: r /\ floatstart c = true.
Proof.
  intros s G H. unfold py_float_ok in H. rewrite (strip_good s G) in H.
  destruct G as [Hne _]. destruct s as [|c r]; [congruence|]. exists c, r. split; [reflexivity|].
  unfold floatstart. cbv zeta in H.
  destruct (is_code 45%N c) eqn:E45; [rewrite orb_true_r; reflexivity|].
  destruct (is_code 43%N c) eqn:E43; [rewrite orb_true_r; reflexivity|].
  rewrite !orb_false_r.
  unfold unsign in H. rewrite E45, E43 in H. cbn [orb] in H.
  destruct (is_e c) eqn:Ee.
  - destruct (split_on_head_sep _ c r Ee) as [h [tl E]]. rewrite E in H.
    destruct tl; [rewrite float_mantissa_nil in H|]; discriminate H.
  - destruct (split_on_head_keep _ c r Ee) as [h [tl E]]. rewrite E in H.
    destruct tl as [|e [|x y]].
    + exact (float_mantissa_first c h H).
    + apply andb_true_iff in H. destruct H as [H _]. apply andb_true_iff in H. destruct H as [H _].
      exact (float_mantissa_first c h H).
    + discriminate H.
Qed.

Definition coord_tok (s : text) : Prop := good_tok s /\ py_float_ok s = true.

Lemma coord_not_a_key : forall s, coord_tok s -> not_a_key s.
Proof.
  intros s [G H]. destruct (py_float_first s G H) as [c [r [-> Hc]]]. apply floatstart_not_a_key, Hc.
Qed.

(* ---- element symbols ---- *)
Definition sym_check (k : text) : bool :=
  nonempty k && forallb (fun c => negb (is_space c)) k
  && negb (text_eqb k (t "*"))
  && (match assoc_text hydrogen_isotopes k with None => true | Some _ => false end)
  && forallb (fun key => negb (key_matches key k)) key_texts.

Lemma elem_table_checked : forallb (fun e => sym_check (fst e)) elem_table = true.
Proof. vm_compute. reflexivity. Qed.

Lemma assoc_text_in : forall (V : Type) (l : list (text * V)) s v, assoc_text l s = Some v -> In (s, v) l.
Proof.
  intros V l s v. induction l as [|[k w] l IH]; cbn [assoc_text]; intro H; [discriminate H|].
  destruct (text_eqb k s) eqn:E.
  - apply text_eqb_eq in E. injection H as ->. subst. left. reflexivity.
  - right. apply IH, H.
Qed.

Lemma symbol_checked : forall s z, z_of_symbol s = Some z -> sym_check s = true.
Proof.
  intros s z H. apply assoc_text_in in H.
  pose proof elem_table_checked as C. rewrite forallb_forall in C. apply (C (s, z) H).
Qed.

Record sym_facts (s : text) : Prop := {
  sf_good : good_tok s;
  sf_not_star : text_eqb s (t "*") = false;
  sf_not_isotope : detect_isotope s = (s, 0%Z);
  sf_not_key : not_a_key s }.

Lemma symbol_facts : forall s z, z_of_symbol s = Some z -> sym_facts s.
Proof.
  intros s z H. pose proof (symbol_checked s z H) as C. unfold sym_check in C.
  repeat (apply andb_true_iff in C; destruct C as [C ?]).
  constructor.
  - split; [destruct s; [discriminate C|discriminate]|].
    apply Forall_forall. intros c Hc. rewrite forallb_forall in H3. apply negb_true_iff, H3, Hc.
  - apply negb_true_iff. assumption.
  - unfold detect_isotope. destruct (assoc_text hydrogen_isotopes s); [discriminate|reflexivity].
  - intros k Hk. rewrite forallb_forall in H0. apply negb_true_iff, H0, Hk.
Qed.

(* ---- the atom line ---- *)
Record atom_ok (x : atom rpay) : Prop := {
  ao_sym : z_of_symbol (p_sym (pay x)) = Some (zn x);      (* in the element table; not D, T, * *)
  ao_x : coord_tok (p_x (pay x));
  ao_y : coord_tok (p_y (pay x));
  ao_z : coord_tok (p_z (pay x)) }.

Definition atom_tokens (x : atom rpay) : list text := t "M" :: t "V30" :: atom_toks x.
Definition bond_tokens (ib : N * (N * N * option Z)) : list text := t "M" :: t "V30" :: bond_toks ib.

Definition expected_atom (x : atom rpay) : ratom :=
  mkRatom (Z.of_N (lbl x)) (p_sym (pay x)) (zn x)
          (keep chg_ok (p_chg (pay x))) (keep mass_ok (mass x)) (keep rad_ok (rad x))
          (p_x (pay x)) (p_y (pay x)) (p_z (pay x)).
Definition expected_bond (b : N * N * option Z) : rbond :=
  (Z.of_N (fst (fst b)), Z.of_N (snd (fst b)), opt_default 1%Z (snd b)).

Lemma pv_hit : forall key name cond o rest R,
  no_eq (t name) -> text_eqb (t name) key = true -> prop_values key rest = ok R ->
  prop_values key (opt_tok name cond o ++ rest) = ok (match keep cond o with Some v => v :: R | None => R end).
Proof.
  intros key name cond o rest R Hn He Hr. rewrite (prop_values_opt key name cond o rest Hn), He, Hr.
  destruct (keep cond o); reflexivity.
Qed.

Lemma pv_miss : forall key name cond o rest R,
  no_eq (t name) -> text_eqb (t name) key = false -> prop_values key rest = ok R ->
  prop_values key (opt_tok name cond o ++ rest) = ok R.
Proof.
  intros key name cond o rest R Hn He Hr. rewrite (prop_values_opt key name cond o rest Hn), He, Hr. reflexivity.
Qed.

Lemma no_eq_CHG : no_eq (t "CHG"). Proof. repeat constructor. Qed.
Lemma no_eq_RAD : no_eq (t "RAD"). Proof. repeat constructor. Qed.
Lemma no_eq_MASS : no_eq (t "MASS"). Proof. repeat constructor. Qed.

Lemma prop_values_fixed : forall key x, In key key_texts -> atom_ok x ->
  prop_values key (atom_tokens x)
  = prop_values key (opt_tok "CHG" chg_ok (p_chg (pay x)) ++ opt_tok "RAD" rad_ok (rad x)
                     ++ opt_tok "MASS" mass_ok (mass x) ++ []).
Proof.
  intros key x Hk [Hs Hx Hy Hz]. unfold atom_tokens, atom_toks. cbn [app].
  pose proof (symbol_facts _ _ Hs) as F.
  rewrite prop_values_skip by (cbn in Hk; destruct Hk as [<- | [<- | [<- | []]]]; reflexivity).
  rewrite prop_values_skip by (cbn in Hk; destruct Hk as [<- | [<- | [<- | []]]]; reflexivity).
  rewrite prop_values_skip by (apply all_digit_not_a_key; [apply text_of_N_all_digit|exact Hk]).
  rewrite prop_values_skip by (apply (sf_not_key _ F), Hk).
  rewrite prop_values_skip by (apply (coord_not_a_key _ Hx), Hk).
  rewrite prop_values_skip by (apply (coord_not_a_key _ Hy), Hk).
  rewrite prop_values_skip by (apply (coord_not_a_key _ Hz), Hk).
  rewrite prop_values_skip by (cbn in Hk; destruct Hk as [<- | [<- | [<- | []]]]; reflexivity).
  rewrite app_nil_r. reflexivity.
Qed.

Lemma prop_values_chg : forall x, atom_ok x ->
  prop_values (t "CHG") (atom_tokens x)
  = ok (match keep chg_ok (p_chg (pay x)) with Some v => [v] | None => [] end).
Proof.
  intros x H. rewrite (prop_values_fixed (t "CHG") x) by (try exact H; cbn; auto).
  apply pv_hit; [exact no_eq_CHG|reflexivity|].
  apply pv_miss; [exact no_eq_RAD|reflexivity|].
  apply pv_miss; [exact no_eq_MASS|reflexivity|reflexivity].
Qed.

Lemma prop_values_rad : forall x, atom_ok x ->
  prop_values (t "RAD") (atom_tokens x)
  = ok (match keep rad_ok (rad x) with Some v => [v] | None => [] end).
Proof.
  intros x H. rewrite (prop_values_fixed (t "RAD") x) by (try exact H; cbn; auto).
  apply pv_miss; [exact no_eq_CHG|reflexivity|].
  apply pv_hit; [exact no_eq_RAD|reflexivity|].
  apply pv_miss; [exact no_eq_MASS|reflexivity|reflexivity].
Qed.

Lemma prop_values_mass : forall x, atom_ok x ->
  prop_values (t "MASS") (atom_tokens x)
  = ok (match keep mass_ok (mass x) with Some v => [v] | None => [] end).
Proof.
  intros x H. rewrite (prop_values_fixed (t "MASS") x) by (try exact H; cbn; auto).
  apply pv_miss; [exact no_eq_CHG|reflexivity|].
  apply pv_miss; [exact no_eq_RAD|reflexivity|].
  apply pv_hit; [exact no_eq_MASS|reflexivity|reflexivity].
Qed.

Lemma atom_tokens_nth : forall x,
  nth_tok 2 (atom_tokens x) = ok (tN (lbl x + 1)) /\
  nth_tok 3 (atom_tokens x) = ok (p_sym (pay x)) /\
  nth_tok 4 (atom_tokens x) = ok (p_x (pay x)) /\
  nth_tok 5 (atom_tokens x) = ok (p_y (pay x)) /\
  nth_tok 6 (atom_tokens x) = ok (p_z (pay x)).
Proof. intro x. repeat split. Qed.

Lemma parse_atom_line_written : forall x, atom_ok x ->
  parse_atom_line (atom_tokens x) = ok (Some (expected_atom x)).
Proof.
  intros x H. pose proof H as [Hs [_ Hx] [_ Hy] [_ Hz]].
  pose proof (symbol_facts _ _ Hs) as F.
  destruct (atom_tokens_nth x) as [E2 [E3 [E4 [E5 E6]]]].
  unfold parse_atom_line.
  rewrite E2. cbn [bind ok]. rewrite int_of_tN. cbn [bind ok].
  rewrite E3. cbn [bind ok]. rewrite (sf_not_star _ F), (sf_not_isotope _ F), Hs. cbn [of_opt bind ok].
  rewrite E4, E5, E6. cbn [bind ok]. rewrite Hx, Hy, Hz. cbn [andb negb].
  rewrite (prop_values_chg x H). cbn [bind ok].
  change (Z.eqb 0 0) with true. cbv iota.
  rewrite (prop_values_mass x H). cbn [bind ok].
  rewrite (prop_values_rad x H). cbn [bind ok].
  rewrite (last_negative_keep mass_ok _ mass_ok_nonneg), (last_negative_keep rad_ok _ rad_ok_nonneg). cbn [orb].
  rewrite (last_nonzero_keep chg_ok _ chg_ok_nonzero), (last_nonzero_keep mass_ok _ mass_ok_nonzero),
          (last_nonzero_keep rad_ok _ rad_ok_nonzero).
  unfold expected_atom. do 3 f_equal. lia.
Qed.

(* ------------------------------------------------------------------------------------ *)
(* 11. atom block, bond block                                                            *)
(* ------------------------------------------------------------------------------------ *)

Lemma dict_set_fresh : forall (K V : Type) (eqb : K -> K -> bool) (k : K) (v : V) (d : list (K * V)),
  (forall a b, eqb a b = true -> a = b) ->
  ~ In k (map fst d) -> dict_set eqb k v d = d ++ [(k, v)].
Proof.
  intros K V eqb k v d Heq. induction d as [|[k' v'] d IH]; intro H; [reflexivity|].
  cbn [dict_set]. destruct (eqb k' k) eqn:E.
  - exfalso. apply H. left. apply Heq, E.
  - cbn [app]. rewrite IH; [reflexivity|]. intro Hin. apply H. right. exact Hin.
Qed.

Lemma Zeqb_eq : forall a b : Z, Z.eqb a b = true -> a = b.
Proof. intros a b. apply Z.eqb_eq. Qed.

Lemma bkey_eqb_eq : forall a b : Z * Z, bkey_eqb a b = true -> a = b.
Proof.
  intros [a1 a2] [b1 b2] H. unfold bkey_eqb in H. cbn [fst snd] in H.
  apply andb_true_iff in H. destruct H as [H1 H2]. apply Z.eqb_eq in H1, H2. subst. reflexivity.
Qed.

Definition akey (x : atom rpay) : Z := Z.of_N (lbl x).

Lemma parse_atoms_written : forall xs acc,
  Forall atom_ok xs -> NoDup (map fst acc ++ map akey xs) ->
  parse_atoms (map atom_tokens xs) acc []
  = ok (acc ++ map (fun x => (akey x, expected_atom x)) xs, []).
Proof.
  induction xs as [|x xs IH]; intros acc Hok Hnd.
  - cbn [map parse_atoms]. rewrite app_nil_r. reflexivity.
  - inversion Hok as [|? ? Hx Hxs]; subst. cbn [map parse_atoms].
    destruct (atom_tokens_nth x) as [E2 _]. rewrite E2. cbn [bind ok]. rewrite int_of_tN. cbn [bind ok].
    rewrite (parse_atom_line_written x Hx). cbn [bind ok].
    replace (Z.of_N (lbl x + 1) - 1)%Z with (akey x) by (unfold akey; lia).
    cbn [map] in Hnd.
    rewrite (dict_set_fresh _ _ Z.eqb (akey x) (expected_atom x) acc Zeqb_eq).
    + rewrite IH; [|exact Hxs|].
      * rewrite <- app_assoc. reflexivity.
      * rewrite map_app, <- app_assoc. exact Hnd.
    + intro Hin. apply NoDup_remove_2 in Hnd. apply Hnd, in_or_app. left. exact Hin.
Qed.

Definition bkey (b : N * N * option Z) : Z * Z := (Z.of_N (fst (fst b)), Z.of_N (snd (fst b))).

Lemma bond_tokens_nth : forall ib,
  nth_tok 3 (bond_tokens ib) = ok (tZ (opt_default 1%Z (snd (snd ib)))) /\
  nth_tok 4 (bond_tokens ib) = ok (tN (fst (fst (snd ib)) + 1)) /\
  nth_tok 5 (bond_tokens ib) = ok (tN (snd (fst (snd ib)) + 1)).
Proof. intro ib. repeat split. Qed.

Lemma parse_bonds_written : forall bs i acc,
  Forall (fun b => fst (fst b) <> snd (fst b)) bs ->
  NoDup (map fst acc ++ map bkey bs) ->
  parse_bonds (map bond_tokens (enumerate_from i bs)) [] acc
  = ok (acc ++ map (fun b => (bkey b, opt_default 1%Z (snd b))) bs).
Proof.
  induction bs as [|b bs IH]; intros i acc Hnl Hnd.
  - cbn [enumerate_from map parse_bonds]. rewrite app_nil_r. reflexivity.
  - inversion Hnl as [|? ? Hb Hbs]; subst. cbn [enumerate_from map parse_bonds].
    destruct (bond_tokens_nth (i, b)) as [E3 [E4 E5]]. cbn [fst snd] in E3, E4, E5.
    rewrite E4. cbn [bind ok]. rewrite int_of_tN. cbn [bind ok].
    rewrite E5. cbn [bind ok]. rewrite int_of_tN. cbn [bind ok].
    rewrite E3. cbn [bind ok]. rewrite int_of_tZ. cbn [bind ok].
    cbv zeta. cbn [memZ existsb andb bind ok fold_left fst snd orb].
    replace (Z.eqb (Z.of_N (fst (fst b) + 1) - 1) (Z.of_N (snd (fst b) + 1) - 1)) with false
      by (symmetry; apply Z.eqb_neq; intros E; apply Hb; lia).
    replace (Z.of_N (fst (fst b) + 1) - 1, Z.of_N (snd (fst b) + 1) - 1)%Z with (bkey b)
      by (unfold bkey; f_equal; lia).
    cbn [map] in Hnd.
    rewrite (dict_set_fresh _ _ bkey_eqb (bkey b) (opt_default 1%Z (snd b)) acc bkey_eqb_eq).
    + rewrite IH.
      * rewrite <- app_assoc. reflexivity.
      * exact Hbs.
      * rewrite map_app, <- app_assoc. exact Hnd.
    + intro Hin. apply NoDup_remove_2 in Hnd. apply Hnd, in_or_app. left. exact Hin.
Qed.

(* ---- indexing into the token lines ---- *)
Lemma nth_line_app : forall (a r : list (list text)) k j,
  j = length a + k -> nth_line j (a ++ r) = nth_line k r.
Proof.
  induction a as [|x a IH]; intros r k j ->; [reflexivity|]. cbn [length plus app nth_line]. apply IH. reflexivity.
Qed.

Lemma take_lines_app : forall (A : Type) (a b r : list A) j n,
  j = length a -> n = length b -> take_lines j n (a ++ b ++ r) = b.
Proof.
  intros A a b r j n -> ->. unfold take_lines. rewrite skipn_app, skipn_all, Nat.sub_diag. cbn [app skipn].
  rewrite firstn_app, firstn_all, Nat.sub_diag. cbn [firstn]. apply app_nil_r.
Qed.

(* ------------------------------------------------------------------------------------ *)
(* 12. write, then read                                                                  *)
(* ------------------------------------------------------------------------------------ *)

Record mol_ok (m : mol rpay (option Z)) : Prop := {
  mo_atoms : Forall atom_ok (atoms m);
  mo_labels : NoDup (labels m);                                          (* node names are distinct *)
  mo_bonds : NoDup (map (fun b => (fst (fst b), snd (fst b))) (bonds m));  (* no bond listed twice *)
  mo_ends : Forall (fun b => In (fst (fst b)) (labels m) /\ In (snd (fst b)) (labels m)) (bonds m);
  mo_noloop : Forall (fun b => fst (fst b) <> snd (fst b)) (bonds m) }.      (* no bond from an atom to itself:
                                                                              the reader rejects such a line *)

Definition counts_tokens (m : mol rpay (option Z)) : list text :=
  [t "M"; t "V30"; t "COUNTS"; tN (N.of_nat (length (atoms m))); tN (N.of_nat (length (bonds m)));
   t "0"; t "0"; t "0"].

Lemma tokenize_counts_line : forall m, tokenize (prefix ++ counts_line m) = counts_tokens m.
Proof.
  intro m.
  replace (counts_line m) with
    (join_with [sp] [t "COUNTS"; tN (N.of_nat (length (atoms m))); tN (N.of_nat (length (bonds m)));
                     t "0"; t "0"; t "0"]).
  - apply tokenize_prefix_join.
    repeat (apply Forall_cons; [first [apply text_of_N_good|exact good_zero|idtac]|]); [|apply Forall_nil].
    split; [discriminate|repeat constructor].
  - unfold counts_line, spt. cbn [join_with].
    change (t "COUNTS ") with (t "COUNTS" ++ [sp]).
    change (t " 0 0 0") with ([sp] ++ t "0" ++ [sp] ++ t "0" ++ [sp] ++ t "0").
    rewrite <- !app_assoc. reflexivity.
Qed.

Definition T (s : string) : list text := tokenize (prefix ++ t s).

Definition bond_block_tokens (m : mol rpay (option Z)) : list (list text) :=
  match bonds m with
  | [] => []
  | _ => T "BEGIN BOND" :: map bond_tokens (enumerate_from 1 (bonds m)) ++ [T "END BOND"]
  end.

Lemma token_lines_shape : forall line2 m, Forall atom_ok (atoms m) ->
  map tokenize (logical_lines line2 m)
  = [tokenize []; tokenize line2; tokenize []; tokenize (t "  0  0  0     0  0            999 V3000");
     T "BEGIN CTAB"; counts_tokens m; T "BEGIN ATOM"]
    ++ map atom_tokens (atoms m)
    ++ (T "END ATOM" :: bond_block_tokens m ++ [T "END CTAB"; tokenize (t "M  END")]).
Proof.
  intros line2 m Hok.
  assert (HA : map tokenize (map (app prefix) (map atom_line (atoms m))) = map atom_tokens (atoms m)).
  { rewrite !map_map. apply map_ext_in. intros x Hx. rewrite Forall_forall in Hok.
    destruct (Hok x Hx) as [Hs [Gx _] [Gy _] [Gz _]].
    apply tokenize_atom_line; try assumption. apply (sf_good _ (symbol_facts _ _ Hs)). }
  assert (HB : forall l, map tokenize (map (app prefix) (map bond_line l)) = map bond_tokens l).
  { intro l. rewrite !map_map. apply map_ext. intro ib. apply tokenize_bond_line. }
  unfold logical_lines, header, v30_contents, bond_block_tokens, T.
  rewrite !map_app. cbn [map app]. rewrite tokenize_counts_line. unfold text in *. rewrite HA.
  destruct (bonds m) as [|b bs].
  - cbn [map app]. rewrite <- !app_assoc. reflexivity.
  - cbn [map app]. rewrite !map_app. cbn [map app]. rewrite HB. rewrite <- !app_assoc. cbn [app]. rewrite <- !app_assoc. reflexivity.
Qed.

Lemma to_nat_idx_of_nat : forall n, to_nat_idx (Z.of_N (N.of_nat n)) = ok n.
Proof.
  intro n. unfold to_nat_idx. destruct (Z.ltb_spec (Z.of_N (N.of_nat n)) 0); [lia|].
  unfold ok. f_equal. lia.
Qed.

Lemma memZ_in : forall a l, In a l -> memZ a l = true.
Proof. intros a l H. unfold memZ. apply existsb_exists. exists a. split; [exact H|apply Z.eqb_refl]. Qed.

Lemma pair_of_N_inj : FinFun.Injective (fun p : N * N => (Z.of_N (fst p), Z.of_N (snd p))).
Proof. intros [a b] [c d] H. cbn [fst snd] in H. injection H as H1 H2. apply N2Z.inj in H1, H2. subst. reflexivity. Qed.

Theorem write_read_roundtrip : forall line2 m,
  mol_ok m ->
  read_v3000 (write_lines line2 m) = ok (map expected_atom (atoms m), map expected_bond (bonds m)).
Proof.
  intros line2 m [Hatoms Hlabels Hbonds Hends Hnoloop].
  unfold read_v3000. rewrite (tokenize_lines_write_lines line2 m). cbn [bind ok].
  rewrite (token_lines_shape line2 m Hatoms).
  set (pre := [tokenize []; tokenize line2; tokenize []; tokenize (t "  0  0  0     0  0            999 V3000");
               T "BEGIN CTAB"; counts_tokens m; T "BEGIN ATOM"]).
  set (A := map atom_tokens (atoms m)).
  set (n := length (atoms m)).
  assert (HA : length A = n) by (unfold A; apply map_length).
  set (R := T "END ATOM" :: bond_block_tokens m ++ [T "END CTAB"; tokenize (t "M  END")]).
  set (TL := pre ++ A ++ R).
  (* counts line *)
  change (nth_line 5 TL) with (ok (counts_tokens m)). cbn [bind ok].
  change (nth_tok 2 (counts_tokens m)) with (ok (t "COUNTS")). cbn [bind ok].
  change (text_eqb (t "COUNTS") (t "COUNTS")) with true.
  change (length (counts_tokens m)) with 8. cbn [negb orb Nat.ltb Nat.leb].
  change (nth_tok 3 (counts_tokens m)) with (ok (tN (N.of_nat n))). cbn [bind ok].
  rewrite int_of_tN. cbn [bind ok]. rewrite to_nat_idx_of_nat. cbn [bind ok].
  (* atom block *)
  change (nth_line 6 TL) with (ok (T "BEGIN ATOM")). cbn [bind ok].
  replace (expect_block (t "BEGIN ATOM") (T "BEGIN ATOM")) with (ok tt) by (vm_compute; reflexivity).
  cbn [bind ok].
  assert (Hea : nth_line (7 + n) TL = ok (T "END ATOM")).
  { unfold TL. rewrite (nth_line_app pre (A ++ R) n) by reflexivity.
    rewrite (nth_line_app A R 0) by lia. reflexivity. }
  rewrite Hea. cbn [bind ok].
  replace (expect_block (t "END ATOM") (T "END ATOM")) with (ok tt) by (vm_compute; reflexivity).
  cbn [bind ok].
  assert (Hta : take_lines 7 n TL = A) by (unfold TL; apply take_lines_app; [reflexivity|lia]).
  rewrite Hta. unfold A.
  rewrite (parse_atoms_written (atoms m) [] Hatoms).
  2:{ cbn [map app]. unfold labels in Hlabels.
      replace (map akey (atoms m)) with (map Z.of_N (map (@lbl rpay) (atoms m))) by (rewrite map_map; reflexivity).
      apply FinFun.Injective_map_NoDup; [|exact Hlabels]. intros a b. apply N2Z.inj. }
  cbn [bind ok app].
  (* bond block *)
  change (nth_tok 4 (counts_tokens m)) with (ok (tN (N.of_nat (length (bonds m))))). cbn [bind ok].
  rewrite int_of_tN. cbn [bind ok].
  set (atoms' := map (fun x => (akey x, expected_atom x)) (atoms m)).
  assert (Hkeys : map fst atoms' = map Z.of_N (labels m)).
  { unfold atoms', labels. rewrite !map_map. reflexivity. }
  assert (Hres : map snd atoms' = map expected_atom (atoms m)).
  { unfold atoms'. rewrite map_map. reflexivity. }
  destruct (bonds m) as [|b bs] eqn:Eb.
  - cbn [length N.of_nat Z.of_N Z.eqb bind ok forallb map]. rewrite Hres. reflexivity.
  - set (k := length (b :: bs)).
    replace (Z.eqb (Z.of_N (N.of_nat k)) 0) with false by (symmetry; apply Z.eqb_neq; unfold k; cbn [length]; lia).
    rewrite to_nat_idx_of_nat. cbn [bind ok].
    set (B := map bond_tokens (enumerate_from 1 (b :: bs))).
    assert (HB : length B = k).
    { unfold B, k. rewrite map_length. clear. generalize 1%N. induction (b :: bs) as [|x l IH]; intro i; [reflexivity|].
      cbn [enumerate_from length]. rewrite IH. reflexivity. }
    assert (HR : R = [T "END ATOM"; T "BEGIN BOND"] ++ B ++ [T "END BOND"; T "END CTAB"; tokenize (t "M  END")]).
    { unfold R, bond_block_tokens. rewrite Eb. fold B. cbn [app]. rewrite <- app_assoc. reflexivity. }
    assert (Hbb : nth_line (7 + n + 2 - 1) TL = ok (T "BEGIN BOND")).
    { unfold TL. rewrite (nth_line_app pre (A ++ R) (n + 1)) by (unfold pre; cbn [length]; lia).
      rewrite (nth_line_app A R 1) by lia. rewrite HR. reflexivity. }
    rewrite Hbb. cbn [bind ok].
    replace (expect_block (t "BEGIN BOND") (T "BEGIN BOND")) with (ok tt) by (vm_compute; reflexivity).
    cbn [bind ok].
    assert (Heb : nth_line (7 + n + 2 + k) TL = ok (T "END BOND")).
    { unfold TL. rewrite (nth_line_app pre (A ++ R) (n + (2 + k))) by (unfold pre; cbn [length]; lia).
      rewrite (nth_line_app A R (2 + k)) by lia. rewrite HR.
      rewrite (nth_line_app [T "END ATOM"; T "BEGIN BOND"] _ k) by reflexivity.
      rewrite (nth_line_app B _ 0) by lia. reflexivity. }
    rewrite Heb. cbn [bind ok].
    replace (expect_block (t "END BOND") (T "END BOND")) with (ok tt) by (vm_compute; reflexivity).
    cbn [bind ok].
    assert (Htb : take_lines (7 + n + 2) k TL = B).
    { unfold TL. rewrite HR.
      replace (pre ++ A ++ [T "END ATOM"; T "BEGIN BOND"] ++ B ++ [T "END BOND"; T "END CTAB"; tokenize (t "M  END")])
        with ((pre ++ A ++ [T "END ATOM"; T "BEGIN BOND"]) ++ B ++ [T "END BOND"; T "END CTAB"; tokenize (t "M  END")])
        by (rewrite <- !app_assoc; reflexivity).
      apply take_lines_app; [|lia]. rewrite !app_length. unfold pre. cbn [length]. lia. }
    rewrite Htb. unfold B.
    rewrite (parse_bonds_written (b :: bs) 1 [] Hnoloop).
    2:{ change (NoDup (map bkey (b :: bs))).
        replace (map bkey (b :: bs))
          with (map (fun p : N * N => (Z.of_N (fst p), Z.of_N (snd p)))
                    (map (fun b => (fst (fst b), snd (fst b))) (b :: bs))) by (rewrite map_map; reflexivity).
        apply FinFun.Injective_map_NoDup; [exact pair_of_N_inj|exact Hbonds]. }
    cbn [bind ok app].
    set (bonds' := map (fun b0 => (bkey b0, opt_default 1%Z (snd b0))) (b :: bs)).
    assert (Hchk : forallb (fun b0 : Z * Z * Z =>
                     memZ (fst (fst b0)) (map fst atoms') && memZ (snd (fst b0)) (map fst atoms')) bonds' = true).
    { apply forallb_forall. intros x Hx. unfold bonds' in Hx. apply in_map_iff in Hx.
      destruct Hx as [b0 [<- Hb0]]. rewrite Forall_forall in Hends. destruct (Hends b0 Hb0) as [H1 H2].
      rewrite Hkeys. cbn [fst snd bkey]. unfold bkey. cbn [fst snd].
      rewrite !memZ_in; [reflexivity| |]; apply in_map; assumption. }
    rewrite Hchk, Hres. unfold bonds'. rewrite map_map. reflexivity.
Qed.

(* ------------------------------------------------------------------------------------ *)
(* 13. the file as one string: "\n".join(lines), then str.splitlines()                   *)
(* ------------------------------------------------------------------------------------ *)

Definition nolb (l : text) : Prop := Forall (fun c => is_linebreak c = false) l.

Lemma nolb_check : forall l, forallb (fun c => negb (is_linebreak c)) l = true -> nolb l.
Proof.
  intros l H. apply Forall_forall. intros c Hc. rewrite forallb_forall in H. apply negb_true_iff, H, Hc.
Qed.

Lemma spacefree_nolb : forall l, spacefree l -> nolb l.
Proof.
  intros l H. eapply Forall_impl; [|exact H]. intros c Hc. unfold is_space in Hc. cbv zeta in Hc.
  apply orb_false_iff in Hc. destruct Hc as [_ Hc]. exact Hc.
Qed.

Lemma nolb_app : forall a b, nolb a -> nolb b -> nolb (a ++ b).
Proof. intros a b Ha Hb. apply Forall_app. split; assumption. Qed.

Lemma nolb_join : forall tl, Forall nolb tl -> nolb (join_with [sp] tl).
Proof.
  induction tl as [|a tl IH]; intro H; [constructor|]. inversion H as [|? ? Ha Ht]; subst.
  destruct tl as [|b tl]; [exact Ha|]. rewrite join_with_cons2.
  apply nolb_app; [exact Ha|]. apply nolb_app; [repeat constructor|apply IH, Ht].
Qed.

Lemma good_toks_nolb : forall tl, Forall good_tok tl -> Forall nolb tl.
Proof. intros tl H. eapply Forall_impl; [|exact H]. intros a [_ Ha]. apply spacefree_nolb, Ha. Qed.

Lemma Forall_firstn_ : forall (A : Type) (P : A -> Prop) n (l : list A), Forall P l -> Forall P (firstn n l).
Proof.
  intros A P. induction n as [|n IH]; intros l H; [constructor|]. destruct l as [|a l]; [constructor|].
  inversion H; subst. cbn [firstn]. constructor; [assumption|apply IH; assumption].
Qed.
Lemma Forall_skipn_ : forall (A : Type) (P : A -> Prop) n (l : list A), Forall P l -> Forall P (skipn n l).
Proof.
  intros A P. induction n as [|n IH]; intros l H; [exact H|]. destruct l as [|a l]; [constructor|].
  inversion H; subst. cbn [skipn]. apply IH; assumption.
Qed.

Section GWrapNolb.
  Variables (limit chunk : nat) (p : text).
  Hypothesis Hp : nolb p.
  Lemma gwrap_nolb : forall f line, nolb line -> Forall nolb (gwrap limit chunk p f line).
  Proof.
    unfold gwrap. induction f as [|f IH]; intros line H.
    - cbn [gchunks map]. constructor; [apply nolb_app; assumption|constructor].
    - rewrite gchunks_S. destruct (Nat.leb (length line) limit).
      + cbn [map]. constructor; [apply nolb_app; assumption|constructor].
      + cbn [map]. constructor.
        * apply nolb_app; [exact Hp|]. apply nolb_app; [apply Forall_firstn_, H|repeat constructor].
        * apply IH. apply Forall_skipn_, H.
  Qed.
End GWrapNolb.

Lemma prefix_nolb : nolb prefix.
Proof. apply nolb_check. vm_compute. reflexivity. Qed.

Lemma v30_line_nolb : forall line, nolb line -> Forall nolb (v30_line line).
Proof. intros line H. unfold v30_line. rewrite wrap_gwrap. apply gwrap_nolb; [exact prefix_nolb|exact H]. Qed.

Lemma atom_line_nolb : forall x, atom_ok x -> nolb (atom_line x).
Proof.
  intros x [Hs [Gx _] [Gy _] [Gz _]]. rewrite atom_line_join. apply nolb_join, good_toks_nolb.
  apply atom_toks_good; try assumption. apply (sf_good _ (symbol_facts _ _ Hs)).
Qed.

Lemma bond_line_nolb : forall ib, nolb (bond_line ib).
Proof. intro ib. rewrite bond_line_join. apply nolb_join, good_toks_nolb, bond_toks_good. Qed.

Lemma counts_line_nolb : forall m, nolb (counts_line m).
Proof.
  intro m. unfold counts_line, spt.
  repeat apply nolb_app; try (apply spacefree_nolb, text_of_N_good); apply nolb_check; vm_compute; reflexivity.
Qed.

Lemma v30_contents_nolb : forall m, Forall atom_ok (atoms m) -> Forall nolb (v30_contents m).
Proof.
  intros m Hok. unfold v30_contents. repeat (apply Forall_app; split).
  - apply Forall_cons; [apply nolb_check; vm_compute; reflexivity|].
    apply Forall_cons; [apply counts_line_nolb|].
    apply Forall_cons; [apply nolb_check; vm_compute; reflexivity|apply Forall_nil].
  - apply Forall_map. eapply Forall_impl; [|exact Hok]. apply atom_line_nolb.
  - apply Forall_cons; [apply nolb_check; vm_compute; reflexivity|apply Forall_nil].
  - destruct (bonds m); [constructor|]. repeat (apply Forall_app; split).
    + apply Forall_cons; [apply nolb_check; vm_compute; reflexivity|apply Forall_nil].
    + apply Forall_map, Forall_forall. intros ib _. apply bond_line_nolb.
    + apply Forall_cons; [apply nolb_check; vm_compute; reflexivity|apply Forall_nil].
  - apply Forall_cons; [apply nolb_check; vm_compute; reflexivity|apply Forall_nil].
Qed.

Lemma write_lines_nolb : forall line2 m,
  nolb line2 -> Forall atom_ok (atoms m) -> Forall nolb (write_lines line2 m).
Proof.
  intros line2 m H2 Hok. rewrite write_lines_contents.
  apply Forall_app; split; [|apply Forall_app; split].
  - unfold header. apply Forall_cons; [constructor|]. apply Forall_cons; [exact H2|].
    apply Forall_cons; [constructor|]. apply Forall_cons; [apply nolb_check; vm_compute; reflexivity|apply Forall_nil].
  - apply Forall_flat_map. eapply Forall_impl; [|exact (v30_contents_nolb m Hok)]. apply v30_line_nolb.
  - apply Forall_cons; [apply nolb_check; vm_compute; reflexivity|apply Forall_nil].
Qed.

(* splitlines *)
Lemma is_linebreak_nl : is_linebreak nl = true.
Proof. vm_compute. reflexivity. Qed.
Lemma nl_not_cr : is_code 13%N nl = false.
Proof. vm_compute. reflexivity. Qed.

Lemma splitlines_aux_nolb : forall x cur r, nolb x ->
  splitlines_aux cur (x ++ r) = splitlines_aux (rev x ++ cur) r.
Proof.
  induction x as [|c x IH]; intros cur r H; [reflexivity|]. inversion H as [|? ? Hc Hx]; subst.
  cbn [app splitlines_aux rev]. rewrite Hc, (IH _ _ Hx), <- app_assoc. reflexivity.
Qed.

Lemma splitlines_aux_line : forall x cur r, nolb x ->
  splitlines_aux cur (x ++ nl :: r) = (rev cur ++ x) :: splitlines_aux [] r.
Proof.
  intros x cur r H. rewrite (splitlines_aux_nolb x cur (nl :: r) H). cbn [splitlines_aux].
  rewrite is_linebreak_nl, nl_not_cr, rev_app_distr, rev_involutive. cbn [andb].
  destruct r; reflexivity.
Qed.

Lemma splitlines_aux_last : forall x, nolb x -> x <> [] -> splitlines_aux [] x = [x].
Proof.
  intros x H Hne. rewrite <- (app_nil_r x) at 1. rewrite (splitlines_aux_nolb x [] [] H).
  cbn [splitlines_aux]. rewrite app_nil_r.
  destruct (rev x) eqn:E.
  - apply (f_equal (@rev ascii)) in E. rewrite rev_involutive in E. cbn in E. congruence.
  - rewrite <- E, rev_involutive. reflexivity.
Qed.

Lemma splitlines_join : forall ls,
  Forall nolb ls -> ls <> [] -> last ls [] <> [] -> splitlines (join_with [nl] ls) = ls.
Proof.
  unfold splitlines. induction ls as [|x ls IH]; intros H Hne Hlast; [congruence|].
  inversion H as [|? ? Hx Hls]; subst. destruct ls as [|y ls].
  - cbn [join_with]. apply splitlines_aux_last; [exact Hx|exact Hlast].
  - rewrite join_with_cons2. cbn [app]. rewrite (splitlines_aux_line x [] _ Hx). cbn [rev app].
    rewrite IH; [reflexivity|exact Hls|discriminate|exact Hlast].
Qed.

Lemma last_app_one : forall (A : Type) (l : list A) (x d : A), last (l ++ [x]) d = x.
Proof. intros A l x d. induction l as [|a l IH]; [reflexivity|]. cbn [app]. destruct (l ++ [x]) eqn:E; [destruct l; discriminate E|exact IH]. Qed.

Theorem splitlines_write_molfile : forall line2 m,
  nolb line2 -> Forall atom_ok (atoms m) ->
  splitlines (write_molfile line2 m) = write_lines line2 m.
Proof.
  intros line2 m H2 Hok. unfold write_molfile. apply splitlines_join.
  - apply write_lines_nolb; assumption.
  - unfold write_lines, header. discriminate.
  - unfold write_lines. rewrite !app_assoc, last_app_one. discriminate.
Qed.

(* every line of the file text is at most 79 characters long: 80 with its newline *)
Theorem write_molfile_line_length : forall line2 m,
  nolb line2 -> length line2 <= max_line -> Forall atom_ok (atoms m) ->
  Forall (fun l => length l <= max_line) (splitlines (write_molfile line2 m)).
Proof.
  intros line2 m H2 Hl Hok. rewrite splitlines_write_molfile by assumption. apply write_lines_length, Hl.
Qed.

(* the reader entry point on the written text: version dispatch, V3000 reader, then the graph *)
Theorem read_molfile_write_molfile : forall line2 m,
  nolb line2 -> mol_ok m ->
  V2000.read_molfile (write_molfile line2 m)
  = graph_from_molecule (map expected_atom (atoms m)) (map expected_bond (bonds m)).
Proof.
  intros line2 m H2 Hm. unfold V2000.read_molfile.
  rewrite (splitlines_write_molfile line2 m H2 (mo_atoms _ Hm)). cbv zeta.
  change (nth_tok 3 (write_lines line2 m)) with (ok (t "  0  0  0     0  0            999 V3000")).
  cbn [bind ok].
  replace (text_eqb (V2000.last_text (split_on (is_code 32%N) (rstrip (t "  0  0  0     0  0            999 V3000"))))
                    (t "V3000")) with true by (vm_compute; reflexivity).
  rewrite (write_read_roundtrip line2 m Hm). reflexivity.
Qed.

(* ------------------------------------------------------------------------------------ *)
(* 14. non-vacuity of the round trip: a molecule whose first atom line is wrapped        *)
(* ------------------------------------------------------------------------------------ *)

Definition ex_long : text := t "-123456789012345678901234567890.123456".
Definition ex_mol : mol rpay (option Z) :=
  mkMol [mkAtom 0 6 (Some 13%Z) None 0 (mkRpay (t "C") (Some (-1)%Z) ex_long ex_long ex_long);
         mkAtom 1 8 None (Some 2%Z) 0 (mkRpay (t "O") (Some 20%Z) (t "0.000000") (t "-1.500000") (t "0.000000"));
         mkAtom 2 1 (Some 0%Z) (Some 7%Z) 0 (mkRpay (t "H") None (t "0.000000") (t "-1.500000") (t "0.000000"))]
        [(0%N, 1%N, Some 2%Z); (2%N, 1%N, None)].
Definition ex_hdr : text := t "  TUCAN 0101250000 3D".

Lemma coord_tok_check : forall s,
  nonempty s && forallb (fun c => negb (is_space c)) s && py_float_ok s = true -> coord_tok s.
Proof.
  intros s H. apply andb_true_iff in H. destruct H as [H Hf]. apply andb_true_iff in H. destruct H as [Hn Hs].
  split; [split|exact Hf].
  - destruct s; [discriminate Hn|discriminate].
  - apply Forall_forall. intros c Hc. rewrite forallb_forall in Hs. apply negb_true_iff, Hs, Hc.
Qed.

Example ex_mol_ok : mol_ok ex_mol.
Proof.
  constructor.
  - repeat (apply Forall_cons; [constructor; [reflexivity|apply coord_tok_check; vm_compute; reflexivity..]|]).
    apply Forall_nil.
  - cbn. repeat (apply NoDup_cons; [cbn; intuition discriminate|]). apply NoDup_nil.
  - cbn. repeat (apply NoDup_cons; [cbn; intuition discriminate|]). apply NoDup_nil.
  - cbn. repeat (apply Forall_cons; [cbn; intuition|]). apply Forall_nil.
  - cbn. repeat (apply Forall_cons; [cbn; discriminate|]). apply Forall_nil.
Qed.

Example ex_mol_wrapped : map (@length ascii) (write_lines ex_hdr ex_mol)
  = [0; 21; 0; 39; 17; 23; 17; 79; 73; 46; 40; 15; 17; 14; 14; 15; 15; 6].
Proof. vm_compute. reflexivity. Qed.

Example ex_mol_roundtrip :
  read_v3000 (write_lines ex_hdr ex_mol) = ok (map expected_atom (atoms ex_mol), map expected_bond (bonds ex_mol)).
Proof. apply write_read_roundtrip. exact ex_mol_ok. Qed.

(* charge 20 is not written, mass 0 and radical 7 neither: the read-back molecule carries None there *)
Example ex_mol_dropped :
  map (fun a => (r_chg a, r_mass a, r_rad a)) (map expected_atom (atoms ex_mol))
  = [(Some (-1)%Z, Some 13%Z, None); (None, None, Some 2%Z); (None, None, None)].
Proof. vm_compute. reflexivity. Qed.

(* mo_bonds is needed: the reader keys bonds by the ordered pair, the later line wins in place *)
Example ex_duplicate_bond :
  read_v3000 (write_lines ex_hdr (mkMol (atoms ex_mol) [(0%N, 1%N, Some 2%Z); (0%N, 1%N, Some 3%Z)]))
  = ok (map expected_atom (atoms ex_mol), [(0%Z, 1%Z, 3%Z)]).
Proof. vm_compute. reflexivity. Qed.

(* mo_noloop is needed: the reader rejects a bond line that names the same atom twice *)
Example ex_self_bond :
  read_v3000 (write_lines ex_hdr (mkMol (atoms ex_mol) [(0%N, 1%N, Some 2%Z); (1%N, 1%N, None)])) = inl EParser.
Proof. vm_compute. reflexivity. Qed.
