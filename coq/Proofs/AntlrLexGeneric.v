(* AntlrLexGeneric.v -- generic part of the lexer proof (see Proofs/AntlrLexProofs.v): for ANY automaton
   (tbl, acc, closure fuel cf, initial character edges init) that passes five boolean checks, one maximal-munch
   step of `AntlrLex.scan` equals one step `Parse.lex1` of the model lexer (mapped to ANTLR token types by
   `AntlrExec.antlr_type`), and `AntlrLex.lex_nfa_fuel` equals `Parse.lex_fuel` followed by `antlr_types`.
   This file does not mention gen/AntlrLexer.v.

   The checks enumerate the 256 characters (`all_ascii`) and follow the case structure of `Parse.lex1`; the sets
   of automaton states they look at are the ones `AntlrLex.clos` computes, so nothing has to be proved about
   epsilon closure or its fuel. *)
From Coq Require Import String.
From Coq Require Import List NArith ZArith Bool Ascii Lia.
Require Import Base Mol Text Token Parse AntlrItem AntlrExec AntlrLex ParseProofs LexPrint AntlrProofs.
Require Antlr.
Import ListNotations.
Local Open Scope list_scope.

(* ====================================================================== *)
(* 1.  The finite alphabet                                                  *)
(* ====================================================================== *)
Definition all_ascii : list ascii := map ascii_of_nat (seq 0 256).

Lemma all_ascii_complete : forall c, In c all_ascii.
Proof.
  intros c. unfold all_ascii. rewrite <- (ascii_nat_embedding c). apply in_map.
  apply in_seq. pose proof (nat_ascii_bounded c). lia.
Qed.

Lemma forall_ascii : forall f, forallb f all_ascii = true -> forall c, f c = true.
Proof. intros f H c. rewrite forallb_forall in H. apply H. apply all_ascii_complete. Qed.

Lemma ascii_eqb_true : forall a b, ascii_eqb a b = true -> a = b.
Proof.
  intros a b H. unfold ascii_eqb in H. apply N.eqb_eq in H.
  rewrite <- (ascii_N_embedding a), <- (ascii_N_embedding b), H. reflexivity.
Qed.

Definition is_nil {A} (l : list A) : bool := match l with [] => true | _ => false end.
Definition is_none {A} (o : option A) : bool := match o with None => true | Some _ => false end.
Lemma is_nil_true : forall A (l : list A), is_nil l = true -> l = [].
Proof. intros A [|x l] H; [reflexivity|discriminate]. Qed.
Lemma is_none_true : forall A (o : option A), is_none o = true -> o = None.
Proof. intros A [x|] H; [discriminate|reflexivity]. Qed.

(* the token type of the result of one step of the model lexer *)
Definition lift (o : option Z) (r : text) : option (Z * text) :=
  match o with Some ty => Some (ty, r) | None => None end.
Definition typed (o : option (token * text)) : option (Z * text) :=
  match o with Some (k, rest) => lift (antlr_type k) rest | None => None end.

(* ====================================================================== *)
(* 2.  Generic: scanning an automaton whose reachable state sets pass the checks *)
(* ====================================================================== *)
Section Generic.
  Variable tbl : list (N * list ledge).
  Variable acc : list (N * Z).
  Variable cf : nat.
  Variable init : list (list (N * N) * N).
  Variable loopQ : list N.      (* the set of states reached after two digits (instantiated by a computation) *)

  Definition step (es : list (list (N * N) * N)) (c : ascii) : list N := clos tbl cf (targets es (N_of_ascii c)).
  Definition out (Q : list N) : list (list (N * N) * N) := out_chars tbl Q.
  Definition upd (Q : list N) (r : text) (best : option (Z * text)) : option (Z * text) :=
    match accepting acc Q with Some ty => Some (ty, r) | None => best end.
  (* the scan just after the state set Q has been entered, r = the characters still to be read *)
  Definition scanS (Q : list N) (r : text) (best : option (Z * text)) : option (Z * text) :=
    scan tbl acc cf (out Q) r (upd Q r best).

  Lemma scan_cons : forall es c r best,
    scan tbl acc cf es (c :: r) best = match step es c with [] => best | Q => scanS Q r best end.
  Proof. intros es c r best. cbn [scan]. unfold step, scanS, upd, out. destruct (clos tbl cf _); reflexivity. Qed.

  Lemma clos_nil : clos tbl cf [] = [].
  Proof. unfold clos. destruct (cf + length (@nil N))%nat; reflexivity. Qed.

  (* no character edge leaves Q *)
  Definition dead (Q : list N) : bool := is_nil (out Q).
  Lemma dead_scan : forall Q r best, dead Q = true -> scan tbl acc cf (out Q) r best = best.
  Proof.
    intros Q r best H. apply is_nil_true in H. rewrite H. destruct r as [|c r]; [reflexivity|].
    rewrite scan_cons. unfold step. cbn [targets flat_map]. rewrite clos_nil. reflexivity.
  Qed.

  (* ---- chains: after Q exactly the word w can follow, and only its end accepts (type ty) ---- *)
  Fixpoint chain_check (Q : list N) (w : text) (ty : Z) : bool :=
    match w with
    | [] => match accepting acc Q with Some ty' => Z.eqb ty' ty | None => false end && dead Q
    | a :: w' =>
      is_none (accepting acc Q) &&
      let es := out Q in
      forallb (fun c => match step es c with
                        | [] => negb (ascii_eqb a c)
                        | Q' => ascii_eqb a c && chain_check Q' w' ty
                        end) all_ascii
    end.

  Lemma chain_scan : forall w Q ty, chain_check Q w ty = true -> forall r best,
    scanS Q r best = match strip_prefix w r with Some rest => Some (ty, rest) | None => best end.
  Proof.
    induction w as [|a w IH]; intros Q ty H r best; cbn [chain_check] in H; apply andb_true_iff in H; destruct H as [H1 H2].
    - unfold scanS. rewrite (dead_scan _ _ _ H2). unfold upd.
      destruct (accepting acc Q) as [ty'|]; [|discriminate]. apply Z.eqb_eq in H1. subst ty'. reflexivity.
    - unfold scanS, upd. rewrite (is_none_true _ _ H1).
      destruct r as [|c r]; [reflexivity|]. rewrite scan_cons. cbn [strip_prefix].
      cbv zeta in H2. pose proof (forall_ascii _ H2 c) as Hc. cbv beta in Hc.
      destruct (step (out Q) c) as [|s Q'].
      + apply negb_true_iff in Hc. rewrite Hc. reflexivity.
      + apply andb_true_iff in Hc. destruct Hc as [Hc1 Hc2]. rewrite Hc1. exact (IH _ _ Hc2 r best).
  Qed.

  (* ---- the numeral loop: Q accepts `g` and is closed under digits; nothing else follows ---- *)
  Definition list_N_eqb (a b : list N) : bool := if list_eq_dec N.eq_dec a b then true else false.
  Definition loop_check (Q : list N) (g : Z) : bool :=
    match accepting acc Q with Some ty => Z.eqb ty g | None => false end &&
    (let es := out Q in
     forallb (fun c => if is_digit c then list_N_eqb (step es c) Q else is_nil (step es c)) all_ascii) &&
    negb (is_nil Q).

  Lemma loop_scan : forall Q g, loop_check Q g = true -> forall r best,
    scanS Q r best = Some (g, snd (span_digits r)).
  Proof.
    intros Q g H. unfold loop_check in H. apply andb_true_iff in H. destruct H as [H H3].
    apply andb_true_iff in H. destruct H as [H1 H2]. cbv zeta in H2.
    assert (Ha : accepting acc Q = Some g).
    { destruct (accepting acc Q) as [ty|]; [|discriminate]. apply Z.eqb_eq in H1. subst ty. reflexivity. }
    induction r as [|c r IH]; intros best; unfold scanS, upd; rewrite Ha.
    - reflexivity.
    - rewrite scan_cons. pose proof (forall_ascii _ H2 c) as Hc. cbv beta in Hc.
      cbn [span_digits]. destruct (is_digit c).
      + unfold list_N_eqb in Hc. destruct (list_eq_dec N.eq_dec (step (out Q) c) Q) as [E|]; [|discriminate].
        rewrite E. destruct Q as [|s Q']; [discriminate|].
        rewrite IH. destruct (span_digits r) as [d rest]. reflexivity.
      + apply is_nil_true in Hc. rewrite Hc. reflexivity.
  Qed.

  (* ---- the checks for the first character, in the case structure of Parse.lex1 ---- *)
  Definition great : option Z := type_of_symbolic Antlr.antlr_symbolic "GREATER_THAN_NINE"%string.

  Definition check_digit (c : ascii) : bool :=
    match step init c, antlr_type (TNum (Z.of_N (digit_val c))), great with
    | s :: Q1', Some ty, Some g =>
      let Q1 := s :: Q1' in
      let es := out Q1 in
      match accepting acc Q1 with Some ty' => Z.eqb ty' ty | None => false end &&
      forallb (fun c2 => match step es c2 with
                         | [] => negb (is_digit c2)
                         | Q2 => is_digit c2 && list_N_eqb Q2 loopQ
                         end) all_ascii
    | _, _, _ => false
    end.
  Definition loop_ok : bool := match great with Some g => loop_check loopQ g | None => false end.

  Definition sym1 (c : ascii) : option Z :=
    match z_of_symbol [c] with Some z => antlr_type (TSym z) | None => None end.
  Definition sym2 (c c2 : ascii) : option N := if is_lower c2 then z_of_symbol [c; c2] else None.
  Definition optZ_eqb (a b : option Z) : bool :=
    match a, b with Some x, Some y => Z.eqb x y | None, None => true | _, _ => false end.
  Lemma optZ_eqb_true : forall a b, optZ_eqb a b = true -> a = b.
  Proof.
    intros [x|] [y|] H; try discriminate; [|reflexivity]. apply Z.eqb_eq in H. subst. reflexivity.
  Qed.

  Definition check_upper (c : ascii) : bool :=
    match step init c with
    | [] => is_none (sym1 c) && forallb (fun c2 => is_none (sym2 c c2)) all_ascii
    | Q1 =>
      let es := out Q1 in
      optZ_eqb (accepting acc Q1) (sym1 c) &&
      forallb (fun c2 => match step es c2 with
                         | [] => is_none (sym2 c c2)
                         | Q2 => dead Q2 &&
                                 match sym2 c c2 with
                                 | Some z => match antlr_type (TSym z), accepting acc Q2 with
                                             | Some a, Some b => Z.eqb a b
                                             | _, _ => false
                                             end
                                 | None => is_none (accepting acc Q2)
                                 end
                         end) all_ascii
    end.

  Definition check_word (c : ascii) (w : text) (k : token) : bool :=
    match antlr_type k, step init c with
    | Some ty, s :: Q' => chain_check (s :: Q') w ty
    | _, _ => false
    end.

  Definition check_other (c : ascii) : bool :=
    match punct c with
    | Some k => check_word c [] k
    | None => if ascii_eqb "m"%char c then check_word c (t "ass") TMass
              else if ascii_eqb "r"%char c then check_word c (t "ad") TRad
              else is_nil (step init c)
    end.

  (* the four named parts (each a statement about all 256 characters) *)
  Definition dead_check : bool :=
    forallb (fun c => if is_digit c then (if N.eqb (N_of_ascii c) 48 then is_nil (step init c) else true)
                      else if is_upper c then true
                      else match punct c with
                           | Some _ => true
                           | None => if ascii_eqb "m"%char c then true else if ascii_eqb "r"%char c then true
                                     else is_nil (step init c)
                           end) all_ascii.
  Definition numerals_check : bool :=
    loop_ok &&
    forallb (fun c => if is_digit c then (if N.eqb (N_of_ascii c) 48 then true else check_digit c) else true) all_ascii.
  Definition symbols_check : bool :=
    forallb (fun c => if is_digit c then true else if is_upper c then check_upper c else true) all_ascii.
  Definition punct_check : bool :=
    forallb (fun c => if is_digit c then true else if is_upper c then true
                      else match punct c with Some k => check_word c [] k | None => true end) all_ascii.
  Definition keywords_check : bool :=
    forallb (fun c => if is_digit c then true else if is_upper c then true
                      else match punct c with
                           | Some _ => true
                           | None => if ascii_eqb "m"%char c then check_word c (t "ass") TMass
                                     else if ascii_eqb "r"%char c then check_word c (t "ad") TRad else true
                           end) all_ascii.

  Hypothesis Hdead : dead_check = true.
  Hypothesis Hnum : numerals_check = true.
  Hypothesis Hsym : symbols_check = true.
  Hypothesis Hpunct : punct_check = true.
  Hypothesis Hkw : keywords_check = true.

  Lemma digits_val_ge : forall l a, (a <= digits_val a l)%N.
  Proof. induction l as [|c r IH]; intros a; cbn [digits_val]; [lia|]. specialize (IH (10 * a + digit_val c)%N). lia. Qed.

  Lemma antlr_type_great : forall v g, great = Some g -> (10 <= v)%Z -> antlr_type (TNum v) = Some g.
  Proof.
    intros v g Hg Hv. unfold antlr_type.
    assert (E9 : Z.leb v 9 = false) by (apply Z.leb_gt; lia). rewrite E9, andb_false_r.
    assert (E10 : Z.leb 10 v = true) by (apply Z.leb_le; exact Hv). rewrite E10. exact Hg.
  Qed.

  Lemma word_scan : forall c w k r, check_word c w k = true ->
    scan tbl acc cf init (c :: r) None = match strip_prefix w r with Some rest => lift (antlr_type k) rest | None => None end.
  Proof.
    intros c w k r H. unfold check_word in H. rewrite scan_cons.
    destruct (antlr_type k) as [ty|]; [|discriminate].
    destruct (step init c) as [|s Q']; [discriminate|].
    rewrite (chain_scan _ _ _ H). reflexivity.
  Qed.

  (* one maximal-munch step of the automaton = one step of the model lexer *)
  Theorem lex1_nfa_spec : forall l, lex1_nfa tbl acc cf init l = typed (lex1 l).
  Proof.
    intros l. unfold lex1_nfa. destruct l as [|c r]; [reflexivity|].
    pose proof (forall_ascii _ Hdead c) as Cd.
    pose proof Hnum as Cn. unfold numerals_check in Cn. apply andb_true_iff in Cn. destruct Cn as [Cl Cn].
    pose proof (forall_ascii _ Cn c) as Cn'. clear Cn. rename Cn' into Cn.
    pose proof (forall_ascii _ Hsym c) as Cs. pose proof (forall_ascii _ Hpunct c) as Cp.
    pose proof (forall_ascii _ Hkw c) as Ck. cbv beta in Cd, Cn, Cs, Cp, Ck.
    unfold lex1. destruct (is_digit c) eqn:Edig.
    - (* numerals *)
      destruct (N.eqb (N_of_ascii c) 48) eqn:E0.
      + rewrite scan_cons. apply is_nil_true in Cd. rewrite Cd. reflexivity.
      + clear Cd Cs Cp Ck. unfold check_digit in Cn. rewrite scan_cons.
        destruct (step init c) as [|s Q1']; [discriminate|].
        destruct (antlr_type (TNum (Z.of_N (digit_val c)))) as [ty|] eqn:Ety; [|discriminate].
        destruct great as [g|] eqn:Eg; [|discriminate].
        cbv zeta in Cn. apply andb_true_iff in Cn. destruct Cn as [Ca C2].
        set (Q1 := s :: Q1') in *.
        assert (Ha : accepting acc Q1 = Some ty).
        { destruct (accepting acc Q1) as [ty'|]; [|discriminate]. apply Z.eqb_eq in Ca. subst ty'. reflexivity. }
        unfold scanS, upd. rewrite Ha.
        destruct r as [|c2 r2].
        * cbn [scan span_digits typed digits_val].
          replace (10 * 0 + digit_val c)%N with (digit_val c) by lia. rewrite Ety. reflexivity.
        * rewrite scan_cons. pose proof (forall_ascii _ C2 c2) as Hc2. cbv beta in Hc2.
          cbn [span_digits].
          destruct (step (out Q1) c2) as [|s2 Q2'].
          -- apply negb_true_iff in Hc2. rewrite Hc2. cbn [typed digits_val].
             replace (10 * 0 + digit_val c)%N with (digit_val c) by lia. rewrite Ety. reflexivity.
          -- apply andb_true_iff in Hc2. destruct Hc2 as [Hd2 Hl]. rewrite Hd2.
             unfold list_N_eqb in Hl. destruct (list_eq_dec N.eq_dec (s2 :: Q2') loopQ) as [El|]; [|discriminate].
             rewrite El. unfold loop_ok in Cl. rewrite Eg in Cl.
             rewrite (loop_scan _ _ Cl). destruct (span_digits r2) as [d rest] eqn:Es. cbn [typed snd].
             rewrite (antlr_type_great _ _ Eg); [reflexivity|].
             assert (Hc1 : (1 <= digit_val c)%N).
             { unfold digit_val. unfold is_digit in Edig. apply andb_true_iff in Edig. destruct Edig as [E1 E2].
               apply N.leb_le in E1. apply N.eqb_neq in E0. lia. }
             cbn [digits_val]. pose proof (digits_val_ge d (10 * (10 * 0 + digit_val c) + digit_val c2)%N). lia.
    - destruct (is_upper c) eqn:Eup.
      + (* element symbols *)
        clear Cd Cn Cp Ck. unfold check_upper in Cs. rewrite scan_cons.
        assert (M1 : typed (match z_of_symbol [c] with Some z => Some (TSym z, r) | None => None end) = lift (sym1 c) r).
        { unfold sym1. destruct (z_of_symbol [c]); reflexivity. }
        destruct (step init c) as [|s Q1'].
        * apply andb_true_iff in Cs. destruct Cs as [C1 C2]. apply is_none_true in C1.
          destruct r as [|c2 r2]; [rewrite M1, C1; reflexivity|].
          pose proof (forall_ascii _ C2 c2) as Hc2. cbv beta in Hc2. apply is_none_true in Hc2.
          unfold sym2 in Hc2. rewrite Hc2, M1, C1. reflexivity.
        * cbv zeta in Cs. set (Q1 := s :: Q1') in *.
          apply andb_true_iff in Cs. destruct Cs as [C1 C2]. apply optZ_eqb_true in C1.
          assert (B1 : upd Q1 r None = lift (sym1 c) r). { unfold upd. rewrite C1. destruct (sym1 c); reflexivity. }
          unfold scanS. rewrite B1.
          destruct r as [|c2 r2]; [rewrite M1; reflexivity|].
          rewrite scan_cons. pose proof (forall_ascii _ C2 c2) as Hc2. cbv beta in Hc2.
          fold (sym2 c c2).
          destruct (step (out Q1) c2) as [|s2 Q2'].
          -- apply is_none_true in Hc2. rewrite Hc2, M1. reflexivity.
          -- apply andb_true_iff in Hc2. destruct Hc2 as [Hd Hc2].
             unfold scanS. rewrite (dead_scan _ _ _ Hd). unfold upd.
             destruct (sym2 c c2) as [z|].
             ++ cbn [typed]. destruct (antlr_type (TSym z)) as [a|]; [|discriminate].
                destruct (accepting acc (s2 :: Q2')) as [b|]; [|discriminate].
                apply Z.eqb_eq in Hc2. subst b. reflexivity.
             ++ apply is_none_true in Hc2. rewrite Hc2, M1. reflexivity.
      + (* punctuation, keywords, everything else *)
        clear Cn Cs. destruct (punct c) as [k|].
        * rewrite (word_scan _ _ _ r Cp). reflexivity.
        * change (t "mass") with ("m"%char :: t "ass"). change (t "rad") with ("r"%char :: t "ad").
          cbn [strip_prefix]. destruct (ascii_eqb "m"%char c) eqn:Em.
          -- rewrite (word_scan _ _ _ r Ck). apply ascii_eqb_true in Em. subst c.
             change (ascii_eqb "r"%char "m"%char) with false. cbv iota.
             destruct (strip_prefix (t "ass") r); reflexivity.
          -- destruct (ascii_eqb "r"%char c) eqn:Er.
             ++ rewrite (word_scan _ _ _ r Ck). destruct (strip_prefix (t "ad") r); reflexivity.
             ++ rewrite scan_cons. apply is_nil_true in Cd. rewrite Cd. reflexivity.
  Qed.

  (* the whole text: both lexers iterate their step function with the same fuel *)
  Theorem lex_nfa_fuel_spec : forall fuel l,
    lex_nfa_fuel tbl acc cf fuel init l = match lex_fuel fuel l with Some ts => antlr_types ts | None => None end.
  Proof.
    induction fuel as [|f IH]; intros l.
    - destruct l; reflexivity.
    - destruct l as [|c r]; [reflexivity|]. cbn [lex_nfa_fuel lex_fuel]. rewrite lex1_nfa_spec.
      destruct (lex1 (c :: r)) as [[k rest]|]; [|reflexivity]. cbn [typed].
      destruct (antlr_type k) as [ty|] eqn:Ek; cbn [lift].
      + rewrite IH. destruct (lex_fuel f rest) as [ks|]; [|reflexivity]. cbn [antlr_types]. rewrite Ek.
        destruct (antlr_types ks); reflexivity.
      + destruct (lex_fuel f rest) as [ks|]; [|reflexivity]. cbn [antlr_types]. rewrite Ek. reflexivity.
  Qed.
End Generic.

