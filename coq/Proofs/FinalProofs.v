(* FinalProofs.v -- serialization._assign_final_labels: the worklist machine depends only on the
   view of the molecule, and the labelling it returns is a bijection of the label set. *)
From Coq Require Import List NArith ZArith Bool Lia Permutation.
Require Import Base Mol Final SortProofs MolProofs PartitionProofs SameMol ViewProofs.
Require Equitable.
Import ListNotations.

(* ---------- extensionality: the machine uses its views only by application ---------- *)
Section Ext.
  Variable ls : list N.
  Variables part_of part_of' : N -> option N.
  Variables nb nb' : N -> list N.
  Variable prios : list (N -> N -> bool).
  Hypothesis Hp : forall a, part_of a = part_of' a.
  Hypothesis Hn : forall a, nb a = nb' a.

  Lemma order_of_ext a pa : order_of part_of nb prios a pa = order_of part_of' nb' prios a pa.
  Proof.
    unfold order_of. rewrite Hn. generalize prios as ps. intros ps.
    induction ps as [|pr t IH]; [reflexivity|].
    cbn [fold_right]. rewrite IH. clear IH.
    match goal with |- match ?X with _ => _ end = _ => destruct X as [rest|] end; [|reflexivity].
    f_equal. f_equal. apply flat_map_ext. intros n. rewrite Hp. reflexivity.
  Qed.
  Lemma explore_ext a q s : explore part_of nb prios a q s = explore part_of' nb' prios a q s.
  Proof.
    unfold explore. rewrite Hp. destruct (part_of' a) as [pa|]; [|reflexivity].
    destruct (pop_class pa (avail s)) as [[l av']|]; [|reflexivity]. rewrite order_of_ext. reflexivity.
  Qed.
  Lemma step_ext s : step ls part_of nb prios s = step ls part_of' nb' prios s.
  Proof.
    unfold step. destruct (queue s) as [|a q].
    - destruct (filter _ ls) as [|u t]; [reflexivity | apply explore_ext].
    - destruct (memN a (explored s)); [reflexivity | apply explore_ext].
  Qed.
  Lemma run_ext fuel : forall s, run ls part_of nb prios fuel s = run ls part_of' nb' prios fuel s.
  Proof.
    induction fuel as [|f IH]; intros s; simpl; [reflexivity|].
    rewrite step_ext. destruct (step ls part_of' nb' prios s) as [s'|s'|]; [reflexivity | apply IH | reflexivity].
  Qed.
End Ext.

(* ---------- the views of two graphs with the same view coincide ---------- *)
Section SameViews.
  Context {P B P' B' : Type}.
  Variable c : mol P B.
  Variable c' : mol P' B'.
  Hypothesis Hwf : wfg c.
  Hypothesis HV : SameView c c'.

  Lemma labels_sorted_eq : isort Nleb (labels c) = isort Nleb (labels c').
  Proof.
    apply isort_perm_invariant; [apply Nleb_total | apply Nleb_trans | apply Nleb_antisym|].
    apply (SameView_labels c c' HV).
  Qed.
  Lemma part_lookup_eq a : part_lookup c a = part_lookup c' a.
  Proof.
    unfold part_lookup. rewrite !(find_atom_lookup (@part _)).
    apply (SameView_lookup c c' Hwf HV (fun v => snd v)).
  Qed.
  Lemma part_values_eq : part_values c = part_values c'.
  Proof.
    unfold part_values. f_equal.
    apply isort_perm_invariant; [apply Nleb_total | apply Nleb_trans | apply Nleb_antisym|].
    destruct HV as [Ha _]. apply (Permutation_map (fun v => snd v)) in Ha. rewrite !map_map in Ha. exact Ha.
  Qed.
  Lemma class_members_eq p :
    isort Nleb (map (@lbl P) (filter (fun x => N.eqb (part x) p) (atoms c)))
    = isort Nleb (map (@lbl P') (filter (fun x => N.eqb (part x) p) (atoms c'))).
  Proof.
    apply isort_perm_invariant; [apply Nleb_total | apply Nleb_trans | apply Nleb_antisym|].
    destruct HV as [Ha _].
    assert (E : forall Q (l : list (atom Q)),
               map (@lbl Q) (filter (fun x => N.eqb (part x) p) l)
               = map (fun v => fst (fst v)) (filter (fun v => N.eqb (snd v) p) (map aview l))).
    { intros Q l. induction l as [|x t IH]; simpl; [reflexivity|].
      destruct (N.eqb (part x) p); simpl; rewrite IH; reflexivity. }
    rewrite !E. apply Permutation_map.
    (* filter respects Permutation *)
    clear E. induction Ha as [|v l l' HP IH|v w l|l l' l'' HP1 IH1 HP2 IH2]; simpl.
    - constructor.
    - destruct (N.eqb (snd v) p); [constructor|]; exact IH.
    - destruct (N.eqb (snd v) p), (N.eqb (snd w) p); try reflexivity. constructor.
    - etransitivity; eassumption.
  Qed.
  Lemma init_avail_eq : init_avail c = init_avail c'.
  Proof. unfold init_avail. rewrite part_values_eq. apply map_ext. intros p. rewrite class_members_eq. reflexivity. Qed.

  (* the cosmetic labelling is a function of the view *)
  Theorem final_labels_view : final_labels c = final_labels c'.
  Proof.
    unfold final_labels, final_fuel.
    rewrite (SameView_length c c' HV), (SameView_bond_count c c' HV), init_avail_eq, labels_sorted_eq.
    rewrite (run_ext (isort Nleb (labels c')) (part_lookup c) (part_lookup c')
               (fun a => isort Nleb (nbrs c a)) (fun a => isort Nleb (nbrs c' a)) default_prios
               part_lookup_eq (SameView_nbrs_sorted c c' Hwf HV)).
    reflexivity.
  Qed.
End SameViews.

(* ---------- the labelling is one-to-one ---------- *)
Lemma NoDup_app_l {A} (l l' : list A) : NoDup (l ++ l') -> NoDup l.
Proof.
  induction l as [|x t IH]; simpl; intros H; [constructor|].
  inversion H as [|? ? Hn Hnd]; subst. constructor; [intros Hin; apply Hn, in_or_app; left; exact Hin | apply IH, Hnd].
Qed.
Lemma pop_class_perm p av l av' : pop_class p av = Some (l, av') ->
  Permutation (flat_map snd av) (l :: flat_map snd av').
Proof.
  revert l av'. induction av as [|[q ls] t IH]; intros l av'; simpl; [discriminate|].
  destruct (N.eqb q p).
  - destruct ls as [|l0 ls']; [discriminate|]. intros E; inversion E; subst. simpl. reflexivity.
  - destruct (pop_class p t) as [[l1 t1]|]; [|discriminate]. intros E; inversion E; subst. simpl.
    rewrite (IH l t1 eq_refl). rewrite Permutation_middle. reflexivity.
Qed.

Section Inj.
  Variable ls : list N.
  Variable part_of : N -> option N.
  Variable nb : N -> list N.
  Variable prios : list (N -> N -> bool).
  Variable L : list N.                 (* the label set *)
  Hypothesis Hls : incl ls L.
  Hypothesis Hnb : forall a, incl (nb a) L.

  Definition Inv (s : st) : Prop :=
    explored s = map fst (out s) /\ NoDup (map fst (out s)) /\
    NoDup (map snd (out s) ++ flat_map snd (avail s)) /\
    incl (map fst (out s)) L /\ incl (queue s) L.

  Lemma order_of_incl a pa ord : order_of part_of nb prios a pa = Some ord -> incl ord L.
  Proof.
    unfold order_of. revert ord. generalize prios as ps. intros ps.
    induction ps as [|pr t IH]; simpl; intros ord.
    - intros E; inversion E. apply incl_nil_l.
    - destruct (fold_right _ _ t) as [rest|]; [|discriminate]. intros E; inversion E; subst.
      apply incl_app; [|apply IH; reflexivity].
      intros x Hx. rewrite in_flat_map in Hx. destruct Hx as (n & Hn & Hx').
      assert (x = n).
      { destruct (part_of n) as [pn|]; [|destruct Hx']. destruct (pr pa pn); [|destruct Hx']. destruct Hx' as [<-|[]]. reflexivity. }
      subst x. apply (Hnb a), Hn.
  Qed.

  Lemma memN_false a l : memN a l = false -> ~ In a l.
  Proof.
    unfold memN. intros H Hin. assert (existsb (N.eqb a) l = true); [|congruence].
    apply existsb_exists. exists a. split; [exact Hin | apply N.eqb_refl].
  Qed.

  Lemma explore_inv a q s s' : Inv s -> In a L -> incl q L -> ~ In a (explored s) ->
    explore part_of nb prios a q s = Step s' -> Inv s'.
  Proof.
    intros (He & Hk & Hv & Hi & Hq) Ha Hqi Hna. unfold explore.
    destruct (part_of a) as [pa|]; [|discriminate].
    destruct (pop_class pa (avail s)) as [[l av']|] eqn:Ep; [|discriminate].
    destruct (order_of part_of nb prios a pa) as [ord|] eqn:Eo; [|discriminate].
    intros E; inversion E; subst s'; clear E. unfold Inv; simpl.
    split; [rewrite He; reflexivity|]. split; [constructor; [rewrite <- He; exact Hna | exact Hk]|].
    split.
    - apply (Permutation_NoDup (l := map snd (out s) ++ flat_map snd (avail s))); [|exact Hv].
      rewrite (pop_class_perm _ _ _ _ Ep). rewrite <- Permutation_middle. reflexivity.
    - split; [intros x [<-|Hx]; [exact Ha | apply Hi, Hx]|].
      apply incl_app; [exact Hqi | apply (order_of_incl a pa ord Eo)].
  Qed.
  Lemma explore_not_done a q s s' : explore part_of nb prios a q s <> Done s'.
  Proof.
    unfold explore. destruct (part_of a); [|discriminate]. destruct (pop_class _ _) as [[? ?]|]; [|discriminate].
    destruct (order_of _ _ _ _ _); discriminate.
  Qed.

  Lemma step_inv s : Inv s ->
    match step ls part_of nb prios s with Done s' => s' = s | Step s' => Inv s' | Fail => True end.
  Proof.
    intros HI. pose proof HI as (He & Hk & Hv & Hi & Hq). unfold step.
    destruct (queue s) as [|a q] eqn:Eq.
    - destruct (filter _ ls) as [|u t] eqn:Ef; [reflexivity|].
      assert (Hu : In u (filter (fun l => negb (memN l (explored s))) ls)) by (rewrite Ef; left; reflexivity).
      apply filter_In in Hu. destruct Hu as [Hul Hun]. apply negb_true_iff in Hun.
      destruct (explore part_of nb prios u [] s) as [s'|s'|] eqn:Ee; [exfalso; eapply explore_not_done, Ee | | exact I].
      eapply explore_inv; [exact HI | apply Hls, Hul | apply incl_nil_l | apply memN_false, Hun | exact Ee].
    - destruct (memN a (explored s)) eqn:Em.
      + unfold Inv; simpl. repeat split; try assumption. intros x Hx. apply Hq. right; exact Hx.
      + destruct (explore part_of nb prios a q s) as [s'|s'|] eqn:Ee; [exfalso; eapply explore_not_done, Ee | | exact I].
        eapply explore_inv; [exact HI | apply Hq; left; reflexivity | | apply memN_false, Em | exact Ee].
        intros x Hx. apply Hq. right; exact Hx.
  Qed.

  Lemma run_inv fuel : forall s o, Inv s -> run ls part_of nb prios fuel s = Some o ->
    NoDup (map fst o) /\ NoDup (map snd o) /\ incl (map fst o) L /\
    exists av : list (N * list N), NoDup (map snd o ++ flat_map snd av) /\ Permutation (map snd o ++ flat_map snd av) (map snd (out s) ++ flat_map snd (avail s)).
  Proof.
    induction fuel as [|f IH]; intros s o HI; simpl; [discriminate|].
    pose proof (step_inv s HI) as HS.
    destruct (step ls part_of nb prios s) as [s'|s'|] eqn:Es; [| |discriminate].
    - subst s'. intros E; inversion E; subst o. destruct HI as (He & Hk & Hv & Hi & Hq).
      split; [exact Hk|]. split; [apply NoDup_app_l in Hv; exact Hv|]. split; [exact Hi|].
      exists (avail s). split; [exact Hv | reflexivity].
    - intros E. destruct (IH s' o HS E) as (H1 & H2 & H3 & av & H4 & H5).
      split; [exact H1|]. split; [exact H2|]. split; [exact H3|].
      exists av. split; [exact H4|]. rewrite H5. clear - Es.
      (* one step keeps the multiset out-values ++ available labels *)
      unfold step in Es. destruct (queue s) as [|a q].
      + destruct (filter _ ls) as [|u t]; [discriminate|]. unfold explore in Es.
        destruct (part_of u); [|discriminate]. destruct (pop_class n (avail s)) as [[l av']|] eqn:Ep; [|discriminate].
        destruct (order_of _ _ _ _ _); [|discriminate]. inversion Es; subst; simpl.
        rewrite (pop_class_perm _ _ _ _ Ep). rewrite <- Permutation_middle. reflexivity.
      + destruct (memN a (explored s)); [inversion Es; subst; simpl; reflexivity|]. unfold explore in Es.
        destruct (part_of a); [|discriminate]. destruct (pop_class n (avail s)) as [[l av']|] eqn:Ep; [|discriminate].
        destruct (order_of _ _ _ _ _); [|discriminate]. inversion Es; subst; simpl.
        rewrite (pop_class_perm _ _ _ _ Ep). rewrite <- Permutation_middle. reflexivity.
  Qed.
End Inj.

(* the available labels are exactly the labels, class by class *)
Lemma filter_partition {A} (g : A -> N) (ps : list N) : NoDup ps -> forall l,
  (forall x, In x l -> In (g x) ps) ->
  Permutation (flat_map (fun p => filter (fun x => N.eqb (g x) p) l) ps) l.
Proof.
  induction 1 as [|p ps Hnotin Hnd IH]; intros l Hcov; simpl.
  - destruct l as [|x t]; [constructor|]. destruct (Hcov x (or_introl eq_refl)).
  - assert (E : flat_map (fun p0 => filter (fun x => N.eqb (g x) p0) l) ps
                = flat_map (fun p0 => filter (fun x => N.eqb (g x) p0) (filter (fun x => negb (N.eqb (g x) p)) l)) ps).
    { rewrite !flat_map_concat_map. f_equal. apply map_ext_in. intros p0 Hp0. clear - Hnotin Hp0.
      induction l as [|x t IHl]; simpl; [reflexivity|].
      destruct (N.eqb_spec (g x) p0) as [E0|N0]; destruct (N.eqb_spec (g x) p) as [E1|N1]; simpl.
      - exfalso. apply Hnotin. congruence.
      - rewrite E0, N.eqb_refl. f_equal. exact IHl.
      - exact IHl.
      - destruct (N.eqb_spec (g x) p0); [contradiction|]. exact IHl. }
    rewrite E, IH.
    + clear. induction l as [|x t IHl]; simpl; [constructor|].
      destruct (N.eqb (g x) p); simpl; [constructor; exact IHl|].
      rewrite <- Permutation_middle. constructor. exact IHl.
    + intros x Hx. apply filter_In in Hx. destruct Hx as [Hx Hn]. apply negb_true_iff in Hn.
      destruct (Hcov x Hx) as [Ep|Hin]; [|exact Hin]. subst p. rewrite N.eqb_refl in Hn. discriminate.
Qed.

Lemma init_avail_perm {P B} (m : mol P B) : Permutation (flat_map snd (init_avail m)) (labels m).
Proof.
  unfold init_avail, part_values. rewrite flat_map_concat_map, map_map. simpl. rewrite <- flat_map_concat_map.
  transitivity (flat_map (fun p => map (@lbl P) (filter (fun x => N.eqb (part x) p) (atoms m)))
                         (dedup Nleb (isort Nleb (map (@part P) (atoms m))))).
  - clear. induction (dedup Nleb (isort Nleb (map (@part P) (atoms m)))) as [|p t IH]; simpl; [constructor|].
    apply Permutation_app; [apply Permutation_sym, isort_perm | exact IH].
  - unfold labels. rewrite <- (filter_partition (@part P) (dedup Nleb (isort Nleb (map (@part P) (atoms m))))) at 2.
    + rewrite !flat_map_concat_map, concat_map, map_map. reflexivity.
    + apply (Equitable.distinct_NoDup N Nleb Nleb_total Nleb_trans Nleb_antisym).
    + intros x Hx. apply (Equitable.distinct_in N Nleb Nleb_total Nleb_antisym). apply in_map, Hx.
Qed.

Theorem final_labels_bijection {P B} (m : mol P B) o : wfg m -> final_labels m = Some o ->
  Permutation (map fst o) (labels m) /\ Permutation (map snd o) (labels m) /\ NoDup (map fst o) /\ NoDup (map snd o).
Proof.
  intros [Hnd Hb] Ho. unfold final_labels in Ho.
  destruct (run _ _ _ _ _ _) as [o'|] eqn:Er; [|discriminate].
  destruct (Nat.eqb (length o') (length (atoms m))) eqn:El; [|discriminate]. inversion Ho; subst o'; clear Ho.
  apply Nat.eqb_eq in El.
  assert (HI : Inv (labels m) (mkSt [] [] (init_avail m) [])).
  { unfold Inv; simpl. split; [reflexivity|]. split; [constructor|]. split.
    - eapply Permutation_NoDup; [apply Permutation_sym, init_avail_perm | exact Hnd].
    - split; apply incl_nil_l. }
  destruct (run_inv (isort Nleb (labels m)) (part_lookup m) (fun a => isort Nleb (nbrs m a)) default_prios (labels m)
              (fun x Hx => proj1 (isort_in _ Nleb x (labels m)) Hx)
              (fun a x Hx => nbrs_in_labels m a x (conj Hnd Hb) (proj1 (isort_in _ Nleb x (nbrs m a)) Hx))
              _ _ o HI Er) as (H1 & H2 & H3 & av & H4 & H5).
  simpl in H5. rewrite init_avail_perm in H5.
  assert (Hlen : length (labels m) = length o) by (unfold labels; rewrite map_length; congruence).
  assert (Hk : Permutation (map fst o) (labels m)).
  { apply NoDup_Permutation_bis; [exact H1 | rewrite map_length; lia | exact H3]. }
  split; [exact Hk|]. split; [|split; assumption].
  (* values: a duplicate-free sublist of the labels of full length *)
  assert (Hav : flat_map snd av = []).
  { apply Permutation_length in H5. rewrite app_length, map_length in H5. destruct (flat_map snd av); [reflexivity|simpl in H5; lia]. }
  rewrite Hav, app_nil_r in H5. exact H5.
Qed.

Lemma fun_of_map_inj o l : NoDup (map fst o) -> NoDup (map snd o) -> Permutation (map fst o) l -> inj_on (fun_of_map o) l.
Proof.
  intros Hk Hv Hp x y Hx Hy E. unfold fun_of_map in E.
  assert (Hx' : In x (map fst o)) by (eapply Permutation_in; [apply Permutation_sym, Hp | exact Hx]).
  assert (Hy' : In y (map fst o)) by (eapply Permutation_in; [apply Permutation_sym, Hp | exact Hy]).
  rewrite in_map_iff in Hx', Hy'. destruct Hx' as ([x0 vx] & Ex & Hxin), Hy' as ([y0 vy] & Ey & Hyin). simpl in *. subst x0 y0.
  rewrite (lookup_in _ o x vx Hk Hxin), (lookup_in _ o y vy Hk Hyin) in E. simpl in E. subst vy.
  (* two entries with the same value are the same entry *)
  clear - Hv Hxin Hyin. induction o as [|[k v] t IH]; simpl in *; [contradiction|].
  inversion Hv as [|? ? Hnot Hv']; subst.
  destruct Hxin as [Ex|Hxin], Hyin as [Ey|Hyin].
  - congruence.
  - inversion Ex; subst. exfalso. apply Hnot. apply (in_map snd) in Hyin. exact Hyin.
  - inversion Ey; subst. exfalso. apply Hnot. apply (in_map snd) in Hxin. exact Hxin.
  - apply IH; assumption.
Qed.
