(* SerializeProofs.v -- serialize_molecule is a function of the view of its argument: two
   labelled graphs with the same label -> (element, mass, radical, class) map and the same edge
   set give the same token list, whatever their listing orders and payloads. *)
From Coq Require Import List NArith ZArith Bool Lia Permutation Ascii String.
Require Import Base Mol Partition Final Text Token Serialize SortProofs MolProofs PartitionProofs SameMol ViewProofs FinalProofs.
Import ListNotations.

(* ---------- orders used by the serializer ---------- *)
Lemma pair_leb_total a b : pair_leb a b = true \/ pair_leb b a = true.
Proof.
  unfold pair_leb. destruct a as [a1 a2], b as [b1 b2]; simpl.
  destruct (N.ltb_spec a1 b1), (N.ltb_spec b1 a1); auto; try lia.
  destruct (N.eqb_spec a1 b1), (N.eqb_spec b1 a1); try lia. rewrite !N.leb_le. lia.
Qed.
Lemma pair_leb_trans a b c : pair_leb a b = true -> pair_leb b c = true -> pair_leb a c = true.
Proof.
  unfold pair_leb. destruct a as [a1 a2], b as [b1 b2], c as [c1 c2]; simpl.
  destruct (N.ltb_spec a1 b1), (N.ltb_spec b1 c1), (N.ltb_spec a1 c1); auto; try lia;
  destruct (N.eqb_spec a1 b1), (N.eqb_spec b1 c1), (N.eqb_spec a1 c1); try lia; try discriminate;
  rewrite ?N.leb_le; intros; try lia; try discriminate.
Qed.
Lemma pair_leb_antisym a b : pair_leb a b = true -> pair_leb b a = true -> a = b.
Proof.
  unfold pair_leb. destruct a as [a1 a2], b as [b1 b2]; simpl.
  destruct (N.ltb_spec a1 b1), (N.ltb_spec b1 a1); try lia;
  destruct (N.eqb_spec a1 b1), (N.eqb_spec b1 a1); try lia; try discriminate.
  rewrite !N.leb_le. intros. f_equal; lia.
Qed.

Lemma kl_leb_total a b : kl_leb a b = true \/ kl_leb b a = true.
Proof.
  unfold kl_leb. destruct (lex_total N Nleb Nleb_total (fst a) (fst b)) as [H|H]; rewrite H.
  - destruct (lex Nleb (fst b) (fst a)) eqn:E; [|left; reflexivity].
    destruct (Nleb_total (snd a) (snd b)) as [H2|H2]; [left; exact H2 | right; exact H2].
  - destruct (lex Nleb (fst a) (fst b)) eqn:E; [|right; reflexivity].
    destruct (Nleb_total (snd a) (snd b)) as [H2|H2]; [left; exact H2 | right; exact H2].
Qed.
Lemma kl_leb_antisym a b : kl_leb a b = true -> kl_leb b a = true -> a = b.
Proof.
  unfold kl_leb. destruct (lex Nleb (fst a) (fst b)) eqn:E1, (lex Nleb (fst b) (fst a)) eqn:E2; try discriminate.
  intros H1 H2. destruct a, b; simpl in *. f_equal.
  - apply (lex_antisym N Nleb Nleb_antisym); assumption.
  - apply Nleb_antisym; assumption.
Qed.
Lemma kl_leb_trans a b c : kl_leb a b = true -> kl_leb b c = true -> kl_leb a c = true.
Proof.
  unfold kl_leb.
  destruct (lex Nleb (fst a) (fst b)) eqn:Eab; [|discriminate].
  destruct (lex Nleb (fst b) (fst c)) eqn:Ebc; [|intros _; discriminate].
  rewrite (lex_trans N Nleb Nleb_trans _ _ _ Eab Ebc).
  destruct (lex Nleb (fst b) (fst a)) eqn:Eba; destruct (lex Nleb (fst c) (fst b)) eqn:Ecb; intros H1 H2.
  - rewrite (lex_trans N Nleb Nleb_trans _ _ _ Ecb Eba). eapply Nleb_trans; eassumption.
  - destruct (lex Nleb (fst c) (fst a)) eqn:Eca; [|reflexivity].
    rewrite (lex_trans N Nleb Nleb_trans _ _ _ Eca Eab) in Ecb. discriminate.
  - destruct (lex Nleb (fst c) (fst a)) eqn:Eca; [|reflexivity].
    rewrite (lex_trans N Nleb Nleb_trans _ _ _ Ebc Eca) in Eba. discriminate.
  - destruct (lex Nleb (fst c) (fst a)) eqn:Eca; [|reflexivity].
    rewrite (lex_trans N Nleb Nleb_trans _ _ _ Eca Eab) in Ecb. discriminate.
Qed.

Lemma ascii_leb_total a b : ascii_leb a b = true \/ ascii_leb b a = true.
Proof. unfold ascii_leb. rewrite !N.leb_le. lia. Qed.
Lemma ascii_leb_trans a b c : ascii_leb a b = true -> ascii_leb b c = true -> ascii_leb a c = true.
Proof. unfold ascii_leb. rewrite !N.leb_le. lia. Qed.
Lemma ascii_leb_antisym a b : ascii_leb a b = true -> ascii_leb b a = true -> a = b.
Proof.
  unfold ascii_leb. rewrite !N.leb_le. intros H1 H2.
  rewrite <- (ascii_N_embedding a), <- (ascii_N_embedding b). f_equal. lia.
Qed.
Lemma text_leb_total a b : text_leb a b = true \/ text_leb b a = true.
Proof. apply lex_total, ascii_leb_total. Qed.
Lemma text_leb_trans a b c : text_leb a b = true -> text_leb b c = true -> text_leb a c = true.
Proof. apply lex_trans, ascii_leb_trans. Qed.
Lemma text_leb_antisym a b : text_leb a b = true -> text_leb b a = true -> a = b.
Proof. apply lex_antisym, ascii_leb_antisym. Qed.

(* ---------- position maps ---------- *)
Lemma enumerate_from_fst {A} (l : list A) i : map fst (enumerate_from i l) = N_seq i (length l).
Proof. revert i; induction l as [|x t IH]; intros i; simpl; [reflexivity|]. rewrite IH. reflexivity. Qed.
Lemma enumerate_from_snd {A} (l : list A) i : map snd (enumerate_from i l) = l.
Proof. revert i; induction l as [|x t IH]; intros i; simpl; [reflexivity|]. rewrite IH. reflexivity. Qed.
Lemma N_seq_in i n x : In x (N_seq i n) -> (i <= x)%N.
Proof. revert i; induction n as [|n IH]; intros i; simpl; [intros []|]. intros [<-|H]; [lia|]. apply IH in H. lia. Qed.
Lemma N_seq_NoDup i n : NoDup (N_seq i n).
Proof.
  revert i; induction n as [|n IH]; intros i; simpl; constructor; [|apply IH].
  intros H. apply N_seq_in in H. lia.
Qed.
Lemma position_map_fst l : map fst (position_map l) = l.
Proof. unfold position_map. rewrite map_map. simpl. apply enumerate_from_snd. Qed.
Lemma position_map_snd l : map snd (position_map l) = N_seq 0 (length l).
Proof. unfold position_map. rewrite map_map. simpl. apply enumerate_from_fst. Qed.

(* ---------- all_some ---------- *)
Lemma all_some_spec {A} (l : list (option A)) a : all_some l = Some a <-> l = map Some a.
Proof.
  revert a; induction l as [|[x|] t IH]; intros a; simpl.
  - split; [intros E; inversion E; reflexivity | destruct a; [reflexivity | discriminate]].
  - destruct (all_some t) as [r|] eqn:Er.
    + split.
      * intros E; inversion E; subst. simpl. f_equal. apply IH. reflexivity.
      * destruct a as [|y a']; [discriminate|]. simpl. intros E. injection E as Ex Et. subst y.
        apply IH in Et. inversion Et; reflexivity.
    + split; [discriminate|]. destruct a as [|y a']; [discriminate|]. simpl. intros E. injection E as Ex Et.
      apply IH in Et. discriminate.
  - split; [discriminate|]. destruct a; discriminate.
Qed.
Lemma all_some_none {A} (l : list (option A)) : all_some l = None <-> In None l.
Proof.
  induction l as [|[x|] t IH]; simpl.
  - split; [discriminate | intros []].
  - destruct (all_some t) as [r|].
    + split; [discriminate|]. intros [H|H]; [discriminate|]. apply IH in H. discriminate.
    + split; [intros _; right; apply IH; reflexivity | reflexivity].
  - split; [left; reflexivity | reflexivity].
Qed.
Lemma all_some_perm {A} (l l' : list (option A)) : Permutation l l' ->
  match all_some l, all_some l' with
  | Some a, Some b => Permutation a b
  | None, None => True
  | _, _ => False
  end.
Proof.
  intros HP. destruct (all_some l) as [a|] eqn:E.
  - apply all_some_spec in E. subst l. apply Permutation_sym in HP.
    destruct (Permutation_map_inv _ _ HP) as (b & Eb & Hb).
    assert (E' : all_some l' = Some b) by (apply all_some_spec; exact Eb). rewrite E'. exact Hb.
  - apply all_some_none in E. assert (E' : all_some l' = None) by (apply all_some_none; eapply Permutation_in; eassumption).
    rewrite E'. exact I.
Qed.

(* ---------- the formula depends on the multiset of symbols only ---------- *)
Lemma filter_perm {A} (f : A -> bool) l l' : Permutation l l' -> Permutation (filter f l) (filter f l').
Proof.
  induction 1 as [|x l l' HP IH|x y l|l l' l'' HP1 IH1 HP2 IH2]; simpl.
  - constructor.
  - destruct (f x); [constructor|]; exact IH.
  - destruct (f x), (f y); try reflexivity. constructor.
  - etransitivity; eassumption.
Qed.
Lemma existsb_perm {A} (f : A -> bool) l l' : Permutation l l' -> existsb f l = existsb f l'.
Proof.
  intros HP. destruct (existsb f l) eqn:E.
  - symmetry. apply existsb_exists in E. destruct E as (x & Hx & Hf). apply existsb_exists. exists x. split; [eapply Permutation_in; eassumption | exact Hf].
  - destruct (existsb f l') eqn:E'; [|reflexivity]. apply existsb_exists in E'. destruct E' as (x & Hx & Hf).
    assert (existsb f l = true) by (apply existsb_exists; exists x; split; [eapply Permutation_in; [apply Permutation_sym; eassumption | exact Hx] | exact Hf]).
    congruence.
Qed.
Lemma formula_tokens_perm syms syms' : Permutation syms syms' -> formula_tokens syms = formula_tokens syms'.
Proof.
  intros HP. unfold formula_tokens.
  assert (Hc : forall s, sym_tokens syms s = sym_tokens syms' s).
  { intros s. unfold sym_tokens, count_text. rewrite (Permutation_length (filter_perm (text_eqb s) _ _ HP)). reflexivity. }
  rewrite (existsb_perm _ _ _ HP), (existsb_perm (text_eqb (t "H"%string)) _ _ HP).
  rewrite (isort_perm_invariant _ text_leb text_leb_total text_leb_trans text_leb_antisym _ _ HP).
  rewrite !Hc. erewrite flat_map_ext; [|exact Hc]. erewrite (flat_map_ext (sym_tokens syms)); [|exact Hc]. reflexivity.
Qed.

Section SameTokens.
  Context {P B P' B' : Type}.
  Variable c : mol P B.
  Variable c' : mol P' B'.
  Hypothesis Hwf : wfg c.
  Hypothesis HV : SameView c c'.

  Lemma edge_tokens_view : edge_tokens c = edge_tokens c'.
  Proof.
    unfold edge_tokens. f_equal.
    apply (isort_perm_invariant _ pair_leb pair_leb_total pair_leb_trans pair_leb_antisym). apply HV.
  Qed.

  Definition av_leb (v w : N * (N * option Z * option Z) * N) : bool := N.leb (fst (fst v)) (fst (fst w)).
  Definition av_tokens (v : N * (N * option Z * option Z) * N) : list token :=
    let ps := (match snd (fst (snd (fst v))) with Some x => [[TMass; TEq; TNum x]] | None => [] end)
              ++ (match snd (snd (fst v)) with Some x => [[TRad; TEq; TNum x]] | None => [] end) in
    match ps with [] => [] | _ => [TLp; TNum (Z.of_N (fst (fst v)) + 1); TColon] ++ join_comma ps ++ [TRp] end.
  Lemma attr_tokens_as_view {Q C} (g : mol Q C) :
    attr_tokens g = flat_map av_tokens (isort av_leb (map aview (atoms g))).
  Proof.
    unfold attr_tokens. rewrite <- (isort_map aview (@atom_leb Q) av_leb); [|intros x y; reflexivity].
    rewrite flat_map_concat_map, (flat_map_concat_map av_tokens), map_map. f_equal. apply map_ext. intros x.
    unfold av_tokens, aview, prop_tokens, ident; simpl. destruct (mass x), (rad x); reflexivity.
  Qed.
  Lemma av_leb_total v w : av_leb v w = true \/ av_leb w v = true.
  Proof. unfold av_leb. rewrite !N.leb_le. lia. Qed.
  Lemma av_leb_trans u v w : av_leb u v = true -> av_leb v w = true -> av_leb u w = true.
  Proof. unfold av_leb. rewrite !N.leb_le. lia. Qed.
  Lemma attr_tokens_view : attr_tokens c = attr_tokens c'.
  Proof.
    rewrite !attr_tokens_as_view. f_equal.
    apply (isort_perm_invariant_on _ av_leb av_leb_total av_leb_trans); [|apply HV].
    intros v w Hv Hw H1 H2. unfold av_leb in H1, H2. apply N.leb_le in H1, H2.
    assert (E : fst (fst v) = fst (fst w)) by lia.
    rewrite in_map_iff in Hv, Hw. destruct Hv as (x & <- & Hx), Hw as (y & <- & Hy). simpl in E.
    assert (x = y); [|subst; reflexivity].
    destruct Hwf as [Hnd _].
    pose proof (find_atom_in (atoms c) x Hnd Hx) as Fx. pose proof (find_atom_in (atoms c) y Hnd Hy) as Fy.
    rewrite E in Fx. congruence.
  Qed.

  Lemma symbols_view :
    match all_some (map (fun x => symbol_of (zn x)) (atoms c)), all_some (map (fun x => symbol_of (zn x)) (atoms c')) with
    | Some a, Some b => Permutation a b
    | None, None => True
    | _, _ => False
    end.
  Proof.
    apply all_some_perm. destruct HV as [Ha _].
    apply (Permutation_map (fun v => symbol_of (fst (fst (snd (fst v)))))) in Ha. rewrite !map_map in Ha. exact Ha.
  Qed.

  Theorem tokens_of_view : tokens_of c = tokens_of c'.
  Proof.
    unfold tokens_of. pose proof symbols_view as HS.
    destruct (all_some (map (fun x => symbol_of (zn x)) (atoms c))) as [a|],
             (all_some (map (fun x => symbol_of (zn x)) (atoms c'))) as [b|]; try contradiction; [|reflexivity].
    rewrite (formula_tokens_perm a b HS), edge_tokens_view, attr_tokens_view. reflexivity.
  Qed.

  (* sort_molecule_by_attribute(m, ATOMIC_NUMBER) *)
  Lemma zpairs : Permutation (map (flv (fun x => x)) (map (lv_of (@zval P)) (atoms c))) (map (lv_of (@zval P')) (atoms c')).
  Proof.
    destruct HV as [Ha _].
    apply (Permutation_map (fun v => (fst (fst v), fst (fst (snd (fst v)))))) in Ha. rewrite !map_map in Ha.
    rewrite map_map. exact Ha.
  Qed.
  Lemma sorted_by_Z_view : sorted_by_Z c = sorted_by_Z c'.
  Proof.
    unfold sorted_by_Z. f_equal.
    apply (isort_perm_invariant _ kl_leb kl_leb_total kl_leb_trans kl_leb_antisym).
    pose proof (SameView_wfg c c' Hwf HV) as Hwf'.
    pose proof (SameView_SameMol c c' HV) as (Hi & _ & Hb).
    set (H' := fun lv : N * N => (keyL Ngeb (@zval P') c' lv, fst lv)).
    transitivity (map H' (map (flv (fun x => x)) (map (lv_of (@zval P)) (atoms c)))).
    - rewrite !map_map. apply Permutation_refl'. apply map_ext_in. intros x Hx. unfold H', zkey, flv, lv_of; simpl.
      change (zval x) with (zn x).
      pose proof (keyL_rel N Ngeb Ngeb_total Ngeb_trans Ngeb_antisym c c' (fun x => x) (@zval P) (@zval P') Hwf Hwf' Hi Hb zpairs
                   (lbl x) (zn x) (in_map (@lbl P) _ _ Hx)) as E.
      simpl in E. rewrite E. reflexivity.
    - rewrite (Permutation_map H' zpairs). rewrite map_map. apply Permutation_refl'. apply map_ext. intros x. reflexivity.
  Qed.
End SameTokens.

Lemma sort_by_Z_inj {P B} (m : mol P B) : wfg m -> inj_on (fun_of_map (position_map (sorted_by_Z m))) (labels m).
Proof.
  intros [Hnd _].
  assert (HP : Permutation (sorted_by_Z m) (labels m)).
  { unfold sorted_by_Z. rewrite <- (Permutation_map snd (isort_perm _ kl_leb _)). rewrite map_map. reflexivity. }
  apply fun_of_map_inj.
  - rewrite position_map_fst. eapply Permutation_NoDup; [apply Permutation_sym, HP | exact Hnd].
  - rewrite position_map_snd. apply N_seq_NoDup.
  - rewrite position_map_fst. exact HP.
Qed.

(* ---------- the serializer as a whole ---------- *)
Theorem serialize_tokens_view {P B P' B'} (c : mol P B) (c' : mol P' B') :
  wfg c -> SameView c c' -> serialize_tokens c = serialize_tokens c'.
Proof.
  intros Hwf HV. unfold serialize_tokens, assign_final_labels.
  rewrite <- (final_labels_view c c' Hwf HV).
  destruct (final_labels c) as [o|] eqn:Eo; [|reflexivity].
  destruct (final_labels_bijection c o Hwf Eo) as (Hk & Hv & Hnk & Hnv).
  pose proof (fun_of_map_inj o (labels c) Hnk Hnv Hk) as Hinj.
  set (g := fun_of_map o) in *.
  pose proof (relabel_wfg g c Hwf Hinj) as Hw1.
  pose proof (SameView_relabel g c c' HV) as HV1.
  unfold sort_by_Z. rewrite <- (sorted_by_Z_view (relabel g c) (relabel g c') Hw1 HV1).
  set (g2 := fun_of_map (position_map (sorted_by_Z (relabel g c)))).
  apply tokens_of_view.
  - apply relabel_wfg; [exact Hw1 | apply sort_by_Z_inj, Hw1].
  - apply SameView_relabel, HV1.
Qed.
Theorem serialize_view {P B P' B'} (c : mol P B) (c' : mol P' B') :
  wfg c -> SameView c c' -> serialize c = serialize c'.
Proof. intros Hwf HV. unfold serialize. rewrite (serialize_tokens_view c c' Hwf HV). reflexivity. Qed.
