(* MolProofs.v -- well-formed molecules, lookup, neighbours under relabelling/relisting. *)
From Coq Require Import List NArith ZArith Bool Lia Permutation.
Require Import Base Mol SortProofs.
Import ListNotations.

(* simple graph on the listed atoms: distinct labels, no self loops, endpoints exist *)
Definition wfg {P B} (m : mol P B) : Prop :=
  NoDup (labels m) /\
  forall b, In b (bonds m) -> fst (ends b) <> snd (ends b) /\ In (fst (ends b)) (labels m) /\ In (snd (ends b)) (labels m).

Definition fpair (f : N -> N) (e : N * N) : N * N := (f (fst e), f (snd e)).
Definition inj_on (f : N -> N) (l : list N) : Prop := forall x y, In x l -> In y l -> f x = f y -> x = y.

Section Lookup.
  Variable V : Type.
  Lemma lookup_in (l : list (N * V)) n v : NoDup (map fst l) -> In (n, v) l -> lookup l n = Some v.
  Proof.
    induction l as [|[k w] t IH]; simpl; intros Hnd Hin; [contradiction|].
    inversion Hnd as [|? ? Hnotin Hnd']; subst.
    destruct Hin as [E|Hin].
    - inversion E; subst. rewrite N.eqb_refl. reflexivity.
    - destruct (N.eqb_spec k n) as [->|_].
      + exfalso. apply Hnotin. apply (in_map fst) in Hin. exact Hin.
      + apply IH; assumption.
  Qed.
  Lemma lookup_none (l : list (N * V)) n : ~ In n (map fst l) -> lookup l n = None.
  Proof.
    induction l as [|[k w] t IH]; simpl; intros H; [reflexivity|].
    destruct (N.eqb_spec k n) as [->|_]; [exfalso; apply H; left; reflexivity|].
    apply IH. intros Hin. apply H. right. exact Hin.
  Qed.
  Lemma lookup_some_in (l : list (N * V)) n v : lookup l n = Some v -> In (n, v) l.
  Proof.
    induction l as [|[k w] t IH]; simpl; [discriminate|].
    destruct (N.eqb_spec k n) as [->|_]; [intros E; inversion E; left; reflexivity|].
    intros H; right; apply IH, H.
  Qed.
  Lemma lookup_perm (l l' : list (N * V)) n : NoDup (map fst l) -> Permutation l l' -> lookup l n = lookup l' n.
  Proof.
    intros Hnd HP.
    assert (Hnd' : NoDup (map fst l')) by (eapply Permutation_NoDup; [apply Permutation_map, HP | exact Hnd]).
    destruct (lookup l n) as [v|] eqn:E.
    - symmetry. apply lookup_in; [exact Hnd'|]. eapply Permutation_in; [exact HP|]. apply lookup_some_in, E.
    - destruct (lookup l' n) as [v|] eqn:E'; [|reflexivity].
      apply lookup_some_in in E'. apply (Permutation_in _ (Permutation_sym HP)) in E'.
      rewrite (lookup_in _ _ _ Hnd E') in E. discriminate.
  Qed.
  Lemma lookup_map_key (f : N -> N) (l : list (N * V)) n :
    inj_on f (map fst l) -> In n (map fst l) ->
    lookup (map (fun kv => (f (fst kv), snd kv)) l) (f n) = lookup l n.
  Proof.
    induction l as [|[k w] t IH]; simpl; intros Hinj Hn; [contradiction|].
    destruct (N.eqb_spec k n) as [->|Hkn].
    - rewrite N.eqb_refl. reflexivity.
    - destruct (N.eqb_spec (f k) (f n)) as [E|_].
      + apply Hinj in E; [congruence | left; reflexivity | exact Hn].
      + destruct Hn as [E|Hn]; [congruence|].
        destruct (in_dec N.eq_dec n (map fst t)) as [Hin|Hnot].
        * apply IH; [|exact Hin]. intros x y Hx Hy. apply Hinj; right; assumption.
        * contradiction.
  Qed.
End Lookup.

Lemma find_atom_lookup {P V} (val : atom P -> V) (l : list (atom P)) n :
  option_map val (find_atom l n) = lookup (map (fun x => (lbl x, val x)) l) n.
Proof.
  induction l as [|x t IH]; simpl; [reflexivity|].
  destruct (N.eqb (lbl x) n); [reflexivity | exact IH].
Qed.
Lemma find_atom_in {P} (l : list (atom P)) x : NoDup (map (@lbl P) l) -> In x l -> find_atom l (lbl x) = Some x.
Proof.
  induction l as [|y t IH]; simpl; intros Hnd Hin; [contradiction|].
  inversion Hnd as [|? ? Hnotin Hnd']; subst.
  destruct Hin as [->|Hin]; [rewrite N.eqb_refl; reflexivity|].
  destruct (N.eqb_spec (lbl y) (lbl x)) as [E|_]; [|apply IH; assumption].
  exfalso. apply Hnotin. rewrite E. apply in_map, Hin.
Qed.
Lemma find_atom_some {P} (l : list (atom P)) n x : find_atom l n = Some x -> In x l /\ lbl x = n.
Proof.
  induction l as [|y t IH]; simpl; [discriminate|].
  destruct (N.eqb_spec (lbl y) n) as [E|_].
  - intros H; inversion H; subst. split; [left; reflexivity | reflexivity].
  - intros H. destruct (IH H) as [Hin Hl]. split; [right; exact Hin | exact Hl].
Qed.

(* ---------- neighbour lists ---------- *)
Lemma nb1_flip a e : fst e <> snd e -> nb1 a (snd e, fst e) = nb1 a e.
Proof.
  destruct e as [u v]; unfold nb1; simpl; intros Hne.
  destruct (N.eqb_spec u a), (N.eqb_spec v a); subst; try reflexivity; try congruence.
Qed.
Lemma nb1_norm a e : fst e <> snd e -> nb1 a (norm_pair e) = nb1 a e.
Proof. intros H; unfold norm_pair; destruct (N.leb (fst e) (snd e)); [reflexivity | apply nb1_flip, H]. Qed.

Lemma nb1_map (f : N -> N) (S : N -> Prop) a e :
  (forall x y, S x -> S y -> f x = f y -> x = y) -> S a -> S (fst e) -> S (snd e) ->
  nb1 (f a) (f (fst e), f (snd e)) = map f (nb1 a e).
Proof.
  intros Hinj Ha Hu Hv. destruct e as [u v]; unfold nb1; simpl in *.
  destruct (N.eqb_spec u a) as [->|Hua].
  - rewrite N.eqb_refl. reflexivity.
  - destruct (N.eqb_spec (f u) (f a)) as [E|_]; [apply Hinj in E; congruence|].
    destruct (N.eqb_spec v a) as [->|Hva].
    + rewrite N.eqb_refl. reflexivity.
    + destruct (N.eqb_spec (f v) (f a)) as [E|_]; [apply Hinj in E; congruence|]. reflexivity.
Qed.

Lemma nbrs_as_norm {Q C} (g : mol Q C) a : wfg g ->
  nbrs g a = flat_map (nb1 a) (map (fun b => norm_pair (ends b)) (bonds g)).
Proof.
  intros [_ Hb]. unfold nbrs. rewrite flat_map_concat_map, flat_map_concat_map, map_map.
  f_equal. apply map_ext_in. intros b Hin. symmetry. apply nb1_norm. apply Hb, Hin.
Qed.
Lemma nbrs_in_labels {P B} (m : mol P B) a n : wfg m -> In n (nbrs m a) -> In n (labels m).
Proof.
  intros [_ Hw]. unfold nbrs. rewrite in_flat_map. intros (b & Hb & Hn).
  destruct (Hw b Hb) as (_ & Hu & Hv). unfold nb1 in Hn.
  destruct (N.eqb (fst (ends b)) a); [destruct Hn as [<-|[]]; exact Hv|].
  destruct (N.eqb (snd (ends b)) a); [destruct Hn as [<-|[]]; exact Hu| destruct Hn].
Qed.

Section TwoMols.
  Context {P B P' B' : Type}.
  Variable m : mol P B.
  Variable m' : mol P' B'.
  Variable f : N -> N.
  Hypothesis Hwf : wfg m.
  Hypothesis Hwf' : wfg m'.
  Hypothesis Hinj : inj_on f (labels m).
  Hypothesis Hbonds : Permutation (map (fun b => norm_pair (fpair f (ends b))) (bonds m))
                                  (map (fun b => norm_pair (ends b)) (bonds m')).

  (* the neighbours of f a in the other description are the images of the neighbours of a *)
  Lemma nbrs_relabel a : In a (labels m) -> Permutation (nbrs m' (f a)) (map f (nbrs m a)).
  Proof.
    intros Ha. rewrite (nbrs_as_norm m' (f a) Hwf').
    rewrite <- (Permutation_flat_map (nb1 (f a)) Hbonds).
    unfold nbrs. rewrite !flat_map_concat_map, concat_map, !map_map.
    apply Permutation_refl'. f_equal. apply map_ext_in. intros b Hin.
    destruct Hwf as [_ Hb]. destruct (Hb b Hin) as (Hne & Hu & Hv).
    rewrite nb1_norm.
    - unfold fpair. apply (nb1_map f (fun x => In x (labels m))); auto.
    - unfold fpair; simpl. intros E. apply Hinj in E; auto.
  Qed.
End TwoMols.
