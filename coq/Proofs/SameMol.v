(* SameMol.v -- "another description of the same molecule" and the label independence of the
   partition classes for two such descriptions. *)
From Coq Require Import List NArith ZArith Bool Lia Permutation.
Require Import Base Mol Partition SortProofs MolProofs PartitionProofs.
Import ListNotations.

(* identity data of an atom: element, isotope mass, radical *)
Definition ident {P} (x : atom P) : N * option Z * option Z := (zn x, mass x, rad x).

(* m' describes the same molecule as m: atoms renamed by an injective f, listed in any order,
   carrying any payload; bonds listed in any order, written in either direction, any bond data *)
Definition SameMol {P B P' B'} (f : N -> N) (m : mol P B) (m' : mol P' B') : Prop :=
  inj_on f (labels m) /\
  Permutation (map (fun x => (f (lbl x), ident x)) (atoms m)) (map (fun x => (lbl x, ident x)) (atoms m')) /\
  Permutation (map (fun b => norm_pair (fpair f (ends b))) (bonds m)) (map (fun b => norm_pair (ends b)) (bonds m')).

Lemma NoDup_map_inj_on (f : N -> N) l : inj_on f l -> NoDup l -> NoDup (map f l).
Proof.
  induction l as [|x t IH]; intros Hinj Hnd; simpl; [constructor|].
  inversion Hnd as [|? ? Hnotin Hnd']; subst. constructor.
  - rewrite in_map_iff. intros (y & Hy & Hin). apply Hnotin.
    assert (y = x) by (apply Hinj; [right; exact Hin | left; reflexivity | exact Hy]). subst; exact Hin.
  - apply IH; [|exact Hnd']. intros a b Ha Hb. apply Hinj; right; assumption.
Qed.

Lemma norm_pair_cases e e' : norm_pair e = norm_pair e' -> e' = e \/ e' = (snd e, fst e).
Proof.
  destruct e as [a b], e' as [c d]; unfold norm_pair; simpl.
  destruct (N.leb a b), (N.leb c d); intros H; inversion H; subst; auto.
Qed.

Section Same.
  Context {P B P' B' : Type}.
  Variable f : N -> N.
  Variable m : mol P B.
  Variable m' : mol P' B'.
  Hypothesis Hwf : wfg m.
  Hypothesis HS : SameMol f m m'.

  Lemma SameMol_labels : Permutation (map f (labels m)) (labels m').
  Proof.
    destruct HS as (_ & Ha & _). apply (Permutation_map fst) in Ha.
    rewrite !map_map in Ha. simpl in Ha. unfold labels. rewrite map_map. exact Ha.
  Qed.

  Lemma SameMol_wfg : wfg m'.
  Proof.
    destruct HS as (Hi & Ha & Hb). destruct Hwf as [Hnd Hbd]. split.
    - eapply Permutation_NoDup; [apply SameMol_labels|]. apply NoDup_map_inj_on; assumption.
    - intros b' Hb'.
      assert (Hin : In (norm_pair (ends b')) (map (fun b => norm_pair (fpair f (ends b))) (bonds m))).
      { eapply Permutation_in; [apply Permutation_sym, Hb|]. apply (in_map (fun b => norm_pair (ends b))), Hb'. }
      rewrite in_map_iff in Hin. destruct Hin as (b & Heq & Hbin).
      destruct (Hbd b Hbin) as (Hne & Hu & Hv).
      assert (Hfu : In (f (fst (ends b))) (labels m')) by (eapply Permutation_in; [apply SameMol_labels | apply in_map, Hu]).
      assert (Hfv : In (f (snd (ends b))) (labels m')) by (eapply Permutation_in; [apply SameMol_labels | apply in_map, Hv]).
      assert (Hfne : f (fst (ends b)) <> f (snd (ends b))) by (intros E; apply Hne, Hi; assumption).
      destruct (norm_pair_cases _ _ Heq) as [E|E]; rewrite E; unfold fpair; simpl; auto.
  Qed.

  Lemma SameMol_length : length (atoms m') = length (atoms m).
  Proof.
    destruct HS as (_ & Ha & _). apply Permutation_length in Ha. rewrite !map_length in Ha. congruence.
  Qed.

  (* corresponding atoms carry the same identity data *)
  Lemma SameMol_ident x x' : In x (atoms m) -> In x' (atoms m') -> lbl x' = f (lbl x) -> ident x' = ident x.
  Proof.
    intros Hx Hx' Hl. destruct HS as (Hi & Ha & _).
    assert (Hnd' : NoDup (map fst (map (fun x => (lbl x, ident x)) (atoms m')))).
    { rewrite map_map. simpl. apply SameMol_wfg. }
    assert (H1 : lookup (map (fun x => (lbl x, ident x)) (atoms m')) (lbl x') = Some (ident x')).
    { apply lookup_in; [exact Hnd'|]. apply (in_map (fun x => (lbl x, ident x))) in Hx'. exact Hx'. }
    assert (H2 : lookup (map (fun x => (lbl x, ident x)) (atoms m')) (lbl x') = Some (ident x)).
    { apply lookup_in; [exact Hnd'|]. eapply Permutation_in; [exact Ha|]. rewrite Hl.
      apply (in_map (fun x => (f (lbl x), ident x))) in Hx. exact Hx. }
    congruence.
  Qed.

  (* every atom of the second description is the image of one of the first *)
  Lemma SameMol_preimage x' : In x' (atoms m') -> exists x, In x (atoms m) /\ lbl x' = f (lbl x).
  Proof.
    intros Hx'. destruct HS as (_ & Ha & _).
    assert (Hin : In (lbl x', ident x') (map (fun x => (f (lbl x), ident x)) (atoms m))).
    { eapply Permutation_in; [apply Permutation_sym, Ha|]. apply (in_map (fun x => (lbl x, ident x))) in Hx'. exact Hx'. }
    rewrite in_map_iff in Hin. destruct Hin as (x & E & Hx). exists x. split; [exact Hx|]. inversion E; reflexivity.
  Qed.
  Lemma SameMol_image x : In x (atoms m) -> exists x', In x' (atoms m') /\ lbl x' = f (lbl x).
  Proof.
    intros Hx. destruct HS as (_ & Ha & _).
    assert (Hin : In (f (lbl x), ident x) (map (fun x => (lbl x, ident x)) (atoms m'))).
    { eapply Permutation_in; [exact Ha|]. apply (in_map (fun x => (f (lbl x), ident x))) in Hx. exact Hx. }
    rewrite in_map_iff in Hin. destruct Hin as (x' & E & Hx'). exists x'. split; [exact Hx'|]. inversion E; reflexivity.
  Qed.

  Definition inv_of (i : N * option Z * option Z) : list Z :=
    [Z.of_N (fst (fst i)); opt_default 0%Z (snd (fst i)); opt_default 0%Z (snd i)].
  Lemma inv_code_ident {Q} (x : atom Q) : inv_code x = inv_of (ident x).
  Proof. reflexivity. Qed.

  Lemma inv_leb_total x y : inv_leb x y = true \/ inv_leb y x = true.
  Proof. apply lex_total, Zleb_total. Qed.
  Lemma inv_leb_trans x y z : inv_leb x y = true -> inv_leb y z = true -> inv_leb x z = true.
  Proof. apply lex_trans, Zleb_trans. Qed.
  Lemma inv_leb_antisym x y : inv_leb x y = true -> inv_leb y x = true -> x = y.
  Proof. apply lex_antisym, Zleb_antisym. Qed.
  Lemma inv_geb_total x y : inv_geb x y = true \/ inv_geb y x = true.
  Proof. unfold inv_geb. destruct (inv_leb_total x y); auto. Qed.
  Lemma inv_geb_trans x y z : inv_geb x y = true -> inv_geb y z = true -> inv_geb x z = true.
  Proof. unfold inv_geb. intros H1 H2. eapply inv_leb_trans; eassumption. Qed.
  Lemma inv_geb_antisym x y : inv_geb x y = true -> inv_geb y x = true -> x = y.
  Proof. unfold inv_geb. intros H1 H2. apply inv_leb_antisym; assumption. Qed.

  (* after the first round (by invariant code) the two descriptions are related as the later rounds need *)
  Lemma SameMol_first_round : RelPart f (partition_by_inv m) (partition_by_inv m').
  Proof.
    pose proof SameMol_wfg as Hwf'. destruct HS as (Hi & Ha & Hb).
    assert (Hatoms : Permutation (map (flv f) (map (lv_of (@inv_code P)) (atoms m))) (map (lv_of (@inv_code P')) (atoms m'))).
    { apply (Permutation_map (fun p => (fst p, inv_of (snd p)))) in Ha. rewrite !map_map in Ha. simpl in Ha.
      rewrite map_map. exact Ha. }
    unfold partition_by_inv. split; [|split; [|split; [|split]]].
    - apply partition_by_wfg, Hwf.
    - apply partition_by_wfg, Hwf'.
    - rewrite partition_by_labels. exact Hi.
    - exact Hb.
    - apply (round_atoms_rel (list Z) inv_leb inv_geb inv_leb_total inv_leb_trans inv_leb_antisym
               inv_geb_total inv_geb_trans inv_geb_antisym m m' f (@inv_code P) (@inv_code P') Hwf Hwf' Hi Hb Hatoms).
  Qed.

  (* C13, first part: the refined classes of the two descriptions are related; in particular both
     computations succeed or fail together *)
  Theorem classes_rel :
    match classes m, classes m' with
    | Some r, Some r' => RelPart f r r'
    | None, None => True
    | _, _ => False
    end.
  Proof.
    unfold classes, refine_fuel. rewrite SameMol_length.
    apply RelPart_refine, SameMol_first_round.
  Qed.

  Theorem classes_label_independent :
    match classes m, classes m' with
    | Some r, Some r' => forall x x', In x (atoms r) -> In x' (atoms r') -> lbl x' = f (lbl x) -> part x' = part x
    | None, None => True
    | _, _ => False
    end.
  Proof.
    pose proof classes_rel as H.
    destruct (classes m) as [r|], (classes m') as [r'|]; try exact H.
    apply RelPart_class, H.
  Qed.
End Same.

(* symmetry-equivalent atoms share a class: an automorphism is a SameMol of m with itself *)
Theorem classes_respect_automorphisms {P B} (m : mol P B) (f : N -> N) r :
  wfg m -> SameMol f m m -> classes m = Some r ->
  forall x x', In x (atoms r) -> In x' (atoms r) -> lbl x' = f (lbl x) -> part x' = part x.
Proof.
  intros Hwf HS Hr. pose proof (classes_label_independent f m m Hwf HS) as H.
  rewrite Hr in H. exact H.
Qed.
