(* LexPrint.v -- the reference lexer reads back exactly the token list that the serializer prints.

   ParseProofs.lex_text_print is the direction "the tokens spell the input".  This file proves the
   converse on the image of the printer: for a token list `ts` that satisfies the decidable adjacency
   condition `lexable`, `lex_text (print_tokens ts) = Some ts`; the condition is also necessary
   (`lex_print_roundtrip_iff`); and every token list emitted by `tokens_of` satisfies it. *)
From Coq Require Import String.
From Coq Require Import List NArith ZArith Bool Ascii Lia.
From Coq Require Import Sorting.Permutation.
From Coq Require Import DecimalString DecimalPos DecimalFacts.
Require Import Base Mol Text Token Serialize Parse ParseProofs AstOf.
Import ListNotations.

(* ====================================================================== *)
(* 1.  The adjacency condition                                              *)
(* ====================================================================== *)

(* a token that the printer spells with at least one character and that the lexer can produce *)
Definition tok_valid (k : token) : bool :=
  match k with
  | TNum z => Z.leb 1 z
  | TSym z => match symbol_of z with Some _ => true | None => false end
  | _ => true
  end.

(* the symbol of z is one letter c, and c followed by the character c2 spells another element *)
Definition fuses (z : N) (c2 : ascii) : bool :=
  match symbol_of z with
  | Some [c] => match z_of_symbol [c; c2] with Some _ => true | None => false end
  | _ => false
  end.

(* may `k` be printed immediately before `next` (None: end of input)? *)
Definition adj_ok (k : token) (next : option token) : bool :=
  tok_valid k &&
  match k, next with
  | TNum _, Some (TNum _) => false                         (* the digits would fuse *)
  | TSym z, Some TMass => negb (fuses z "m")               (* "C" "mass" would be read as "Cm" "ass" *)
  | TSym z, Some TRad => negb (fuses z "r")                (* "C" "rad" would be read as "Cr" "ad" *)
  | _, _ => true
  end.

Fixpoint lexable (ts : list token) : bool :=
  match ts with
  | [] => true
  | k :: r => adj_ok k (hd_error r) && lexable r
  end.

(* ====================================================================== *)
(* 2.  Characters                                                           *)
(* ====================================================================== *)

Lemma upper_not_digit : forall c, is_upper c = true -> is_digit c = false.
Proof.
  intros c H. unfold is_upper in H. unfold is_digit.
  apply andb_true_iff in H. destruct H as [H1 H2]. apply N.leb_le in H1.
  apply andb_false_iff. right. apply N.leb_gt. lia.
Qed.
Lemma upper_not_lower : forall c, is_upper c = true -> is_lower c = false.
Proof.
  intros c H. unfold is_upper in H. unfold is_lower.
  apply andb_true_iff in H. destruct H as [H1 H2]. apply N.leb_le in H2.
  apply andb_false_iff. left. apply N.leb_gt. lia.
Qed.
Lemma digit_not_lower : forall c, is_digit c = true -> is_lower c = false.
Proof.
  intros c H. unfold is_digit in H. unfold is_lower.
  apply andb_true_iff in H. destruct H as [H1 H2]. apply N.leb_le in H2.
  apply andb_false_iff. left. apply N.leb_gt. lia.
Qed.
Lemma digit_not_upper : forall c, is_digit c = true -> is_upper c = false.
Proof.
  intros c H. destruct (is_upper c) eqn:E; [|reflexivity].
  rewrite (upper_not_digit _ E) in H. discriminate.
Qed.

(* ====================================================================== *)
(* 3.  Decimal numerals: str(z) for z >= 1                                  *)
(* ====================================================================== *)

Lemma uint_string_digits : forall u,
  forallb is_digit (t (NilEmpty.string_of_uint u)) = true /\
  uint_of_digits (t (NilEmpty.string_of_uint u)) = u.
Proof.
  induction u as [|u [IH1 IH2]|u [IH1 IH2]|u [IH1 IH2]|u [IH1 IH2]|u [IH1 IH2]|u [IH1 IH2]
                  |u [IH1 IH2]|u [IH1 IH2]|u [IH1 IH2]|u [IH1 IH2]];
    [split; reflexivity|..];
    unfold t in *; cbn [NilEmpty.string_of_uint list_ascii_of_string forallb uint_of_digits];
    rewrite IH1, IH2; split; reflexivity.
Qed.

Lemma pos_to_uint_head : forall p d', Pos.to_uint p <> Decimal.D0 d'.
Proof.
  intros p d' E.
  pose proof (DecimalPos.Unsigned.to_of (Pos.to_uint p)) as Hn.
  rewrite DecimalPos.Unsigned.of_to in Hn. cbn [N.to_uint] in Hn.
  assert (Hnz : Decimal.nzhead (Pos.to_uint p) <> Decimal.Nil).
  { intros Hz. apply DecimalFacts.unorm_0 in Hz. rewrite <- Hn in Hz.
    exact (DecimalPos.Unsigned.to_uint_nonzero p Hz). }
  rewrite (DecimalFacts.unorm_nzhead _ Hnz) in Hn.
  apply (DecimalFacts.nzhead_nonzero (Pos.to_uint p) d'). rewrite <- Hn. exact E.
Qed.

(* str(z), z >= 1: a non-empty digit string without leading zero whose value is z *)
Lemma text_of_Z_pos : forall z, (1 <= z)%Z ->
  exists c d, text_of_Z z = c :: d /\ is_digit c = true /\ N.eqb (N_of_ascii c) 48 = false /\
              forallb is_digit d = true /\ Z.of_N (digits_val 0 (c :: d)) = z.
Proof.
  intros z Hz. destruct z as [|p|p]; [lia| |lia].
  unfold text_of_Z. cbn [Z.to_int NilZero.string_of_int].
  pose proof (pos_to_uint_head p) as Hhd.
  pose proof (DecimalPos.Unsigned.to_uint_nonnil p) as Hnil.
  pose proof (DecimalPos.Unsigned.of_to p) as Hval.
  destruct (uint_string_digits (Pos.to_uint p)) as [Hdig Hback].
  replace (NilZero.string_of_uint (Pos.to_uint p)) with (NilEmpty.string_of_uint (Pos.to_uint p))
    by (destruct (Pos.to_uint p); [contradiction|reflexivity..]).
  set (l := t (NilEmpty.string_of_uint (Pos.to_uint p))) in *.
  assert (Hl : exists c d, l = c :: d /\ N.eqb (N_of_ascii c) 48 = false).
  { subst l. destruct (Pos.to_uint p) as [|u|u|u|u|u|u|u|u|u|u];
      [contradiction|exfalso; exact (Hhd u eq_refl)|..];
      unfold t; cbn [NilEmpty.string_of_uint list_ascii_of_string]; eexists; eexists; split; reflexivity. }
  destruct Hl as (c & d & El & Hc0). exists c, d. rewrite El in *.
  cbn [forallb] in Hdig. apply andb_true_iff in Hdig. destruct Hdig as [Hc Hd].
  repeat split; try assumption.
  destruct (uint_of_digits_value c d Hc Hc0 Hd) as (Ev & _ & _).
  rewrite <- Ev, Hback. unfold N.of_uint. rewrite Hval. reflexivity.
Qed.

Lemma span_digits_app : forall d rest,
  forallb is_digit d = true ->
  match rest with c :: _ => is_digit c = false | [] => True end ->
  span_digits (d ++ rest) = (d, rest).
Proof.
  induction d as [|c d IH]; intros rest Hd Hr.
  - destruct rest as [|c r]; [reflexivity|]. cbn [app span_digits]. rewrite Hr. reflexivity.
  - cbn [forallb] in Hd. apply andb_true_iff in Hd. destruct Hd as [Hc Hd].
    cbn [app span_digits]. rewrite Hc, (IH rest Hd Hr). reflexivity.
Qed.

(* ====================================================================== *)
(* 4.  Element symbols: one upper-case letter, optionally one lower-case    *)
(* ====================================================================== *)

Definition sym_shape (s : text) : bool :=
  match s with
  | [c] => is_upper c
  | [c; c2] => is_upper c && is_lower c2
  | _ => false
  end.
Definition entry_ok (p : text * N) : bool :=
  sym_shape (fst p) && match z_of_symbol (fst p) with Some z => N.eqb z (snd p) | None => false end.

Lemma elem_table_ok : forallb entry_ok elem_table = true.
Proof. vm_compute. reflexivity. Qed.

Lemma symbol_of_in_In : forall (l : list (text * N)) z s, symbol_of_in l z = Some s -> In (s, z) l.
Proof.
  induction l as [|[k v] r IH]; intros z s H; cbn [symbol_of_in] in H; [discriminate|].
  destruct (N.eqb v z) eqn:E.
  - apply N.eqb_eq in E. inversion H; subst. left; reflexivity.
  - right. apply IH. exact H.
Qed.

Lemma symbol_of_spec : forall z s, symbol_of z = Some s -> sym_shape s = true /\ z_of_symbol s = Some z.
Proof.
  intros z s H. apply symbol_of_in_In in H.
  pose proof (proj1 (forallb_forall entry_ok elem_table) elem_table_ok _ H) as Hok.
  unfold entry_ok in Hok. cbn [fst snd] in Hok. apply andb_true_iff in Hok. destruct Hok as [Hs Hz].
  split; [exact Hs|]. destruct (z_of_symbol s) as [z'|]; [|discriminate].
  apply N.eqb_eq in Hz. subst. reflexivity.
Qed.

(* ====================================================================== *)
(* 5.  One lexer step on a printed token                                    *)
(* ====================================================================== *)

(* character-level condition: may `k` be printed immediately before the character oc? *)
Definition char_ok (k : token) (oc : option ascii) : bool :=
  match k with
  | TNum z => Z.leb 1 z && match oc with Some c => negb (is_digit c) | None => true end
  | TSym z => match symbol_of z with
              | Some [c] => match oc with
                            | Some c2 => negb (is_lower c2) ||
                                         match z_of_symbol [c; c2] with Some _ => false | None => true end
                            | None => true
                            end
              | Some _ => true
              | None => false
              end
  | _ => true
  end.

Lemma lex1_print_token : forall k rest,
  char_ok k (hd_error rest) = true -> lex1 (print_token k ++ rest) = Some (k, rest).
Proof.
  intros k rest H. destruct k as [z|z| | | | | | | | | ]; try reflexivity.
  - (* TSym *)
    cbn [char_ok] in H. cbn [print_token].
    destruct (symbol_of z) as [s|] eqn:Es; [|discriminate].
    destruct (symbol_of_spec _ _ Es) as [Hshape Hz].
    cbn [opt_default].
    destruct s as [|c [|c2 [|c3 s]]]; cbn [sym_shape] in Hshape; try discriminate.
    + (* one letter *)
      cbn [app]. unfold lex1. rewrite (upper_not_digit _ Hshape), Hshape.
      destruct rest as [|c2 r2]; [rewrite Hz; reflexivity|].
      cbn [hd_error] in H.
      destruct (is_lower c2); [|rewrite Hz; reflexivity].
      cbn [negb orb] in H.
      destruct (z_of_symbol [c; c2]); [discriminate|]. rewrite Hz. reflexivity.
    + (* two letters *)
      apply andb_true_iff in Hshape. destruct Hshape as [Hu Hl].
      cbn [app]. unfold lex1. rewrite (upper_not_digit _ Hu), Hu, Hl, Hz. reflexivity.
  - (* TNum *)
    cbn [char_ok] in H. apply andb_true_iff in H. destruct H as [Hz Hnext].
    apply Z.leb_le in Hz.
    destruct (text_of_Z_pos z Hz) as (c & d & Et & Hc & Hc0 & Hd & Hv).
    cbn [print_token]. rewrite Et. cbn [app]. unfold lex1. rewrite Hc, Hc0.
    rewrite span_digits_app.
    + rewrite Hv. reflexivity.
    + exact Hd.
    + destruct rest as [|c2 r2]; [exact I|]. cbn [hd_error] in Hnext.
      destruct (is_digit c2); [discriminate|reflexivity].
Qed.

(* ====================================================================== *)
(* 6.  From adjacent tokens to adjacent characters                          *)
(* ====================================================================== *)

(* the first character of the spelling of a valid token *)
Lemma print_token_head : forall k, tok_valid k = true ->
  exists c r, print_token k = c :: r /\
    match k with
    | TNum _ => is_digit c = true
    | TSym _ => is_upper c = true
    | TMass => c = "m"%char
    | TRad => c = "r"%char
    | _ => is_digit c = false /\ is_lower c = false
    end.
Proof.
  intros k Hk. destruct k as [z|z| | | | | | | | | ];
    try (eexists; eexists; split; [reflexivity|]; try split; reflexivity).
  - cbn [tok_valid] in Hk. cbn [print_token].
    destruct (symbol_of z) as [s|] eqn:Es; [|discriminate].
    destruct (symbol_of_spec _ _ Es) as [Hshape _]. cbn [opt_default].
    destruct s as [|c [|c2 [|c3 s]]]; cbn [sym_shape] in Hshape; try discriminate.
    + exists c, []. split; [reflexivity|exact Hshape].
    + apply andb_true_iff in Hshape. exists c, [c2]. split; [reflexivity|tauto].
  - cbn [tok_valid] in Hk. apply Z.leb_le in Hk.
    destruct (text_of_Z_pos z Hk) as (c & d & Et & Hc & _).
    exists c, d. split; [exact Et|exact Hc].
Qed.

Lemma print_token_nonempty : forall k, tok_valid k = true -> (1 <= length (print_token k))%nat.
Proof.
  intros k Hk. destruct (print_token_head k Hk) as (c & r & E & _). rewrite E. cbn [length]. lia.
Qed.

Lemma adj_ok_valid : forall k next, adj_ok k next = true -> tok_valid k = true.
Proof. intros k next H. unfold adj_ok in H. apply andb_true_iff in H. tauto. Qed.

Lemma lexable_hd_valid : forall k r, lexable (k :: r) = true -> tok_valid k = true.
Proof.
  intros k r H. cbn [lexable] in H. apply andb_true_iff in H. destruct H as [H _].
  exact (adj_ok_valid _ _ H).
Qed.

Lemma adj_char_ok : forall k r,
  adj_ok k (hd_error r) = true -> lexable r = true -> char_ok k (hd_error (print_tokens r)) = true.
Proof.
  intros k r Hadj Hr. unfold adj_ok in Hadj. apply andb_true_iff in Hadj. destruct Hadj as [Hk Hadj].
  destruct r as [|k' r'].
  - (* end of input *)
    cbn [print_tokens flat_map hd_error]. destruct k as [z|z| | | | | | | | | ]; try reflexivity.
    + cbn [tok_valid] in Hk. cbn [char_ok].
      destruct (symbol_of z) as [[|c [|c2 s]]|]; [reflexivity..|discriminate].
    + cbn [tok_valid] in Hk. cbn [char_ok]. rewrite Hk. reflexivity.
  - pose proof (lexable_hd_valid _ _ Hr) as Hk'.
    destruct (print_token_head k' Hk') as (c & r0 & E & Hc).
    unfold print_tokens. cbn [flat_map]. rewrite E. cbn [app hd_error].
    cbn [hd_error] in Hadj.
    destruct k as [z|z| | | | | | | | | ]; try reflexivity.
    + (* TSym z before k' *)
      cbn [tok_valid] in Hk. cbn [char_ok]. unfold fuses in Hadj.
      destruct (symbol_of z) as [[|c1 [|c2 s]]|]; [reflexivity| |reflexivity|discriminate].
      destruct k' as [z'|z'| | | | | | | | | ];
        try (match type of Hc with _ /\ _ => destruct Hc as [_ Hc] end; rewrite Hc; reflexivity).
      * rewrite (upper_not_lower _ Hc). reflexivity.
      * rewrite (digit_not_lower _ Hc). reflexivity.
      * subst c. destruct (z_of_symbol [c1; "m"%char]); [discriminate|]. apply orb_true_r.
      * subst c. destruct (z_of_symbol [c1; "r"%char]); [discriminate|]. apply orb_true_r.
    + (* TNum z before k' *)
      cbn [tok_valid] in Hk. cbn [char_ok]. rewrite Hk. cbn [andb].
      destruct k' as [z'|z'| | | | | | | | | ];
        try (match type of Hc with _ /\ _ => destruct Hc as [Hc _] end; rewrite Hc; reflexivity).
      * rewrite (upper_not_digit _ Hc). reflexivity.
      * discriminate.
      * subst c. reflexivity.
      * subst c. reflexivity.
Qed.

(* ====================================================================== *)
(* 7.  The round trip                                                        *)
(* ====================================================================== *)

Lemma lex_fuel_nil : forall fuel, lex_fuel fuel [] = Some [].
Proof. destruct fuel; reflexivity. Qed.

Lemma lex_fuel_print_tokens : forall ts fuel,
  lexable ts = true -> (length (print_tokens ts) <= fuel)%nat ->
  lex_fuel fuel (print_tokens ts) = Some ts.
Proof.
  induction ts as [|k r IH]; intros fuel Hl Hf.
  - apply lex_fuel_nil.
  - pose proof Hl as Hl0. cbn [lexable] in Hl. apply andb_true_iff in Hl. destruct Hl as [Hadj Hr].
    pose proof (print_token_nonempty k (adj_ok_valid _ _ Hadj)) as Hne.
    pose proof (lex1_print_token k (print_tokens r) (adj_char_ok k r Hadj Hr)) as H1.
    unfold print_tokens in *. cbn [flat_map] in *. rewrite app_length in Hf.
    destruct fuel as [|f]; [lia|].
    destruct (print_token k ++ flat_map print_token r) as [|c l] eqn:E.
    + apply (f_equal (@length ascii)) in E. rewrite app_length in E. cbn [length] in E. lia.
    + cbn [lex_fuel]. rewrite H1. rewrite (IH f Hr) by lia. reflexivity.
Qed.

Theorem lex_print_roundtrip : forall ts, lexable ts = true -> lex_text (print_tokens ts) = Some ts.
Proof. intros ts H. unfold lex_text. apply lex_fuel_print_tokens; [exact H|apply le_n]. Qed.

(* ====================================================================== *)
(* 8.  What tokens_of emits is lexable                                       *)
(* ====================================================================== *)

(* a list that may follow any valid token: it does not start with a numeral, `mass` or `rad` *)
Definition neutral_hd (l : list token) : bool :=
  match l with TNum _ :: _ | TMass :: _ | TRad :: _ => false | _ => true end.
Definition nice (l : list token) : Prop := lexable l = true /\ neutral_hd l = true.

Lemma adj_ok_neutral : forall k l,
  adj_ok k None = true -> neutral_hd l = true -> adj_ok k (hd_error l) = true.
Proof.
  intros k l Hk Hl. destruct l as [|k' l']; [exact Hk|].
  unfold adj_ok in *. apply andb_true_iff in Hk. destruct Hk as [Hk _]. rewrite Hk.
  destruct k, k'; cbn [neutral_hd] in Hl; try discriminate; reflexivity.
Qed.

Lemma lexable_app : forall a b,
  lexable a = true -> lexable b = true -> neutral_hd b = true -> lexable (a ++ b) = true.
Proof.
  induction a as [|k r IH]; intros b Ha Hb Hn; [exact Hb|].
  cbn [lexable] in Ha. apply andb_true_iff in Ha. destruct Ha as [Hk Hr].
  cbn [app lexable]. rewrite (IH b Hr Hb Hn), andb_true_r.
  destruct r as [|k' r']; [|exact Hk].
  cbn [app]. apply adj_ok_neutral; assumption.
Qed.

Lemma nice_nil : nice [].
Proof. split; reflexivity. Qed.
Lemma nice_app : forall a b, nice a -> nice b -> nice (a ++ b).
Proof.
  intros a b [Ha Hna] [Hb Hnb]. split; [apply lexable_app; assumption|].
  destruct a as [|k r]; [exact Hnb|exact Hna].
Qed.
Lemma nice_flat_map : forall A (f : A -> list token) l,
  (forall x, In x l -> nice (f x)) -> nice (flat_map f l).
Proof.
  induction l as [|x r IH]; intros H; [exact nice_nil|].
  cbn [flat_map]. apply nice_app; [apply H; left; reflexivity|].
  apply IH. intros y Hy. apply H. right; exact Hy.
Qed.

Lemma leb_1_succ : forall a : N, Z.leb 1 (Z.of_N a + 1) = true.
Proof. intros a. apply Z.leb_le. lia. Qed.

(* formula items: `Sym` or `Sym count`, for any list of symbols whatsoever *)
Lemma nice_sym_tokens : forall syms s, nice (sym_tokens syms s).
Proof.
  intros syms s. unfold sym_tokens. destruct (z_of_symbol s) as [z|] eqn:Ez; [|exact nice_nil].
  pose proof (z_of_symbol_symbol_of _ Ez) as Es.
  unfold formula_item. destruct (N.ltb 1 (count_text s syms)) eqn:Ec.
  - apply N.ltb_lt in Ec.
    assert (Hc : Z.leb 1 (Z.of_N (count_text s syms)) = true) by (apply Z.leb_le; lia).
    split; [|reflexivity].
    cbn [lexable hd_error]. unfold adj_ok. cbn [tok_valid]. rewrite Es, Hc. reflexivity.
  - split; [|reflexivity].
    cbn [lexable hd_error]. unfold adj_ok. cbn [tok_valid]. rewrite Es. reflexivity.
Qed.

Lemma nice_formula_tokens : forall syms, nice (formula_tokens syms).
Proof.
  intros syms. unfold formula_tokens. cbv zeta.
  destruct (existsb (text_eqb (t "C")) syms).
  - apply nice_app; [apply nice_sym_tokens|]. apply nice_app.
    + destruct (existsb (text_eqb (t "H")) syms); [apply nice_sym_tokens|exact nice_nil].
    + apply nice_flat_map. intros; apply nice_sym_tokens.
  - apply nice_flat_map. intros; apply nice_sym_tokens.
Qed.

Lemma nice_edge_tokens {P B} (m : mol P B) : nice (edge_tokens m).
Proof.
  unfold edge_tokens. apply nice_flat_map. intros e _. split; [|reflexivity].
  cbn [lexable hd_error]. unfold adj_ok. cbn [tok_valid]. rewrite !leb_1_succ. reflexivity.
Qed.

Lemma nice_attr_tokens {P B} (m : mol P B) : pos_attrs m -> nice (attr_tokens m).
Proof.
  intros Hpos. unfold attr_tokens. apply nice_flat_map. intros x Hx.
  apply (Permutation_in _ (isort_perm (@atom_leb P) (atoms m))) in Hx.
  destruct (Hpos x Hx) as [Hm Hr]. unfold prop_tokens.
  destruct (mass x) as [vm|]; destruct (rad x) as [vr|]; cbn [app join_comma]; try exact nice_nil.
  - assert (H1 : Z.leb 1 vm = true) by (apply Z.leb_le; apply Hm; reflexivity).
    assert (H2 : Z.leb 1 vr = true) by (apply Z.leb_le; apply Hr; reflexivity).
    split; [|reflexivity].
    cbn [lexable hd_error]. unfold adj_ok. cbn [tok_valid]. rewrite leb_1_succ, H1, H2. reflexivity.
  - assert (H1 : Z.leb 1 vm = true) by (apply Z.leb_le; apply Hm; reflexivity).
    split; [|reflexivity].
    cbn [lexable hd_error]. unfold adj_ok. cbn [tok_valid]. rewrite leb_1_succ, H1. reflexivity.
  - assert (H2 : Z.leb 1 vr = true) by (apply Z.leb_le; apply Hr; reflexivity).
    split; [|reflexivity].
    cbn [lexable hd_error]. unfold adj_ok. cbn [tok_valid]. rewrite leb_1_succ, H2. reflexivity.
Qed.

Lemma nice_slash : nice [TSlash].
Proof. split; reflexivity. Qed.

Theorem tokens_of_lexable {P B} (m : mol P B) : forall ts,
  pos_attrs m -> tokens_of m = Some ts -> lexable ts = true.
Proof.
  intros ts Hpos H. unfold tokens_of in H.
  destruct (all_some (map (fun x => symbol_of (zn x)) (atoms m))) as [syms|]; [|discriminate].
  inversion H; subst ts; clear H.
  match goal with |- lexable ?l = true => cut (nice l); [intros Hn; exact (proj1 Hn)|] end.
  apply nice_app; [apply nice_formula_tokens|].
  apply (nice_app [TSlash]); [exact nice_slash|].
  apply nice_app; [apply nice_edge_tokens|].
  pose proof (nice_attr_tokens m Hpos) as Ha.
  destruct (attr_tokens m) as [|k r]; [exact nice_nil|].
  exact (nice_app [TSlash] (k :: r) nice_slash Ha).
Qed.

Corollary serialize_lex {P B} (m : mol P B) : forall ts,
  pos_attrs m -> tokens_of m = Some ts -> lex_text (print_tokens ts) = Some ts.
Proof. intros ts Hpos H. apply lex_print_roundtrip. exact (tokens_of_lexable m ts Hpos H). Qed.

(* ====================================================================== *)
(* 9.  The condition is also necessary                                       *)
(* ====================================================================== *)

Lemma punct_not_sym : forall c z, punct c <> Some (TSym z).
Proof.
  intros c z. unfold punct.
  repeat match goal with |- context [if ?b then _ else _] => destruct b; [discriminate|] end.
  discriminate.
Qed.

(* every token the lexer produces is valid *)
Lemma lex1_valid : forall l k rest, lex1 l = Some (k, rest) -> tok_valid k = true.
Proof.
  intros l k rest H. destruct k as [z|z| | | | | | | | | ]; try reflexivity.
  - cbn [tok_valid].
    assert (Hs : exists s, z_of_symbol s = Some z).
    { unfold lex1 in H. destruct l as [|c r]; [discriminate|].
      destruct (is_digit c).
      { destruct (N.eqb (N_of_ascii c) 48); [discriminate|]. destruct (span_digits r); discriminate. }
      destruct (is_upper c).
      - destruct r as [|c2 r2].
        + destruct (z_of_symbol [c]) as [z0|] eqn:Ez; [|discriminate]. inversion H; subst. eauto.
        + destruct (is_lower c2).
          * destruct (z_of_symbol [c; c2]) as [z2|] eqn:E2; [inversion H; subst; eauto|].
            destruct (z_of_symbol [c]) as [z0|] eqn:Ez; [|discriminate]. inversion H; subst. eauto.
          * destruct (z_of_symbol [c]) as [z0|] eqn:Ez; [|discriminate]. inversion H; subst. eauto.
      - destruct (punct c) as [k0|] eqn:Ep.
        + inversion H; subst. exfalso. exact (punct_not_sym _ _ Ep).
        + destruct (strip_prefix (t "mass") (c :: r)); [discriminate|].
          destruct (strip_prefix (t "rad") (c :: r)); discriminate. }
    destruct Hs as [s Hs]. rewrite (z_of_symbol_symbol_of _ Hs). reflexivity.
  - cbn [tok_valid]. apply Z.leb_le. exact (lex1_tok_ok _ H).
Qed.

Lemma span_digits_rest : forall l d rest, span_digits l = (d, rest) ->
  match rest with c :: _ => is_digit c = false | [] => True end.
Proof.
  induction l as [|c r IH]; intros d rest H; cbn [span_digits] in H.
  - inversion H; subst. exact I.
  - destruct (is_digit c) eqn:E.
    + destruct (span_digits r) as [d0 rest0] eqn:Es. inversion H; subst. exact (IH _ _ eq_refl).
    + inversion H; subst. exact E.
Qed.

Lemma lex1_fuse : forall c1 c2 z2 R,
  is_upper c1 = true -> is_lower c2 = true -> z_of_symbol [c1; c2] = Some z2 ->
  lex1 (c1 :: c2 :: R) = Some (TSym z2, R).
Proof.
  intros c1 c2 z2 R Hu Hl Hz. unfold lex1. rewrite (upper_not_digit _ Hu), Hu, Hl, Hz. reflexivity.
Qed.

Lemma lex1_print_token_inv : forall k r,
  tok_valid k = true -> lexable r = true ->
  lex1 (print_token k ++ print_tokens r) = Some (k, print_tokens r) ->
  adj_ok k (hd_error r) = true.
Proof.
  intros k r Hk Hr H. unfold adj_ok. rewrite Hk. cbn [andb].
  destruct k as [z|z| | | | | | | | | ]; try reflexivity.
  - (* TSym *)
    destruct r as [|k' r']; [reflexivity|].
    cbn [tok_valid] in Hk. unfold fuses. cbn [hd_error].
    destruct (symbol_of z) as [s|] eqn:Es; [|discriminate].
    destruct (symbol_of_spec _ _ Es) as [Hshape _].
    cbn [print_token] in H. rewrite Es in H. cbn [opt_default] in H.
    destruct s as [|c1 [|c2 s]]; [destruct k'; reflexivity| |destruct k'; reflexivity].
    cbn [sym_shape] in Hshape. cbn [app] in H.
    destruct k'; try reflexivity.
    + destruct (z_of_symbol [c1; "m"%char]) as [z2|] eqn:E2; [exfalso|reflexivity].
      change (print_tokens (TMass :: r')) with ("m"%char :: "a"%char :: "s"%char :: "s"%char :: print_tokens r') in H.
      rewrite (lex1_fuse c1 "m" _ _ Hshape eq_refl E2) in H.
      injection H as _ Hrest. discriminate Hrest.
    + destruct (z_of_symbol [c1; "r"%char]) as [z2|] eqn:E2; [exfalso|reflexivity].
      change (print_tokens (TRad :: r')) with ("r"%char :: "a"%char :: "d"%char :: print_tokens r') in H.
      rewrite (lex1_fuse c1 "r" _ _ Hshape eq_refl E2) in H.
      injection H as _ Hrest. discriminate Hrest.
  - (* TNum *)
    destruct r as [|k' r']; [reflexivity|]. cbn [hd_error].
    destruct k' as [z'|z'| | | | | | | | | ]; try reflexivity. exfalso.
    cbn [tok_valid] in Hk. apply Z.leb_le in Hk.
    pose proof (lexable_hd_valid _ _ Hr) as Hk'. cbn [tok_valid] in Hk'. apply Z.leb_le in Hk'.
    destruct (text_of_Z_pos z Hk) as (c & d & Et & Hc & Hc0 & Hd & _).
    destruct (text_of_Z_pos z' Hk') as (c' & d' & Et' & Hc' & _).
    unfold print_tokens in H. cbn [flat_map print_token] in H. rewrite Et, Et' in H. cbn [app] in H.
    unfold lex1 in H. rewrite Hc, Hc0 in H.
    destruct (span_digits (d ++ c' :: d' ++ flat_map print_token r')) as [dd rr] eqn:Es.
    injection H as _ Hrr. subst rr.
    pose proof (span_digits_rest _ _ _ Es) as Hnd. cbn beta iota in Hnd. rewrite Hc' in Hnd. discriminate.
Qed.

Lemma lex_fuel_lexable : forall ts fuel, lex_fuel fuel (print_tokens ts) = Some ts -> lexable ts = true.
Proof.
  induction ts as [|k r IH]; intros fuel H; [reflexivity|].
  remember (print_tokens (k :: r)) as l eqn:El.
  destruct fuel as [|f]; [destruct l; [inversion H|discriminate H]|].
  destruct l as [|c l0]; [inversion H|].
  cbn [lex_fuel] in H.
  destruct (lex1 (c :: l0)) as [[k1 rest1]|] eqn:E1; [|discriminate].
  destruct (lex_fuel f rest1) as [ks|] eqn:E2; [|discriminate].
  inversion H; subst k1 ks; clear H.
  pose proof (lex1_print _ E1) as Hp. rewrite El in Hp.
  unfold print_tokens in Hp. cbn [flat_map] in Hp. apply app_inv_head in Hp.
  fold (print_tokens r) in Hp. subst rest1.
  pose proof (IH _ E2) as Hr.
  cbn [lexable]. rewrite Hr, andb_true_r.
  apply lex1_print_token_inv; [exact (lex1_valid _ _ _ E1)|exact Hr|].
  rewrite <- E1, El. reflexivity.
Qed.

(* `lexable` is exactly the set of token lists that survive printing and re-lexing *)
Theorem lex_print_roundtrip_iff : forall ts, lex_text (print_tokens ts) = Some ts <-> lexable ts = true.
Proof.
  intros ts. split; [|apply lex_print_roundtrip].
  unfold lex_text. apply lex_fuel_lexable.
Qed.

(* ====================================================================== *)
(* 10.  Non-vacuity                                                          *)
(* ====================================================================== *)

(* ethanol numbered by increasing atomic number (H 0..5, C 6..7, O 8), deuterium on the hydroxyl,
   a 13C radical centre: one block with one property, one block with two *)
Definition ex_H (l : N) (ms : option Z) : atom unit := mkAtom l 1 ms None 0 tt.
Definition ex_ethanol_mol : mol unit unit :=
  mkMol [ex_H 0 None; ex_H 1 None; ex_H 2 None; ex_H 3 None; ex_H 4 None; ex_H 5 (Some 2%Z);
         mkAtom 6 6 (Some 13%Z) (Some 2%Z) 0 tt; mkAtom 7 6 None None 0 tt; mkAtom 8 8 None None 0 tt]%N
        [(0,6,tt); (1,6,tt); (2,6,tt); (3,7,tt); (4,7,tt); (5,8,tt); (6,7,tt); (7,8,tt)]%N.
Definition ex_ethanol_tokens : list token :=
  [TSym 6; TNum 2; TSym 1; TNum 6; TSym 8; TSlash;
   TLp; TNum 1; TDash; TNum 7; TRp; TLp; TNum 2; TDash; TNum 7; TRp; TLp; TNum 3; TDash; TNum 7; TRp;
   TLp; TNum 4; TDash; TNum 8; TRp; TLp; TNum 5; TDash; TNum 8; TRp; TLp; TNum 6; TDash; TNum 9; TRp;
   TLp; TNum 7; TDash; TNum 8; TRp; TLp; TNum 8; TDash; TNum 9; TRp; TSlash;
   TLp; TNum 6; TColon; TMass; TEq; TNum 2; TRp;
   TLp; TNum 7; TColon; TMass; TEq; TNum 13; TComma; TRad; TEq; TNum 2; TRp].

Example ex_ethanol_lexable :
  tokens_of ex_ethanol_mol = Some ex_ethanol_tokens /\
  lexable ex_ethanol_tokens = true /\
  print_tokens ex_ethanol_tokens =
    t "C2H6O/(1-7)(2-7)(3-7)(4-8)(5-8)(6-9)(7-8)(8-9)/(6:mass=2)(7:mass=13,rad=2)" /\
  lex_text (print_tokens ex_ethanol_tokens) = Some ex_ethanol_tokens.
Proof. repeat split; vm_compute; reflexivity. Qed.

Example ex_ethanol_pos_attrs : pos_attrs ex_ethanol_mol.
Proof.
  intros x Hx. cbn [ex_ethanol_mol atoms In] in Hx.
  repeat (destruct Hx as [Hx|Hx]; [subst x; split; intros v Hv; inversion Hv; lia|]).
  contradiction.
Qed.

(* the theorems apply to it *)
Example ex_ethanol_serialize_lex : lex_text (print_tokens ex_ethanol_tokens) = Some ex_ethanol_tokens.
Proof. apply (serialize_lex ex_ethanol_mol); [exact ex_ethanol_pos_attrs|vm_compute; reflexivity]. Qed.

(* the condition bites: each clause of adj_ok rejects a list that does not survive the round trip *)
Example ex_not_lexable :
  (lexable [TSym 6; TMass] = false /\ lex_text (print_tokens [TSym 6; TMass]) = None) /\                (* "Cm" "ass" *)
  (lexable [TSym 6; TRad; TEq] = false /\ lex_text (print_tokens [TSym 6; TRad; TEq]) = None) /\        (* "Cr" "ad=" *)
  (lexable [TNum 1; TNum 2] = false /\ lex_text (print_tokens [TNum 1; TNum 2]) = Some [TNum 12]) /\
  (lexable [TNum 0] = false /\ lex_text (print_tokens [TNum 0]) = None) /\
  (lexable [TSym 0] = false /\ lex_text (print_tokens [TSym 0]) = Some []).
Proof. repeat split; vm_compute; reflexivity. Qed.
(* and it is not coarser than needed: "H" "mass" is lexable, because "Hm" is no element *)
Example ex_sym_before_mass :
  lexable [TSym 1; TMass] = true /\ lex_text (print_tokens [TSym 1; TMass]) = Some [TSym 1; TMass].
Proof. split; vm_compute; reflexivity. Qed.
(* the one-letter symbols that do fuse with the `m` of mass / the `r` of rad: C F P S / B C F P S K I *)
Example ex_fusing_symbols :
  filter (fun z => fuses z "m") (map snd elem_table) = [6; 9; 15; 16]%N /\
  filter (fun z => fuses z "r") (map snd elem_table) = [5; 6; 9; 15; 16; 19; 53]%N.
Proof. split; vm_compute; reflexivity. Qed.

Print Assumptions lex_print_roundtrip.
Print Assumptions lex_print_roundtrip_iff.
Print Assumptions tokens_of_lexable.
Print Assumptions serialize_lex.
Print Assumptions ex_ethanol_lexable.
Print Assumptions ex_ethanol_serialize_lex.
