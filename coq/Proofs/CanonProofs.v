(* CanonProofs.v -- canonicalize_molecule with bliss as an oracle: it is a renaming (C12) and,
   given the contract of a canonical-form algorithm, the result is independent of the input
   description (C04). *)
From Coq Require Import List NArith ZArith Bool Lia Permutation.
Require Import Base Mol Partition Canon SortProofs MolProofs PartitionProofs SameMol.
Import ListNotations.

(* ---------- the contract of the canonical labelling oracle ---------- *)
Definition wfc (V E : list (N * N)) : Prop :=
  NoDup (map fst V) /\ forall e, In e E -> fst e <> snd e /\ In (fst e) (map fst V) /\ In (snd e) (map fst V).
(* colour-preserving isomorphism between two coloured graphs as they are handed to the oracle *)
Definition SameC (f : N -> N) (V E V' E' : list (N * N)) : Prop :=
  inj_on f (map fst V) /\ Permutation (map (flv f) V) V' /\
  Permutation (map (fun e => norm_pair (fpair f e)) E) (map norm_pair E').
Definition relab (lam : list (N * N)) (v : N * N) : N * N := (fun_of_map lam (fst v), snd v).
Definition relab_edge (lam : list (N * N)) (e : N * N) : N * N := norm_pair (fpair (fun_of_map lam) e).

Section Oracle.
  Variable canon : list (N * N) -> list (N * N) -> list (N * N).
  (* H1: the answer is a dictionary from the old labels onto 0..n-1 *)
  Definition H1 : Prop := forall V E, wfc V E ->
    inj_on (fun_of_map (canon V E)) (map fst V) /\
    Permutation (map (fun_of_map (canon V E)) (map fst V)) (N_seq 0 (length V)).
  (* H2: colour-isomorphic inputs are mapped to the same labelled coloured graph *)
  Definition H2 : Prop := forall V E V' E' f, wfc V E -> SameC f V E V' E' ->
    Permutation (map (relab (canon V E)) V) (map (relab (canon V' E')) V') /\
    Permutation (map (relab_edge (canon V E)) E) (map (relab_edge (canon V' E')) E').
End Oracle.

Lemma canon_vertices_fst {P B} (m : mol P B) : map fst (canon_vertices m) = labels m.
Proof. unfold canon_vertices, labels. rewrite map_map. reflexivity. Qed.
Lemma wfg_wfc {P B} (m : mol P B) : wfg m -> wfc (canon_vertices m) (canon_edges m).
Proof.
  intros [Hnd Hb]. split; [rewrite canon_vertices_fst; exact Hnd|].
  intros e He. unfold canon_edges in He. rewrite in_map_iff in He. destruct He as (b & <- & Hbin).
  rewrite canon_vertices_fst. apply Hb, Hbin.
Qed.

(* ---------- C12: canonicalization is a renaming of the atoms onto 0..n-1 ---------- *)
Theorem canonicalize_is_renaming {P B} canon (m c : mol P B) :
  H1 canon -> wfg m -> canonicalize canon m = Some c ->
  exists lam : N -> N,
    inj_on lam (labels m) /\
    Permutation (map lam (labels m)) (N_seq 0 (length (atoms m))) /\
    map frame (atoms c) = map (fun x => (lam (lbl x), zn x, mass x, rad x, pay x)) (atoms m) /\
    bonds c = map (map_bond lam) (bonds m).
Proof.
  intros HH1 Hwf Hc. unfold canonicalize in Hc.
  destruct (classes m) as [r|] eqn:Hr; [|discriminate]. inversion Hc; subst c; clear Hc.
  pose proof (classes_wfg m r Hr Hwf) as Hwr.
  destruct (HH1 _ _ (wfg_wfc r Hwr)) as [Hinj Hperm].
  destruct (classes_frame m r Hr) as [Hfr Hbd].
  rewrite canon_vertices_fst, (classes_labels m r Hr) in Hinj, Hperm.
  exists (fun_of_map (canon (canon_vertices r) (canon_edges r))).
  split; [exact Hinj|]. split.
  - unfold canon_vertices in Hperm. rewrite map_length in Hperm.
    assert (Hlen : length (atoms r) = length (atoms m)).
    { apply (f_equal (@length _)) in Hfr. rewrite !map_length in Hfr. exact Hfr. }
    rewrite Hlen in Hperm. exact Hperm.
  - split.
    + unfold relabel; simpl. rewrite map_map.
      set (lam := fun_of_map _).
      transitivity (map (fun p => (lam (fst (fst (fst (fst p)))), snd (fst (fst (fst p))), snd (fst (fst p)), snd (fst p), snd p))
                        (map frame (atoms r))).
      * rewrite map_map. apply map_ext. intros x. reflexivity.
      * rewrite Hfr, map_map. apply map_ext. intros x. reflexivity.
    + unfold relabel; simpl. rewrite Hbd. reflexivity.
Qed.

(* ---------- C04, first half: the class of every canonical label and the edge set ---------- *)
Section Unique.
  Context {P B P' B' : Type}.
  Variable canon : list (N * N) -> list (N * N) -> list (N * N).
  Hypothesis HH2 : H2 canon.
  Variable f : N -> N.
  Variable m : mol P B.
  Variable m' : mol P' B'.
  Hypothesis Hwf : wfg m.
  Hypothesis HS : SameMol f m m'.

  Lemma RelPart_SameC (r : mol P B) (r' : mol P' B') :
    RelPart f r r' -> SameC f (canon_vertices r) (canon_edges r) (canon_vertices r') (canon_edges r').
  Proof.
    intros (Hw & Hw' & Hi & Hb & Ha). split; [rewrite canon_vertices_fst; exact Hi|]. split.
    - exact Ha.
    - unfold canon_edges. rewrite !map_map. exact Hb.
  Qed.

  Definition class_view {Q C} (c : mol Q C) : list (N * N) := map (fun x => (lbl x, part x)) (atoms c).
  Definition edge_view {Q C} (c : mol Q C) : list (N * N) := map (fun b => norm_pair (ends b)) (bonds c).

  Theorem canonical_classes_edges_unique :
    match canonicalize canon m, canonicalize canon m' with
    | Some c, Some c' => Permutation (class_view c) (class_view c') /\ Permutation (edge_view c) (edge_view c')
    | None, None => True
    | _, _ => False
    end.
  Proof.
    unfold canonicalize. pose proof (classes_rel f m m' Hwf HS) as HR.
    destruct (classes m) as [r|] eqn:Hr, (classes m') as [r'|] eqn:Hr'; try exact HR.
    pose proof (classes_wfg m r Hr Hwf) as Hwr.
    destruct (HH2 _ _ _ _ f (wfg_wfc r Hwr) (RelPart_SameC r r' HR)) as [HV HE].
    split.
    - unfold class_view, relabel; simpl. rewrite !map_map. simpl.
      unfold canon_vertices at 2 4 in HV. rewrite !map_map in HV. exact HV.
    - unfold edge_view, relabel; simpl. rewrite !map_map.
      unfold canon_edges at 2 4 in HE. rewrite !map_map in HE. exact HE.
  Qed.
End Unique.
