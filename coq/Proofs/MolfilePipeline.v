(* MolfilePipeline.v -- C09, last sentence: "Consequently string -> graph -> molfile -> graph -> string
   returns the original TUCAN string".

     graph_from_tucan(s)  ->  graph_to_molfile(g)  ->  graph_from_molfile_text(text)
                          ->  serialize_molecule(canonicalize_molecule(g'))

   Composition of results proved elsewhere:
     Norm.parsed_graph_wf                     what the reference reader returns
     WriterProofs.read_molfile_write_molfile  write, then read (V3000 writer, reader entry point)
     NonIdentity.build_*, SameMol_id_sets     nx.Graph edge insertion
     TucanProofs.tucan_invariant              the string does not depend on the description
     RoundTrip2.parse_tucan_roundtrip         the emitted string is read back as the molecule

   FINDING.  The sentence is false as it stands.  The grammar accepts every radical value >= 1
   (node_property_value ::= greater_than_zero) but the writer only prints RAD=v for 1 <= v <= 3
   (molfile_writer.py; the CTfile format has no other values).  A string with rad=4 is accepted,
   canonical, and comes back from the round trip through a molfile WITHOUT the radical
   (ex_rad_lost below).  The theorem therefore carries the hypothesis rad_in_format_range. *)
From Coq Require Import List NArith ZArith Bool Lia Arith Permutation String.
Require Import Base Mol Text Parse Molfile Writer Pipeline MolProofs SameMol CanonProofs CanonView ViewProofs AstOf TotalProofs.
Require V2000 WriterProofs V3000Render NonIdentity Norm RoundTrip2 TucanProofs SemSer SerializeProofs RefCanon.
Import ListNotations.

Local Open Scope list_scope.

(* ------------------------------------------------------------------------------------ *)
(* 1. the graph as the writer sees a parsed graph                                        *)
(* ------------------------------------------------------------------------------------ *)

(* '{:.6f}'.format(attrs.get(X_COORD, 0)): a graph built from a TUCAN string has no coordinates *)
Definition zero_coord : text := t "0.000000".

Definition has_symbol (z : N) : bool := match symbol_of z with Some _ => true | None => false end.

(* node attributes the writer reads: element_symbol (the image of atomic_number in the element
   table), no charge, no coordinates; label, atomic number, mass, radical, partition are kept *)
Definition writer_atom (x : atom unit) : atom rpay :=
  mkAtom (lbl x) (zn x) (mass x) (rad x) (part x)
         (mkRpay (opt_default [] (symbol_of (zn x))) None zero_coord zero_coord zero_coord).
(* no bond_type attribute: attrs.get(BOND_TYPE, 1) *)
Definition writer_bond (b : N * N * unit) : N * N * option Z := (fst (fst b), snd (fst b), None).

Definition to_writer_graph (g : mol unit unit) : option (mol rpay (option Z)) :=
  if forallb (fun x => has_symbol (zn x)) (atoms g)
  then Some (mkMol (map writer_atom (atoms g)) (map writer_bond (bonds g)))
  else None.

(* the writer prints RAD only for 1..3 *)
Definition rad_in_format_range {P B} (g : mol P B) : Prop :=
  forall x, In x (atoms g) -> forall v, rad x = Some v -> (v <= 3)%Z.

Lemma to_writer_graph_some g w : to_writer_graph g = Some w ->
  w = mkMol (map writer_atom (atoms g)) (map writer_bond (bonds g)) /\
  forall x, In x (atoms g) -> exists s, symbol_of (zn x) = Some s.
Proof.
  unfold to_writer_graph. destruct (forallb _ (atoms g)) eqn:E; [|discriminate].
  intros H. injection H as <-. split; [reflexivity|].
  intros x Hx. rewrite forallb_forall in E. specialize (E x Hx). unfold has_symbol in E.
  destruct (symbol_of (zn x)) as [s|]; [exists s; reflexivity|discriminate E].
Qed.

(* defined exactly on the graphs whose atomic numbers have symbols -- all parsed graphs *)
Lemma to_writer_graph_defined g : known_elements g -> exists w, to_writer_graph g = Some w.
Proof.
  intros Hk. unfold to_writer_graph.
  replace (forallb (fun x => has_symbol (zn x)) (atoms g)) with true; [eexists; reflexivity|].
  symmetry. apply forallb_forall. intros x Hx. specialize (Hk x Hx). unfold has_symbol.
  destruct (symbol_of (zn x)); [reflexivity|contradiction Hk; reflexivity].
Qed.

(* ------------------------------------------------------------------------------------ *)
(* 2. the written graph satisfies the side conditions of the write-read theorem          *)
(* ------------------------------------------------------------------------------------ *)

Lemma zero_coord_tok : WriterProofs.coord_tok zero_coord.
Proof. apply WriterProofs.coord_tok_check. vm_compute. reflexivity. Qed.

Lemma writer_atom_ok x s : symbol_of (zn x) = Some s -> WriterProofs.atom_ok (writer_atom x).
Proof.
  intros Hs. constructor; cbn [writer_atom pay p_sym p_x p_y p_z zn]; try apply zero_coord_tok.
  rewrite Hs. cbn [opt_default]. apply SemSer.symbol_of_z_of_symbol, Hs.
Qed.

Lemma writer_labels (g : mol unit unit) : map (@lbl rpay) (map writer_atom (atoms g)) = labels g.
Proof. unfold labels. rewrite map_map. reflexivity. Qed.

Lemma writer_bond_ends (g : mol unit unit) :
  map (fun b : N * N * option Z => (fst (fst b), snd (fst b))) (map writer_bond (bonds g)) = map (@ends unit) (bonds g).
Proof. rewrite map_map. reflexivity. Qed.

Theorem writer_graph_ok g w : wfg g -> RoundTrip2.simple g -> to_writer_graph g = Some w -> WriterProofs.mol_ok w.
Proof.
  intros [Hnd Hb] Hs Hw. destruct (to_writer_graph_some g w Hw) as [-> Hsym].
  constructor; cbn [atoms bonds].
  - apply Forall_forall. intros y Hy. rewrite in_map_iff in Hy. destruct Hy as (x & <- & Hx).
    destruct (Hsym x Hx) as (s & Es). apply (writer_atom_ok x s Es).
  - unfold labels at 1. cbn [atoms]. rewrite writer_labels. exact Hnd.
  - rewrite writer_bond_ends. unfold RoundTrip2.simple in Hs.
    apply (NoDup_map_inv norm_pair). rewrite map_map. exact Hs.
  - apply Forall_forall. intros c Hc. rewrite in_map_iff in Hc. destruct Hc as (b & <- & Hin).
    unfold labels. cbn [atoms writer_bond fst snd]. rewrite writer_labels.
    destruct (Hb b Hin) as (_ & Hu & Hv). split; assumption.
  - apply Forall_forall. intros c Hc. rewrite in_map_iff in Hc. destruct Hc as (b & <- & Hin).
    cbn [writer_bond fst snd]. exact (proj1 (Hb b Hin)).
Qed.

Theorem written_ok s g w : ref_parse s = inr g -> to_writer_graph g = Some w -> WriterProofs.mol_ok w.
Proof.
  intros Hp Hw. destruct (Norm.parsed_graph_wf s g Hp) as (Hwf & Hs & _). apply (writer_graph_ok g w Hwf Hs Hw).
Qed.

(* ------------------------------------------------------------------------------------ *)
(* 3. the graph read back                                                                *)
(* ------------------------------------------------------------------------------------ *)

(* what graph_from_molecule makes of the reader's dictionaries: nodes renamed by position with
   the attributes that were printed, edges inserted one by one with bond type 1 *)
Definition typed_bond (b : N * N * unit) : N * N * Z := (fst (fst b), snd (fst b), 1%Z).
Definition read_back (g : mol unit unit) : mol rpay Z :=
  mkMol (V3000Render.gatoms 0 (map WriterProofs.expected_atom (map writer_atom (atoms g))))
        (NonIdentity.build (@ends Z) snd (map typed_bond (bonds g)) []).

Lemma N_seq_bounds i n x : In x (N_seq i n) -> (i <= x < i + N.of_nat n)%N.
Proof.
  revert i. induction n as [|n IH]; intros i; cbn [N_seq In]; [intros []|].
  intros [<-|H]; [lia|]. apply IH in H. lia.
Qed.

Lemma index_of_Z_seq n : forall s j, (s <= j < s + N.of_nat n)%N ->
  index_of_Z (Z.of_N j) (map Z.of_N (N_seq s n)) s = Some j.
Proof.
  induction n as [|n IH]; intros s j H; [lia|].
  cbn [N_seq map index_of_Z]. destruct (Z.eqb_spec (Z.of_N s) (Z.of_N j)) as [E|E].
  - f_equal. lia.
  - apply IH. lia.
Qed.

Lemma written_keys (g : mol unit unit) :
  map r_idx (map WriterProofs.expected_atom (map writer_atom (atoms g))) = map Z.of_N (labels g).
Proof. unfold labels. rewrite !map_map. reflexivity. Qed.

Lemma graph_from_written g :
  wfg g -> labels g = N_seq 0 (length (atoms g)) ->
  graph_from_molecule (map WriterProofs.expected_atom (map writer_atom (atoms g)))
                      (map WriterProofs.expected_bond (map writer_bond (bonds g)))
  = ok (read_back g).
Proof.
  intros [_ Hb] Hl. rewrite V3000Render.graph_from_molecule_eq.
  rewrite (V3000Render.fold_gadd _ _ (map typed_bond (bonds g)) []); [reflexivity|].
  rewrite written_keys, Hl.
  assert (Hin : forall b, In b (bonds g) -> In (fst (fst b)) (labels g) /\ In (snd (fst b)) (labels g)).
  { intros b Hin. destruct (Hb b Hin) as (_ & Hu & Hv). split; assumption. }
  rewrite Hl in Hin. clear Hb Hl.
  induction (bonds g) as [|b bs IH]; [constructor|].
  cbn [map]. constructor; [|apply IH; intros c Hc; apply Hin; right; exact Hc].
  destruct (Hin b (or_introl eq_refl)) as [Hu Hv]. apply N_seq_bounds in Hu, Hv.
  cbn [writer_bond typed_bond WriterProofs.expected_bond fst snd opt_default].
  rewrite !index_of_Z_seq by lia. repeat split.
Qed.

(* the identity data of the atoms read back: atomic number, the mass when > 0, the radical when 1..3 *)
Lemma read_back_atoms (l : list (atom unit)) : forall i,
  map (@lbl unit) l = N_seq i (length l) ->
  map (fun x => (lbl x, ident x)) (V3000Render.gatoms i (map WriterProofs.expected_atom (map writer_atom l)))
  = map (fun x => (lbl x, (zn x, WriterProofs.keep mass_ok (mass x), WriterProofs.keep rad_ok (rad x)))) l.
Proof.
  induction l as [|x l IH]; intros i H; [reflexivity|].
  cbn [map length N_seq] in H. injection H as Hx Hr.
  unfold V3000Render.gatoms in *. cbn [map enumerate_from fst snd]. rewrite (IH _ Hr). f_equal.
  unfold ident. cbn. rewrite Hx. reflexivity.
Qed.

Lemma keep_mass x : (forall v, mass x = Some v -> (1 <= v)%Z) -> WriterProofs.keep mass_ok (@mass unit x) = mass x.
Proof.
  intros H. destruct (mass x) as [v|]; [|reflexivity]. cbn [WriterProofs.keep]. unfold mass_ok.
  specialize (H v eq_refl). destruct (Z.ltb_spec 0 v); [reflexivity|lia].
Qed.
Lemma keep_rad x : (forall v, rad x = Some v -> (1 <= v <= 3)%Z) -> WriterProofs.keep rad_ok (@rad unit x) = rad x.
Proof.
  intros H. destruct (rad x) as [v|]; [|reflexivity]. cbn [WriterProofs.keep]. unfold rad_ok.
  specialize (H v eq_refl). destruct (Z.ltb_spec 0 v); [|lia]. destruct (Z.leb_spec v 3); [reflexivity|lia].
Qed.

(* the graph read back is the parsed graph: same node names with the same (element, mass, radical),
   same bonded pairs *)
Theorem read_back_SameMol g :
  RoundTrip2.simple g -> pos_attrs g -> rad_in_format_range g -> labels g = N_seq 0 (length (atoms g)) ->
  SameMol (fun x => x) g (read_back g).
Proof.
  intros Hs Hp Hr Hl. apply NonIdentity.SameMol_id_sets.
  - cbn [read_back atoms]. rewrite (read_back_atoms (atoms g) 0%N Hl). apply map_ext_in.
    intros x Hx. destruct (Hp x Hx) as [Hm Hrd]. unfold ident.
    rewrite (keep_mass x Hm), (keep_rad x); [reflexivity|].
    intros v E. split; [apply Hrd, E | apply (Hr x Hx v E)].
  - exact Hs.
  - cbn [read_back bonds]. apply NonIdentity.build_NoDup. constructor.
  - intros p. cbn [read_back bonds]. rewrite NonIdentity.build_in. cbn [map In].
    rewrite map_map.
    assert (E : map (fun x => norm_pair (ends (typed_bond x))) (bonds g) = map NonIdentity.npair (bonds g))
      by (apply map_ext; intros [[u v] []]; reflexivity).
    rewrite E. tauto.
Qed.

(* write, then read: the reader entry point returns read_back g *)
Theorem read_written g w line2 :
  WriterProofs.nolb line2 -> wfg g -> RoundTrip2.simple g -> labels g = N_seq 0 (length (atoms g)) ->
  to_writer_graph g = Some w ->
  V2000.read_molfile (write_molfile line2 w) = ok (read_back g).
Proof.
  intros H2 Hwf Hs Hl Hw.
  rewrite (WriterProofs.read_molfile_write_molfile line2 w H2 (writer_graph_ok g w Hwf Hs Hw)).
  destruct (to_writer_graph_some g w Hw) as [-> _]. cbn [atoms bonds]. apply (graph_from_written g Hwf Hl).
Qed.

(* ------------------------------------------------------------------------------------ *)
(* 4. string -> graph -> molfile -> graph -> string                                      *)
(* ------------------------------------------------------------------------------------ *)

Lemma SameMol_rad_range {P B P' B'} f (m : mol P B) (m' : mol P' B') :
  wfg m -> SameMol f m m' -> rad_in_format_range m -> rad_in_format_range m'.
Proof.
  intros Hwf HS Hr x' Hx' v E. destruct (SameMol_preimage f m m' HS x' Hx') as (x & Hx & Hl).
  pose proof (SameMol_ident f m m' Hwf HS x x' Hx Hx' Hl) as Ei. unfold ident in Ei.
  injection Ei as _ _ Er. apply (Hr x Hx v). rewrite <- Er. exact E.
Qed.

Section Pipeline.
  Variable canon : list (N * N) -> list (N * N) -> list (N * N).
  Hypothesis HH1 : H1 canon.
  Hypothesis HH2 : H2 canon.

  (* Any accepted string s (canonical or not) whose radical values the format can hold: the molfile
     written from its graph is read back as a graph with the same TUCAN string as the graph of s.
     Holds for every header line 2 without line breaks (the writer puts a time stamp there).
     For the accepted string "/" (no atoms) both sides are None: the empty molecule is outside
     the model's domain, see Norm.norm_defined. *)
  Theorem tucan_molfile_roundtrip s g w line2 :
    WriterProofs.nolb line2 -> ref_parse s = inr g -> rad_in_format_range g -> to_writer_graph g = Some w ->
    exists g', V2000.read_molfile (write_molfile line2 w) = ok g' /\ tucan canon g' = tucan canon g.
  Proof.
    intros H2l Hp Hr Hw. destruct (Norm.parsed_graph_wf s g Hp) as (Hwf & Hs & Hpa & _ & Hl).
    exists (read_back g). split; [apply (read_written g w line2 H2l Hwf Hs Hl Hw)|]. symmetry.
    apply (TucanProofs.tucan_invariant canon HH1 HH2 (fun x => x) g (read_back g) Hwf
             (read_back_SameMol g Hs Hpa Hr Hl) (RoundTrip2.pos_attrs_nozero g Hpa)).
  Qed.

  (* with at least one atom the common value is a string *)
  Corollary tucan_molfile_roundtrip_defined s g w line2 :
    WriterProofs.nolb line2 -> ref_parse s = inr g -> atoms g <> [] -> rad_in_format_range g -> to_writer_graph g = Some w ->
    exists g' c, V2000.read_molfile (write_molfile line2 w) = ok g' /\ tucan canon g' = Some c /\ tucan canon g = Some c.
  Proof.
    intros H2l Hp Hne Hr Hw. destruct (tucan_molfile_roundtrip s g w line2 H2l Hp Hr Hw) as (g' & Hrd & Ht).
    destruct (Norm.parsed_graph_wf s g Hp) as (Hwf & _ & _ & Hk & _).
    destruct (tucan_total canon g HH1 Hwf Hne Hk) as (c & Hc).
    exists g', c. split; [exact Hrd|]. split; [rewrite Ht|]; exact Hc.
  Qed.

  (* s canonical (s is the TUCAN string of its own graph): the pipeline returns s *)
  Corollary tucan_molfile_roundtrip_canonical s g w line2 :
    WriterProofs.nolb line2 -> ref_parse s = inr g -> rad_in_format_range g -> to_writer_graph g = Some w ->
    tucan canon g = Some s ->
    exists g', V2000.read_molfile (write_molfile line2 w) = ok g' /\ tucan canon g' = Some s.
  Proof.
    intros H2l Hp Hr Hw Hc. destruct (tucan_molfile_roundtrip s g w line2 H2l Hp Hr Hw) as (g' & Hrd & Ht).
    exists g'. split; [exact Hrd | rewrite Ht; exact Hc].
  Qed.

  (* The sentence of C09 in full: s the TUCAN string the pipeline emits for ANY molecule graph m
     (any payload, any bond data) that is simple, has positive attribute values and radicals within
     1..3.  Then every stage of  string -> graph -> molfile -> graph -> string  succeeds and the
     last one returns s. *)
  Theorem tucan_molfile_pipeline {P B} (m : mol P B) s line2 :
    WriterProofs.nolb line2 ->
    wfg m -> RoundTrip2.simple m -> pos_attrs m -> rad_in_format_range m -> tucan canon m = Some s ->
    exists g w g',
      ref_parse s = inr g /\ to_writer_graph g = Some w /\
      V2000.read_molfile (write_molfile line2 w) = ok g' /\ tucan canon g' = Some s.
  Proof.
    intros H2l Hwf Hs Hpa Hr Ht.
    destruct (RoundTrip2.parse_tucan_roundtrip canon HH1 m s Hwf Hs Hpa Ht) as (g & f & Hp & HS & _).
    assert (Hg : tucan canon g = Some s).
    { rewrite <- Ht. symmetry. apply (TucanProofs.tucan_invariant canon HH1 HH2 f m g Hwf HS (RoundTrip2.pos_attrs_nozero m Hpa)). }
    destruct (Norm.parsed_graph_wf s g Hp) as (_ & _ & _ & Hk & _).
    destruct (to_writer_graph_defined g Hk) as (w & Hw).
    pose proof (SameMol_rad_range f m g Hwf HS Hr) as Hrg.
    destruct (tucan_molfile_roundtrip_canonical s g w line2 H2l Hp Hrg Hw Hg) as (g' & Hrd & Hc).
    exists g, w, g'. auto.
  Qed.

  (* the same on strings only: c the normal form of an accepted string s0 *)
  Corollary norm_molfile_pipeline s0 g0 c line2 :
    WriterProofs.nolb line2 -> ref_parse s0 = inr g0 -> rad_in_format_range g0 -> Norm.norm canon s0 = Some c ->
    exists g w g',
      ref_parse c = inr g /\ to_writer_graph g = Some w /\
      V2000.read_molfile (write_molfile line2 w) = ok g' /\ tucan canon g' = Some c.
  Proof.
    intros H2l Hp Hr Hn. rewrite (Norm.norm_of_parse canon s0 g0 Hp) in Hn.
    destruct (Norm.parsed_graph_wf s0 g0 Hp) as (Hwf & Hs & Hpa & _).
    apply (tucan_molfile_pipeline g0 c line2 H2l Hwf Hs Hpa Hr Hn).
  Qed.
End Pipeline.

(* the written text: no line longer than 79 characters (80 with the newline) *)
Theorem written_line_length s g w line2 :
  WriterProofs.nolb line2 -> length line2 <= 79 -> ref_parse s = inr g -> to_writer_graph g = Some w ->
  forall l, In l (splitlines (write_molfile line2 w)) -> length l <= 79.
Proof.
  intros H2l Hlen Hp Hw. apply Forall_forall.
  apply (WriterProofs.write_molfile_line_length line2 w H2l Hlen (WriterProofs.mo_atoms _ (written_ok s g w Hp Hw))).
Qed.

(* ------------------------------------------------------------------------------------ *)
(* 5. non-vacuity and necessity of the radical hypothesis                                *)
(* ------------------------------------------------------------------------------------ *)
(* 13C-labelled, deuterated methanol with a carbene-like carbon: atoms 1-4 H, 5 C, 6 O *)
Definition ex_s : text := t "CH4O/(1-5)(2-5)(3-5)(4-6)(5-6)/(4:mass=2)(5:mass=13,rad=2)".
Definition ex_hdr : text := t "  TUCAN01010012600393D".

(* the whole pipeline run by the executable model with the reference oracle *)
Definition run_pipeline (hdr s : text) : option text :=
  match ref_parse s with
  | inr g => match to_writer_graph g with
             | Some w => match V2000.read_molfile (write_molfile hdr w) with
                         | inr g' => tucan RefCanon.ref_canon g'
                         | inl _ => None
                         end
             | None => None
             end
  | inl _ => None
  end.

Example ex_s_canonical : Norm.norm RefCanon.ref_canon ex_s = Some ex_s.
Proof. vm_compute. reflexivity. Qed.
Example ex_s_pipeline : run_pipeline ex_hdr ex_s = Some ex_s.
Proof. vm_compute. reflexivity. Qed.

(* the text written, line by line (this is the output of graph_to_molfile on graph_from_tucan ex_s,
   time stamp as in ex_hdr) *)
Example ex_s_written :
  option_map (fun w => splitlines (write_molfile ex_hdr w))
             (match ref_parse ex_s with inr g => to_writer_graph g | inl _ => None end)
  = Some (map t [""; "  TUCAN01010012600393D"; ""; "  0  0  0     0  0            999 V3000";
                 "M  V30 BEGIN CTAB"; "M  V30 COUNTS 6 5 0 0 0"; "M  V30 BEGIN ATOM";
                 "M  V30 1 H 0.000000 0.000000 0.000000 0";
                 "M  V30 2 H 0.000000 0.000000 0.000000 0";
                 "M  V30 3 H 0.000000 0.000000 0.000000 0";
                 "M  V30 4 H 0.000000 0.000000 0.000000 0 MASS=2";
                 "M  V30 5 C 0.000000 0.000000 0.000000 0 RAD=2 MASS=13";
                 "M  V30 6 O 0.000000 0.000000 0.000000 0";
                 "M  V30 END ATOM"; "M  V30 BEGIN BOND";
                 "M  V30 1 1 1 5"; "M  V30 2 1 2 5"; "M  V30 3 1 3 5"; "M  V30 4 1 4 6"; "M  V30 5 1 5 6";
                 "M  V30 END BOND"; "M  V30 END CTAB"; "M  END"]%string).
Proof. vm_compute. reflexivity. Qed.

(* the hypotheses of the theorems hold for it *)
Definition rad_range_check {P B} (g : mol P B) : bool :=
  forallb (fun x => match rad x with Some v => Z.leb v 3 | None => true end) (atoms g).
Lemma rad_range_check_ok {P B} (g : mol P B) : rad_range_check g = true -> rad_in_format_range g.
Proof.
  intros H x Hx v E. unfold rad_range_check in H. rewrite forallb_forall in H. specialize (H x Hx).
  rewrite E in H. apply Z.leb_le, H.
Qed.

Example ex_s_hypotheses : exists g w,
  ref_parse ex_s = inr g /\ atoms g <> [] /\ rad_in_format_range g /\ to_writer_graph g = Some w /\
  WriterProofs.nolb ex_hdr /\ length ex_hdr <= 79 /\ tucan RefCanon.ref_canon g = Some ex_s.
Proof.
  eexists. eexists. split; [vm_compute; reflexivity|].
  split; [discriminate|].
  split; [apply rad_range_check_ok; vm_compute; reflexivity|].
  split; [vm_compute; reflexivity|].
  split; [apply WriterProofs.nolb_check; vm_compute; reflexivity|].
  split; [vm_compute; repeat constructor|].
  vm_compute. reflexivity.
Qed.

(* the theorem applied (nothing run through the writer or the reader): for EVERY oracle satisfying
   the contract and every header line, the pipeline on the canonical string of ex_s returns it *)
Example ex_s_by_theorem canon line2 : H1 canon -> H2 canon -> WriterProofs.nolb line2 ->
  exists c g w g',
    Norm.norm canon ex_s = Some c /\
    ref_parse c = inr g /\ to_writer_graph g = Some w /\
    V2000.read_molfile (write_molfile line2 w) = ok g' /\ tucan canon g' = Some c.
Proof.
  intros HH1 HH2 H2l. destruct ex_s_hypotheses as (g0 & w0 & Hp & Hne & Hr & _).
  destruct (Norm.norm_defined canon HH1 ex_s g0 Hp Hne) as (c & Hc).
  destruct (norm_molfile_pipeline canon HH1 HH2 ex_s g0 c line2 H2l Hp Hr Hc) as (g & w & g' & H).
  exists c, g, w, g'. split; [exact Hc | exact H].
Qed.

(* NECESSITY of rad_in_format_range.  rad=4 is accepted by the grammar and survives
   canonicalization and serialization, so the string below is canonical; the writer does not print
   RAD=4, and the pipeline returns the string of the molecule without the radical. *)
Definition ex_rad4 : text := t "CH4O/(1-5)(2-5)(3-5)(4-6)(5-6)/(4:mass=2)(5:mass=13,rad=4)".
Example ex_rad4_canonical : Norm.norm RefCanon.ref_canon ex_rad4 = Some ex_rad4.
Proof. vm_compute. reflexivity. Qed.
Example ex_rad_lost :
  run_pipeline ex_hdr ex_rad4 = Some (t "CH4O/(1-5)(2-5)(3-5)(4-6)(5-6)/(4:mass=2)(5:mass=13)")
  /\ run_pipeline ex_hdr ex_rad4 <> Some ex_rad4.
Proof. split; [vm_compute; reflexivity|]. vm_compute. discriminate. Qed.
Example ex_rad4_out_of_range : forall g, ref_parse ex_rad4 = inr g -> ~ rad_in_format_range g.
Proof.
  intros g Hp Hr. vm_compute in Hp. injection Hp as <-.
  refine (_ (Hr _ (or_intror (or_intror (or_intror (or_intror (or_introl eq_refl))))) 4%Z eq_refl)). lia.
Qed.
(* the only thing lost is the radical: the atom line of the carbon *)
Example ex_rad4_line :
  option_map (fun w => nth 11 (splitlines (write_molfile ex_hdr w)) [])
             (match ref_parse ex_rad4 with inr g => to_writer_graph g | inl _ => None end)
  = Some (t "M  V30 5 C 0.000000 0.000000 0.000000 0 MASS=13").
Proof. vm_compute. reflexivity. Qed.

Print Assumptions writer_graph_ok.
Print Assumptions written_ok.
Print Assumptions read_back_SameMol.
Print Assumptions read_written.
Print Assumptions tucan_molfile_roundtrip.
Print Assumptions tucan_molfile_roundtrip_defined.
Print Assumptions tucan_molfile_roundtrip_canonical.
Print Assumptions tucan_molfile_pipeline.
Print Assumptions norm_molfile_pipeline.
Print Assumptions written_line_length.
Print Assumptions ex_s_pipeline.
Print Assumptions ex_s_hypotheses.
Print Assumptions ex_s_by_theorem.
Print Assumptions ex_rad_lost.
Print Assumptions ex_rad4_out_of_range.
