(* FastProofs.v -- the fast variants used by the extracted driver are the functions of the theorems. *)
From Coq Require Import List NArith ZArith Bool.
Require Import Base Mol Partition Canon Pipeline Fast.
Import ListNotations.

Lemma map_combine_map {A C D} (f : A -> C) (g : A -> C -> D) (l : list A) :
  map (fun xk => g (fst xk) (snd xk)) (combine l (map f l)) = map (fun x => g x (f x)) l.
Proof. induction l as [|x t IH]; simpl; [reflexivity|]. rewrite IH. reflexivity. Qed.

Theorem partition_by_fast_eq {V P B} leb nleb (val : atom P -> V) (m : mol P B) :
  partition_by_fast leb nleb val m = partition_by leb nleb val m.
Proof.
  unfold partition_by_fast, partition_by, class_of, rank, keys_of. f_equal.
  apply (map_combine_map (fun x => keyL nleb val m (lv_of val x))
           (fun x k => set_part (index_of (kleb leb) k (dedup (kleb leb) (isort (kleb leb) (map (fun x0 => keyL nleb val m (lv_of val x0)) (atoms m))))) x)).
Qed.

Theorem refine_fast_eq {P B} fuel : forall m : mol P B, refine_fast fuel m = refine fuel m.
Proof.
  induction fuel as [|f IH]; intros m; simpl; [reflexivity|].
  unfold partition_by_part_fast, partition_by_part. rewrite partition_by_fast_eq.
  destruct (nparts _) as [k'|]; [|reflexivity]. destruct (nparts m) as [k|]; [|reflexivity].
  destruct (N.eqb k' k); [reflexivity | apply IH].
Qed.
Theorem rounds_fast_eq {P B} fuel : forall m : mol P B, rounds_fast fuel m = rounds fuel m.
Proof.
  induction fuel as [|f IH]; intros m; simpl; [reflexivity|].
  unfold partition_by_part_fast, partition_by_part. rewrite partition_by_fast_eq.
  destruct (nparts _) as [k'|]; [|reflexivity]. destruct (nparts m) as [k|]; [|reflexivity].
  destruct (N.eqb k' k); [reflexivity | rewrite IH; reflexivity].
Qed.
Theorem classes_fast_eq {P B} (m : mol P B) : classes_fast m = classes m.
Proof.
  unfold classes_fast, classes, partition_by_inv_fast, partition_by_inv. rewrite partition_by_fast_eq. apply refine_fast_eq.
Qed.
Theorem canonicalize_with_fast_eq {P B} lam (m : mol P B) : canonicalize_with_fast lam m = canonicalize_with lam m.
Proof. unfold canonicalize_with_fast, canonicalize_with, canonicalize. rewrite classes_fast_eq. reflexivity. Qed.
Print Assumptions canonicalize_with_fast_eq.
