(* TotalProofs.v -- C15 (logical part): canonicalize + serialize never fail on a well-formed,
   non-empty molecule whose atomic numbers have element symbols. *)
From Coq Require Import List NArith ZArith Bool Lia Permutation.
Require Import Base Mol Partition Canon Final Text Token Serialize Pipeline
               SortProofs MolProofs PartitionProofs SameMol CanonProofs ViewProofs FinalProofs SerializeProofs TucanProofs FinalTotal.
Require Equitable.
Import ListNotations.

Definition known_elements {P B} (m : mol P B) : Prop := forall x, In x (atoms m) -> symbol_of (zn x) <> None.

Lemma all_some_total {A} (l : list (option A)) : (forall o, In o l -> o <> None) -> exists a, all_some l = Some a.
Proof.
  intros H. destruct (all_some l) as [a|] eqn:E; [exists a; reflexivity|].
  apply all_some_none in E. exfalso. apply (H None E). reflexivity.
Qed.

Lemma relabel_zns {P B} (g : N -> N) (m : mol P B) : map (@zn P) (atoms (relabel g m)) = map (@zn P) (atoms m).
Proof. unfold relabel; simpl. rewrite map_map. reflexivity. Qed.

Lemma known_elements_frame {P B} (m r : mol P B) : map frame (atoms r) = map frame (atoms m) -> known_elements m -> known_elements r.
Proof.
  intros Hf Hk x Hx.
  assert (Hz : In (zn x) (map (@zn P) (atoms m))).
  { assert (E : map (@zn P) (atoms r) = map (@zn P) (atoms m)).
    { apply (f_equal (map (fun p : N * N * option Z * option Z * P => snd (fst (fst (fst p)))))) in Hf. rewrite !map_map in Hf. exact Hf. }
    rewrite <- E. apply in_map, Hx. }
  rewrite in_map_iff in Hz. destruct Hz as (y & Ey & Hy). rewrite <- Ey. apply Hk, Hy.
Qed.

Lemma tokens_of_total {P B} (m : mol P B) : known_elements m -> exists ts, tokens_of m = Some ts.
Proof.
  intros Hk. unfold tokens_of.
  destruct (all_some_total (map (fun x => symbol_of (zn x)) (atoms m))) as [syms Es].
  - intros o Ho. rewrite in_map_iff in Ho. destruct Ho as (x & <- & Hx). apply Hk, Hx.
  - rewrite Es. eexists. reflexivity.
Qed.

Lemma known_elements_relabel {P B} (g : N -> N) (m : mol P B) : known_elements m -> known_elements (relabel g m).
Proof.
  intros Hk x Hx. unfold relabel in Hx; simpl in Hx. rewrite in_map_iff in Hx. destruct Hx as (y & <- & Hy).
  change (symbol_of (zn y) <> None). apply Hk, Hy.
Qed.

Theorem serialize_total {P B} (c : mol P B) : wfg c -> known_elements c -> exists s, serialize c = Some s.
Proof.
  intros Hwf Hk. unfold serialize, serialize_tokens.
  destruct (assign_final_labels_total c Hwf) as [m1 E1]. rewrite E1.
  unfold assign_final_labels in E1. destruct (final_labels c) as [o|]; [|discriminate]. inversion E1; subst m1.
  destruct (tokens_of_total (sort_by_Z (relabel (fun_of_map o) c))) as [ts Et].
  - unfold sort_by_Z. apply known_elements_relabel, known_elements_relabel, Hk.
  - rewrite Et. eexists. reflexivity.
Qed.

Theorem tucan_total {P B} canon (m : mol P B) :
  H1 canon -> wfg m -> atoms m <> [] -> known_elements m -> exists s, tucan canon m = Some s.
Proof.
  intros HH1 Hwf Hne Hk. unfold tucan.
  destruct (Equitable.refine_fuel_suffices P B m Hne) as [r Hr].
  assert (Ec : canonicalize canon m = Some (relabel (fun_of_map (canon (canon_vertices r) (canon_edges r))) r)).
  { unfold canonicalize. rewrite Hr. reflexivity. }
  rewrite Ec. apply serialize_total.
  - apply (canonicalize_wfg canon m _ HH1 Hwf Ec).
  - apply known_elements_relabel. apply (known_elements_frame m r); [apply (classes_frame m r Hr) | exact Hk].
Qed.
