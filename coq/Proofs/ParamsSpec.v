(* ParamsSpec.v -- side conditions tying the hand-written model to constants that are re-extracted
   from the Python source on every run (harness/gen_tables.py -> gen/Params.v, gen/Elements.v).
   The model hard-codes these choices; if the source changes one of them the model no longer
   describes the code and every property file that requires this file stops checking. *)
From Coq Require Import List NArith ZArith Bool String.
Require Params Elements Grammar.
Import ListNotations.
Open Scope string_scope.

(* graph_utils.attribute_sequence sorts the neighbour values with reverse=True (model: Ngeb / inv_geb) *)
Example nbr_sort_is_descending : Params.nbr_sort_reverse = true. Proof. reflexivity. Qed.
(* graph_utils.graph_from_molecule: INVARIANT_CODE = (atomic_number, mass or 0, rad or 0) (model: inv_code) *)
Example invariant_code_is_Z_mass_rad :
  Params.invariant_code_defs = [("ATOMIC_NUMBER", None); ("MASS", Some 0%Z); ("RAD", Some 0%Z)].
Proof. reflexivity. Qed.
(* serialization._assign_final_labels: traversal_priorities = (lt, gt, eq), consumed reversed (model: default_prios) *)
Example traversal_priorities_lt_gt_eq : Params.traversal_priorities = ["lt"; "gt"; "eq"]. Proof. reflexivity. Qed.
(* serialization._SERIALIZER_NODE_ATTRIBUTE_MAPPING: mass before rad, spelled "mass" / "rad" (model: prop_tokens) *)
Example serializer_keys_mass_rad : Params.serializer_keys = [("MASS", "mass"); ("RAD", "rad")]. Proof. reflexivity. Qed.
(* element table: 118 elements, hydrogen isotopes D/T, V2000 charge codes *)
Example element_count : List.length Elements.element_table = 118%nat. Proof. reflexivity. Qed.
Example hydrogen_isotopes_D_T : Elements.hydrogen_isotope_table = [("D", ("H", 2%Z)); ("T", ("H", 3%Z))]. Proof. reflexivity. Qed.
Example v2000_charge_codes : Elements.v2000_charge_table =
  [(1, (true, 3)); (2, (true, 2)); (3, (true, 1)); (4, (false, 2)); (5, (true, -1)); (6, (true, -2)); (7, (true, -3))]%Z.
Proof. reflexivity. Qed.
(* both grammar files say the same, and the non-table rules are the ones the reference reader was written from *)
Example grammar_files_agree :
  Grammar.with_carbon_g4 = Grammar.with_carbon_ebnf /\ Grammar.without_carbon_g4 = Grammar.without_carbon_ebnf /\
  Grammar.rest_matches_g4 = true /\ Grammar.rest_matches_ebnf = true.
Proof. repeat split; reflexivity. Qed.
