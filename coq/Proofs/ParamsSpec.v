(* ParamsSpec.v -- side conditions tying the hand-written model to constants that are re-extracted
   from the Python source on every run (harness/gen_tables.py -> gen/Params.v, gen/Elements.v).
   The model hard-codes these choices; if the source changes one of them the model no longer
   describes the code and every property file that requires this file stops checking. *)
From Coq Require Import List NArith ZArith Bool String.
Require Params Elements Grammar.
Require LogicSpec.   (* decisions (operators, offsets, sortedness) read from the Python AST: gen/Logic.v *)
Import ListNotations.
Open Scope string_scope.

(* graph_utils.attribute_sequence sorts the neighbour values with reverse=True (model: Ngeb / inv_geb) *)
Example nbr_sort_is_descending : Params.nbr_sort_reverse = true. Proof. reflexivity. Qed.
(* graph_utils.graph_from_molecule: INVARIANT_CODE = (atomic_number, mass or 0, rad or 0) (model: inv_code) *)
Example invariant_code_is_Z_mass_rad :
  Params.invariant_code_defs = [("ATOMIC_NUMBER", None); ("MASS", Some 0%Z); ("RAD", Some 0%Z)].
Proof. reflexivity. Qed.
(* serialization._assign_final_labels: traversal_priorities = (lt, gt, eq), consumed reversed (model: default_prios) *)
Example traversal_priorities_lt_gt_eq : Params.traversal_priorities = ["lt"; "gt"; "eq"]. Proof. reflexivity. Qed.
(* serialization._SERIALIZER_NODE_ATTRIBUTE_MAPPING: mass before rad, spelled "mass" / "rad" (model: prop_tokens) *)
Example serializer_keys_mass_rad : Params.serializer_keys = [("MASS", "mass"); ("RAD", "rad")]. Proof. reflexivity. Qed.
(* element table: 118 elements, hydrogen isotopes D/T, V2000 charge codes *)
Example element_count : List.length Elements.element_table = 118%nat. Proof. reflexivity. Qed.
(* the periodic table itself, written down here independently of the source: symbol <-> atomic number *)
Definition periodic_table : list (string * N) :=
  [("H", 1%N);
   ("He", 2%N);
   ("Li", 3%N);
   ("Be", 4%N);
   ("B", 5%N);
   ("C", 6%N);
   ("N", 7%N);
   ("O", 8%N);
   ("F", 9%N);
   ("Ne", 10%N);
   ("Na", 11%N);
   ("Mg", 12%N);
   ("Al", 13%N);
   ("Si", 14%N);
   ("P", 15%N);
   ("S", 16%N);
   ("Cl", 17%N);
   ("Ar", 18%N);
   ("K", 19%N);
   ("Ca", 20%N);
   ("Sc", 21%N);
   ("Ti", 22%N);
   ("V", 23%N);
   ("Cr", 24%N);
   ("Mn", 25%N);
   ("Fe", 26%N);
   ("Co", 27%N);
   ("Ni", 28%N);
   ("Cu", 29%N);
   ("Zn", 30%N);
   ("Ga", 31%N);
   ("Ge", 32%N);
   ("As", 33%N);
   ("Se", 34%N);
   ("Br", 35%N);
   ("Kr", 36%N);
   ("Rb", 37%N);
   ("Sr", 38%N);
   ("Y", 39%N);
   ("Zr", 40%N);
   ("Nb", 41%N);
   ("Mo", 42%N);
   ("Tc", 43%N);
   ("Ru", 44%N);
   ("Rh", 45%N);
   ("Pd", 46%N);
   ("Ag", 47%N);
   ("Cd", 48%N);
   ("In", 49%N);
   ("Sn", 50%N);
   ("Sb", 51%N);
   ("Te", 52%N);
   ("I", 53%N);
   ("Xe", 54%N);
   ("Cs", 55%N);
   ("Ba", 56%N);
   ("La", 57%N);
   ("Ce", 58%N);
   ("Pr", 59%N);
   ("Nd", 60%N);
   ("Pm", 61%N);
   ("Sm", 62%N);
   ("Eu", 63%N);
   ("Gd", 64%N);
   ("Tb", 65%N);
   ("Dy", 66%N);
   ("Ho", 67%N);
   ("Er", 68%N);
   ("Tm", 69%N);
   ("Yb", 70%N);
   ("Lu", 71%N);
   ("Hf", 72%N);
   ("Ta", 73%N);
   ("W", 74%N);
   ("Re", 75%N);
   ("Os", 76%N);
   ("Ir", 77%N);
   ("Pt", 78%N);
   ("Au", 79%N);
   ("Hg", 80%N);
   ("Tl", 81%N);
   ("Pb", 82%N);
   ("Bi", 83%N);
   ("Po", 84%N);
   ("At", 85%N);
   ("Rn", 86%N);
   ("Fr", 87%N);
   ("Ra", 88%N);
   ("Ac", 89%N);
   ("Th", 90%N);
   ("Pa", 91%N);
   ("U", 92%N);
   ("Np", 93%N);
   ("Pu", 94%N);
   ("Am", 95%N);
   ("Cm", 96%N);
   ("Bk", 97%N);
   ("Cf", 98%N);
   ("Es", 99%N);
   ("Fm", 100%N);
   ("Md", 101%N);
   ("No", 102%N);
   ("Lr", 103%N);
   ("Rf", 104%N);
   ("Db", 105%N);
   ("Sg", 106%N);
   ("Bh", 107%N);
   ("Hs", 108%N);
   ("Mt", 109%N);
   ("Ds", 110%N);
   ("Rg", 111%N);
   ("Cn", 112%N);
   ("Nh", 113%N);
   ("Fl", 114%N);
   ("Mc", 115%N);
   ("Lv", 116%N);
   ("Ts", 117%N);
   ("Og", 118%N)].
Example element_table_is_periodic_table : Elements.element_table = periodic_table. Proof. reflexivity. Qed.
Example hydrogen_isotopes_D_T : Elements.hydrogen_isotope_table = [("D", ("H", 2%Z)); ("T", ("H", 3%Z))]. Proof. reflexivity. Qed.
Example v2000_charge_codes : Elements.v2000_charge_table =
  [(1, (true, 3)); (2, (true, 2)); (3, (true, 1)); (4, (false, 2)); (5, (true, -1)); (6, (true, -2)); (7, (true, -3))]%Z.
Proof. reflexivity. Qed.
(* both grammar files say the same, and the non-table rules are the ones the reference reader was written from *)
Example grammar_files_agree :
  Grammar.with_carbon_g4 = Grammar.with_carbon_ebnf /\ Grammar.without_carbon_g4 = Grammar.without_carbon_ebnf /\
  Grammar.rest_matches_g4 = true /\ Grammar.rest_matches_ebnf = true.
Proof. repeat split; reflexivity. Qed.
(* the ANTLR-generated recogniser (not modelled) carries the rule names and literals of this grammar *)
Example generated_parser_matches_grammar :
  Grammar.generated_parser_rule_names_match = true /\ Grammar.generated_parser_literals_match = true.
Proof. split; reflexivity. Qed.
