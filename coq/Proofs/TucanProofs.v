(* TucanProofs.v -- C01: the TUCAN string does not depend on the description of the molecule. *)
From Coq Require Import List NArith ZArith Bool Lia Permutation.
Require Import Base Mol Partition Canon Final Text Token Serialize Pipeline
               SortProofs MolProofs PartitionProofs SameMol CanonProofs ViewProofs CanonView FinalProofs SerializeProofs.
Import ListNotations.

Lemma canonicalize_wfg {P B} canon (m c : mol P B) : H1 canon -> wfg m -> canonicalize canon m = Some c -> wfg c.
Proof.
  intros HH1 Hwf Hc. unfold canonicalize in Hc. destruct (classes m) as [r|] eqn:Hr; [|discriminate].
  inversion Hc; subst c. pose proof (classes_wfg m r Hr Hwf) as Hwr.
  apply relabel_wfg; [exact Hwr|].
  destruct (HH1 _ _ (wfg_wfc r Hwr)) as [Hinj _]. rewrite canon_vertices_fst in Hinj. exact Hinj.
Qed.

Section Invariance.
  Variable canon : list (N * N) -> list (N * N) -> list (N * N).
  Hypothesis HH1 : H1 canon.
  Hypothesis HH2 : H2 canon.
  Context {P B P' B' : Type}.
  Variable f : N -> N.
  Variable m : mol P B.
  Variable m' : mol P' B'.
  Hypothesis Hwf : wfg m.
  Hypothesis HS : SameMol f m m'.
  Hypothesis Hnz : forall x, In x (atoms m) -> nozero x.

  Theorem tucan_tokens_invariant : tucan_tokens canon m = tucan_tokens canon m'.
  Proof.
    unfold tucan_tokens.
    pose proof (canonical_graph_unique canon HH2 f m m' Hwf HS Hnz) as HU.
    destruct (canonicalize canon m) as [c|] eqn:Ec, (canonicalize canon m') as [c'|] eqn:Ec'; try contradiction; [|reflexivity].
    apply serialize_tokens_view; [|exact HU]. apply (canonicalize_wfg canon m c HH1 Hwf Ec).
  Qed.
  Theorem tucan_invariant : tucan canon m = tucan canon m'.
  Proof.
    unfold tucan.
    pose proof (canonical_graph_unique canon HH2 f m m' Hwf HS Hnz) as HU.
    destruct (canonicalize canon m) as [c|] eqn:Ec, (canonicalize canon m') as [c'|] eqn:Ec'; try contradiction; [|reflexivity].
    apply serialize_view; [|exact HU]. apply (canonicalize_wfg canon m c HH1 Hwf Ec).
  Qed.
End Invariance.
