(* Layout.v -- C05: the canonical layout of the abstract syntax tree that the serializer's last
   stage emits (AstOf.ast_of) for a serializer-ready graph.

   "a Hill-order sum formula that equals the molecule's element counts, then bond tuples, then
    optional attribute blocks with strictly positive values.  Atom indices run 1..n in blocks of
    increasing atomic number, each bond appears exactly once as (a-b) with a<b, tuples are in
    ascending order, and attribute blocks appear once per labelled atom in ascending index order."

   Main results
     layout_ok        : the record of all layout facts, with one field per clause
     ast_of_layout    : ser_ready m -> syms_of m = Some syms -> layout_ok m (ast_of m syms)
     bond_exactly_once, element_count_total : consequences spelled out
     Example.*        : ethanol with a mass label and a radical, as a non-vacuity witness *)
From Coq Require Import List NArith ZArith Bool Lia Permutation Sorting.Sorted String.
Require Import Base Mol Partition Final Text Token Serialize Parse.
Require Import MolProofs ViewProofs AstOf.
Require SortProofs SerializeProofs ParseProofs SemSer ParseSer.
Import ListNotations.

(* ====================================================================== *)
(* 0.  Vocabulary of the layout                                            *)
(* ====================================================================== *)
(* a bond with (0-based) normalised ends e is written as this 1-based tuple *)
Definition tuple_of (e : N * N) : Z * Z := (Z.of_N (fst e) + 1, Z.of_N (snd e) + 1)%Z.
(* the index under which an atom is written *)
Definition index_of_atom {P} (x : atom P) : Z := (Z.of_N (lbl x) + 1)%Z.
(* strict lexicographic order on tuples *)
Definition tuple_lt (p q : Z * Z) : Prop := (fst p < fst q \/ (fst p = fst q /\ snd p < snd q))%Z.
(* the three possible property lists of a block: mass before rad, each key at most once *)
Definition block_shape (ps : list (key * Z)) : Prop :=
  (exists v, ps = [(KMass, v)]) \/ (exists w, ps = [(KRad, w)]) \/ (exists v w, ps = [(KMass, v); (KRad, w)]).

Record layout_ok {P B} (m : mol P B) (a : ast) : Prop := mkLayout {
  (* ---- 1. sum formula ---- *)
  lo_formula_hill_order : formula_ok (items a) = true;
  lo_formula_counts_positive : forall z c, In (z, c) (items a) -> (1 <= c)%Z;
  lo_formula_elements_once : NoDup (map fst (items a));
  lo_formula_is_atoms : Permutation (expand (items a)) (map (@zn P) (atoms m));
  lo_formula_counts : forall z c, In (z, c) (items a) ->
      Z.of_nat (count_occ N.eq_dec (map (@zn P) (atoms m)) z) = c;
  lo_formula_elements_all : forall x, In x (atoms m) -> In (zn x) (map fst (items a));
  lo_formula_total : length (expand (items a)) = length (atoms m);
  (* ---- 2. bond tuples ---- *)
  lo_tuples_length : length (tuples a) = length (bonds m);
  lo_tuples_range : forall u v, In (u, v) (tuples a) -> (1 <= u /\ u < v /\ v <= Z.of_nat (length (atoms m)))%Z;
  lo_tuples_ascending : StronglySorted tuple_lt (tuples a);
  lo_tuples_nodup : NoDup (tuples a);
  lo_bond_has_tuple : forall b, In b (bonds m) -> In (tuple_of (nbond b)) (tuples a);
  lo_tuple_has_bond : forall p, In p (tuples a) -> exists b, In b (bonds m) /\ p = tuple_of (nbond b);
  (* ---- 3. attribute blocks ---- *)
  lo_blocks_ascending : StronglySorted Z.lt (map fst (blocks a));
  lo_blocks_range : forall i ps, In (i, ps) (blocks a) -> (1 <= i <= Z.of_nat (length (atoms m)))%Z;
  lo_block_iff_labelled : forall x, In x (atoms m) ->
      (props_of x <> [] <-> In (index_of_atom x) (map fst (blocks a)));
  lo_block_has_atom : forall i ps, In (i, ps) (blocks a) ->
      exists x, In x (atoms m) /\ i = index_of_atom x /\ ps = props_of x /\ props_of x <> [];
  lo_atom_has_block : forall x, In x (atoms m) -> props_of x <> [] -> In (index_of_atom x, props_of x) (blocks a);
  lo_block_shape : forall i ps, In (i, ps) (blocks a) -> block_shape ps;
  lo_block_values_positive : forall i ps k v, In (i, ps) (blocks a) -> In (k, v) ps -> (1 <= v)%Z;
  (* ---- 4. atom numbering ---- *)
  lo_indices_run : map (@index_of_atom P) (isort (@atom_leb P) (atoms m))
                   = map (fun i => (Z.of_N i + 1)%Z) (N_seq 0 (length (atoms m)));
  lo_atomic_numbers_ascend : Sorted N.le (map (@zn P) (isort (@atom_leb P) (atoms m)))
}.

(* ====================================================================== *)
(* 1.  Small list facts                                                    *)
(* ====================================================================== *)
Lemma NoDup_map_inj_in {A C} (f : A -> C) l :
  (forall x y, In x l -> In y l -> f x = f y -> x = y) -> NoDup l -> NoDup (map f l).
Proof.
  intros Hinj ND. induction ND as [|a l Hn ND IH]; simpl; constructor.
  - intros H. apply in_map_iff in H. destruct H as (y & E & Hy).
    apply Hn. rewrite (Hinj a y); [exact Hy | left; reflexivity | right; exact Hy | symmetry; exact E].
  - apply IH. intros x y Hx Hy. apply Hinj; right; assumption.
Qed.

Lemma SSorted_map {A C} (R : A -> A -> Prop) (R' : C -> C -> Prop) (f : A -> C) l :
  (forall x y, In x l -> In y l -> R x y -> R' (f x) (f y)) ->
  StronglySorted R l -> StronglySorted R' (map f l).
Proof.
  intros H HS. induction HS as [|x l HS IH HF]; simpl; constructor.
  - apply IH. intros a b Ha Hb. apply H; right; assumption.
  - rewrite Forall_forall in *. intros y Hy. apply in_map_iff in Hy. destruct Hy as (a & <- & Ha).
    apply H; [left; reflexivity | right; exact Ha | apply HF, Ha].
Qed.

(* a duplicate-free list sorted by a reflexive order is sorted by its strict part *)
Lemma SSorted_strict {A} (R R' : A -> A -> Prop) l :
  (forall x y, R x y -> x <> y -> R' x y) -> NoDup l -> StronglySorted R l -> StronglySorted R' l.
Proof.
  intros H ND HS. induction HS as [|x l HS IH HF]; constructor; inversion ND as [|? ? Hn ND']; subst.
  - apply IH, ND'.
  - rewrite Forall_forall in *. intros y Hy. apply H; [apply HF, Hy|]. intros ->. contradiction.
Qed.

(* a list sorted by an irreflexive order has no duplicates *)
Lemma SSorted_NoDup {A} (R : A -> A -> Prop) l :
  (forall x, ~ R x x) -> StronglySorted R l -> NoDup l.
Proof.
  intros Hirr HS. induction HS as [|x l HS IH HF]; constructor; [|exact IH].
  intros Hx. rewrite Forall_forall in HF. exact (Hirr x (HF x Hx)).
Qed.

Lemma Sorted_impl {A} (R R' : A -> A -> Prop) l :
  (forall x y, R x y -> R' x y) -> Sorted R l -> Sorted R' l.
Proof.
  intros H HS. induction HS as [|x l HS IH Hhd]; constructor; [exact IH|].
  destruct Hhd; constructor. apply H. assumption.
Qed.

Lemma N_seq_strict i n : StronglySorted N.lt (N_seq i n).
Proof.
  revert i. induction n as [|n IH]; intros i; simpl; constructor; [apply IH|].
  rewrite Forall_forall. intros x Hx. apply SerializeProofs.N_seq_in in Hx. lia.
Qed.

(* ====================================================================== *)
(* 2.  Counting in an expanded formula                                     *)
(* ====================================================================== *)
Lemma expand_cons z c it : expand ((z, c) :: it) = repeat z (Z.to_nat c) ++ expand it.
Proof. reflexivity. Qed.

Lemma In_expand it z : In z (expand it) -> In z (map fst it).
Proof.
  induction it as [|[z' c'] it IH]; [intros []|]. rewrite expand_cons, in_app_iff. intros [H|H].
  - apply repeat_spec in H. left. symmetry. exact H.
  - right. apply IH, H.
Qed.

Lemma count_occ_expand it z c : NoDup (map fst it) -> In (z, c) it ->
  count_occ N.eq_dec (expand it) z = Z.to_nat c.
Proof.
  induction it as [|[z' c'] it IH]; intros ND Hin; [destruct Hin|].
  simpl map in ND. inversion ND as [|? ? Hn ND']; subst.
  rewrite expand_cons, count_occ_app. destruct Hin as [E|Hin].
  - inversion E; subst z' c'. rewrite count_occ_repeat_eq by reflexivity.
    assert (H0 : count_occ N.eq_dec (expand it) z = 0%nat).
    { apply count_occ_not_In. intros H. apply Hn, In_expand, H. }
    rewrite H0. lia.
  - assert (Hne : z <> z').
    { intros ->. apply Hn. apply (in_map fst) in Hin. exact Hin. }
    rewrite count_occ_repeat_neq by exact Hne. rewrite (IH ND' Hin). reflexivity.
Qed.

(* ====================================================================== *)
(* 3.  The formula                                                         *)
(* ====================================================================== *)
Lemma ast_items_In syms z c : In (z, c) (ast_items syms) ->
  exists s, In s syms /\ z_of_symbol s = Some z /\ c = Z.of_N (count_text s syms).
Proof.
  unfold ast_items. intros H. apply in_flat_map in H. destruct H as (s & Hs & H).
  apply ParseSer.hill_syms_incl in Hs. exists s. split; [exact Hs|].
  destruct (z_of_symbol s) as [z'|]; [|destruct H]. destruct H as [E|[]]. inversion E; subst. auto.
Qed.

Lemma ast_items_counts_positive syms z c : In (z, c) (ast_items syms) -> (1 <= c)%Z.
Proof.
  intros H. apply ast_items_In in H. destruct H as (s & Hs & _ & ->).
  pose proof (ParseSer.count_text_pos s syms Hs). lia.
Qed.

Lemma ast_items_elements_once syms : ParseSer.known syms -> NoDup (map fst (ast_items syms)).
Proof.
  intros K. rewrite (ParseSer.ast_items_fst syms K).
  apply NoDup_map_inj_in; [|apply SemSer.hill_syms_NoDup].
  intros x y Hx Hy E. apply ParseSer.hill_syms_incl in Hx, Hy.
  pose proof (ParseSer.known_zof syms x K Hx) as Ex. pose proof (ParseSer.known_zof syms y K Hy) as Ey.
  rewrite E in Ex. apply ParseProofs.z_of_symbol_symbol_of in Ex, Ey. congruence.
Qed.

(* ====================================================================== *)
(* 4.  The strict order on normalised bonds and on tuples                  *)
(* ====================================================================== *)
Lemma norm_pair_le e : (fst (norm_pair e) <= snd (norm_pair e))%N.
Proof.
  destruct e as [a b]; unfold norm_pair; simpl. destruct (N.leb a b) eqn:E; simpl.
  - apply N.leb_le, E.
  - apply N.leb_gt in E. lia.
Qed.

Lemma pair_leb_strict a b : pair_leb a b = true -> a <> b -> tuple_lt (tuple_of a) (tuple_of b).
Proof.
  destruct a as [a1 a2], b as [b1 b2]. unfold pair_leb, tuple_lt, tuple_of. simpl. intros H Hne.
  destruct (N.ltb_spec a1 b1) as [Hlt|Hge]; [left; lia|].
  destruct (N.eqb_spec a1 b1) as [->|Hn]; [|discriminate].
  apply N.leb_le in H. right. split; [reflexivity|].
  assert (a2 <> b2) by (intros ->; apply Hne; reflexivity). lia.
Qed.

Lemma tuple_lt_irrefl p : ~ tuple_lt p p.
Proof. unfold tuple_lt. lia. Qed.

Lemma tuple_of_inj a b : tuple_of a = tuple_of b -> a = b.
Proof.
  destruct a as [a1 a2], b as [b1 b2]. unfold tuple_of. simpl. intros E. inversion E. f_equal; lia.
Qed.

(* ====================================================================== *)
(* 5.  Attribute blocks                                                    *)
(* ====================================================================== *)
Definition block_of {P} (x : atom P) : list (Z * list (key * Z)) :=
  match props_of x with [] => [] | ps => [(index_of_atom x, ps)] end.

Lemma ast_blocks_as_block_of {P B} (m : mol P B) :
  ast_blocks m = flat_map block_of (isort (@atom_leb P) (atoms m)).
Proof. reflexivity. Qed.

Lemma In_block_of {P} (x : atom P) i ps :
  In (i, ps) (block_of x) <-> i = index_of_atom x /\ ps = props_of x /\ props_of x <> [].
Proof.
  unfold block_of. destruct (props_of x) as [|p r] eqn:E; simpl.
  - split; [intros [] | intros (_ & _ & H); apply H; reflexivity].
  - split.
    + intros [H|[]]. inversion H; subst. split; [reflexivity|]. split; [reflexivity | discriminate].
    + intros (-> & -> & _). left; reflexivity.
Qed.

Lemma In_blocks_list {P} (l : list (atom P)) i ps :
  In (i, ps) (flat_map block_of l) <->
  exists x, In x l /\ i = index_of_atom x /\ ps = props_of x /\ props_of x <> [].
Proof.
  rewrite in_flat_map. split; intros (x & Hx & H); exists x; (split; [exact Hx|]); apply In_block_of; exact H.
Qed.

Lemma blocks_list_ascending {P} (l : list (atom P)) :
  StronglySorted N.lt (map (@lbl P) l) -> StronglySorted Z.lt (map fst (flat_map block_of l)).
Proof.
  induction l as [|a l IH]; simpl; intros HS; [constructor|].
  apply StronglySorted_inv in HS. destruct HS as [HS HF].
  rewrite map_app. unfold block_of at 1. destruct (props_of a) as [|p r]; simpl; [apply IH, HS|].
  constructor; [apply IH, HS|].
  rewrite Forall_forall in *. intros j Hj. apply in_map_iff in Hj. destruct Hj as ([i ps] & <- & Hin).
  apply In_blocks_list in Hin. destruct Hin as (x & Hx & -> & _). simpl.
  pose proof (HF (lbl x) (in_map _ _ _ Hx)). unfold index_of_atom. lia.
Qed.

Lemma props_of_shape {P} (x : atom P) : props_of x <> [] -> block_shape (props_of x).
Proof.
  unfold props_of, block_shape. destruct (mass x) as [v|], (rad x) as [w|]; simpl; intros H.
  - right; right. exists v, w. reflexivity.
  - left. exists v. reflexivity.
  - right; left. exists w. reflexivity.
  - destruct H. reflexivity.
Qed.

(* ====================================================================== *)
(* 6.  The layout of a serializer-ready graph                              *)
(* ====================================================================== *)
Section Layout.
  Context {P B : Type}.
  Variable m : mol P B.
  Variable syms : list text.
  Hypothesis Hready : ser_ready m.
  Hypothesis Hsyms : syms_of m = Some syms.

  Let n := length (atoms m).
  Let L := isort (@atom_leb P) (atoms m).
  Let Sb := isort pair_leb (map nbond (bonds m)).

  Lemma syms_known : ParseSer.known syms.
  Proof. exact (ParseSer.syms_of_known m syms Hsyms). Qed.

  (* ---------------- 1. formula ---------------- *)
  Theorem formula_hill_order : formula_ok (ast_items syms) = true.
  Proof. apply ParseSer.formula_ok_ast_items, syms_known. Qed.

  Theorem formula_counts_positive z c : In (z, c) (ast_items syms) -> (1 <= c)%Z.
  Proof. apply ast_items_counts_positive. Qed.

  Theorem formula_elements_once : NoDup (map fst (ast_items syms)).
  Proof. apply ast_items_elements_once, syms_known. Qed.

  Theorem formula_is_atoms : Permutation (expand (ast_items syms)) (map (@zn P) (atoms m)).
  Proof. exact (SemSer.expand_items_perm m syms Hsyms). Qed.

  Theorem formula_counts z c : In (z, c) (ast_items syms) ->
    Z.of_nat (count_occ N.eq_dec (map (@zn P) (atoms m)) z) = c.
  Proof.
    intros H.
    rewrite <- (proj1 (Permutation_count_occ N.eq_dec _ _) formula_is_atoms z).
    rewrite (count_occ_expand _ z c formula_elements_once H).
    pose proof (formula_counts_positive z c H). lia.
  Qed.

  Theorem formula_elements_all x : In x (atoms m) -> In (zn x) (map fst (ast_items syms)).
  Proof.
    intros Hx. apply In_expand.
    apply (Permutation_in _ (Permutation_sym formula_is_atoms)). apply in_map, Hx.
  Qed.

  Theorem formula_total : length (expand (ast_items syms)) = n.
  Proof. exact (SemSer.expand_items_length m syms Hsyms). Qed.

  (* ---------------- 2. tuples ---------------- *)
  Lemma S_in e : In e Sb <-> exists b, In b (bonds m) /\ e = nbond b.
  Proof.
    unfold Sb. rewrite SortProofs.isort_in, in_map_iff. split; intros (b & H1 & H2); exists b; auto.
  Qed.

  Lemma S_ascending : StronglySorted (fun a b => pair_leb a b = true) Sb.
  Proof.
    apply Sorted_StronglySorted.
    - intros a b c. apply SerializeProofs.pair_leb_trans.
    - exact (SortProofs.isort_sorted (N * N) pair_leb SerializeProofs.pair_leb_total (map nbond (bonds m))).
  Qed.

  Theorem tuples_length : length (ast_tuples m) = length (bonds m).
  Proof. unfold ast_tuples. rewrite map_length, SortProofs.isort_length, map_length. reflexivity. Qed.

  Lemma ast_tuples_eq : ast_tuples m = map tuple_of Sb.
  Proof. reflexivity. Qed.

  Theorem tuple_has_bond p : In p (ast_tuples m) -> exists b, In b (bonds m) /\ p = tuple_of (nbond b).
  Proof.
    rewrite ast_tuples_eq, in_map_iff. intros (e & <- & He). apply S_in in He.
    destruct He as (b & Hb & ->). exists b. auto.
  Qed.

  Theorem bond_has_tuple b : In b (bonds m) -> In (tuple_of (nbond b)) (ast_tuples m).
  Proof.
    intros Hb. rewrite ast_tuples_eq. apply in_map. apply S_in. exists b. auto.
  Qed.

  Theorem tuples_range u v : In (u, v) (ast_tuples m) -> (1 <= u /\ u < v /\ v <= Z.of_nat n)%Z.
  Proof.
    intros H. apply tuple_has_bond in H. destruct H as (b & Hb & E).
    unfold tuple_of in E. inversion E; subst u v. clear E.
    destruct (SemSer.nbond_facts m Hready b Hb) as (Hne & Hu & Hv).
    apply (SemSer.label_lt m Hready) in Hv.
    pose proof (norm_pair_le (ends b)) as Hle. fold (nbond b) in Hle. fold n in Hv. lia.
  Qed.

  Theorem tuples_ascending : StronglySorted tuple_lt (ast_tuples m).
  Proof.
    rewrite ast_tuples_eq.
    apply (SSorted_map (fun a b => pair_leb a b = true /\ a <> b)); [intros x y _ _ [H1 H2]; apply pair_leb_strict; assumption|].
    apply (SSorted_strict (fun a b => pair_leb a b = true)); [auto | exact (SemSer.S_nodup m Hready) | exact S_ascending].
  Qed.

  Theorem tuples_nodup : NoDup (ast_tuples m).
  Proof. exact (SSorted_NoDup tuple_lt _ tuple_lt_irrefl tuples_ascending). Qed.

  (* ---------------- 4. numbering (used by 3) ---------------- *)
  Lemma L_in x : In x L <-> In x (atoms m).
  Proof. apply SortProofs.isort_in. Qed.

  Theorem labels_run : map (@lbl P) L = N_seq 0 n.
  Proof. exact (SemSer.L_lbl m Hready). Qed.

  Theorem indices_run : map (@index_of_atom P) L = map (fun i => (Z.of_N i + 1)%Z) (N_seq 0 n).
  Proof. rewrite <- labels_run, map_map. reflexivity. Qed.

  Theorem atomic_numbers_ascend : Sorted N.le (map (@zn P) L).
  Proof.
    apply (Sorted_impl (fun x y => Nleb x y = true)); [intros x y H; apply N.leb_le, H|].
    exact (SemSer.L_zn_sorted m Hready).
  Qed.

  Lemma index_range x : In x (atoms m) -> (1 <= index_of_atom x <= Z.of_nat n)%Z.
  Proof.
    intros Hx. assert (H : In (lbl x) (labels m)) by (apply in_map, Hx).
    apply (SemSer.label_lt m Hready) in H. fold n in H. unfold index_of_atom. lia.
  Qed.

  Lemma index_inj x y : In x (atoms m) -> In y (atoms m) -> index_of_atom x = index_of_atom y -> x = y.
  Proof.
    intros Hx Hy E. apply (SemSer.lbl_inj m Hready); [exact Hx | exact Hy|]. unfold index_of_atom in E. lia.
  Qed.

  (* ---------------- 3. blocks ---------------- *)
  Lemma ast_blocks_In i ps : In (i, ps) (ast_blocks m) <->
    exists x, In x (atoms m) /\ i = index_of_atom x /\ ps = props_of x /\ props_of x <> [].
  Proof.
    rewrite ast_blocks_as_block_of, In_blocks_list. fold L.
    split; intros (x & Hx & H); exists x; (split; [apply L_in, Hx | exact H]).
  Qed.

  Theorem blocks_ascending : StronglySorted Z.lt (map fst (ast_blocks m)).
  Proof.
    rewrite ast_blocks_as_block_of. apply blocks_list_ascending. fold L.
    rewrite labels_run. apply N_seq_strict.
  Qed.

  Theorem blocks_range i ps : In (i, ps) (ast_blocks m) -> (1 <= i <= Z.of_nat n)%Z.
  Proof. intros H. apply ast_blocks_In in H. destruct H as (x & Hx & -> & _). apply index_range, Hx. Qed.

  Theorem block_has_atom i ps : In (i, ps) (ast_blocks m) ->
    exists x, In x (atoms m) /\ i = index_of_atom x /\ ps = props_of x /\ props_of x <> [].
  Proof. apply ast_blocks_In. Qed.

  Theorem atom_has_block x : In x (atoms m) -> props_of x <> [] -> In (index_of_atom x, props_of x) (ast_blocks m).
  Proof. intros Hx Hp. apply ast_blocks_In. exists x. auto. Qed.

  Theorem block_iff_labelled x : In x (atoms m) ->
    (props_of x <> [] <-> In (index_of_atom x) (map fst (ast_blocks m))).
  Proof.
    intros Hx. split.
    - intros Hp. apply in_map_iff. exists (index_of_atom x, props_of x). split; [reflexivity | apply atom_has_block; assumption].
    - intros H. apply in_map_iff in H. destruct H as ([i ps] & E & H). simpl in E. subst i.
      apply ast_blocks_In in H. destruct H as (y & Hy & E & _ & Hp).
      rewrite (index_inj x y Hx Hy E). exact Hp.
  Qed.

  Theorem block_shape_ok i ps : In (i, ps) (ast_blocks m) -> block_shape ps.
  Proof. intros H. apply ast_blocks_In in H. destruct H as (x & _ & _ & -> & Hp). apply props_of_shape, Hp. Qed.

  Theorem block_values_positive i ps k v : In (i, ps) (ast_blocks m) -> In (k, v) ps -> (1 <= v)%Z.
  Proof.
    intros H Hk. apply ast_blocks_In in H. destruct H as (x & Hx & _ & -> & _).
    destruct Hready as (_ & _ & _ & _ & Hpos). destruct (Hpos x Hx) as [Hm Hr].
    apply SemSer.In_props_of in Hk. destruct Hk as [[_ E]|[_ E]]; [apply Hm, E | apply Hr, E].
  Qed.

  (* ---------------- 5. the package ---------------- *)
  Theorem ast_of_layout_section : layout_ok m (ast_of m syms).
  Proof.
    constructor; cbn [items tuples blocks ast_of].
    - exact formula_hill_order.
    - exact formula_counts_positive.
    - exact formula_elements_once.
    - exact formula_is_atoms.
    - exact formula_counts.
    - exact formula_elements_all.
    - exact formula_total.
    - exact tuples_length.
    - exact tuples_range.
    - exact tuples_ascending.
    - exact tuples_nodup.
    - exact bond_has_tuple.
    - exact tuple_has_bond.
    - exact blocks_ascending.
    - exact blocks_range.
    - exact block_iff_labelled.
    - exact block_has_atom.
    - exact atom_has_block.
    - exact block_shape_ok.
    - exact block_values_positive.
    - exact indices_run.
    - exact atomic_numbers_ascend.
  Qed.
End Layout.

(* ====================================================================== *)
(* 7.  Main theorem and consequences                                       *)
(* ====================================================================== *)
Theorem ast_of_layout : forall P B (m : mol P B) syms,
  ser_ready m -> syms_of m = Some syms -> layout_ok m (ast_of m syms).
Proof. intros P B m syms Hr Hs. exact (ast_of_layout_section m syms Hr Hs). Qed.

(* "each bond appears exactly once": the tuple of a bond occurs exactly once in the tuple list *)
Definition ZZ_eq_dec (p q : Z * Z) : {p = q} + {p <> q}.
Proof. decide equality; apply Z.eq_dec. Defined.

Corollary bond_exactly_once : forall P B (m : mol P B) a, layout_ok m a ->
  forall b, In b (bonds m) -> count_occ ZZ_eq_dec (tuples a) (tuple_of (nbond b)) = 1%nat.
Proof.
  intros P B m a H b Hb.
  apply (proj1 (NoDup_count_occ' ZZ_eq_dec (tuples a)) (lo_tuples_nodup m a H)).
  apply (lo_bond_has_tuple m a H), Hb.
Qed.

(* and two bonds share a tuple only if they join the same two atoms *)
Corollary tuple_determines_bond : forall P B (m : mol P B) (b b' : N * N * B),
  tuple_of (nbond b) = tuple_of (nbond b') -> nbond b = nbond b'.
Proof. intros P B m b b'. apply tuple_of_inj. Qed.

(* "equals the molecule's element counts", for every atomic number: the count written for z, or 0
   when z is not written, is the number of atoms with atomic number z *)
Definition written_count (it : list (N * Z)) (z : N) : Z :=
  match find (fun p => N.eqb (fst p) z) it with Some p => snd p | None => 0%Z end.

Corollary element_count_total : forall P B (m : mol P B) a, layout_ok m a ->
  forall z, written_count (items a) z = Z.of_nat (count_occ N.eq_dec (map (@zn P) (atoms m)) z).
Proof.
  intros P B m a H z. unfold written_count.
  destruct (find (fun p => N.eqb (fst p) z) (items a)) as [[z' c]|] eqn:E.
  - apply find_some in E. destruct E as [Hin E]. simpl in E. apply N.eqb_eq in E. subst z'.
    simpl. symmetry. apply (lo_formula_counts m a H), Hin.
  - assert (Hn : ~ In z (map (@zn P) (atoms m))).
    { intros Hz. apply in_map_iff in Hz. destruct Hz as (x & <- & Hx).
      pose proof (lo_formula_elements_all m a H x Hx) as Hi. apply in_map_iff in Hi.
      destruct Hi as (p & Ep & Hp). pose proof (find_none _ _ E p Hp) as Hf. simpl in Hf.
      rewrite Ep, N.eqb_refl in Hf. discriminate. }
    apply (count_occ_not_In N.eq_dec) in Hn. rewrite Hn. reflexivity.
Qed.

(* tuples and blocks only mention indices of the formula's atoms *)
Corollary indices_within_formula : forall P B (m : mol P B) a, layout_ok m a ->
  (forall u v, In (u, v) (tuples a) -> (v <= Z.of_nat (length (expand (items a))))%Z) /\
  (forall i ps, In (i, ps) (blocks a) -> (i <= Z.of_nat (length (expand (items a))))%Z).
Proof.
  intros P B m a H. rewrite (lo_formula_total m a H). split.
  - intros u v Hin. apply (lo_tuples_range m a H u v Hin).
  - intros i ps Hin. apply (lo_blocks_range m a H i ps Hin).
Qed.

(* the reader's side of clause 4: the graph that the listener semantics builds from the tree has
   the labels 0..n-1 in listing order, and its atomic numbers are those of m by ascending label,
   hence non-decreasing *)
Corollary sem_numbering : forall P B (m : mol P B) syms g,
  ser_ready m -> syms_of m = Some syms -> sem (ast_of m syms) = inr g ->
  map (@lbl unit) (atoms g) = N_seq 0 (length (atoms m)) /\
  map (@zn unit) (atoms g) = map (@zn P) (isort (@atom_leb P) (atoms m)) /\
  Sorted N.le (map (@zn unit) (atoms g)).
Proof.
  intros P B m syms g Hr Hs Hg. rewrite (SemSer.sem_ast_of_value P B m syms Hr Hs) in Hg.
  inversion Hg; subst g; clear Hg. cbn [atoms]. rewrite !map_map. cbn [lbl zn].
  pose proof (ast_of_layout P B m syms Hr Hs) as H.
  split; [exact (labels_run m Hr) | split; [reflexivity | exact (lo_atomic_numbers_ascend m _ H)]].
Qed.

(* ====================================================================== *)
(* 8.  Non-vacuity: ethanol with a mass label on one hydrogen and a        *)
(*     radical on one carbon (SemSer.ex_mol), scrambled listing            *)
(* ====================================================================== *)
Module Example.
  Definition m := SemSer.ex_mol.
  Definition syms := SemSer.ex_syms.

  (* the hypotheses of the theorem hold for the witness *)
  Example ready : ser_ready m.
  Proof. exact SemSer.ex_ser_ready. Qed.
  Example symbols : syms_of m = Some syms.
  Proof. exact SemSer.ex_syms_of. Qed.

  (* C2H6O/(1-7)(2-7)(3-7)(4-8)(5-8)(6-9)(7-8)(8-9)/(1:mass=2)(8:rad=3) *)
  Example tree : ast_of m syms =
    mkAst [(6%N, 2%Z); (1%N, 6%Z); (8%N, 1%Z)]
          [(1, 7); (2, 7); (3, 7); (4, 8); (5, 8); (6, 9); (7, 8); (8, 9)]%Z
          [(1%Z, [(KMass, 2%Z)]); (8%Z, [(KRad, 3%Z)])].
  Proof. exact SemSer.ex_ast. Qed.

  Example layout : layout_ok m (ast_of m syms).
  Proof. exact (ast_of_layout unit unit m syms ready symbols). Qed.

  (* instances of the fields on the witness: they speak about a non-empty formula, tuple list
     and block list *)
  Example carbon_count : Z.of_nat (count_occ N.eq_dec (map (@zn unit) (atoms m)) 6%N) = 2%Z.
  Proof. apply (lo_formula_counts m _ layout 6%N 2%Z). rewrite tree. simpl. tauto. Qed.
  Example bond_7_6 : In (7, 8)%Z (tuples (ast_of m syms)).
  Proof. exact (lo_bond_has_tuple m _ layout (7, 6, tt)%N (or_introl eq_refl)). Qed.
  Example mass_block : In (1%Z, [(KMass, 2%Z)]) (blocks (ast_of m syms)).
  Proof.
    apply (lo_atom_has_block m _ layout (SemSer.ex_atom 0 1 (Some 2%Z) None)); [simpl; tauto | discriminate].
  Qed.
  Example no_block_for_oxygen : ~ In 9%Z (map fst (blocks (ast_of m syms))).
  Proof.
    intros H. apply (lo_block_iff_labelled m _ layout (SemSer.ex_atom 8 8 None None)) in H; [|simpl; tauto].
    apply H. reflexivity.
  Qed.
End Example.

Print Assumptions ast_of_layout.
Print Assumptions bond_exactly_once.
Print Assumptions element_count_total.
Print Assumptions indices_within_formula.
Print Assumptions sem_numbering.
Print Assumptions Example.layout.
