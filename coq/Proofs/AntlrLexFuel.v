(* AntlrLexFuel.v -- the closure fuel of Model/AntlrLex.v never runs out on the automaton of gen/AntlrLexer.v.

   Proofs/AntlrLexProofs.v proves `antlr_lex_spec` about the function `AntlrLex.antlr_lex` AS DEFINED, i.e. with the
   fuel-bounded worklist `AntlrLex.closure`; nothing about the fuel is needed there.  This file adds the missing
   piece of fidelity: every set of automaton states that `antlr_lex` can ever compute, on any text, is a genuine
   epsilon closure.  A set Q computed by `clos` from the seeds W is the epsilon closure of W as soon as
     (a) W is contained in Q, and (b) Q is closed under epsilon edges
   (every member of Q is reachable from W by construction of the worklist).  `lexer_sets` is a finite family of
   state sets, computed by exploring the subset automaton; `lexer_fuel_ok` (by computation) says that it contains
   the closure of the start state, that for every member Q and every one of the 256 characters the successor
   `clos (targets (out_chars Q) c)` is either empty with no target at all, or again a member that contains its
   seeds, and that every member satisfies (b).  The generic `run_in_sets` then covers every text. *)
From Coq Require Import String.
From Coq Require Import List NArith ZArith Bool Ascii Lia.
Require Import Base Text AntlrItem AntlrLex AntlrLexGeneric.
Require AntlrLexer.
Import ListNotations.
Local Open Scope list_scope.

Section Generic.
  Variable tbl : list (N * list ledge).
  Variable cf : nat.

  Definition eps_of (s : N) : list N :=
    flat_map (fun e => match e with LEps t => [t] | LChars _ _ => [] end) (edges_of tbl s).
  Definition subset_N (a b : list N) : bool := forallb (fun x => mem_N x b) a.
  (* (b): closed under epsilon edges *)
  Definition eps_closed (Q : list N) : bool := forallb (fun s => subset_N (eps_of s) Q) Q.
  Definition mem_set (Q : list N) (sets : list (list N)) : bool := existsb (list_N_eqb Q) sets.

  (* exploration of the subset automaton (only used to COMPUTE the family; its result is checked below) *)
  Definition succs (Q : list N) : list (list N) :=
    let es := out tbl Q in
    flat_map (fun c => match step tbl cf es c with [] => [] | Q' => [Q'] end) all_ascii.
  Fixpoint explore (fuel : nat) (work seen : list (list N)) : list (list N) :=
    match fuel with
    | O => seen
    | S f => match work with
             | [] => seen
             | Q :: rest => if mem_set Q seen then explore f rest seen else explore f (succs Q ++ rest) (Q :: seen)
             end
    end.

  (* the certificate *)
  Definition step_ok (sets : list (list N)) (Q : list N) : bool :=
    let es := out tbl Q in
    forallb (fun c => let tg := targets es (N_of_ascii c) in
                      match clos tbl cf tg with
                      | [] => is_nil tg
                      | Q' => mem_set Q' sets && subset_N tg Q'
                      end) all_ascii.
  Definition fuel_check (start : N) (sets : list (list N)) : bool :=
    mem_set (clos tbl cf [start]) sets && mem_N start (clos tbl cf [start]) &&
    forallb (step_ok sets) sets && forallb eps_closed sets.

  (* the set of states after reading a text, as `scan` computes it ([] = the scan has stopped) *)
  Fixpoint run (Q : list N) (l : text) : list N :=
    match l with
    | [] => Q
    | c :: r => match step tbl cf (out tbl Q) c with [] => [] | Q' => run Q' r end
    end.

  Lemma mem_set_In : forall Q sets, mem_set Q sets = true -> In Q sets.
  Proof.
    intros Q sets H. unfold mem_set in H. apply existsb_exists in H. destruct H as (Q' & Hin & E).
    unfold list_N_eqb in E. destruct (list_eq_dec N.eq_dec Q Q') as [->|]; [exact Hin|discriminate].
  Qed.

  Variable start : N.
  Variable sets : list (list N).
  Hypothesis Hcheck : fuel_check start sets = true.

  Lemma run_in_sets : forall l Q, In Q sets -> run Q l = [] \/ In (run Q l) sets.
  Proof.
    unfold fuel_check in Hcheck. apply andb_true_iff in Hcheck. destruct Hcheck as [H _].
    apply andb_true_iff in H. destruct H as [_ Hs]. rewrite forallb_forall in Hs.
    induction l as [|c r IH]; intros Q HQ; cbn [run]; [right; exact HQ|].
    specialize (Hs Q HQ). unfold step_ok in Hs. cbv zeta in Hs.
    pose proof (forall_ascii _ Hs c) as Hc. cbv beta in Hc. unfold step.
    destruct (clos tbl cf (targets (out tbl Q) (N_of_ascii c))) as [|s Q']; [left; reflexivity|].
    apply andb_true_iff in Hc. apply IH. apply mem_set_In. exact (proj1 Hc).
  Qed.

  (* every set of states the scan of any text goes through is closed under epsilon edges *)
  Theorem run_eps_closed : forall l, eps_closed (run (clos tbl cf [start]) l) = true.
  Proof.
    intros l. pose proof Hcheck as H. unfold fuel_check in H. apply andb_true_iff in H. destruct H as [H Hc].
    apply andb_true_iff in H. destruct H as [H _]. apply andb_true_iff in H. destruct H as [H0 _].
    rewrite forallb_forall in Hc.
    destruct (run_in_sets l _ (mem_set_In _ _ H0)) as [E|Hin]; [rewrite E; reflexivity|exact (Hc _ Hin)].
  Qed.
End Generic.

(* ---- the generated automaton ---- *)
Definition lexer_sets : list (list N) :=
  explore AntlrLexer.lexer_edges lexer_cfuel 4096
          [clos AntlrLexer.lexer_edges lexer_cfuel [AntlrLexer.lexer_start]] [].

Lemma lexer_fuel_ok : fuel_check AntlrLexer.lexer_edges lexer_cfuel AntlrLexer.lexer_start lexer_sets = true.
Proof. vm_compute. reflexivity. Qed.

(* the subset automaton is small: a trie over the literals plus the numeral loop *)
Lemma lexer_sets_size : Nat.leb (length lexer_sets) 512 = true.
Proof. vm_compute. reflexivity. Qed.

Theorem antlr_lex_sets_closed : forall l : text,
  eps_closed AntlrLexer.lexer_edges
    (run AntlrLexer.lexer_edges lexer_cfuel (clos AntlrLexer.lexer_edges lexer_cfuel [AntlrLexer.lexer_start]) l) = true.
Proof. exact (run_eps_closed _ _ _ _ lexer_fuel_ok). Qed.

Print Assumptions antlr_lex_sets_closed.
