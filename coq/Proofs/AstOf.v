(* AstOf.v -- definitions shared by the round-trip proofs (C02 C03 C05): the abstract syntax tree
   that the emitted token list denotes, and the well-formedness of a graph as the serializer's last
   stage sees it.  Definitions only. *)
From Coq Require Import List NArith ZArith Bool String.
Require Import Base Mol Partition Final Text Token Serialize Parse MolProofs ViewProofs.
Import ListNotations.

(* distinct element symbols in the order in which _write_sum_formula emits them *)
Definition hill_syms (syms : list text) : list text :=
  let c := t "C" in let h := t "H" in
  let distinct := dedup text_leb (isort text_leb syms) in
  if existsb (text_eqb c) syms then
    c :: (if existsb (text_eqb h) syms then [h] else [])
      ++ filter (fun s => negb (text_eqb s c) && negb (text_eqb s h)) distinct
  else distinct.
Definition ast_items (syms : list text) : list (N * Z) :=
  flat_map (fun s => match z_of_symbol s with Some z => [(z, Z.of_N (count_text s syms))] | None => [] end) (hill_syms syms).
Definition ast_tuples {P B} (m : mol P B) : list (Z * Z) :=
  map (fun e => (Z.of_N (fst e) + 1, Z.of_N (snd e) + 1)%Z) (isort pair_leb (map nbond (bonds m))).
Definition props_of {P} (x : atom P) : list (key * Z) :=
  (match mass x with Some v => [(KMass, v)] | None => [] end) ++ (match rad x with Some v => [(KRad, v)] | None => [] end).
Definition ast_blocks {P B} (m : mol P B) : list (Z * list (key * Z)) :=
  flat_map (fun x => match props_of x with [] => [] | ps => [((Z.of_N (lbl x) + 1)%Z, ps)] end) (isort (@atom_leb P) (atoms m)).
Definition ast_of {P B} (m : mol P B) (syms : list text) : ast := mkAst (ast_items syms) (ast_tuples m) (ast_blocks m).

(* the symbols of the atoms, in listing order (None when an atomic number has no symbol) *)
Definition syms_of {P B} (m : mol P B) : option (list text) := all_some (map (fun x => symbol_of (zn x)) (atoms m)).

(* a graph as tokens_of receives it from sort_by_Z . assign_final_labels *)
Definition pos_attrs {P B} (m : mol P B) : Prop :=
  forall x, In x (atoms m) -> (forall v, mass x = Some v -> (1 <= v)%Z) /\ (forall v, rad x = Some v -> (1 <= v)%Z).
Definition ser_ready {P B} (m : mol P B) : Prop :=
  wfg m /\
  Permutation.Permutation (labels m) (N_seq 0 (length (atoms m))) /\        (* labels are exactly 0..n-1 *)
  (forall x y, In x (atoms m) -> In y (atoms m) -> (lbl x <= lbl y)%N -> (zn x <= zn y)%N) /\  (* numbered by increasing atomic number *)
  NoDup (map nbond (bonds m)) /\                                             (* every bond once *)
  pos_attrs m.
