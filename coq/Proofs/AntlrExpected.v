(* AntlrExpected.v -- the program ANTLR emits for a grammar of the TUCAN shape, and the GENERIC proof that
   executing it (Model/AntlrExec.v) accepts exactly what the reference token parser `Parse.parse_tokens` accepts.

   Nothing in this file looks at gen/Antlr.v.  Everything is stated for
     - an arbitrary rule table `rules`,
     - an arbitrary numbering `ty : token -> Z` of the model's tokens by ANTLR token types,
     - arbitrary element-order lists `wc`, `woc` (the bodies of with_carbon / without_carbon),
     - an arbitrary lookahead set `s2` for the second alternative of sum_formula,
   under simple hypotheses (Section Generic).  Proofs/AntlrProofs.v instantiates them with the generated tables
   and discharges the hypotheses by computation.

   Structure:
     1. one-step equations for `exec`;
     2. an LL(1) recogniser `ll_*` on MODEL tokens, without rule tables, fuel or token numbers;
     3. `exec rules f P (map ty l) = option_map (map ty) (ll_P l)` for every rule body P, for enough fuel;
     4. `ll_tucan` = `parse_tokens` (greedy item collection + order check  vs  LL(1) decision on the first token). *)
From Coq Require Import String.
From Coq Require Import List NArith ZArith Bool Ascii Lia.
Require Import Base Text Token Parse AntlrItem AntlrExec ParseProofs LexPrint.
Import ListNotations.
Local Open Scope string_scope.
Local Open Scope list_scope.

(* ====================================================================== *)
(* 1.  exec, one statement at a time                                        *)
(* ====================================================================== *)
Section Steps.
  Variable rules : list (string * list item).

  Lemma exec_nil : forall f inp, exec rules (S f) [] inp = Some inp.
  Proof. reflexivity. Qed.

  Lemma exec_match : forall f t rest inp,
    exec rules (S f) (Match t :: rest) inp =
    match do_match t inp with Some i => exec rules f rest i | None => None end.
  Proof. reflexivity. Qed.

  Lemma exec_matchset : forall f ts rest inp,
    exec rules (S f) (MatchSet ts :: rest) inp =
    match do_match_set ts inp with Some i => exec rules f rest i | None => None end.
  Proof. reflexivity. Qed.

  Lemma exec_call : forall f r b rest inp, lookup_rule rules r = Some b ->
    exec rules (S f) (Call r :: rest) inp =
    match exec rules f b inp with Some i => exec rules f rest i | None => None end.
  Proof. intros f r b rest inp H. cbn [exec]. rewrite H. reflexivity. Qed.

  Lemma exec_opt : forall f ts b rest inp,
    exec rules (S f) (Opt ts b :: rest) inp =
    if memz (la inp) ts
    then match exec rules f b inp with Some i => exec rules f rest i | None => None end
    else exec rules f rest inp.
  Proof. reflexivity. Qed.

  Lemma exec_star_step : forall f ts b rest inp,
    exec rules (S f) (Star ts b :: rest) inp =
    if memz (la inp) ts
    then match exec rules f b inp with Some i => exec rules f (Star ts b :: rest) i | None => None end
    else exec rules f rest inp.
  Proof. reflexivity. Qed.

  Lemma exec_alt : forall f alts rest inp,
    exec rules (S f) (Alt alts :: rest) inp =
    match pick_alt alts (la inp) with
    | Some b => match exec rules f b inp with Some i => exec rules f rest i | None => None end
    | None => None
    end.
  Proof. reflexivity. Qed.
End Steps.

Lemma memz_In : forall x l, memz x l = true <-> In x l.
Proof.
  intros x l. unfold memz. rewrite existsb_exists. split.
  - intros (y & Hin & E). apply Z.eqb_eq in E. subst; assumption.
  - intros Hin. exists x. split; [assumption|apply Z.eqb_refl].
Qed.

Lemma mem1 : forall x y, memz x [y] = Z.eqb x y.
Proof. intros. unfold memz. simpl. apply orb_false_r. Qed.

(* ====================================================================== *)
(* 2.  The LL(1) recogniser on model tokens                                  *)
(* ====================================================================== *)
Definition tok_eqb (a b : token) : bool :=
  match a, b with
  | TSym x, TSym y => N.eqb x y
  | TNum x, TNum y => Z.eqb x y
  | TSlash, TSlash | TLp, TLp | TRp, TRp | TDash, TDash | TColon, TColon
  | TComma, TComma | TEq, TEq | TMass, TMass | TRad, TRad => true
  | _, _ => false
  end.

Lemma tok_eqb_eq : forall a b, tok_eqb a b = true <-> a = b.
Proof.
  intros a b. destruct a, b; simpl; split; intros H; try discriminate; try reflexivity;
    try (apply N.eqb_eq in H; congruence); try (apply Z.eqb_eq in H; congruence);
    inversion H; subst; try apply N.eqb_refl; apply Z.eqb_refl.
Qed.

Lemma tok_eqb_refl : forall a, tok_eqb a a = true.
Proof. intros a. apply tok_eqb_eq. reflexivity. Qed.

Definition bind {A B} (o : option A) (f : A -> option B) : option B :=
  match o with Some x => f x | None => None end.

Definition hd_is (K : token) (l : list token) : bool :=
  match l with k :: _ => tok_eqb k K | [] => false end.
(* match(K) *)
Definition eat (K : token) (l : list token) : option (list token) :=
  match l with k :: r => if tok_eqb k K then Some r else None | [] => None end.
(* greater_than_one / greater_than_zero *)
Definition ll_cnt (l : list token) : option (list token) :=
  match l with TNum c :: r => if Z.leb 2 c then Some r else None | _ => None end.
Definition ll_num (l : list token) : option (list token) :=
  match l with TNum c :: r => if Z.leb 1 c then Some r else None | _ => None end.
(* count? *)
Definition skip_count (l : list token) : list token :=
  match l with TNum c :: r => if Z.leb 2 c then r else l | _ => l end.
(* an element rule:  'Sym' count? *)
Definition ll_elem (z : N) (l : list token) : option (list token) := option_map skip_count (eat (TSym z) l).
(* x1? x2? x3 ... : every decision looks at one token *)
Fixpoint ll_seq (es : list (N * bool)) (l : list token) : option (list token) :=
  match es with
  | [] => Some l
  | (z, opt) :: es' =>
    if opt then (if hd_is (TSym z) l then bind (ll_elem z l) (ll_seq es') else ll_seq es' l)
    else bind (ll_elem z l) (ll_seq es')
  end.
Definition ll_key (l : list token) : option (list token) :=
  match l with TMass :: r => Some r | TRad :: r => Some r | _ => None end.
Definition ll_tuple (l : list token) : option (list token) :=
  bind (eat TLp l) (fun l => bind (ll_num l) (fun l => bind (eat TDash l) (fun l => bind (ll_num l) (eat TRp)))).
Definition ll_prop (l : list token) : option (list token) :=
  bind (ll_key l) (fun l => bind (eat TEq l) ll_num).
(* while LA = K: body *)
Fixpoint ll_starf (body : nat -> list token -> option (list token)) (K : token) (n : nat) (l : list token)
  : option (list token) :=
  match n with
  | O => None
  | S n' => if hd_is K l then bind (body n' l) (ll_starf body K n') else Some l
  end.
Definition ll_comma_prop (_ : nat) (l : list token) : option (list token) := bind (eat TComma l) ll_prop.
Definition ll_attr (n : nat) (l : list token) : option (list token) :=
  bind (eat TLp l) (fun l => bind (ll_num l) (fun l => bind (eat TColon l) (fun l =>
  bind (ll_prop l) (fun l => bind (ll_starf ll_comma_prop TComma n l) (eat TRp))))).
Definition ll_eof (l : list token) : option (list token) := match l with [] => Some [] | _ => None end.

(* ---- every step consumes input ---- *)
Lemma eat_len : forall K l r, eat K l = Some r -> length l = S (length r).
Proof. intros K [|k l] r; simpl; [discriminate|]. destruct (tok_eqb k K); intros H; inversion H; reflexivity. Qed.
Lemma ll_num_len : forall l r, ll_num l = Some r -> length l = S (length r).
Proof. intros [|[] l] r; simpl; try discriminate. destruct (Z.leb 1 z); intros H; inversion H; reflexivity. Qed.
Lemma ll_key_len : forall l r, ll_key l = Some r -> length l = S (length r).
Proof. intros [|[] l] r; simpl; try discriminate; intros H; inversion H; reflexivity. Qed.
Lemma skip_count_len : forall l, (length (skip_count l) <= length l)%nat.
Proof. intros [|[] l]; simpl; try lia. destruct (Z.leb 2 z); simpl; lia. Qed.
Lemma ll_elem_len : forall z l r, ll_elem z l = Some r -> (length r < length l)%nat.
Proof.
  intros z l r. unfold ll_elem. destruct (eat (TSym z) l) as [l'|] eqn:E; simpl; [|discriminate].
  intros H; inversion H; subst. apply eat_len in E. pose proof (skip_count_len l'). lia.
Qed.
Lemma ll_seq_len : forall es l r, ll_seq es l = Some r -> (length r <= length l)%nat.
Proof.
  induction es as [|[z opt] es IH]; intros l r; simpl.
  - intros H; inversion H; lia.
  - assert (Hb : bind (ll_elem z l) (ll_seq es) = Some r -> (length r <= length l)%nat).
    { destruct (ll_elem z l) as [l'|] eqn:E; simpl; [|discriminate].
      intros H. apply IH in H. apply ll_elem_len in E. lia. }
    destruct opt; [|exact Hb]. destruct (hd_is (TSym z) l); [exact Hb|apply IH].
Qed.
Lemma ll_tuple_len : forall l r, ll_tuple l = Some r -> (length r < length l)%nat.
Proof.
  intros l r. unfold ll_tuple, bind.
  destruct (eat TLp l) as [l1|] eqn:E1; [|discriminate].
  destruct (ll_num l1) as [l2|] eqn:E2; [|discriminate].
  destruct (eat TDash l2) as [l3|] eqn:E3; [|discriminate].
  destruct (ll_num l3) as [l4|] eqn:E4; [|discriminate].
  intros E5. apply eat_len in E1, E3, E5. apply ll_num_len in E2, E4. lia.
Qed.
Lemma ll_prop_len : forall l r, ll_prop l = Some r -> (length r < length l)%nat.
Proof.
  intros l r. unfold ll_prop, bind.
  destruct (ll_key l) as [l1|] eqn:E1; [|discriminate].
  destruct (eat TEq l1) as [l2|] eqn:E2; [|discriminate].
  intros E3. apply eat_len in E2. apply ll_key_len in E1. apply ll_num_len in E3. lia.
Qed.
Lemma ll_comma_prop_len : forall n l r, ll_comma_prop n l = Some r -> (length r < length l)%nat.
Proof.
  intros n l r. unfold ll_comma_prop, bind. destruct (eat TComma l) as [l1|] eqn:E1; [|discriminate].
  intros E2. apply eat_len in E1. apply ll_prop_len in E2. lia.
Qed.
Lemma ll_starf_len : forall body K,
  (forall n l r, body n l = Some r -> (length r < length l)%nat) ->
  forall n l r, ll_starf body K n l = Some r -> (length r <= length l)%nat.
Proof.
  intros body K Hb. induction n as [|n IH]; intros l r; simpl; [discriminate|].
  destruct (hd_is K l).
  - destruct (body n l) as [l'|] eqn:E; simpl; [|discriminate].
    intros H. apply IH in H. apply Hb in E. lia.
  - intros H; inversion H; lia.
Qed.
Lemma ll_attr_len : forall n l r, ll_attr n l = Some r -> (length r < length l)%nat.
Proof.
  intros n l r. unfold ll_attr, bind.
  destruct (eat TLp l) as [l1|] eqn:E1; [|discriminate].
  destruct (ll_num l1) as [l2|] eqn:E2; [|discriminate].
  destruct (eat TColon l2) as [l3|] eqn:E3; [|discriminate].
  destruct (ll_prop l3) as [l4|] eqn:E4; [|discriminate].
  destruct (ll_starf ll_comma_prop TComma n l4) as [l5|] eqn:E5; [|discriminate].
  intros E6. apply eat_len in E1, E3, E6. apply ll_num_len in E2. apply ll_prop_len in E4.
  apply (ll_starf_len _ _ ll_comma_prop_len) in E5. lia.
Qed.

(* ====================================================================== *)
(* 3.  The expected program, and  exec = ll                                  *)
(* ====================================================================== *)
Definition valid (k : token) : Prop := tok_valid k = true.
(* a token whose ANTLR type is its own: everything except the numerals >= 10 (all GREATER_THAN_NINE) *)
Definition simple (K : token) : Prop := match K with TNum v => (v <= 9)%Z | _ => True end.

Section Generic.
  Variable rules : list (string * list item).
  Variable ty : token -> Z.                 (* ANTLR token type of a model token *)
  Variable ename : N -> string.             (* name of the element rule, by atomic number *)
  Variables wc woc : list (N * bool).       (* with_carbon / without_carbon: (atomic number, optional?) *)
  Variable s2 : list Z.                     (* lookahead set of the alternative `without_carbon` *)
  Variable zC : N.                          (* carbon *)

  Definition tE (z : N) : Z := ty (TSym z).
  Definition d2 : list Z := map (fun v => ty (TNum v)) [2; 3; 4; 5; 6; 7; 8; 9; 10]%Z.

  (* ---- the program ---- *)
  Definition elem_body (z : N) : list item := [Match (tE z); Opt d2 [Call "count"]].
  Definition item_of (p : N * bool) : item :=
    if snd p then Opt [tE (fst p)] [Call (ename (fst p))] else Call (ename (fst p)).
  Definition body_tucan : list item :=
    [Call "sum_formula"; Match (ty TSlash); Call "tuples";
     Opt [ty TSlash] [Match (ty TSlash); Call "node_attributes"]; Match (-1)%Z].
  Definition body_sum_formula : list item :=
    [Alt [([tE zC], [Call "with_carbon"]); (s2, [Call "without_carbon"])]].
  Definition body_tuple : list item :=
    [Match (ty TLp); Call "node_index"; Match (ty TDash); Call "node_index"; Match (ty TRp)].
  Definition body_comma_prop : list item := [Match (ty TComma); Call "node_property"].
  Definition body_attr : list item :=
    [Match (ty TLp); Call "node_index"; Match (ty TColon); Call "node_property";
     Star [ty TComma] body_comma_prop; Match (ty TRp)].
  Definition body_prop : list item := [Call "node_property_key"; Match (ty TEq); Call "node_property_value"].
  Definition body_key : list item := [MatchSet [ty TMass; ty TRad]].
  Definition body_gt0 : list item :=
    [Alt [([ty (TNum 1)], [Match (ty (TNum 1))]); (d2, [Call "greater_than_one"])]].
  Definition body_gt1 : list item := [MatchSet d2].

  Definition expected_rules : list (string * list item) :=
    [("tucan", body_tucan);
     ("sum_formula_start", [Call "sum_formula"; Match (-1)%Z]);
     ("sum_formula", body_sum_formula);
     ("with_carbon", map item_of wc);
     ("without_carbon", map item_of woc)]
    ++ map (fun z => (ename z, elem_body z)) (map fst wc ++ map fst woc)
    ++ [("count", [Call "greater_than_one"]);
        ("tuples_start", [Call "tuples"; Match (-1)%Z]);
        ("tuples", [Star [ty TLp] [Call "tuple"]]);
        ("tuple", body_tuple);
        ("node_index", [Call "greater_than_zero"]);
        ("node_attributes_start", [Call "node_attributes"; Match (-1)%Z]);
        ("node_attributes", [Star [ty TLp] [Call "node_attribute"]]);
        ("node_attribute", body_attr);
        ("node_property", body_prop);
        ("node_property_key", body_key);
        ("node_property_value", [Call "greater_than_zero"]);
        ("greater_than_zero", body_gt0);
        ("greater_than_one", body_gt1)].

  (* ---- hypotheses ---- *)
  (* the rule table contains the expected program (lookup by name) *)
  Hypothesis rules_ok : forall n b, In (n, b) expected_rules -> lookup_rule rules n = Some b.
  (* token numbering *)
  Hypothesis ty_inj : forall k K, valid K -> simple K -> ty k = ty K -> k = K.
  Hypothesis ty_big : forall k, ty k = ty (TNum 10) -> exists c, k = TNum c /\ (10 <= c)%Z.
  Hypothesis ty_big_eq : forall c, (10 <= c)%Z -> ty (TNum c) = ty (TNum 10).
  Hypothesis ty_not_eof : forall k, ty k <> (-1)%Z.
  (* the two element-order lists *)
  Hypothesis wc_head : exists wc', wc = (zC, false) :: wc'.
  Hypothesis woc_noC : ~ In zC (map fst woc).
  Hypothesis elems_valid : forall z, In z (map fst wc ++ map fst woc) -> valid (TSym z).
  (* the lookahead set of the second alternative *)
  Hypothesis s2_eof : memz (-1)%Z s2 = true.
  Hypothesis s2_slash : memz (ty TSlash) s2 = true.
  Hypothesis s2_woc : forall z, In z (map fst woc) -> memz (tE z) s2 = true.

  Definition ll_formula (l : list token) : option (list token) :=
    if hd_is (TSym zC) l then ll_seq wc l
    else if memz (la (map ty l)) s2 then ll_seq woc l else None.

  Definition ll_tucan (n : nat) (l : list token) : option (list token) :=
    bind (ll_formula l) (fun l => bind (eat TSlash l) (fun l =>
    bind (ll_starf (fun _ => ll_tuple) TLp n l) (fun l =>
    bind (if hd_is TSlash l then bind (eat TSlash l) (ll_starf ll_attr TLp n) else Some l) ll_eof))).

  (* ---- lookups ---- *)
  Ltac lk_first := apply rules_ok; unfold expected_rules; apply in_or_app; left;
                   repeat (try (left; reflexivity); right).
  Ltac lk_last := apply rules_ok; unfold expected_rules; apply in_or_app; right; apply in_or_app; right;
                  repeat (try (left; reflexivity); right).
  Lemma lk_tucan : lookup_rule rules "tucan" = Some body_tucan. Proof. lk_first. Qed.
  Lemma lk_sum_formula : lookup_rule rules "sum_formula" = Some body_sum_formula. Proof. lk_first. Qed.
  Lemma lk_wc : lookup_rule rules "with_carbon" = Some (map item_of wc). Proof. lk_first. Qed.
  Lemma lk_woc : lookup_rule rules "without_carbon" = Some (map item_of woc). Proof. lk_first. Qed.
  Lemma lk_elem : forall z, In z (map fst wc ++ map fst woc) -> lookup_rule rules (ename z) = Some (elem_body z).
  Proof.
    intros z Hz. apply rules_ok. unfold expected_rules. apply in_or_app; right. apply in_or_app; left.
    apply in_map_iff. exists z. split; [reflexivity|exact Hz].
  Qed.
  Lemma lk_count : lookup_rule rules "count" = Some [Call "greater_than_one"]. Proof. lk_last. Qed.
  Lemma lk_tuples : lookup_rule rules "tuples" = Some [Star [ty TLp] [Call "tuple"]]. Proof. lk_last. Qed.
  Lemma lk_tuple : lookup_rule rules "tuple" = Some body_tuple. Proof. lk_last. Qed.
  Lemma lk_node_index : lookup_rule rules "node_index" = Some [Call "greater_than_zero"]. Proof. lk_last. Qed.
  Lemma lk_attrs : lookup_rule rules "node_attributes" = Some [Star [ty TLp] [Call "node_attribute"]]. Proof. lk_last. Qed.
  Lemma lk_attr : lookup_rule rules "node_attribute" = Some body_attr. Proof. lk_last. Qed.
  Lemma lk_prop : lookup_rule rules "node_property" = Some body_prop. Proof. lk_last. Qed.
  Lemma lk_key : lookup_rule rules "node_property_key" = Some body_key. Proof. lk_last. Qed.
  Lemma lk_value : lookup_rule rules "node_property_value" = Some [Call "greater_than_zero"]. Proof. lk_last. Qed.
  Lemma lk_gt0 : lookup_rule rules "greater_than_zero" = Some body_gt0. Proof. lk_last. Qed.
  Lemma lk_gt1 : lookup_rule rules "greater_than_one" = Some body_gt1. Proof. lk_last. Qed.

  (* ---- token numbering ---- *)
  Lemma eqb_ty : forall k K, valid K -> simple K -> Z.eqb (ty k) (ty K) = tok_eqb k K.
  Proof.
    intros k K HV HS. destruct (tok_eqb k K) eqn:E.
    - apply tok_eqb_eq in E. subst. apply Z.eqb_refl.
    - apply Z.eqb_neq. intros H. apply (ty_inj _ _ HV HS) in H. subst.
      rewrite tok_eqb_refl in E. discriminate.
  Qed.

  Lemma la_mem1 : forall K l, valid K -> simple K -> memz (la (map ty l)) [ty K] = hd_is K l.
  Proof.
    intros K l HV HS. rewrite mem1. destruct l as [|k r]; cbn [map la hd_is].
    - apply Z.eqb_neq. intros E. apply (ty_not_eof K). symmetry; exact E.
    - apply eqb_ty; assumption.
  Qed.

  Lemma do_match_ty : forall K l, valid K -> simple K ->
    do_match (ty K) (map ty l) = option_map (map ty) (eat K l).
  Proof.
    intros K l HV HS. destruct l as [|k r]; simpl.
    - destruct (Z.eqb (ty K) (-1)) eqn:E; [|reflexivity].
      apply Z.eqb_eq in E. exfalso. exact (ty_not_eof _ E).
    - rewrite eqb_ty by assumption. destruct (tok_eqb k K); reflexivity.
  Qed.

  Lemma do_match_eof : forall l, do_match (-1)%Z (map ty l) = option_map (map ty) (ll_eof l).
  Proof.
    intros [|k r]; simpl; [reflexivity|].
    destruct (Z.eqb (ty k) (-1)) eqn:E; [|reflexivity].
    apply Z.eqb_eq in E. exfalso. exact (ty_not_eof _ E).
  Qed.

  Lemma mem_d2 : forall k, memz (ty k) d2 = match k with TNum c => Z.leb 2 c | _ => false end.
  Proof.
    intros k. destruct (memz (ty k) d2) eqn:E.
    - apply memz_In in E. unfold d2 in E. apply in_map_iff in E. destruct E as (v & Ev & Hv).
      assert (Hc : (v = 10 \/ (v <= 9 /\ 2 <= v))%Z) by (simpl in Hv; lia).
      symmetry in Ev. destruct Hc as [->|[H9 H2]].
      + apply ty_big in Ev. destruct Ev as (c & -> & Hc). symmetry. apply Z.leb_le. lia.
      + apply ty_inj in Ev.
        * subst k. symmetry. apply Z.leb_le. exact H2.
        * unfold valid. simpl. apply Z.leb_le. lia.
        * exact H9.
    - destruct k as [z|c| | | | | | | | | ]; try reflexivity.
      destruct (Z.leb 2 c) eqn:E2; [|reflexivity]. apply Z.leb_le in E2.
      assert (Hm : memz (ty (TNum c)) d2 = true).
      { apply memz_In. unfold d2. apply in_map_iff.
        destruct (Z_le_gt_dec 10 c) as [Hc|Hc].
        - exists 10%Z. split; [symmetry; apply ty_big_eq; exact Hc|simpl; tauto].
        - exists c. split; [reflexivity|simpl; lia]. }
      congruence.
  Qed.

  Lemma mem_d2_eof : memz (-1)%Z d2 = false.
  Proof.
    destruct (memz (-1)%Z d2) eqn:E; [|reflexivity].
    apply memz_In in E. unfold d2 in E. apply in_map_iff in E. destruct E as (v & Ev & _).
    exfalso. exact (ty_not_eof _ Ev).
  Qed.

  Lemma la_d2 : forall l, memz (la (map ty l)) d2 = match l with TNum c :: _ => Z.leb 2 c | _ => false end.
  Proof. intros [|k r]; cbn [map la]; [exact mem_d2_eof|]. rewrite mem_d2. destruct k; reflexivity. Qed.

  Lemma valid_one : valid (TNum 1). Proof. reflexivity. Qed.
  Lemma simple_one : simple (TNum 1). Proof. simpl. lia. Qed.

  (* ---- rule bodies ---- *)
  (* with at least c units of fuel, running P on the types of l gives the types of (sp l) *)
  Definition spec_ok (c : nat) (P : list item) (sp : list token -> option (list token)) : Prop :=
    forall f l, (c <= f)%nat -> exec rules f P (map ty l) = option_map (map ty) (sp l).

  Lemma step_call : forall r b c sp f rest l,
    lookup_rule rules r = Some b -> spec_ok c b sp -> (c <= f)%nat ->
    exec rules (S f) (Call r :: rest) (map ty l) =
    match sp l with Some l' => exec rules f rest (map ty l') | None => None end.
  Proof.
    intros r b c sp f rest l Hl Hs Hf. rewrite (exec_call _ _ _ _ _ _ Hl), (Hs f l Hf).
    destruct (sp l); reflexivity.
  Qed.

  Lemma step_match : forall K f rest l, valid K -> simple K ->
    exec rules (S f) (Match (ty K) :: rest) (map ty l) =
    match eat K l with Some l' => exec rules f rest (map ty l') | None => None end.
  Proof.
    intros K f rest l HV HS. rewrite exec_match, do_match_ty by assumption.
    destruct (eat K l); reflexivity.
  Qed.

  Lemma spec_call1 : forall r b c sp,
    lookup_rule rules r = Some b -> spec_ok c b sp -> (1 <= c)%nat -> spec_ok (S c) [Call r] sp.
  Proof.
    intros r b c sp Hl Hs Hc f l Hf. destruct f as [|f]; [lia|].
    rewrite (step_call _ _ _ _ _ _ _ Hl Hs) by lia.
    destruct (sp l); [|reflexivity]. destruct f; [lia|]. reflexivity.
  Qed.

  Ltac fS f := destruct f as [|f]; [exfalso; lia|].

  Lemma spec_gt1 : spec_ok 2 body_gt1 ll_cnt.
  Proof.
    intros f l Hf. fS f. fS f. unfold body_gt1. rewrite exec_matchset.
    destruct l as [|k r]; [reflexivity|]. cbn [map do_match_set]. rewrite mem_d2.
    destruct k; try reflexivity. cbn [ll_cnt]. destruct (Z.leb 2 z); reflexivity.
  Qed.

  Lemma spec_count : spec_ok 3 [Call "greater_than_one"] ll_cnt.
  Proof. apply (spec_call1 _ _ _ _ lk_gt1 spec_gt1). lia. Qed.

  Lemma spec_gt0 : spec_ok 5 body_gt0 ll_num.
  Proof.
    intros f l Hf. fS f. unfold body_gt0. rewrite exec_alt. cbn [pick_alt].
    rewrite (la_mem1 _ l valid_one simple_one), la_d2.
    destruct l as [|k r]; [reflexivity|]. cbn [hd_is].
    destruct (tok_eqb k (TNum 1)) eqn:E1.
    - apply tok_eqb_eq in E1. subst k. fS f.
      rewrite (step_match _ _ _ _ valid_one simple_one). cbn [eat]. rewrite tok_eqb_refl.
      fS f. reflexivity.
    - destruct k as [z|c| | | | | | | | | ]; try reflexivity.
      destruct (Z.leb 2 c) eqn:E2.
      + rewrite (spec_count f (TNum c :: r)) by lia. cbn [ll_cnt ll_num]. rewrite E2.
        assert (H1 : Z.leb 1 c = true) by (apply Z.leb_le; apply Z.leb_le in E2; lia).
        rewrite H1. cbn [option_map]. fS f. reflexivity.
      + cbn [ll_num]. destruct (Z.leb 1 c) eqn:H1; [|reflexivity].
        exfalso. apply Z.leb_le in H1. apply Z.leb_gt in E2. assert (c = 1%Z) by lia. subst c.
        simpl in E1. discriminate.
  Qed.

  Lemma spec_index : spec_ok 6 [Call "greater_than_zero"] ll_num.
  Proof. apply (spec_call1 _ _ _ _ lk_gt0 spec_gt0). lia. Qed.

  Lemma valid_sym_in : forall z, In z (map fst wc ++ map fst woc) -> valid (TSym z) /\ simple (TSym z).
  Proof. intros z Hz. split; [exact (elems_valid _ Hz)|exact I]. Qed.

  Lemma spec_elem : forall z, In z (map fst wc ++ map fst woc) -> spec_ok 8 (elem_body z) (ll_elem z).
  Proof.
    intros z Hz f l Hf. destruct (valid_sym_in _ Hz) as [HV HS].
    fS f. unfold elem_body, tE. rewrite (step_match _ _ _ _ HV HS). unfold ll_elem.
    destruct (eat (TSym z) l) as [l'|]; [|reflexivity]. cbn [option_map].
    fS f. rewrite exec_opt, la_d2.
    destruct l' as [|k r]; [fS f; reflexivity|].
    destruct k as [z'|c| | | | | | | | | ]; try (fS f; reflexivity).
    cbn [skip_count]. destruct (Z.leb 2 c) eqn:E2; [|fS f; reflexivity].
    rewrite (spec_call1 _ _ _ _ lk_count spec_count) by lia.
    cbn [ll_cnt]. rewrite E2. cbn [option_map]. fS f. reflexivity.
  Qed.

  Lemma spec_elem_call : forall z, In z (map fst wc ++ map fst woc) -> spec_ok 9 [Call (ename z)] (ll_elem z).
  Proof. intros z Hz. apply (spec_call1 _ _ _ _ (lk_elem _ Hz) (spec_elem _ Hz)). lia. Qed.

  (* x1? x2? x3 ... *)
  Lemma spec_seq : forall es, incl (map fst es) (map fst wc ++ map fst woc) ->
    forall f l, (length es + 12 <= f)%nat ->
    exec rules f (map item_of es) (map ty l) = option_map (map ty) (ll_seq es l).
  Proof.
    induction es as [|[z opt] es IH]; intros Hin f l Hf.
    - fS f. reflexivity.
    - assert (Hz : In z (map fst wc ++ map fst woc)) by (apply Hin; left; reflexivity).
      assert (Hin' : incl (map fst es) (map fst wc ++ map fst woc)) by (intros x Hx; apply Hin; right; exact Hx).
      destruct (valid_sym_in _ Hz) as [HV HS].
      cbn [length] in Hf. fS f. cbn [map ll_seq]. unfold item_of at 1. cbn [fst snd].
      assert (Hcall : match exec rules f [Call (ename z)] (map ty l) with
                      | Some i => exec rules f (map item_of es) i | None => None end =
                      option_map (map ty) (bind (ll_elem z l) (ll_seq es))).
      { rewrite (spec_elem_call _ Hz f l) by lia. destruct (ll_elem z l) as [l'|]; [|reflexivity].
        cbn [option_map bind]. apply IH; [exact Hin'|lia]. }
      destruct opt.
      + rewrite exec_opt. unfold tE. rewrite (la_mem1 _ l HV HS).
        destruct (hd_is (TSym z) l); [exact Hcall|]. apply IH; [exact Hin'|lia].
      + rewrite (exec_call _ _ _ _ _ _ (lk_elem _ Hz)).
        rewrite (spec_elem _ Hz f l) by lia.
        destruct (ll_elem z l) as [l'|]; [|reflexivity].
        cbn [option_map bind]. apply IH; [exact Hin'|lia].
  Qed.

  Lemma spec_wc : spec_ok (length wc + 12) (map item_of wc) (ll_seq wc).
  Proof. intros f l Hf. apply spec_seq; [|exact Hf]. intros x Hx. apply in_or_app; left; exact Hx. Qed.
  Lemma spec_woc : spec_ok (length woc + 12) (map item_of woc) (ll_seq woc).
  Proof. intros f l Hf. apply spec_seq; [|exact Hf]. intros x Hx. apply in_or_app; right; exact Hx. Qed.

  Lemma valid_C : valid (TSym zC) /\ simple (TSym zC).
  Proof.
    destruct wc_head as (wc' & E). apply valid_sym_in. apply in_or_app; left. rewrite E. left; reflexivity.
  Qed.

  Lemma spec_sum_formula : spec_ok (length wc + length woc + 16) body_sum_formula ll_formula.
  Proof.
    intros f l Hf. destruct valid_C as [HV HS]. fS f. unfold body_sum_formula. rewrite exec_alt. cbn [pick_alt].
    unfold tE. rewrite (la_mem1 _ l HV HS). unfold ll_formula.
    destruct (hd_is (TSym zC) l).
    - rewrite (spec_call1 _ _ _ _ lk_wc spec_wc) by lia.
      destruct (ll_seq wc l); [|reflexivity]. cbn [option_map]. fS f. reflexivity.
    - destruct (memz (la (map ty l)) s2); [|reflexivity].
      rewrite (spec_call1 _ _ _ _ lk_woc spec_woc) by lia.
      destruct (ll_seq woc l); [|reflexivity]. cbn [option_map]. fS f. reflexivity.
  Qed.

  (* ---- tuples and node attributes ---- *)
  Ltac tokfact := first [reflexivity | exact I].

  Lemma spec_tuple : spec_ok 12 body_tuple ll_tuple.
  Proof.
    intros f l Hf. unfold body_tuple, ll_tuple.
    fS f. rewrite step_match by tokfact. destruct (eat TLp l) as [l1|]; [|reflexivity]. cbn [bind].
    fS f. rewrite (step_call _ _ _ _ _ _ _ lk_node_index spec_index) by lia.
    destruct (ll_num l1) as [l2|]; [|reflexivity]. cbn [bind].
    fS f. rewrite step_match by tokfact. destruct (eat TDash l2) as [l3|]; [|reflexivity]. cbn [bind].
    fS f. rewrite (step_call _ _ _ _ _ _ _ lk_node_index spec_index) by lia.
    destruct (ll_num l3) as [l4|]; [|reflexivity]. cbn [bind].
    fS f. rewrite step_match by tokfact. destruct (eat TRp l4) as [l5|]; [|reflexivity].
    fS f. reflexivity.
  Qed.

  Lemma spec_key : spec_ok 2 body_key ll_key.
  Proof.
    intros f l Hf. fS f. fS f. unfold body_key. rewrite exec_matchset.
    destruct l as [|k r]; [reflexivity|]. cbn [map do_match_set]. unfold memz. cbn [existsb].
    rewrite !eqb_ty by tokfact. destruct k; reflexivity.
  Qed.

  Lemma spec_prop : spec_ok 12 body_prop ll_prop.
  Proof.
    intros f l Hf. unfold body_prop, ll_prop.
    fS f. rewrite (step_call _ _ _ _ _ _ _ lk_key spec_key) by lia.
    destruct (ll_key l) as [l1|]; [|reflexivity]. cbn [bind].
    fS f. rewrite step_match by tokfact. destruct (eat TEq l1) as [l2|]; [|reflexivity]. cbn [bind].
    fS f. rewrite (step_call _ _ _ _ _ _ _ lk_value spec_index) by lia.
    destruct (ll_num l2) as [l3|]; [|reflexivity].
    fS f. reflexivity.
  Qed.

  Lemma spec_comma_prop : forall n, spec_ok 16 body_comma_prop (ll_comma_prop n).
  Proof.
    intros n f l Hf. unfold body_comma_prop, ll_comma_prop.
    fS f. rewrite step_match by tokfact. destruct (eat TComma l) as [l1|]; [|reflexivity]. cbn [bind].
    fS f. rewrite (step_call _ _ _ _ _ _ _ lk_prop spec_prop) by lia.
    destruct (ll_prop l1) as [l2|]; [|reflexivity].
    fS f. reflexivity.
  Qed.

  (* while LA = K: P.   Every iteration costs one unit; the body P may need `cost |input|` units. *)
  Lemma exec_star : forall (body : nat -> list token -> option (list token)) K P (cost : nat -> nat) rest,
    valid K -> simple K ->
    (forall a b, (a <= b)%nat -> (cost a <= cost b)%nat) ->
    (forall n f l, (length l <= n)%nat -> (cost (length l) <= f)%nat ->
                   exec rules f P (map ty l) = option_map (map ty) (body n l)) ->
    (forall n l r, body n l = Some r -> (length r < length l)%nat) ->
    forall n l f, (length l < n)%nat -> (cost (length l) + length l + 2 <= f)%nat ->
    exists f', (f - length l - 1 <= f')%nat /\
      exec rules f (Star [ty K] P :: rest) (map ty l) =
      match ll_starf body K n l with Some r => exec rules f' rest (map ty r) | None => None end.
  Proof.
    intros body K P cost rest HV HS Hmono Hbody Hdec. induction n as [|n IH]; intros l f Hn Hf; [lia|].
    fS f. rewrite exec_star_step, (la_mem1 _ l HV HS). cbn [ll_starf].
    destruct (hd_is K l).
    - rewrite (Hbody n f l) by lia.
      destruct (body n l) as [r|] eqn:Eb; cbn [option_map bind].
      + apply Hdec in Eb. pose proof (Hmono (length r) (length l)) as Hm.
        destruct (IH r f) as (f' & Hf' & E); [lia|lia|].
        exists f'. split; [lia|exact E].
      + exists f. split; [lia|reflexivity].
    - exists f. split; [lia|reflexivity].
  Qed.

  Lemma spec_attr : forall n f l, (length l <= n)%nat -> (40 + length l <= f)%nat ->
    exec rules f body_attr (map ty l) = option_map (map ty) (ll_attr n l).
  Proof.
    intros n f l Hn Hf. unfold body_attr, ll_attr.
    fS f. rewrite step_match by tokfact. destruct (eat TLp l) as [l1|] eqn:E1; [|reflexivity]. cbn [bind].
    fS f. rewrite (step_call _ _ _ _ _ _ _ lk_node_index spec_index) by lia.
    destruct (ll_num l1) as [l2|] eqn:E2; [|reflexivity]. cbn [bind].
    fS f. rewrite step_match by tokfact. destruct (eat TColon l2) as [l3|] eqn:E3; [|reflexivity]. cbn [bind].
    fS f. rewrite (step_call _ _ _ _ _ _ _ lk_prop spec_prop) by lia.
    destruct (ll_prop l3) as [l4|] eqn:E4; [|reflexivity]. cbn [bind].
    apply eat_len in E1, E3. apply ll_num_len in E2. apply ll_prop_len in E4.
    destruct (exec_star ll_comma_prop TComma body_comma_prop (fun _ => 16%nat) [Match (ty TRp)] eq_refl I) with (n := n) (l := l4) (f := f)
      as (f' & Hf' & E); try lia.
    { intros n0 f0 l0 _ Hf0. apply spec_comma_prop. exact Hf0. }
    { exact ll_comma_prop_len. }
    rewrite E. destruct (ll_starf ll_comma_prop TComma n l4) as [l5|]; [|reflexivity]. cbn [bind].
    destruct f' as [|f']; [exfalso; lia|].
    rewrite step_match by tokfact. destruct (eat TRp l5) as [l6|]; [|reflexivity].
    destruct f' as [|f']; [exfalso; lia|]. reflexivity.
  Qed.

  Lemma spec_tuples : forall n f l, (length l < n)%nat -> (20 + 2 * length l <= f)%nat ->
    exec rules f [Star [ty TLp] [Call "tuple"]] (map ty l) =
    option_map (map ty) (ll_starf (fun _ => ll_tuple) TLp n l).
  Proof.
    intros n f l Hn Hf.
    destruct (exec_star (fun _ => ll_tuple) TLp [Call "tuple"] (fun _ => 13%nat) [] eq_refl I) with (n := n) (l := l) (f := f)
      as (f' & Hf' & E); try lia.
    { intros n0 f0 l0 _ Hf0. apply (spec_call1 _ _ _ _ lk_tuple spec_tuple); [lia|exact Hf0]. }
    { intros _. exact ll_tuple_len. }
    rewrite E. destruct (ll_starf (fun _ => ll_tuple) TLp n l) as [r|] eqn:Er; [|reflexivity].
    apply (ll_starf_len (fun _ => ll_tuple) TLp (fun _ => ll_tuple_len)) in Er.
    destruct f' as [|f']; [exfalso; lia|]. reflexivity.
  Qed.

  Lemma spec_attrs : forall n f l, (length l < n)%nat -> (50 + 2 * length l <= f)%nat ->
    exec rules f [Star [ty TLp] [Call "node_attribute"]] (map ty l) =
    option_map (map ty) (ll_starf ll_attr TLp n l).
  Proof.
    intros n f l Hn Hf.
    destruct (exec_star ll_attr TLp [Call "node_attribute"] (fun m => 42 + m)%nat [] eq_refl I) with (n := n) (l := l) (f := f)
      as (f' & Hf' & E); try lia.
    { intros n0 f0 l0 Hn0 Hf0. fS f0. rewrite (exec_call _ _ _ _ _ _ lk_attr).
      rewrite (spec_attr n0 f0 l0) by lia.
      destruct (ll_attr n0 l0); [|reflexivity]. cbn [option_map]. fS f0. reflexivity. }
    { exact ll_attr_len. }
    rewrite E. destruct (ll_starf ll_attr TLp n l) as [r|] eqn:Er; [|reflexivity].
    destruct f' as [|f']; [exfalso; lia|]. reflexivity.
  Qed.

  Lemma ll_formula_len : forall l r, ll_formula l = Some r -> (length r <= length l)%nat.
  Proof.
    intros l r. unfold ll_formula. destruct (hd_is (TSym zC) l); [apply ll_seq_len|].
    destruct (memz (la (map ty l)) s2); [apply ll_seq_len|discriminate].
  Qed.

  Lemma spec_tucan : forall n f l, (length l < n)%nat ->
    (length wc + length woc + 2 * length l + 100 <= f)%nat ->
    exec rules f body_tucan (map ty l) = option_map (map ty) (ll_tucan n l).
  Proof.
    intros n f l Hn Hf. unfold body_tucan, ll_tucan.
    fS f. rewrite (step_call _ _ _ _ _ _ _ lk_sum_formula spec_sum_formula) by lia.
    destruct (ll_formula l) as [l1|] eqn:E1; [|reflexivity]. cbn [bind]. apply ll_formula_len in E1.
    fS f. rewrite step_match by tokfact. destruct (eat TSlash l1) as [l2|] eqn:E2; [|reflexivity]. cbn [bind].
    apply eat_len in E2.
    fS f. rewrite (exec_call _ _ _ _ _ _ lk_tuples). rewrite (spec_tuples n f l2) by lia.
    destruct (ll_starf (fun _ => ll_tuple) TLp n l2) as [l3|] eqn:E3; [|reflexivity]. cbn [bind option_map].
    apply (ll_starf_len (fun _ => ll_tuple) TLp (fun _ => ll_tuple_len)) in E3.
    fS f. rewrite exec_opt, (la_mem1 TSlash l3) by tokfact.
    destruct (hd_is TSlash l3).
    - fS f. rewrite step_match by tokfact. destruct (eat TSlash l3) as [l4|] eqn:E4; [|reflexivity]. cbn [bind].
      apply eat_len in E4.
      fS f. rewrite (exec_call _ _ _ _ _ _ lk_attrs). rewrite (spec_attrs n f l4) by lia.
      destruct (ll_starf ll_attr TLp n l4) as [l5|]; [|reflexivity]. cbn [option_map bind].
      fS f. rewrite exec_nil. rewrite exec_match, do_match_eof.
      destruct (ll_eof l5); [|reflexivity]. reflexivity.
    - cbn [bind]. fS f. rewrite exec_match, do_match_eof.
      destruct (ll_eof l3); [|reflexivity]. fS f. reflexivity.
  Qed.

  (* ====================================================================== *)
  (* 4.  ll = parse_tokens                                                    *)
  (* ====================================================================== *)
  Lemma bind_assoc : forall A B C (o : option A) (g : A -> option B) (h : B -> option C),
    bind (bind o g) h = bind o (fun x => bind (g x) h).
  Proof. intros A B C [x|] g h; reflexivity. Qed.

  (* ---- the formula: greedy items + order check  vs  one token of lookahead ---- *)
  Definition cnt (l : list token) : Z :=
    match l with TNum c :: _ => if Z.leb 2 c then c else 1%Z | _ => 1%Z end.

  Lemma parse_items_sym : forall f z l',
    parse_items (S f) (TSym z :: l') =
    let (it', r') := parse_items f (skip_count l') in ((z, cnt l') :: it', r').
  Proof.
    intros f z l'. rewrite parse_items_S. destruct l' as [|[] r]; try reflexivity.
    cbn [skip_count cnt]. destruct (Z.leb 2 z0); [reflexivity|]. destruct f; reflexivity.
  Qed.

  Lemma parse_items_nosym : forall n l, match l with TSym _ :: _ => False | _ => True end ->
    parse_items n l = ([], l).
  Proof. intros [|n] [|[] l] H; try reflexivity; destruct H. Qed.

  Lemma ll_seq_items : forall es n l it r1, (length l < n)%nat -> parse_items n l = (it, r1) ->
    bind (ll_seq es l) (eat TSlash) = if match_order es (map fst it) then eat TSlash r1 else None.
  Proof.
    induction es as [|[z opt] es IH]; intros n l it r1 Hn Hp.
    - cbn [ll_seq bind]. destruct n as [|n]; [lia|].
      destruct l as [|k l'].
      + rewrite parse_items_nosym in Hp by exact I. inversion Hp; subst. reflexivity.
      + destruct k; try (rewrite parse_items_nosym in Hp by exact I; inversion Hp; subst; reflexivity).
        rewrite parse_items_sym in Hp. destruct (parse_items n (skip_count l')) as [it' r'].
        inversion Hp; subst. reflexivity.
    - destruct n as [|n]; [lia|]. destruct l as [|k l'].
      + rewrite parse_items_nosym in Hp by exact I. inversion Hp; subst it r1.
        cbn [ll_seq hd_is ll_elem eat option_map bind map match_order].
        destruct opt; [|reflexivity].
        apply (IH (S n) [] [] []); [exact Hn|reflexivity].
      + destruct k as [z'|c| | | | | | | | | ].
        * rewrite parse_items_sym in Hp.
          destruct (parse_items n (skip_count l')) as [it' r'] eqn:Ep. inversion Hp; subst it r1.
          cbn [map fst match_order ll_seq hd_is]. unfold ll_elem. cbn [eat tok_eqb].
          destruct (N.eqb z' z) eqn:Ez.
          -- cbn [option_map bind].
             assert (IH' := IH n (skip_count l') it' r').
             destruct opt; cbn [bind]; apply IH'; try exact Ep;
               (pose proof (skip_count_len l'); simpl in Hn; lia).
          -- destruct opt; [|reflexivity]. cbn [option_map bind].
             apply (IH (S n) (TSym z' :: l') ((z', cnt l') :: it') r'); [exact Hn|].
             rewrite parse_items_sym, Ep. reflexivity.
        * rewrite parse_items_nosym in Hp by exact I. inversion Hp; subst it r1.
          cbn [ll_seq hd_is tok_eqb ll_elem eat option_map bind map match_order].
          destruct opt; [|reflexivity]. exact (IH (S n) (TNum c :: l') [] (TNum c :: l') Hn eq_refl).
        * rewrite parse_items_nosym in Hp by exact I. inversion Hp; subst it r1.
          cbn [ll_seq hd_is tok_eqb ll_elem eat option_map bind map match_order].
          destruct opt; [|reflexivity]. exact (IH (S n) (TSlash :: l') [] (TSlash :: l') Hn eq_refl).
        * rewrite parse_items_nosym in Hp by exact I. inversion Hp; subst it r1.
          cbn [ll_seq hd_is tok_eqb ll_elem eat option_map bind map match_order].
          destruct opt; [|reflexivity]. exact (IH (S n) (TLp :: l') [] (TLp :: l') Hn eq_refl).
        * rewrite parse_items_nosym in Hp by exact I. inversion Hp; subst it r1.
          cbn [ll_seq hd_is tok_eqb ll_elem eat option_map bind map match_order].
          destruct opt; [|reflexivity]. exact (IH (S n) (TRp :: l') [] (TRp :: l') Hn eq_refl).
        * rewrite parse_items_nosym in Hp by exact I. inversion Hp; subst it r1.
          cbn [ll_seq hd_is tok_eqb ll_elem eat option_map bind map match_order].
          destruct opt; [|reflexivity]. exact (IH (S n) (TDash :: l') [] (TDash :: l') Hn eq_refl).
        * rewrite parse_items_nosym in Hp by exact I. inversion Hp; subst it r1.
          cbn [ll_seq hd_is tok_eqb ll_elem eat option_map bind map match_order].
          destruct opt; [|reflexivity]. exact (IH (S n) (TColon :: l') [] (TColon :: l') Hn eq_refl).
        * rewrite parse_items_nosym in Hp by exact I. inversion Hp; subst it r1.
          cbn [ll_seq hd_is tok_eqb ll_elem eat option_map bind map match_order].
          destruct opt; [|reflexivity]. exact (IH (S n) (TComma :: l') [] (TComma :: l') Hn eq_refl).
        * rewrite parse_items_nosym in Hp by exact I. inversion Hp; subst it r1.
          cbn [ll_seq hd_is tok_eqb ll_elem eat option_map bind map match_order].
          destruct opt; [|reflexivity]. exact (IH (S n) (TEq :: l') [] (TEq :: l') Hn eq_refl).
        * rewrite parse_items_nosym in Hp by exact I. inversion Hp; subst it r1.
          cbn [ll_seq hd_is tok_eqb ll_elem eat option_map bind map match_order].
          destruct opt; [|reflexivity]. exact (IH (S n) (TMass :: l') [] (TMass :: l') Hn eq_refl).
        * rewrite parse_items_nosym in Hp by exact I. inversion Hp; subst it r1.
          cbn [ll_seq hd_is tok_eqb ll_elem eat option_map bind map match_order].
          destruct opt; [|reflexivity]. exact (IH (S n) (TRad :: l') [] (TRad :: l') Hn eq_refl).
  Qed.

  Lemma match_order_head_in : forall o s syms, match_order o (s :: syms) = true -> In s (map fst o).
  Proof.
    induction o as [|[z opt] o IH]; intros s syms; simpl; [discriminate|].
    destruct (N.eqb s z) eqn:E.
    - apply N.eqb_eq in E; subst. intros _. left; reflexivity.
    - destruct opt; [|discriminate]. intros H. right. exact (IH _ _ H).
  Qed.

  Definition formula_ok_g (it : list (N * Z)) : bool :=
    let syms := map fst it in orb (match_order wc syms) (match_order woc syms).

  Lemma ll_formula_items : forall n l it r1, (length l < n)%nat -> parse_items n l = (it, r1) ->
    bind (ll_formula l) (eat TSlash) = if formula_ok_g it then eat TSlash r1 else None.
  Proof.
    intros n l it r1 Hn Hp. unfold ll_formula, formula_ok_g. cbv zeta.
    destruct wc_head as (wc' & Ewc).
    destruct n as [|n]; [lia|].
    destruct (hd_is (TSym zC) l) eqn:Eh.
    - (* starts with C: only with_carbon can match *)
      destruct l as [|k l']; [discriminate|]. cbn [hd_is] in Eh. apply tok_eqb_eq in Eh. subst k.
      assert (Hw : match_order woc (map fst it) = false).
      { rewrite parse_items_sym in Hp. destruct (parse_items n (skip_count l')) as [it' r'].
        inversion Hp; subst it. cbn [map fst].
        destruct (match_order woc (zC :: map fst it')) eqn:E; [|reflexivity].
        exfalso. apply woc_noC. exact (match_order_head_in _ _ _ E). }
      rewrite Hw, orb_false_r. exact (ll_seq_items wc (S n) _ it r1 Hn Hp).
    - (* does not start with C: only without_carbon can match *)
      assert (Hw : match_order wc (map fst it) = false).
      { rewrite Ewc. destruct l as [|k l'].
        - rewrite parse_items_nosym in Hp by exact I. inversion Hp; subst. reflexivity.
        - destruct k; try (rewrite parse_items_nosym in Hp by exact I; inversion Hp; subst; reflexivity).
          rewrite parse_items_sym in Hp. destruct (parse_items n (skip_count l')) as [it' r'].
          inversion Hp; subst it. cbn [map fst match_order]. cbn [hd_is tok_eqb] in Eh. rewrite Eh. reflexivity. }
      rewrite Hw. cbn [orb].
      destruct (memz (la (map ty l)) s2) eqn:Em; [exact (ll_seq_items woc (S n) _ it r1 Hn Hp)|].
      cbn [bind].
      destruct l as [|k l'].
      + cbn [map la] in Em. rewrite s2_eof in Em. discriminate.
      + cbn [map la] in Em.
        destruct k as [z'|c| | | | | | | | | ];
          try (rewrite parse_items_nosym in Hp by exact I; inversion Hp; subst it r1;
               destruct (match_order woc (map fst [])); reflexivity).
        * rewrite parse_items_sym in Hp. destruct (parse_items n (skip_count l')) as [it' r'].
          inversion Hp; subst it. cbn [map fst].
          destruct (match_order woc (z' :: map fst it')) eqn:E; [|reflexivity].
          apply match_order_head_in in E. apply s2_woc in E. unfold tE in E. congruence.
        * rewrite s2_slash in Em. discriminate.
  Qed.

  (* ---- tuples ---- *)
  Lemma tok_ok_leb : forall c l, Forall tok_ok (TNum c :: l) -> Z.leb 1 c = true.
  Proof. intros c l H. inversion H; subst. apply Z.leb_le. assumption. Qed.

  Lemma ll_tuple_spec : forall l, Forall tok_ok l ->
    ll_tuple l = match l with TLp :: TNum _ :: TDash :: TNum _ :: TRp :: r => Some r | _ => None end.
  Proof.
    intros l H. unfold ll_tuple.
    destruct l as [|[] l]; try reflexivity. apply Forall_tl in H.
    destruct l as [|[] l]; try reflexivity. cbn [eat tok_eqb bind ll_num]. rewrite (tok_ok_leb _ _ H). cbn [bind].
    apply Forall_tl in H.
    destruct l as [|[] l]; try reflexivity. apply Forall_tl in H.
    destruct l as [|[] l]; try reflexivity. cbn [eat tok_eqb bind ll_num]. rewrite (tok_ok_leb _ _ H). cbn [bind].
    destruct l as [|[] l]; reflexivity.
  Qed.

  Lemma ll_tuples_parse : forall n l, Forall tok_ok l -> (length l < n)%nat ->
    ll_starf (fun _ => ll_tuple) TLp n l =
    (let (tu, r) := parse_tuples n l in if hd_is TLp r then None else Some r).
  Proof.
    induction n as [|n IH]; intros l H Hn; [lia|].
    cbn [ll_starf]. rewrite parse_tuples_S, (ll_tuple_spec _ H).
    destruct l as [|[] l]; try reflexivity.
    destruct l as [|[] l]; try reflexivity.
    destruct l as [|[] l]; try reflexivity.
    destruct l as [|[] l]; try reflexivity.
    destruct l as [|[] l]; try reflexivity.
    cbn [hd_is tok_eqb bind]. rewrite IH.
    - destruct (parse_tuples n l); reflexivity.
    - do 5 apply Forall_tl in H. exact H.
    - simpl in Hn. lia.
  Qed.

  (* ---- node attributes ---- *)
  Lemma ll_prop_spec : forall l, Forall tok_ok l -> ll_prop l = option_map snd (parse_prop l).
  Proof.
    intros l H. unfold ll_prop, parse_prop.
    destruct l as [|[] l]; try reflexivity; apply Forall_tl in H;
    (destruct l as [|[] l]; try reflexivity); apply Forall_tl in H;
    (destruct l as [|[] l]; try reflexivity);
    cbn [ll_key bind eat tok_eqb ll_num]; rewrite (tok_ok_leb _ _ H); reflexivity.
  Qed.

  Lemma parse_prop_suffix : forall l p r, parse_prop l = Some (p, r) -> Forall tok_ok l ->
    Forall tok_ok r /\ length l = (3 + length r)%nat.
  Proof.
    intros l p r H Hok. unfold parse_prop in H.
    destruct l as [|[] l]; try discriminate;
    destruct l as [|[] l]; try discriminate;
    destruct l as [|[] l]; try discriminate; inversion H; subst;
    (split; [do 3 apply Forall_tl in Hok; exact Hok|reflexivity]).
  Qed.

  Definition ll_props (n : nat) (l : list token) : option (list token) :=
    bind (ll_prop l) (ll_starf ll_comma_prop TComma n).

  Lemma ll_props_parse : forall n l, Forall tok_ok l -> (length l < n)%nat ->
    ll_props n l = option_map snd (parse_props n l).
  Proof.
    induction n as [|n IH]; intros l H Hn; [lia|].
    rewrite parse_props_S. unfold ll_props. rewrite (ll_prop_spec _ H).
    destruct (parse_prop l) as [[p r]|] eqn:Ep; cbn [option_map snd bind]; [|reflexivity].
    destruct (parse_prop_suffix _ _ _ Ep H) as [Hr Hl].
    cbn [ll_starf].
    destruct r as [|k r']; [reflexivity|].
    destruct k; try reflexivity.
    cbn [hd_is tok_eqb]. unfold ll_comma_prop at 1. cbn [eat tok_eqb bind].
    change (bind (ll_prop r') (ll_starf ll_comma_prop TComma n)) with (ll_props n r').
    rewrite IH.
    - destruct (parse_props n r') as [[ps rest]|]; reflexivity.
    - apply Forall_tl in Hr. exact Hr.
    - simpl in Hl. lia.
  Qed.

  Lemma ll_attrs_parse : forall n l, Forall tok_ok l -> (length l < n)%nat ->
    ll_starf ll_attr TLp n l =
    match parse_blocks n l with
    | Some (_, r) => if hd_is TLp r then None else Some r
    | None => None
    end.
  Proof.
    induction n as [|n IH]; intros l H Hn; [lia|].
    cbn [ll_starf]. rewrite parse_blocks_S.
    destruct l as [|[] l]; try reflexivity. apply Forall_tl in H.
    cbn [hd_is tok_eqb]. unfold ll_attr at 1. cbn [eat tok_eqb bind].
    destruct l as [|[] l]; try reflexivity. cbn [ll_num]. rewrite (tok_ok_leb _ _ H). cbn [bind].
    apply Forall_tl in H.
    destruct l as [|[] l]; try reflexivity. apply Forall_tl in H. cbn [eat tok_eqb bind].
    assert (Ea : bind (ll_prop l) (fun l0 => bind (ll_starf ll_comma_prop TComma n l0) (eat TRp))
                 = bind (ll_props n l) (eat TRp)).
    { unfold ll_props. rewrite bind_assoc. reflexivity. }
    rewrite Ea. rewrite (ll_props_parse _ _ H) by (simpl in Hn; lia).
    destruct (parse_props n l) as [[ps r]|] eqn:Epp; cbn [option_map snd bind]; [|reflexivity].
    destruct (parse_props_sound n H Epp) as (pre & El & _).
    destruct r as [|[] r']; try reflexivity.
    cbn [eat tok_eqb bind]. rewrite IH.
    - destruct (parse_blocks n r') as [[bs rest]|]; reflexivity.
    - rewrite El in H. apply Forall_app_r in H. apply Forall_tl in H. exact H.
    - rewrite El in Hn. simpl in Hn. rewrite app_length in Hn. simpl in Hn. lia.
  Qed.

  (* ---- the whole sentence ---- *)
  Definition parse_tokens_g (l : list token) : option ast :=
    let fuel := S (length l) in
    let (it, r1) := parse_items fuel l in
    if negb (formula_ok_g it) then None else
    match r1 with
    | TSlash :: r2 =>
      let (ts, r3) := parse_tuples fuel r2 in
      match r3 with
      | [] => Some (mkAst it ts [])
      | TSlash :: r4 =>
        match parse_blocks fuel r4 with
        | Some (bs, []) => Some (mkAst it ts bs)
        | _ => None
        end
      | _ => None
      end
    | _ => None
    end.

  Definition accept_of {A} (o : option A) : option (list token) :=
    match o with Some _ => Some [] | None => None end.

  Theorem ll_tucan_parse : forall l, Forall tok_ok l ->
    ll_tucan (S (length l)) l = accept_of (parse_tokens_g l).
  Proof.
    intros l H. unfold ll_tucan, parse_tokens_g. cbv zeta.
    rewrite <- (bind_assoc _ _ _ (ll_formula l) (eat TSlash)).
    destruct (parse_items (S (length l)) l) as [it r1] eqn:Ei.
    rewrite (ll_formula_items (S (length l)) l it r1) by (try exact Ei; lia).
    destruct (formula_ok_g it); cbn [negb bind]; [|reflexivity].
    destruct (parse_items_sound _ _ Ei) as (pre & El & _).
    assert (H1 : Forall tok_ok r1) by (rewrite El in H; apply Forall_app_r in H; exact H).
    assert (L1 : (length r1 <= length l)%nat) by (rewrite El, app_length; lia).
    destruct r1 as [|[] r2]; try reflexivity.
    cbn [eat tok_eqb bind]. apply Forall_tl in H1. simpl in L1.
    rewrite (ll_tuples_parse _ _ H1) by lia.
    destruct (parse_tuples (S (length l)) r2) as [tu r3] eqn:Et.
    destruct (parse_tuples_sound _ H1 Et) as (pre2 & El2 & _).
    assert (H3 : Forall tok_ok r3) by (rewrite El2 in H1; apply Forall_app_r in H1; exact H1).
    assert (L3 : (length r3 <= length r2)%nat) by (rewrite El2, app_length; lia).
    destruct r3 as [|[] r4]; try reflexivity.
    cbn [hd_is tok_eqb bind eat]. apply Forall_tl in H3. simpl in L3.
    rewrite (ll_attrs_parse _ _ H3) by lia.
    destruct (parse_blocks (S (length l)) r4) as [[bs r5]|]; [|reflexivity].
    destruct r5 as [|k r5']; [reflexivity|].
    destruct (hd_is TLp (k :: r5')); reflexivity.
  Qed.

  (* ====================================================================== *)
  (* 5.  The generic theorem                                                  *)
  (* ====================================================================== *)
  Theorem exec_tucan_parse : forall l f, Forall tok_ok l ->
    (length wc + length woc + 2 * length l + 110 <= f)%nat ->
    exec rules f [Call "tucan"] (map ty l) =
    match parse_tokens_g l with Some _ => Some [] | None => None end.
  Proof.
    intros l f H Hf. fS f. rewrite (exec_call _ _ _ _ _ _ lk_tucan).
    rewrite (spec_tucan (S (length l)) f l) by lia.
    rewrite (ll_tucan_parse _ H).
    destruct (parse_tokens_g l); [|reflexivity]. cbn [accept_of option_map map]. fS f. reflexivity.
  Qed.
End Generic.
