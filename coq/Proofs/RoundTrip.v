(* RoundTrip.v -- the graph handed to the last stage of the serializer is `ser_ready`, and it is
   the input molecule under a bijective renaming (SameMol); SameMol composes and inverts. *)
From Coq Require Import List NArith ZArith Bool Lia Permutation Sorting.Sorted.
Require Import Base Mol Partition Canon Final Text Token Serialize Parse Pipeline
               SortProofs MolProofs PartitionProofs SameMol CanonProofs ViewProofs FinalProofs SerializeProofs TucanProofs
               FinalTotal TotalProofs AstOf.
Require RefCanon Equitable.
Import ListNotations.

(* ---------- SameMol: relabelling, composition, inverse ---------- *)
Lemma SameMol_relabel {P B} (g : N -> N) (m : mol P B) : inj_on g (labels m) -> SameMol g m (relabel g m).
Proof.
  intros Hinj. split; [exact Hinj|]. split.
  - unfold relabel; simpl. rewrite map_map. apply Permutation_refl'. apply map_ext. intros x. reflexivity.
  - unfold relabel; simpl. rewrite map_map. apply Permutation_refl'. apply map_ext. intros [[u v] d]. reflexivity.
Qed.
Lemma SameMol_frame {P B} (m r : mol P B) : map frame (atoms r) = map frame (atoms m) -> bonds r = bonds m -> SameMol (fun x => x) m r.
Proof.
  intros Hf Hb. split; [intros x y _ _ E; exact E|]. split.
  - rewrite (CanonView.frame_ident_lbl _ _ (fun x => x) Hf). reflexivity.
  - rewrite Hb. apply Permutation_refl'. apply map_ext. intros [[u v] d]. reflexivity.
Qed.

Lemma SameMol_trans {P B P' B' P'' B''} f g (a : mol P B) (b : mol P' B') (c : mol P'' B'') :
  wfg a -> SameMol f a b -> SameMol g b c -> SameMol (fun x => g (f x)) a c.
Proof.
  intros Hwa HS1 HS2. pose proof (SameMol_labels f a b HS1) as Hl.
  destruct HS1 as (Hi1 & Ha1 & Hb1). destruct HS2 as (Hi2 & Ha2 & Hb2).
  split; [|split].
  - intros x y Hx Hy E. apply Hi1; [exact Hx | exact Hy|]. apply Hi2; [| |exact E].
    + eapply Permutation_in; [exact Hl | apply in_map, Hx].
    + eapply Permutation_in; [exact Hl | apply in_map, Hy].
  - rewrite <- Ha2. apply (Permutation_map (fun p => (g (fst p), snd p))) in Ha1. rewrite !map_map in Ha1. exact Ha1.
  - rewrite <- Hb2. apply (Permutation_map (fun e => norm_pair (fpair g e))) in Hb1. rewrite !map_map in Hb1.
    assert (E1 : map (fun x : N * N * B => norm_pair (fpair g (norm_pair (fpair f (ends x))))) (bonds a)
                 = map (fun b0 => norm_pair (fpair (fun x => g (f x)) (ends b0))) (bonds a))
      by (apply map_ext; intros b0; rewrite norm_fpair_norm; reflexivity).
    assert (E2 : map (fun x : N * N * B' => norm_pair (fpair g (norm_pair (ends x)))) (bonds b)
                 = map (fun b0 => norm_pair (fpair g (ends b0))) (bonds b))
      by (apply map_ext; intros b0; rewrite norm_fpair_norm; reflexivity).
    rewrite E1, E2 in Hb1. exact Hb1.
Qed.

(* an inverse of f on the labels of a *)
Definition inv_on (f : N -> N) (l : list N) (y : N) : N :=
  match find (fun x => N.eqb (f x) y) l with Some x => x | None => y end.
Lemma inv_on_spec f l x : inj_on f l -> In x l -> inv_on f l (f x) = x.
Proof.
  intros Hinj Hx. unfold inv_on. destruct (find _ l) as [x0|] eqn:E.
  - apply find_some in E. destruct E as [Hx0 E]. apply N.eqb_eq in E. apply Hinj; assumption.
  - exfalso. pose proof (find_none _ _ E x Hx) as Hn. simpl in Hn. rewrite N.eqb_refl in Hn. discriminate.
Qed.
Lemma SameMol_sym {P B P' B'} f (a : mol P B) (b : mol P' B') :
  wfg a -> SameMol f a b -> SameMol (inv_on f (labels a)) b a.
Proof.
  intros Hwa HS. pose proof (SameMol_labels f a b HS) as Hl. destruct HS as (Hi & Ha & Hb).
  set (f' := inv_on f (labels a)).
  assert (Hinv : forall x, In x (labels a) -> f' (f x) = x) by (intros x Hx; apply inv_on_spec; assumption).
  split; [|split].
  - intros y1 y2 Hy1 Hy2 E.
    apply (Permutation_in _ (Permutation_sym Hl)) in Hy1, Hy2. rewrite in_map_iff in Hy1, Hy2.
    destruct Hy1 as (x1 & <- & Hx1), Hy2 as (x2 & <- & Hx2). rewrite !Hinv in E by assumption. congruence.
  - apply (Permutation_map (fun p => (f' (fst p), snd p))) in Ha. rewrite !map_map in Ha. simpl in Ha.
    apply Permutation_sym. etransitivity; [|exact Ha]. apply Permutation_refl'. apply map_ext_in. intros x Hx.
    rewrite Hinv; [reflexivity | apply in_map, Hx].
  - apply (Permutation_map (fun e => norm_pair (fpair f' e))) in Hb. rewrite !map_map in Hb.
    apply Permutation_sym. etransitivity; [|etransitivity; [exact Hb|]]; apply Permutation_refl'.
    + apply map_ext_in. intros b0 Hb0. rewrite norm_fpair_norm.
      destruct Hwa as [_ Hbd]. destruct (Hbd b0 Hb0) as (_ & Hu & Hv).
      destruct b0 as [[u v] d]. unfold fpair, ends in *; simpl in *. rewrite !Hinv by assumption. reflexivity.
    + apply map_ext. intros b0. rewrite norm_fpair_norm. reflexivity.
Qed.

(* ---------- the bond list stays duplicate free under an injective renaming ---------- *)
Lemma norm_pair_spec e : (fst (norm_pair e) <= snd (norm_pair e))%N /\ (norm_pair e = e \/ norm_pair e = (snd e, fst e)).
Proof.
  destruct e as [a b]; unfold norm_pair; simpl. destruct (N.leb a b) eqn:E; simpl.
  - apply N.leb_le in E. auto.
  - apply N.leb_gt in E. split; [lia | auto].
Qed.
Lemma nbond_relabel_NoDup {P B} (g : N -> N) (m : mol P B) :
  wfg m -> inj_on g (labels m) -> NoDup (map nbond (bonds m)) -> NoDup (map nbond (bonds (relabel g m))).
Proof.
  intros [_ Hb] Hinj Hnd. unfold relabel; simpl. rewrite map_map.
  assert (E : map (fun b => nbond (map_bond g b)) (bonds m) = map (fun e => norm_pair (fpair g e)) (map nbond (bonds m))).
  { rewrite map_map. apply map_ext. intros [[u v] d]. unfold nbond, map_bond, ends; simpl. symmetry. apply (norm_fpair_norm g (u, v)). }
  rewrite E.
  assert (Hin : forall e, In e (map nbond (bonds m)) -> In (fst e) (labels m) /\ In (snd e) (labels m) /\ (fst e <= snd e)%N).
  { intros e He. rewrite in_map_iff in He. destruct He as (b & <- & Hbin). destruct (Hb b Hbin) as (_ & Hu & Hv).
    unfold nbond. destruct (norm_pair_spec (ends b)) as [Hle [E'|E']]; rewrite E' in *; simpl in *; auto. }
  revert Hnd Hin. generalize (map nbond (bonds m)) as l. intros l Hnd Hin.
  induction l as [|e t IH]; simpl; [constructor|].
  inversion Hnd as [|? ? Hnot Hnd']; subst. constructor.
  - rewrite in_map_iff. intros (e' & Heq & He'). apply Hnot.
    destruct (Hin e (or_introl eq_refl)) as (Hu & Hv & Hle). destruct (Hin e' (or_intror He')) as (Hu' & Hv' & Hle').
    destruct e as [a b], e' as [c d]; simpl in *. unfold fpair in Heq; simpl in Heq.
    destruct (norm_pair_cases _ _ Heq) as [E1|E1]; inversion E1 as [[E2 E3]].
    + apply Hinj in E2; [|assumption|assumption]. apply Hinj in E3; [|assumption|assumption].
      assert (Eq : (a, b) = (c, d)) by (f_equal; lia). rewrite Eq. exact He'.
    + apply Hinj in E2; [|assumption|assumption]. apply Hinj in E3; [|assumption|assumption].
      assert (Eq : (a, b) = (c, d)) by (f_equal; lia). rewrite Eq. exact He'.
  - apply IH; [exact Hnd'|]. intros e' He'. apply Hin. right; exact He'.
Qed.

(* ---------- sort_molecule_by_attribute numbers the atoms 0..n-1 by increasing atomic number ---------- *)
Lemma enum_index_ge {A} (l : list A) k i a : In (i, a) (enumerate_from k l) -> (k <= i)%N.
Proof.
  revert k; induction l as [|x t IH]; intros k; simpl; [intros []|].
  intros [E|H]; [inversion E; lia|]. apply IH in H. lia.
Qed.
Lemma enum_sorted {A} (R : A -> A -> Prop) (l : list A) : StronglySorted R l ->
  forall k i j a b, In (i, a) (enumerate_from k l) -> In (j, b) (enumerate_from k l) -> (i < j)%N -> R a b.
Proof.
  induction 1 as [|x t Hs IH Hall]; intros k i j a b Hi Hj Hlt; simpl in *; [contradiction|].
  destruct Hi as [Ei|Hi], Hj as [Ej|Hj].
  - inversion Ei; inversion Ej; subst. lia.
  - inversion Ei; subst. rewrite Forall_forall in Hall. apply Hall.
    apply (in_map snd) in Hj. rewrite enumerate_from_snd in Hj. exact Hj.
  - inversion Ej; subst. apply enum_index_ge in Hi. lia.
  - eapply IH; eassumption.
Qed.
Lemma enum_index_unique {A} (l : list A) k i a b : In (i, a) (enumerate_from k l) -> In (i, b) (enumerate_from k l) -> a = b.
Proof.
  revert k; induction l as [|x t IH]; intros k; simpl; [intros []|].
  intros [E1|H1] [E2|H2].
  - congruence.
  - inversion E1; subst. apply enum_index_ge in H2. lia.
  - inversion E2; subst. apply enum_index_ge in H1. lia.
  - eapply IH; eassumption.
Qed.
Lemma enum_in {A} (l : list A) k a : In a l -> exists i, In (i, a) (enumerate_from k l).
Proof.
  revert k; induction l as [|x t IH]; intros k; simpl; [intros []|].
  intros [->|H]; [exists k; left; reflexivity|]. destruct (IH (N.succ k) H) as [i Hi]. exists i. right; exact Hi.
Qed.
Lemma enumerate_from_map {A C} (f : A -> C) (l : list A) k :
  enumerate_from k (map f l) = map (fun p => (fst p, f (snd p))) (enumerate_from k l).
Proof. revert k; induction l as [|x t IH]; intros k; simpl; [reflexivity|]. rewrite IH. reflexivity. Qed.

Lemma kl_leb_fst a b : kl_leb a b = true -> lex Nleb (fst a) (fst b) = true.
Proof. unfold kl_leb. destruct (lex Nleb (fst a) (fst b)); [reflexivity | discriminate]. Qed.
Lemma lex_head x y t t' : lex Nleb (x :: t) (y :: t') = true -> (x <= y)%N.
Proof. simpl. unfold Nleb at 1. destruct (N.leb x y) eqn:E; [intros _; apply N.leb_le; exact E | discriminate]. Qed.

Section SortByZ.
  Context {P B : Type}.
  Variable m : mol P B.
  Hypothesis Hwf : wfg m.
  Let S := isort kl_leb (map (fun x => (zkey m x, lbl x)) (atoms m)).
  Let g2 := fun_of_map (position_map (sorted_by_Z m)).

  Lemma sorted_by_Z_perm : Permutation (sorted_by_Z m) (labels m).
  Proof. unfold sorted_by_Z. rewrite <- (Permutation_map snd (isort_perm _ kl_leb _)). rewrite map_map. reflexivity. Qed.

  Lemma g2_index x : In x (atoms m) -> exists i, In (i, (zkey m x, lbl x)) (enumerate_from 0 S) /\ g2 (lbl x) = i.
  Proof.
    intros Hx.
    assert (HinS : In (zkey m x, lbl x) S).
    { unfold S. apply isort_in. apply (in_map (fun x => (zkey m x, lbl x))) in Hx. exact Hx. }
    destruct (enum_in S 0 _ HinS) as [i Hi]. exists i. split; [exact Hi|].
    unfold g2, fun_of_map. erewrite lookup_in; [reflexivity | |].
    - rewrite position_map_fst. eapply Permutation_NoDup; [apply Permutation_sym, sorted_by_Z_perm | apply Hwf].
    - unfold position_map, sorted_by_Z. fold S. rewrite enumerate_from_map, map_map. simpl.
      apply (in_map (fun p => (snd (snd p), fst p))) in Hi. exact Hi.
  Qed.

  Lemma sort_by_Z_monotone x y : In x (atoms m) -> In y (atoms m) -> (g2 (lbl x) <= g2 (lbl y))%N -> (zn x <= zn y)%N.
  Proof.
    intros Hx Hy Hle. destruct (g2_index x Hx) as (i & Hi & Ei), (g2_index y Hy) as (j & Hj & Ej).
    rewrite Ei, Ej in Hle.
    assert (HS : StronglySorted (fun a b => kl_leb a b = true) S).
    { apply Sorted_StronglySorted; [intros a b c; apply kl_leb_trans|]. apply isort_sorted. apply kl_leb_total. }
    destruct (N.eq_dec i j) as [->|Hne].
    - pose proof (enum_index_unique S 0 j _ _ Hi Hj) as E. inversion E as [[E1 E2]]. unfold zkey, keyL in E1. simpl in E1.
      inversion E1. lia.
    - assert (Hlt : (i < j)%N) by lia.
      pose proof (enum_sorted _ S HS 0 i j _ _ Hi Hj Hlt) as HR.
      apply kl_leb_fst in HR. simpl in HR. unfold zkey, keyL in HR. simpl in HR. apply lex_head in HR. exact HR.
  Qed.

  Lemma sort_by_Z_labels : Permutation (labels (sort_by_Z m)) (N_seq 0 (length (atoms m))).
  Proof.
    unfold sort_by_Z, relabel, labels; simpl. rewrite map_map. simpl.
    change (Permutation (map (fun x => g2 (lbl x)) (atoms m)) (N_seq 0 (length (atoms m)))).
    rewrite <- (map_map (@lbl P) g2). fold (labels m).
    rewrite <- (Permutation_map g2 sorted_by_Z_perm).
    assert (Hnd : NoDup (map fst (position_map (sorted_by_Z m)))).
    { rewrite position_map_fst. eapply Permutation_NoDup; [apply Permutation_sym, sorted_by_Z_perm | apply Hwf]. }
    pose proof (RefCanon.fun_of_map_keys _ Hnd) as E. rewrite position_map_fst, position_map_snd in E.
    unfold g2. rewrite E.
    assert (Hlen : length (sorted_by_Z m) = length (atoms m)).
    { rewrite (Permutation_length sorted_by_Z_perm). unfold labels. apply map_length. }
    rewrite Hlen. reflexivity.
  Qed.
End SortByZ.

Lemma pos_attrs_relabel {P B} g (m : mol P B) : pos_attrs m -> pos_attrs (relabel g m).
Proof.
  intros H x Hx. unfold relabel in Hx; simpl in Hx. rewrite in_map_iff in Hx. destruct Hx as (y & <- & Hy).
  apply (H y Hy).
Qed.
Lemma pos_attrs_frame {P B} (m r : mol P B) : map frame (atoms r) = map frame (atoms m) -> pos_attrs m -> pos_attrs r.
Proof.
  intros Hf H x Hx.
  assert (Hin : In (frame x) (map frame (atoms m))) by (rewrite <- Hf; apply in_map, Hx).
  rewrite in_map_iff in Hin. destruct Hin as (y & Ey & Hy). unfold frame in Ey.
  destruct (H y Hy) as [Hm Hr]. split; intros v Hv; [apply Hm | apply Hr]; congruence.
Qed.

(* the last stage of the serializer receives a ser_ready graph that is the canonical graph renamed *)
Theorem serializer_last_stage {P B} (c : mol P B) ts :
  wfg c -> NoDup (map nbond (bonds c)) -> pos_attrs c -> serialize_tokens c = Some ts ->
  exists (m2 : mol P B) (h : N -> N), tokens_of m2 = Some ts /\ ser_ready m2 /\ SameMol h c m2.
Proof.
  intros Hwf Hsimple Hpos Hts. unfold serialize_tokens, assign_final_labels in Hts.
  destruct (final_labels c) as [o|] eqn:Eo; [|discriminate].
  destruct (final_labels_bijection c o Hwf Eo) as (Hk & Hv & Hnk & Hnv).
  pose proof (fun_of_map_inj o (labels c) Hnk Hnv Hk) as Hinj1.
  set (g1 := fun_of_map o) in *. set (m1 := relabel g1 c) in *.
  pose proof (relabel_wfg g1 c Hwf Hinj1) as Hw1.
  pose proof (sort_by_Z_inj m1 Hw1) as Hinj2.
  set (g2 := fun_of_map (position_map (sorted_by_Z m1))) in *.
  exists (sort_by_Z m1), (fun x => g2 (g1 x)).
  split; [exact Hts|]. split.
  - unfold ser_ready. split; [apply relabel_wfg; assumption|]. split.
    + assert (Hlen : length (atoms (sort_by_Z m1)) = length (atoms m1)) by (unfold sort_by_Z, relabel; simpl; apply map_length).
      rewrite Hlen. apply sort_by_Z_labels, Hw1.
    + split.
      * intros x y Hx Hy Hle. unfold sort_by_Z, relabel in Hx, Hy; simpl in Hx, Hy. rewrite in_map_iff in Hx, Hy.
        destruct Hx as (x1 & <- & Hx1), Hy as (y1 & <- & Hy1). simpl in Hle.
        change (zn x1 <= zn y1)%N. apply (sort_by_Z_monotone m1 Hw1 x1 y1 Hx1 Hy1 Hle).
      * split.
        -- apply nbond_relabel_NoDup; [exact Hw1 | exact Hinj2|]. apply nbond_relabel_NoDup; assumption.
        -- apply pos_attrs_relabel, pos_attrs_relabel, Hpos.
  - apply (SameMol_trans g1 g2 c m1 (sort_by_Z m1) Hwf); [apply SameMol_relabel, Hinj1 | apply SameMol_relabel, Hinj2].
Qed.
