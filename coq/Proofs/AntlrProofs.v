(* AntlrProofs.v -- the ANTLR-generated recogniser (tucan/parser/tucanParser.py, translated statement by statement
   into gen/Antlr.v and given meaning by Model/AntlrExec.v) accepts exactly what the reference token parser
   `Parse.parse_tokens` accepts, hence exactly the published grammar (ParseProofs.Sentence).

   gen/Antlr.v is REGENERATED from the Python source on every run.  This file therefore looks at
   `Antlr.antlr_rules`, `Antlr.antlr_literals`, `Antlr.antlr_symbolic` only through the closed, decidable side
   conditions of section 2, each proved by `vm_compute; reflexivity`:

     antlr_translated_ok     the translator understood every statement of the generated parser
     antlr_rules_shape       looking up every rule name of the EXPECTED program in the generated rule table
                             gives the expected body (lookup by name: the order of the rules is irrelevant).
                             The expected program (AntlrExpected.expected_rules) is built from the element
                             orders Parse.with_carbon / Parse.without_carbon (= gen/Grammar.v) and from the token
                             numbers the generated parser's own literal table assigns to the model's tokens.
     antlr_rules_all_expected  conversely every generated rule is one of the expected ones (nothing is ignored)
     antlr_alt2_ok           the lookahead set of the alternative `without_carbon` of sum_formula (taken from the
                             generated rule) contains EOF, '/', and every element of without_carbon
     antlr_token_types_ok    every valid model token has a token type in the literal table, different from EOF,
                             and different tokens have different types (numerals >= 10 all being GREATER_THAN_NINE)
     antlr_fuel_ok           the fuel of AntlrExec.antlr_fuel covers the length of the element lists
   together with the facts about gen/Grammar.v already used in ParseProofs (with_carbon_head, without_carbon_no_C,
   with_carbon_length, without_carbon_length, Norm.order_of_rule_known).
   The proof itself is the generic one of Proofs/AntlrExpected.v. *)
From Coq Require Import String.
From Coq Require Import List NArith ZArith Bool Ascii Lia.
Require Import Base Mol Text Token Parse AntlrItem AntlrExec ParseProofs LexPrint GrammarStrings AntlrExpected.
Require Antlr Grammar Elements Norm.
Import ListNotations.
Local Open Scope string_scope.
Local Open Scope list_scope.

(* ====================================================================== *)
(* 1.  Instantiation data                                                   *)
(* ====================================================================== *)
(* token type of a model token, through the generated literal table (-2: none) *)
Definition cty (k : token) : Z := match antlr_type k with Some x => x | None => (-2)%Z end.

(* ANTLR rule name of an element: its symbol in lower case *)
Definition lower_ascii (c : ascii) : ascii := if is_upper c then ascii_of_N (N_of_ascii c + 32) else c.
Definition ename (z : N) : string :=
  match symbol_of z with Some s => string_of_list_ascii (map lower_ascii s) | None => EmptyString end.

(* the lookahead set ANTLR computed for the second alternative of sum_formula *)
Definition alt2_set (rules : list (string * list item)) : list Z :=
  match lookup_rule rules "sum_formula" with
  | Some [Alt [_; (s, _)]] => s
  | _ => []
  end.
Definition antlr_s2 : list Z := alt2_set Antlr.antlr_rules.

Definition antlr_expected : list (string * list item) :=
  expected_rules cty ename Parse.with_carbon Parse.without_carbon antlr_s2 6%N.

(* the finitely many classes of valid tokens *)
Definition univ : list token :=
  map TSym (map snd elem_table)
  ++ map TNum [1; 2; 3; 4; 5; 6; 7; 8; 9; 10]%Z
  ++ [TSlash; TLp; TRp; TDash; TColon; TComma; TEq; TMass; TRad].
Definition norm (k : token) : token :=
  match k with TNum v => if Z.leb 10 v then TNum 10 else k | _ => k end.

Fixpoint nodupZ (l : list Z) : bool :=
  match l with [] => true | x :: r => negb (memz x r) && nodupZ r end.

Definition univ_ok : bool :=
  forallb (fun a => match antlr_type a with
                    | Some x => negb (Z.eqb x (-1)) && negb (Z.eqb x (-2))
                    | None => false
                    end) univ
  && nodupZ (map cty univ).

Definition alt2_ok : bool :=
  memz (-1)%Z antlr_s2 && memz (cty TSlash) antlr_s2
  && forallb (fun z => memz (cty (TSym z)) antlr_s2) (map fst Parse.without_carbon).

(* ====================================================================== *)
(* 2.  Side conditions on the generated tables (all by computation)         *)
(* ====================================================================== *)
Lemma antlr_translated_ok : Antlr.antlr_translated = true.
Proof. vm_compute. reflexivity. Qed.

Lemma antlr_rules_shape :
  map (fun p => lookup_rule Antlr.antlr_rules (fst p)) antlr_expected =
  map (fun p => Some (snd p)) antlr_expected.
Proof. vm_compute. reflexivity. Qed.

Lemma antlr_rules_all_expected :
  forallb (fun p => existsb (String.eqb (fst p)) (map fst antlr_expected)) Antlr.antlr_rules = true
  /\ length Antlr.antlr_rules = 136%nat.
Proof. vm_compute. split; reflexivity. Qed.

Lemma antlr_alt2_ok : alt2_ok = true.
Proof. vm_compute. reflexivity. Qed.

Lemma antlr_token_types_ok : univ_ok = true.
Proof. vm_compute. reflexivity. Qed.

Lemma antlr_fuel_ok :
  Nat.leb (length Parse.with_carbon + length Parse.without_carbon + 110) 2048 = true.
Proof. vm_compute. reflexivity. Qed.

(* ====================================================================== *)
(* 3.  The hypotheses of the generic theorem                                *)
(* ====================================================================== *)
Lemma map_eq_In : forall A B (f g : A -> B) l, map f l = map g l -> forall x, In x l -> f x = g x.
Proof.
  induction l as [|a l IH]; intros E x Hin; [destruct Hin|].
  simpl in E. inversion E. destruct Hin as [<-|Hin]; [assumption|]. apply IH; assumption.
Qed.

Lemma antlr_rules_ok : forall n b, In (n, b) antlr_expected -> lookup_rule Antlr.antlr_rules n = Some b.
Proof. intros n b Hin. exact (map_eq_In _ _ _ _ _ antlr_rules_shape (n, b) Hin). Qed.

Lemma nodupZ_sound : forall l, nodupZ l = true -> NoDup l.
Proof.
  induction l as [|x r IH]; simpl; intros H; [constructor|].
  apply andb_true_iff in H. destruct H as [H1 H2]. constructor; [|auto].
  intros Hin. apply memz_In in Hin. rewrite Hin in H1. discriminate.
Qed.

Lemma NoDup_map_inj : forall A B (f : A -> B) l, NoDup (map f l) ->
  forall a b, In a l -> In b l -> f a = f b -> a = b.
Proof.
  induction l as [|x l IH]; intros ND a b Ha Hb E; [destruct Ha|].
  simpl in ND. inversion ND as [|? ? Hnin ND']; subst.
  destruct Ha as [<-|Ha], Hb as [<-|Hb].
  - reflexivity.
  - exfalso. apply Hnin. rewrite E. apply in_map. exact Hb.
  - exfalso. apply Hnin. rewrite <- E. apply in_map. exact Ha.
  - apply IH; assumption.
Qed.

Lemma univ_type : forall a, In a univ ->
  exists x, antlr_type a = Some x /\ x <> (-1)%Z /\ x <> (-2)%Z.
Proof.
  intros a Hin. pose proof antlr_token_types_ok as H. unfold univ_ok in H.
  apply andb_true_iff in H. destruct H as [H _]. rewrite forallb_forall in H. specialize (H a Hin).
  destruct (antlr_type a) as [x|]; [|discriminate]. exists x. split; [reflexivity|].
  apply andb_true_iff in H. destruct H as [H1 H2].
  apply negb_true_iff in H1, H2. apply Z.eqb_neq in H1, H2. split; assumption.
Qed.

Lemma univ_inj : forall a b, In a univ -> In b univ -> cty a = cty b -> a = b.
Proof.
  apply NoDup_map_inj. apply nodupZ_sound.
  pose proof antlr_token_types_ok as H. unfold univ_ok in H.
  apply andb_true_iff in H. exact (proj2 H).
Qed.

Ltac in_list := solve [repeat (try (left; reflexivity); right)].

Lemma norm_in_univ : forall k, tok_valid k = true -> In (norm k) univ.
Proof.
  intros k H. unfold univ. destruct k as [z|v| | | | | | | | | ]; cbn [norm];
    try (apply in_or_app; right; apply in_or_app; right; in_list).
  - apply in_or_app; left. apply in_map. cbn [tok_valid] in H.
    destruct (symbol_of z) as [s|] eqn:E; [|discriminate].
    apply symbol_of_in_In in E. change z with (snd (s, z)). apply in_map. exact E.
  - apply in_or_app; right; apply in_or_app; left. cbn [tok_valid] in H. apply Z.leb_le in H.
    destruct (Z.leb 10 v) eqn:E; [simpl; in_list|].
    apply Z.leb_gt in E.
    assert (Hc : (v = 1 \/ v = 2 \/ v = 3 \/ v = 4 \/ v = 5 \/ v = 6 \/ v = 7 \/ v = 8 \/ v = 9)%Z) by lia.
    destruct Hc as [->|[->|[->|[->|[->|[->|[->|[->| ->]]]]]]]]; simpl; in_list.
Qed.

Lemma antlr_type_norm : forall k, antlr_type k = antlr_type (norm k).
Proof.
  intros k. destruct k as [z|v| | | | | | | | | ]; try reflexivity. cbn [norm].
  destruct (Z.leb 10 v) eqn:E; [|reflexivity].
  unfold antlr_type. rewrite E. apply Z.leb_le in E.
  assert (E9 : Z.leb v 9 = false) by (apply Z.leb_gt; lia). rewrite E9, andb_false_r. reflexivity.
Qed.

Lemma cty_norm : forall k, cty k = cty (norm k).
Proof. intros k. unfold cty. rewrite <- antlr_type_norm. reflexivity. Qed.

Lemma antlr_type_invalid : forall k, tok_valid k = false -> antlr_type k = None.
Proof.
  intros k H. destruct k as [z|v| | | | | | | | | ]; cbn [tok_valid] in H; try discriminate.
  - unfold antlr_type, print_token. destruct (symbol_of z); [discriminate|]. reflexivity.
  - unfold antlr_type. rewrite H. cbn [andb]. apply Z.leb_gt in H.
    assert (E : Z.leb 10 v = false) by (apply Z.leb_gt; lia). rewrite E. reflexivity.
Qed.

Lemma antlr_type_valid : forall k, tok_valid k = true ->
  exists x, antlr_type k = Some x /\ x <> (-1)%Z /\ x <> (-2)%Z.
Proof. intros k H. rewrite antlr_type_norm. apply univ_type. apply norm_in_univ. exact H. Qed.

Lemma antlr_type_some_valid : forall k x, antlr_type k = Some x -> tok_valid k = true.
Proof.
  intros k x H. destruct (tok_valid k) eqn:E; [reflexivity|].
  rewrite (antlr_type_invalid _ E) in H. discriminate.
Qed.

Lemma cty_valid_ne : forall k, tok_valid k = true -> cty k <> (-1)%Z /\ cty k <> (-2)%Z.
Proof.
  intros k H. destruct (antlr_type_valid _ H) as (x & E & H1 & H2). unfold cty. rewrite E. split; assumption.
Qed.

Lemma cty_invalid : forall k, tok_valid k = false -> cty k = (-2)%Z.
Proof. intros k H. unfold cty. rewrite (antlr_type_invalid _ H). reflexivity. Qed.

Lemma norm_simple : forall K, simple K -> norm K = K.
Proof.
  intros K H. destruct K as [z|v| | | | | | | | | ]; try reflexivity. cbn [norm]. simpl in H.
  assert (E : Z.leb 10 v = false) by (apply Z.leb_gt; lia). rewrite E. reflexivity.
Qed.

Lemma cty_inj : forall k K, valid K -> simple K -> cty k = cty K -> k = K.
Proof.
  intros k K HV HS E. unfold valid in HV.
  destruct (tok_valid k) eqn:Vk.
  - assert (En : norm k = norm K).
    { apply univ_inj; try (apply norm_in_univ; assumption). rewrite <- !cty_norm. exact E. }
    rewrite (norm_simple _ HS) in En.
    destruct k as [z|v| | | | | | | | | ]; try exact En.
    cbn [norm] in En. destruct (Z.leb 10 v); [|exact En].
    subst K. simpl in HS. lia.
  - exfalso. rewrite (cty_invalid _ Vk) in E. destruct (cty_valid_ne _ HV) as [_ H2]. congruence.
Qed.

Lemma cty_big : forall k, cty k = cty (TNum 10) -> exists c, k = TNum c /\ (10 <= c)%Z.
Proof.
  intros k E. assert (V10 : tok_valid (TNum 10) = true) by reflexivity.
  destruct (tok_valid k) eqn:Vk.
  - assert (En : norm k = norm (TNum 10)).
    { apply univ_inj; try (apply norm_in_univ; assumption). rewrite <- !cty_norm. exact E. }
    change (norm (TNum 10)) with (TNum 10) in En.
    destruct k as [z|v| | | | | | | | | ]; try discriminate.
    cbn [norm] in En. destruct (Z.leb 10 v) eqn:E10.
    + exists v. split; [reflexivity|]. apply Z.leb_le. exact E10.
    + inversion En; subst v. discriminate.
  - exfalso. rewrite (cty_invalid _ Vk) in E. destruct (cty_valid_ne _ V10) as [_ H2]. congruence.
Qed.

Lemma cty_big_eq : forall c, (10 <= c)%Z -> cty (TNum c) = cty (TNum 10).
Proof.
  intros c H. rewrite (cty_norm (TNum c)). cbn [norm].
  assert (E : Z.leb 10 c = true) by (apply Z.leb_le; exact H). rewrite E. reflexivity.
Qed.

Lemma cty_not_eof : forall k, cty k <> (-1)%Z.
Proof.
  intros k. destruct (tok_valid k) eqn:Vk.
  - exact (proj1 (cty_valid_ne _ Vk)).
  - rewrite (cty_invalid _ Vk). discriminate.
Qed.

Lemma wc_head_ok : exists wc', Parse.with_carbon = (6%N, false) :: wc'.
Proof.
  pose proof with_carbon_head as H. destruct Parse.with_carbon as [|p r]; [discriminate|].
  simpl in H. inversion H; subst. exists r. reflexivity.
Qed.

Lemma woc_noC_ok : ~ In 6%N (map fst Parse.without_carbon).
Proof. intros H. apply memN_In in H. rewrite without_carbon_no_C in H. discriminate. Qed.

Lemma elems_valid_ok : forall z, In z (map fst Parse.with_carbon ++ map fst Parse.without_carbon) -> valid (TSym z).
Proof.
  intros z H. unfold valid. cbn [tok_valid].
  assert (Hs : symbol_of z <> None).
  { apply in_app_or in H. destruct H as [H|H].
    - exact (Norm.order_of_rule_known Grammar.with_carbon_g4 z H).
    - exact (Norm.order_of_rule_known Grammar.without_carbon_g4 z H). }
  destruct (symbol_of z); [reflexivity|contradiction].
Qed.

Lemma s2_facts : memz (-1)%Z antlr_s2 = true /\ memz (cty TSlash) antlr_s2 = true /\
  forall z, In z (map fst Parse.without_carbon) -> memz (tE cty z) antlr_s2 = true.
Proof.
  pose proof antlr_alt2_ok as H. unfold alt2_ok in H.
  apply andb_true_iff in H. destruct H as [H H3]. apply andb_true_iff in H. destruct H as [H1 H2].
  split; [exact H1|]. split; [exact H2|]. rewrite forallb_forall in H3. exact H3.
Qed.

Lemma antlr_fuel_sufficient : forall n,
  (length Parse.with_carbon + length Parse.without_carbon + 2 * n + 110 <= 1024 * (n + 2))%nat.
Proof. intros n. pose proof antlr_fuel_ok as H. apply Nat.leb_le in H. lia. Qed.

(* ====================================================================== *)
(* 4.  MAIN: the generated recogniser = the reference token parser          *)
(* ====================================================================== *)
Lemma antlr_types_map : forall ts tys, antlr_types ts = Some tys ->
  tys = map cty ts /\ Forall (fun k => tok_valid k = true) ts.
Proof.
  induction ts as [|k r IH]; intros tys H; simpl in H.
  - inversion H. split; [reflexivity|constructor].
  - destruct (antlr_type k) as [x|] eqn:Ek; [|discriminate].
    destruct (antlr_types r) as [xs|] eqn:Er; [|discriminate].
    inversion H; subst tys. destruct (IH xs eq_refl) as [-> Hr]. split.
    + cbn [map]. f_equal. unfold cty. rewrite Ek. reflexivity.
    + constructor; [exact (antlr_type_some_valid _ _ Ek)|exact Hr].
Qed.

Lemma valid_tok_ok : forall ts, Forall (fun k => tok_valid k = true) ts -> Forall tok_ok ts.
Proof.
  intros ts H. eapply Forall_impl; [|exact H]. intros k Hk.
  destruct k; try exact I. cbn [tok_valid] in Hk. apply Z.leb_le in Hk. exact Hk.
Qed.

(* the tokens the model lexer produces: numerals >= 1, element tokens with a symbol *)
Definition tokens_ok (ts : list token) : Prop := Forall (fun k => tok_valid k = true) ts.

(* exact form: on every token list that has ANTLR token types, the recogniser computes "parse_tokens succeeds" *)
Theorem antlr_accepts_types_spec : forall ts tys, antlr_types ts = Some tys ->
  antlr_accepts_types tys = match parse_tokens ts with Some _ => true | None => false end.
Proof.
  intros ts tys H. destruct (antlr_types_map _ _ H) as [-> Hv].
  unfold antlr_accepts_types, antlr_fuel.
  destruct s2_facts as (S1 & S2 & S3).
  rewrite (exec_tucan_parse Antlr.antlr_rules cty ename Parse.with_carbon Parse.without_carbon antlr_s2 6%N
             antlr_rules_ok cty_inj cty_big cty_big_eq cty_not_eof wc_head_ok woc_noC_ok elems_valid_ok
             S1 S2 S3 ts _ (valid_tok_ok _ Hv)).
  - change (parse_tokens_g Parse.with_carbon Parse.without_carbon ts) with (parse_tokens ts).
    destruct (parse_tokens ts); reflexivity.
  - rewrite map_length. apply antlr_fuel_sufficient.
Qed.

Theorem antlr_accepts_iff_parse_strong : forall ts tys, antlr_types ts = Some tys ->
  (antlr_accepts_types tys = true <-> parse_tokens ts <> None).
Proof.
  intros ts tys H. rewrite (antlr_accepts_types_spec _ _ H).
  destruct (parse_tokens ts); split; intros H'; try discriminate; try reflexivity. contradiction.
Qed.

Theorem antlr_accepts_iff_parse : forall ts tys, tokens_ok ts -> antlr_types ts = Some tys ->
  (antlr_accepts_types tys = true <-> parse_tokens ts <> None).
Proof. intros ts tys _. apply antlr_accepts_iff_parse_strong. Qed.

(* having token types is the same as being a list of valid tokens *)
Theorem antlr_types_total : forall ts, tokens_ok ts -> exists tys, antlr_types ts = Some tys.
Proof.
  induction 1 as [|k r Hk _ IH]; [exists []; reflexivity|].
  destruct IH as (xs & Exs). destruct (antlr_type_valid _ Hk) as (x & Ex & _).
  exists (x :: xs). simpl. rewrite Ex, Exs. reflexivity.
Qed.

Theorem antlr_types_defined_iff : forall ts, (exists tys, antlr_types ts = Some tys) <-> tokens_ok ts.
Proof.
  intros ts. split; [|apply antlr_types_total].
  intros (tys & H). exact (proj2 (antlr_types_map _ _ H)).
Qed.

(* ====================================================================== *)
(* 5.  Corollaries on strings                                               *)
(* ====================================================================== *)
Lemma lex_fuel_valid : forall fuel l ts, lex_fuel fuel l = Some ts -> tokens_ok ts.
Proof.
  induction fuel as [|f IH]; intros l ts H.
  - destruct l; simpl in H; [inversion H; constructor|discriminate].
  - destruct l as [|c r]; [simpl in H; inversion H; constructor|].
    cbn [lex_fuel] in H.
    destruct (lex1 (c :: r)) as [[k rest]|] eqn:E1; [|discriminate].
    destruct (lex_fuel f rest) as [ks|] eqn:E2; [|discriminate].
    inversion H; subst. constructor; [exact (lex1_valid _ _ _ E1)|exact (IH _ _ E2)].
Qed.

(* the lexer lemma: every token list the model lexer produces is tokens_ok *)
Theorem lex_text_tokens_ok : forall s ts, lex_text s = Some ts -> tokens_ok ts.
Proof. intros s ts. apply lex_fuel_valid. Qed.

(* (a) every lexed string has ANTLR token types *)
Theorem antlr_types_lex_total : forall s ts, lex_text s = Some ts -> exists tys, antlr_types ts = Some tys.
Proof. intros s ts H. apply antlr_types_total. exact (lex_text_tokens_ok _ _ H). Qed.

(* (b) the three outcomes *)
Theorem antlr_recognise_accept_iff : forall s,
  antlr_recognise s = AntlrAccept <-> exists ts a, lex_text s = Some ts /\ parse_tokens ts = Some a.
Proof.
  intros s. unfold antlr_recognise. destruct (lex_text s) as [ts|] eqn:El.
  - destruct (antlr_types_lex_total _ _ El) as (tys & Et). rewrite Et.
    rewrite (antlr_accepts_types_spec _ _ Et).
    destruct (parse_tokens ts) as [a|] eqn:Ep; split.
    + intros _. exists ts, a. split; [reflexivity|exact Ep].
    + reflexivity.
    + discriminate.
    + intros (ts' & a & E & Ep'). inversion E; subst ts'. congruence.
  - split; [discriminate|]. intros (ts & a & E & _). discriminate.
Qed.

Theorem antlr_recognise_lex_error_iff : forall s,
  antlr_recognise s = AntlrLexError <-> lex_text s = None.
Proof.
  intros s. unfold antlr_recognise. destruct (lex_text s) as [ts|] eqn:El.
  - destruct (antlr_types_lex_total _ _ El) as (tys & Et). rewrite Et.
    destruct (antlr_accepts_types tys); split; discriminate.
  - split; reflexivity.
Qed.

Theorem antlr_recognise_syntax_error_iff : forall s,
  antlr_recognise s = AntlrSyntaxError <-> exists ts, lex_text s = Some ts /\ parse_tokens ts = None.
Proof.
  intros s. unfold antlr_recognise. destruct (lex_text s) as [ts|] eqn:El.
  - destruct (antlr_types_lex_total _ _ El) as (tys & Et). rewrite Et.
    rewrite (antlr_accepts_types_spec _ _ Et).
    destruct (parse_tokens ts) as [a|] eqn:Ep; split.
    + discriminate.
    + intros (ts' & E & Ep'). inversion E; subst ts'. congruence.
    + intros _. exists ts. split; [reflexivity|exact Ep].
    + reflexivity.
  - split; [discriminate|]. intros (ts & E & _). discriminate.
Qed.

(* (c) the grammar: accepted = lexes to a Sentence = is the spelling of a Sentence *)
Theorem antlr_recognise_iff_sentence : forall s,
  antlr_recognise s = AntlrAccept <-> exists ts a, lex_text s = Some ts /\ Sentence ts a.
Proof.
  intros s. rewrite antlr_recognise_accept_iff. split.
  - intros (ts & a & El & Ep). exists ts, a. split; [exact El|].
    apply parse_tokens_sound; [exact (lex_text_tok_ok _ El)|exact Ep].
  - intros (ts & a & El & HS). exists ts, a. split; [exact El|exact (parse_tokens_complete HS)].
Qed.

Theorem antlr_recognise_iff_sentence_string : forall s,
  antlr_recognise s = AntlrAccept <-> exists ts a, s = print_tokens ts /\ Sentence ts a.
Proof.
  intros s. rewrite antlr_recognise_iff_sentence. split.
  - intros (ts & a & El & HS). exists ts, a. split; [symmetry; exact (lex_text_print _ El)|exact HS].
  - intros (ts & a & -> & HS). exists ts, a. split; [exact (Sentence_lex ts a HS)|exact HS].
Qed.

Theorem antlr_recognise_syntax_error_iff_no_sentence : forall s,
  antlr_recognise s = AntlrSyntaxError <-> exists ts, lex_text s = Some ts /\ forall a, ~ Sentence ts a.
Proof.
  intros s. rewrite antlr_recognise_syntax_error_iff. split.
  - intros (ts & El & Ep). exists ts. split; [exact El|].
    intros a HS. rewrite (parse_tokens_complete HS) in Ep. discriminate.
  - intros (ts & El & Hn). exists ts. split; [exact El|].
    destruct (parse_tokens ts) as [a|] eqn:Ep; [|reflexivity].
    exfalso. apply (Hn a). apply parse_tokens_sound; [exact (lex_text_tok_ok _ El)|exact Ep].
Qed.

(* against the reference reader (which adds the listener's semantic checks `sem`) *)
Theorem ref_parse_accepts_antlr_accepts : forall s g, ref_parse s = inr g -> antlr_recognise s = AntlrAccept.
Proof.
  intros s g H. apply antlr_recognise_iff_sentence. apply ref_parse_sound_complete in H.
  destruct H as (ts & a & El & HS & _). exists ts, a. split; assumption.
Qed.

Theorem antlr_lex_error_iff_ref_parse : forall s,
  antlr_recognise s = AntlrLexError <-> ref_parse s = inl ELex.
Proof. intros s. rewrite antlr_recognise_lex_error_iff, ref_parse_lex_error. reflexivity. Qed.

Theorem antlr_syntax_error_iff_ref_parse : forall s,
  antlr_recognise s = AntlrSyntaxError <-> ref_parse s = inl ESyntax.
Proof.
  intros s. rewrite antlr_recognise_syntax_error_iff_no_sentence, ref_parse_syntax_error. reflexivity.
Qed.

Theorem antlr_rejects_ref_parse_rejects : forall s, antlr_recognise s <> AntlrAccept ->
  ref_parse s = inl ELex \/ ref_parse s = inl ESyntax.
Proof.
  intros s H. destruct (antlr_recognise s) eqn:E.
  - contradiction.
  - right. apply antlr_syntax_error_iff_ref_parse. exact E.
  - left. apply antlr_lex_error_iff_ref_parse. exact E.
Qed.

(* the recogniser accepts exactly the strings on which the reference reader gets as far as the listener *)
Theorem antlr_accept_iff_ref_parse : forall s,
  antlr_recognise s = AntlrAccept <->
  (exists g, ref_parse s = inr g) \/
  (exists e, ref_parse s = inl e /\ (e = ESelfLoop \/ e = EBadIndex \/ e = EDupAttr)).
Proof.
  intros s. split.
  - intros H. destruct (ref_parse s) as [e|g] eqn:Er; [right|left; eauto].
    exists e. split; [reflexivity|].
    destruct e; auto.
    + apply antlr_lex_error_iff_ref_parse in Er. congruence.
    + apply antlr_syntax_error_iff_ref_parse in Er. congruence.
  - intros [(g & Hg)|(e & He & Hk)]; [exact (ref_parse_accepts_antlr_accepts _ _ Hg)|].
    destruct (antlr_recognise s) eqn:E; [reflexivity| |].
    + apply antlr_syntax_error_iff_ref_parse in E. rewrite E in He. inversion He; subst e.
      destruct Hk as [Hk|[Hk|Hk]]; discriminate.
    + apply antlr_lex_error_iff_ref_parse in E. rewrite E in He. inversion He; subst e.
      destruct Hk as [Hk|[Hk|Hk]]; discriminate.
Qed.

(* ====================================================================== *)
(* 6.  Non-vacuity                                                          *)
(* ====================================================================== *)
Definition is_ok {A B} (r : A + B) : bool := match r with inr _ => true | inl _ => false end.
Definition err_of {A B} (r : A + B) : option A := match r with inl e => Some e | inr _ => None end.

Example ex_antlr_ethanol :
  antlr_recognise (t "C2H6O/(1-7)(2-7)(3-7)(4-8)(5-8)(6-9)(7-8)(8-9)") = AntlrAccept /\
  is_ok (ref_parse (t "C2H6O/(1-7)(2-7)(3-7)(4-8)(5-8)(6-9)(7-8)(8-9)")) = true.
Proof. vm_compute. split; reflexivity. Qed.
Example ex_antlr_attrs :
  antlr_recognise (t "CH4/(1-5)(2-5)(3-5)(4-5)/(5:mass=13,rad=2)") = AntlrAccept /\
  is_ok (ref_parse (t "CH4/(1-5)(2-5)(3-5)(4-5)/(5:mass=13,rad=2)")) = true.
Proof. vm_compute. split; reflexivity. Qed.
Example ex_antlr_empty_molecule :
  antlr_recognise (t "/") = AntlrAccept /\ is_ok (ref_parse (t "/")) = true.
Proof. vm_compute. split; reflexivity. Qed.
Example ex_antlr_empty_attrs :
  antlr_recognise (t "C2//") = AntlrAccept /\ is_ok (ref_parse (t "C2//")) = true.
Proof. vm_compute. split; reflexivity. Qed.
Example ex_antlr_big_numbers :
  antlr_recognise (t "C12H26/(1-38)(10-11)") = AntlrAccept /\ is_ok (ref_parse (t "C12H26/(1-38)(10-11)")) = true.
Proof. vm_compute. split; reflexivity. Qed.
(* accepted by the recogniser, rejected by the listener *)
Example ex_antlr_self_loop :
  antlr_recognise (t "CH4/(1-1)") = AntlrAccept /\ err_of (ref_parse (t "CH4/(1-1)")) = Some ESelfLoop.
Proof. vm_compute. split; reflexivity. Qed.
Example ex_antlr_not_hill :
  antlr_recognise (t "HC/") = AntlrSyntaxError /\ err_of (ref_parse (t "HC/")) = Some ESyntax.
Proof. vm_compute. split; reflexivity. Qed.
Example ex_antlr_count_one :
  antlr_recognise (t "C1/") = AntlrSyntaxError /\ err_of (ref_parse (t "C1/")) = Some ESyntax.
Proof. vm_compute. split; reflexivity. Qed.
(* "CHe" is carbon + helium (maximal munch), in Hill order; "CHeH" is not in order *)
Example ex_antlr_helium :
  antlr_recognise (t "CHe/") = AntlrAccept /\ is_ok (ref_parse (t "CHe/")) = true.
Proof. vm_compute. split; reflexivity. Qed.
Example ex_antlr_wrong_order :
  antlr_recognise (t "CHeH/") = AntlrSyntaxError /\ err_of (ref_parse (t "CHeH/")) = Some ESyntax.
Proof. vm_compute. split; reflexivity. Qed.
Example ex_antlr_open_tuple :
  antlr_recognise (t "C2/(1-2") = AntlrSyntaxError /\ err_of (ref_parse (t "C2/(1-2")) = Some ESyntax.
Proof. vm_compute. split; reflexivity. Qed.
Example ex_antlr_empty_string :
  antlr_recognise (t "") = AntlrSyntaxError /\ err_of (ref_parse (t "")) = Some ESyntax.
Proof. vm_compute. split; reflexivity. Qed.
Example ex_antlr_trailing :
  antlr_recognise (t "C2//(1:mass=2)/") = AntlrSyntaxError /\ err_of (ref_parse (t "C2//(1:mass=2)/")) = Some ESyntax.
Proof. vm_compute. split; reflexivity. Qed.
Example ex_antlr_unknown_element :
  antlr_recognise (t "Xx") = AntlrLexError /\ err_of (ref_parse (t "Xx")) = Some ELex.
Proof. vm_compute. split; reflexivity. Qed.
Example ex_antlr_leading_zero :
  antlr_recognise (t "C02/") = AntlrLexError /\ err_of (ref_parse (t "C02/")) = Some ELex.
Proof. vm_compute. split; reflexivity. Qed.
(* the token-level theorem is not vacuous either (no token number is written here: they are regenerated) *)
Example ex_antlr_types :
  match antlr_types [TSym 6; TNum 2; TSlash; TLp; TNum 1; TDash; TNum 12; TRp] with
  | Some tys => antlr_accepts_types tys
  | None => false
  end = true /\
  match antlr_types [TSym 6; TNum 1; TSlash] with
  | Some tys => negb (antlr_accepts_types tys)
  | None => false
  end = true /\
  antlr_types [TSym 6; TNum 0; TSlash] = None /\ antlr_types [TSym 119; TSlash] = None.
Proof. vm_compute. repeat split; reflexivity. Qed.
(* the theorem applied: acceptance of ethanol follows from the grammar derivation, not from running the recogniser *)
Example ex_antlr_ethanol_by_theorem :
  antlr_recognise (t "C2H6O/(1-7)(2-7)(3-7)(4-8)(5-8)(6-9)(7-8)(8-9)/(6:mass=2)(7:mass=13,rad=2)") = AntlrAccept.
Proof.
  apply antlr_recognise_iff_sentence_string. exists ex_ethanol_tokens, ex_ethanol_ast.
  split; [symmetry; exact ex_ethanol_string|exact ex_ethanol_sentence].
Qed.

Print Assumptions antlr_accepts_types_spec.
Print Assumptions antlr_accepts_iff_parse.
Print Assumptions antlr_accepts_iff_parse_strong.
Print Assumptions antlr_types_total.
Print Assumptions antlr_types_lex_total.
Print Assumptions antlr_recognise_accept_iff.
Print Assumptions antlr_recognise_lex_error_iff.
Print Assumptions antlr_recognise_syntax_error_iff.
Print Assumptions antlr_recognise_iff_sentence.
Print Assumptions antlr_recognise_iff_sentence_string.
Print Assumptions antlr_accept_iff_ref_parse.
Print Assumptions antlr_rejects_ref_parse_rejects.
Print Assumptions ex_antlr_ethanol_by_theorem.
