(* CanonView.v -- C04 in full: the canonical graphs of two descriptions of one molecule have the
   same view (label -> element, mass, radical, class; edge set). *)
From Coq Require Import List NArith ZArith Bool Lia Permutation.
Require Import Base Mol Partition Canon SortProofs MolProofs PartitionProofs SameMol CanonProofs ViewProofs.
Require Equitable.
Import ListNotations.

(* an explicit zero is not a stored attribute value (what the readers and the parser guarantee) *)
Definition nozero {P} (x : atom P) : Prop := mass x <> Some 0%Z /\ rad x <> Some 0%Z.

Lemma inv_code_ident {P Q} (x : atom P) (y : atom Q) : nozero x -> nozero y -> inv_code x = inv_code y -> ident x = ident y.
Proof.
  intros [Hm Hr] [Hm' Hr'] E. unfold inv_code in E. inversion E as [[Hz Hmass Hrad]].
  apply N2Z.inj in Hz. unfold ident. rewrite Hz.
  assert (mass x = mass y).
  { destruct (mass x) as [a|], (mass y) as [b|]; simpl in Hmass; try congruence. }
  assert (rad x = rad y).
  { destruct (rad x) as [a|], (rad y) as [b|]; simpl in Hrad; try congruence. }
  congruence.
Qed.

Lemma frame_ident_lbl {P} (l l' : list (atom P)) (h : N -> N) : map frame l = map frame l' ->
  map (fun x => (h (lbl x), ident x)) l = map (fun x => (h (lbl x), ident x)) l'.
Proof.
  intros E. apply (f_equal (map (fun p : N * N * option Z * option Z * P =>
     (h (fst (fst (fst (fst p)))), (snd (fst (fst (fst p))), snd (fst (fst p)), snd (fst p)))))) in E.
  rewrite !map_map in E. exact E.
Qed.
Lemma frame_nozero {P} (l l' : list (atom P)) : map frame l = map frame l' ->
  (forall x, In x l' -> nozero x) -> forall x, In x l -> nozero x.
Proof.
  revert l'. induction l as [|a t IH]; intros [|b t'] E H x Hx; simpl in *; try contradiction; try discriminate.
  inversion E as [[E1 E2 E3 E4 E5 E6]].
  destruct Hx as [<-|Hx].
  - destruct (H b (or_introl eq_refl)) as [Hm Hr]. unfold nozero. rewrite E3, E4. split; assumption.
  - apply (IH t' E6); [|exact Hx]. intros y Hy. apply H. right; exact Hy.
Qed.

Lemma classes_SameMol {P B P' B'} (f : N -> N) (m r : mol P B) (m' r' : mol P' B') :
  SameMol f m m' -> classes m = Some r -> classes m' = Some r' -> SameMol f r r'.
Proof.
  intros (Hi & Ha & Hb) Hr Hr'.
  destruct (classes_frame m r Hr) as [Hf Hbd]. destruct (classes_frame m' r' Hr') as [Hf' Hbd'].
  split; [rewrite (classes_labels m r Hr); exact Hi|]. split.
  - rewrite (frame_ident_lbl _ _ f Hf), (frame_ident_lbl _ _ (fun x => x) Hf'). exact Ha.
  - rewrite Hbd, Hbd'. exact Hb.
Qed.

Section Full.
  Context {P B P' B' : Type}.
  Variable canon : list (N * N) -> list (N * N) -> list (N * N).
  Hypothesis HH2 : H2 canon.
  Variable f : N -> N.
  Variable m : mol P B.
  Variable m' : mol P' B'.
  Hypothesis Hwf : wfg m.
  Hypothesis HS : SameMol f m m'.
  Hypothesis Hnz : forall x, In x (atoms m) -> nozero x.

  Lemma nozero' : forall x', In x' (atoms m') -> nozero x'.
  Proof.
    intros x' Hx'. destruct (SameMol_preimage f m m' HS x' Hx') as (x & Hx & Hl).
    pose proof (SameMol_ident f m m' Hwf HS x x' Hx Hx' Hl) as E. unfold ident in E. inversion E as [[E1 E2 E3]].
    destruct (Hnz x Hx) as [Hm Hr]. unfold nozero. rewrite E2, E3. split; assumption.
  Qed.

  (* the identity data of an atom is determined by its class, across both descriptions *)
  Definition rep (r : mol P B) (p : N) : N * option Z * option Z :=
    match find (fun x => N.eqb (part x) p) (atoms r) with Some x => ident x | None => (0%N, None, None) end.

  Theorem canonical_graph_unique :
    match canonicalize canon m, canonicalize canon m' with
    | Some c, Some c' => SameView c c'
    | None, None => True
    | _, _ => False
    end.
  Proof.
    pose proof (canonical_classes_edges_unique canon HH2 f m m' Hwf HS) as HCE.
    pose proof (classes_rel f m m' Hwf HS) as HR.
    unfold canonicalize in *.
    destruct (classes m) as [r|] eqn:Hr, (classes m') as [r'|] eqn:Hr'; try exact HCE.
    destruct HCE as [HCV HEV]. split; [|exact HEV].
    set (lam := fun_of_map (canon (canon_vertices r) (canon_edges r))) in *.
    set (lam' := fun_of_map (canon (canon_vertices r') (canon_edges r'))) in *.
    pose proof (classes_SameMol f m r m' r' HS Hr Hr') as HSr.
    pose proof (classes_wfg m r Hr Hwf) as Hwr.
    assert (Hnzr : forall x, In x (atoms r) -> nozero x).
    { apply (frame_nozero (atoms r) (atoms m)); [apply (classes_frame m r Hr) | exact Hnz]. }
    assert (Hnzr' : forall x, In x (atoms r') -> nozero x).
    { apply (frame_nozero (atoms r') (atoms m')); [apply (classes_frame m' r' Hr') | exact nozero']. }
    assert (HA : forall x, In x (atoms r) -> ident x = rep r (part x)).
    { intros x Hx. unfold rep. destruct (find _ (atoms r)) as [y|] eqn:Ef.
      - apply find_some in Ef. destruct Ef as [Hy Hp]. apply N.eqb_eq in Hp.
        apply inv_code_ident; [apply Hnzr, Hx | apply Hnzr, Hy|].
        apply (Equitable.classes_same_invariant P B m r Hr x y Hx Hy). congruence.
      - exfalso. pose proof (find_none _ _ Ef x Hx) as Hn. simpl in Hn. rewrite N.eqb_refl in Hn. discriminate. }
    assert (HB : forall x', In x' (atoms r') -> ident x' = rep r (part x')).
    { intros x' Hx'. destruct (SameMol_preimage f r r' HSr x' Hx') as (x & Hx & Hl).
      rewrite (SameMol_ident f r r' Hwr HSr x x' Hx Hx' Hl).
      rewrite (RelPart_class f r r' HR x x' Hx Hx' Hl). apply HA, Hx. }
    assert (E1 : map aview (atoms (relabel lam r)) = map (fun x => (lam (lbl x), rep r (part x), part x)) (atoms r)).
    { unfold relabel; simpl. rewrite map_map. apply map_ext_in. intros x Hx.
      change (aview (relabel_atom lam x)) with (lam (lbl x), ident x, part x). rewrite (HA x Hx). reflexivity. }
    assert (E2 : map aview (atoms (relabel lam' r')) = map (fun x => (lam' (lbl x), rep r (part x), part x)) (atoms r')).
    { unfold relabel; simpl. rewrite map_map. apply map_ext_in. intros x Hx.
      change (aview (relabel_atom lam' x)) with (lam' (lbl x), ident x, part x). rewrite (HB x Hx). reflexivity. }
    rewrite E1, E2.
    unfold class_view, relabel in HCV; simpl in HCV. rewrite !map_map in HCV. simpl in HCV.
    apply (Permutation_map (fun kp => (fst kp, rep r (snd kp), snd kp))) in HCV. rewrite !map_map in HCV. simpl in HCV.
    exact HCV.
  Qed.
End Full.
