(* HashOrder.v -- C14 (the part a model can carry): wherever the Python iterates a container whose
   order the language does not define (set(attr_seqs); the set of partition values feeding a dict
   comprehension; Counter items), the result is independent of that order, because the iteration
   only feeds sorted(), or a dictionary that is accessed by key. *)
From Coq Require Import List NArith ZArith Bool Lia Permutation String.
Require Import Base Mol Partition Final Text Token Serialize SortProofs MolProofs PartitionProofs SerializeProofs FinalProofs.
Require Equitable.
Import ListNotations.

(* 1. partition_molecule_by_attribute: unique_attr_seqs = sorted(set(attr_seqs)).
   Whatever order the set hands its elements to sorted() in, and however often an element was
   inserted, the rank of every key is the same. *)
Section RankSet.
  Variable K : Type.
  Variable kleb : K -> K -> bool.
  Hypothesis kt : forall x y, kleb x y = true \/ kleb y x = true.
  Hypothesis ktr : forall x y z, kleb x y = true -> kleb y z = true -> kleb x z = true.
  Hypothesis ka : forall x y, kleb x y = true -> kleb y x = true -> x = y.

  (* the set as any list with the same elements, in any order, with any multiplicities *)
  Definition same_elements (l l' : list K) : Prop := forall x, In x l <-> In x l'.

  Theorem sorted_set_independent l l' : same_elements l l' -> dedup kleb (isort kleb l) = dedup kleb (isort kleb l').
  Proof.
    intros He. apply (sorted_perm_eq K kleb ktr ka).
    - apply Sorted.StronglySorted_Sorted. apply (Equitable.distinct_ssorted K kleb kt ktr).
    - apply Sorted.StronglySorted_Sorted. apply (Equitable.distinct_ssorted K kleb kt ktr).
    - apply NoDup_Permutation.
      + apply (Equitable.distinct_NoDup K kleb kt ktr ka).
      + apply (Equitable.distinct_NoDup K kleb kt ktr ka).
      + intros x. change (In x (Equitable.distinct K kleb l) <-> In x (Equitable.distinct K kleb l')).
        rewrite !(Equitable.distinct_in K kleb kt ka). apply He.
  Qed.
  Corollary rank_set_independent l l' k : same_elements l l' -> rank kleb l k = rank kleb l' k.
  Proof. intros He. unfold rank. rewrite (sorted_set_independent l l' He). reflexivity. Qed.
End RankSet.

(* 2. _labels_by_partition: a dictionary built by iterating over a set of class values and then
   accessed by key only: popping from class p does not depend on the order of the dictionary. *)
Lemma pop_class_none_perm p av av' : Permutation av av' -> NoDup (map fst av) ->
  pop_class p av = None -> pop_class p av' = None.
Proof.
  intros HP. induction HP as [|[q ls] l l' HP IH|[q' ls'] [q ls] l|l l' l'' HP1 IH1 HP2 IH2]; intros Hnd; simpl.
  - reflexivity.
  - inversion Hnd as [|? ? Hnot Hnd']; subst. destruct (N.eqb q p).
    + destruct ls; [reflexivity|discriminate].
    + destruct (pop_class p l) as [[a b]|] eqn:E; [discriminate|]. intros _. rewrite (IH Hnd' eq_refl). reflexivity.
  - inversion Hnd as [|? ? Hnot Hnd']; subst. inversion Hnd' as [|? ? Hnot' Hnd'']; subst. simpl in Hnot.
    destruct (N.eqb_spec q p) as [Eq|Nq], (N.eqb_spec q' p) as [Eq'|Nq']; subst.
    + exfalso. apply Hnot. left. reflexivity.
    + destruct ls; [|discriminate]. destruct (pop_class p l) as [[a b]|]; reflexivity.
    + destruct ls'; [reflexivity|]. destruct (pop_class p l) as [[a b]|]; discriminate.
    + destruct (pop_class p l) as [[a b]|]; [discriminate|reflexivity].
  - intros E. apply IH2; [eapply Permutation_NoDup; [apply Permutation_map, HP1 | exact Hnd] | apply IH1; assumption].
Qed.

Lemma pop_class_some_perm p av av' l r : Permutation av av' -> NoDup (map fst av) ->
  pop_class p av = Some (l, r) -> exists r', pop_class p av' = Some (l, r') /\ Permutation r r' /\ map fst r = map fst av.
Proof.
  intros HP. revert l r. induction HP as [|[q ls] t t' HP IH|[q' ls'] [q ls] t|t t' t'' HP1 IH1 HP2 IH2]; intros l r Hnd; simpl.
  - discriminate.
  - inversion Hnd as [|? ? Hnot Hnd']; subst. destruct (N.eqb q p).
    + destruct ls as [|l0 ls0]; [discriminate|]. intros E; inversion E; subst.
      exists ((q, ls0) :: t'). split; [reflexivity|]. split; [constructor; exact HP | reflexivity].
    + destruct (pop_class p t) as [[a b]|] eqn:E; [|discriminate]. intros E'. injection E' as E1 E2. subst l r.
      destruct (IH a b Hnd' eq_refl) as (r' & Hr' & Hp' & Hk). rewrite Hr'.
      exists ((q, ls) :: r'). split; [reflexivity|]. split; [constructor; exact Hp' | simpl; rewrite Hk; reflexivity].
  - inversion Hnd as [|? ? Hnot Hnd']; subst. inversion Hnd' as [|? ? Hnot' Hnd'']; subst. simpl in Hnot.
    destruct (N.eqb_spec q p) as [Eq|Nq], (N.eqb_spec q' p) as [Eq'|Nq']; subst.
    + exfalso. apply Hnot. left. reflexivity.
    + destruct ls as [|l0 ls0]; [discriminate|]. intros E; inversion E; subst.
      exists ((q', ls') :: (p, ls0) :: t). split; [reflexivity|]. split; [apply perm_swap | reflexivity].
    + destruct ls' as [|l0 ls0].
      * destruct (pop_class p t) as [[a b]|]; discriminate.
      * destruct (pop_class p t) as [[a b]|] eqn:E.
        -- intros E'; inversion E'; subst. exists ((p, ls0) :: (q, ls) :: t). split; [reflexivity|]. split; [apply perm_swap | reflexivity].
        -- intros E'; inversion E'; subst. exists ((p, ls0) :: (q, ls) :: t). split; [reflexivity|]. split; [apply perm_swap | reflexivity].
    + destruct (pop_class p t) as [[a b]|] eqn:E; [|discriminate]. intros E'. injection E' as E1 E2. subst l r.
      exists ((q', ls') :: (q, ls) :: b). split; [reflexivity|]. split; [apply perm_swap|].
      simpl. f_equal. f_equal.
      clear - E. revert a b E. induction t as [|[k v] t IHt]; intros a b E; simpl in E; [discriminate|].
      destruct (N.eqb k p).
      * destruct v; [discriminate|]. inversion E; reflexivity.
      * destruct (pop_class p t) as [[a' b']|] eqn:E2; [|discriminate]. inversion E; subst. simpl. f_equal. eapply IHt. reflexivity.
  - intros E. destruct (IH1 l r Hnd E) as (r1 & Hr1 & Hp1 & Hk1).
    assert (Hnd' : NoDup (map fst t')) by (eapply Permutation_NoDup; [apply Permutation_map, HP1 | exact Hnd]).
    destruct (IH2 l r1 Hnd' Hr1) as (r2 & Hr2 & Hp2 & Hk2).
    exists r2. split; [exact Hr2|]. split; [etransitivity; eassumption | exact Hk1].
Qed.

Section RunPerm.
  Variable ls : list N.
  Variable part_of : N -> option N.
  Variable nb : N -> list N.
  Variable prios : list (N -> N -> bool).

  (* same machine state up to the order of the label dictionary *)
  Definition Rst (s s' : st) : Prop :=
    explored s = explored s' /\ queue s = queue s' /\ out s = out s' /\
    Permutation (avail s) (avail s') /\ NoDup (map fst (avail s)).

  Lemma explore_perm a q s s' : Rst s s' ->
    match explore part_of nb prios a q s, explore part_of nb prios a q s' with
    | Step t, Step t' => Rst t t'
    | Fail, Fail => True
    | _, _ => False
    end.
  Proof.
    intros (He & Hq & Ho & Hp & Hn). unfold explore.
    destruct (part_of a) as [pa|]; [|exact I].
    destruct (pop_class pa (avail s)) as [[l r]|] eqn:E.
    - destruct (pop_class_some_perm pa _ _ l r Hp Hn E) as (r' & Hr' & Hpr & Hk). rewrite Hr'.
      destruct (order_of part_of nb prios a pa) as [ord|]; [|exact I].
      unfold Rst; simpl. rewrite He, Ho. repeat split; try reflexivity; [exact Hpr | rewrite Hk; exact Hn].
    - rewrite (pop_class_none_perm pa _ _ Hp Hn E). exact I.
  Qed.

  Lemma step_perm s s' : Rst s s' ->
    match step ls part_of nb prios s, step ls part_of nb prios s' with
    | Done t, Done t' => out t = out t'
    | Step t, Step t' => Rst t t'
    | Fail, Fail => True
    | _, _ => False
    end.
  Proof.
    intros HR. pose proof HR as (He & Hq & Ho & Hp & Hn). unfold step. rewrite <- Hq, <- He.
    destruct (queue s) as [|a q].
    - destruct (filter _ ls) as [|u t]; [exact Ho|].
      pose proof (explore_perm u [] s s' HR) as HE.
      destruct (explore part_of nb prios u [] s), (explore part_of nb prios u [] s'); try contradiction; try exact I; try exact HE.
    - destruct (memN a (explored s)).
      + unfold Rst; simpl. repeat split; assumption.
      + pose proof (explore_perm a q s s' HR) as HE.
        destruct (explore part_of nb prios a q s), (explore part_of nb prios a q s'); try contradiction; try exact I; try exact HE.
    Qed.

  Theorem run_dict_order_independent fuel : forall s s', Rst s s' ->
    run ls part_of nb prios fuel s = run ls part_of nb prios fuel s'.
  Proof.
    induction fuel as [|f IH]; intros s s' HR; simpl; [reflexivity|].
    pose proof (step_perm s s' HR) as HS.
    destruct (step ls part_of nb prios s), (step ls part_of nb prios s'); try contradiction; try reflexivity.
    - rewrite HS. reflexivity.
    - apply IH, HS.
  Qed.
End RunPerm.
