(* ViewProofs.v -- two labelled graphs with the same view (label -> identity data and class; edge
   set) are indistinguishable for everything the serializer looks at. *)
From Coq Require Import List NArith ZArith Bool Lia Permutation Sorting.Sorted.
Require Import Base Mol Partition SortProofs MolProofs PartitionProofs SameMol.
Import ListNotations.

Definition aview {P} (x : atom P) : N * (N * option Z * option Z) * N := (lbl x, ident x, part x).
Definition nbond {B} (b : N * N * B) : N * N := norm_pair (ends b).
Definition SameView {P B P' B'} (c : mol P B) (c' : mol P' B') : Prop :=
  Permutation (map aview (atoms c)) (map aview (atoms c')) /\
  Permutation (map nbond (bonds c)) (map nbond (bonds c')).

(* sorting by a key that is unique within the list does not depend on the listing order *)
Section SortOn.
  Variable A : Type.
  Variable leb : A -> A -> bool.
  Hypothesis leb_total : forall x y, leb x y = true \/ leb y x = true.
  Hypothesis leb_trans : forall x y z, leb x y = true -> leb y z = true -> leb x z = true.
  Lemma sorted_perm_eq_on l l' :
    (forall x y, In x l -> In y l -> leb x y = true -> leb y x = true -> x = y) ->
    sorted A leb l -> sorted A leb l' -> Permutation l l' -> l = l'.
  Proof.
    intros Hanti Hl. revert l' Hanti.
    induction Hl as [|x t Hs IH Hhd]; intros l' Hanti Hl' HP.
    - apply Permutation_nil in HP. subst; reflexivity.
    - destruct l' as [|y t']; [apply Permutation_sym, Permutation_nil in HP; discriminate|].
      assert (Hx : forall z, In z t -> leb x z = true) by (apply (sorted_all_le _ leb leb_trans); constructor; assumption).
      assert (Hy : forall z, In z t' -> leb y z = true) by (apply (sorted_all_le _ leb leb_trans); exact Hl').
      assert (Hyin : In y (x :: t)) by (eapply Permutation_in; [apply Permutation_sym; exact HP| left; reflexivity]).
      assert (x = y).
      { assert (H : In x (y :: t')) by (eapply Permutation_in; [exact HP| left; reflexivity]).
        simpl in H, Hyin. destruct H as [->|H]; [reflexivity|]. destruct Hyin as [->|H0]; [reflexivity|].
        apply Hanti; [left; reflexivity | right; exact H0 | apply Hx, H0 | apply Hy, H]. }
      subst y. f_equal. apply IH.
      + intros a b Ha Hb. apply Hanti; right; assumption.
      + inversion Hl'; assumption.
      + eapply Permutation_cons_inv; exact HP.
  Qed.
  Lemma isort_perm_invariant_on l l' :
    (forall x y, In x l -> In y l -> leb x y = true -> leb y x = true -> x = y) ->
    Permutation l l' -> isort leb l = isort leb l'.
  Proof.
    intros Hanti HP. apply sorted_perm_eq_on.
    - intros x y Hx Hy. apply Hanti; apply (isort_in _ leb); assumption.
    - apply isort_sorted; assumption.
    - apply isort_sorted; assumption.
    - rewrite <- !isort_perm. exact HP.
  Qed.
End SortOn.

(* isort commutes with a projection through which the order is defined *)
Lemma insert_map {A C} (g : A -> C) (leb : A -> A -> bool) (leb' : C -> C -> bool) :
  (forall x y, leb x y = leb' (g x) (g y)) ->
  forall x l, map g (insert leb x l) = insert leb' (g x) (map g l).
Proof.
  intros H x l. induction l as [|y t IH]; simpl; [reflexivity|].
  rewrite <- H. destruct (leb x y); simpl; [reflexivity | rewrite IH; reflexivity].
Qed.
Lemma isort_map {A C} (g : A -> C) (leb : A -> A -> bool) (leb' : C -> C -> bool) :
  (forall x y, leb x y = leb' (g x) (g y)) ->
  forall l, map g (isort leb l) = isort leb' (map g l).
Proof.
  intros H l. induction l as [|x t IH]; simpl; [reflexivity|].
  rewrite (insert_map g leb leb' H), IH. reflexivity.
Qed.

Lemma norm_pair_idem e : norm_pair (norm_pair e) = norm_pair e.
Proof.
  destruct e as [a b]; unfold norm_pair; simpl.
  destruct (N.leb a b) eqn:E; simpl; [rewrite E; reflexivity|].
  destruct (N.leb b a) eqn:E'; [reflexivity|].
  apply N.leb_gt in E, E'. lia.
Qed.
Lemma norm_pair_swap a b : norm_pair (b, a) = norm_pair (a, b).
Proof.
  unfold norm_pair; simpl. destruct (N.leb a b) eqn:E, (N.leb b a) eqn:E'; try reflexivity.
  - apply N.leb_le in E, E'. assert (a = b) by lia. subst; reflexivity.
  - apply N.leb_gt in E, E'. lia.
Qed.
Lemma norm_fpair_norm g e : norm_pair (fpair g (norm_pair e)) = norm_pair (fpair g e).
Proof.
  destruct e as [a b]; unfold norm_pair at 2; simpl.
  destruct (N.leb a b); [reflexivity|]. unfold fpair; simpl. apply norm_pair_swap.
Qed.

Section View.
  Context {P B P' B' : Type}.
  Variable c : mol P B.
  Variable c' : mol P' B'.
  Hypothesis Hwf : wfg c.
  Hypothesis HV : SameView c c'.

  Lemma SameView_SameMol : SameMol (fun x => x) c c'.
  Proof.
    destruct HV as [Ha Hb]. split; [intros x y _ _ E; exact E|]. split.
    - apply (Permutation_map (fun p => (fst (fst p), snd (fst p)))) in Ha. rewrite !map_map in Ha. exact Ha.
    - unfold nbond in Hb. unfold fpair. simpl.
      replace (map (fun b : N * N * B => norm_pair (fst (ends b), snd (ends b))) (bonds c))
        with (map (fun b : N * N * B => norm_pair (ends b)) (bonds c)); [exact Hb|].
      apply map_ext. intros b. destruct (ends b); reflexivity.
  Qed.
  Lemma SameView_wfg : wfg c'.
  Proof. apply (SameMol_wfg (fun x => x) c c' Hwf SameView_SameMol). Qed.
  Lemma SameView_labels : Permutation (labels c) (labels c').
  Proof.
    destruct HV as [Ha _]. apply (Permutation_map (fun p => fst (fst p))) in Ha. rewrite !map_map in Ha. exact Ha.
  Qed.
  Lemma SameView_length : length (atoms c') = length (atoms c).
  Proof. destruct HV as [Ha _]. apply Permutation_length in Ha. rewrite !map_length in Ha. congruence. Qed.
  Lemma SameView_bond_count : length (bonds c') = length (bonds c).
  Proof. destruct HV as [_ Hb]. apply Permutation_length in Hb. rewrite !map_length in Hb. congruence. Qed.

  (* any per-atom value that is a function of the view *)
  Lemma SameView_pairs {V} (h : N * (N * option Z * option Z) * N -> V) :
    Permutation (map (fun x => (lbl x, h (aview x))) (atoms c)) (map (fun x => (lbl x, h (aview x))) (atoms c')).
  Proof.
    destruct HV as [Ha _]. apply (Permutation_map (fun p => (fst (fst p), h p))) in Ha. rewrite !map_map in Ha. exact Ha.
  Qed.

  Lemma SameView_nbrs a : Permutation (nbrs c a) (nbrs c' a).
  Proof.
    destruct HV as [_ Hb]. rewrite (nbrs_as_norm c a Hwf), (nbrs_as_norm c' a SameView_wfg).
    apply Permutation_flat_map. exact Hb.
  Qed.
  Lemma SameView_nbrs_sorted a : isort Nleb (nbrs c a) = isort Nleb (nbrs c' a).
  Proof. apply isort_perm_invariant; [apply Nleb_total | apply Nleb_trans | apply Nleb_antisym | apply SameView_nbrs]. Qed.

  Lemma SameView_lookup {V} (h : N * (N * option Z * option Z) * N -> V) a :
    lookup (map (fun x => (lbl x, h (aview x))) (atoms c)) a = lookup (map (fun x => (lbl x, h (aview x))) (atoms c')) a.
  Proof.
    apply lookup_perm.
    - rewrite map_map. simpl. apply Hwf.
    - apply SameView_pairs.
  Qed.
End View.

(* relabelling both graphs by the same function keeps the views equal *)
Lemma SameView_relabel {P B P' B'} (g : N -> N) (c : mol P B) (c' : mol P' B') :
  SameView c c' -> SameView (relabel g c) (relabel g c').
Proof.
  intros [Ha Hb]. split.
  - unfold relabel; simpl. rewrite !map_map.
    apply (Permutation_map (fun p => (g (fst (fst p)), snd (fst p), snd p))) in Ha. rewrite !map_map in Ha. exact Ha.
  - unfold relabel; simpl. rewrite !map_map.
    apply (Permutation_map (fun e => norm_pair (fpair g e))) in Hb. rewrite !map_map in Hb.
    assert (E : forall (C : Type) (l : list (N * N * C)),
               map (fun b => nbond (map_bond g b)) l = map (fun b => norm_pair (fpair g (nbond b))) l).
    { intros C l. apply map_ext. intros [[u v] d]. unfold nbond, map_bond, ends; simpl.
      symmetry. apply (norm_fpair_norm g (u, v)). }
    rewrite !E. exact Hb.
Qed.
Lemma relabel_wfg {P B} (g : N -> N) (c : mol P B) : wfg c -> inj_on g (labels c) -> wfg (relabel g c).
Proof.
  intros [Hnd Hb] Hinj. split.
  - unfold relabel, labels; simpl. rewrite map_map. simpl.
    change (NoDup (map (fun x => g (lbl x)) (atoms c))). rewrite <- (map_map (@lbl P) g).
    apply NoDup_map_inj_on; assumption.
  - intros b Hin. unfold relabel in Hin; simpl in Hin. rewrite in_map_iff in Hin. destruct Hin as (b0 & <- & Hb0).
    destruct (Hb b0 Hb0) as (Hne & Hu & Hv).
    assert (Hl : labels (relabel g c) = map g (labels c)).
    { unfold relabel, labels; simpl. rewrite !map_map. reflexivity. }
    rewrite Hl. unfold map_bond, ends; simpl. split; [|split].
    + intros E. apply Hne. apply Hinj; assumption.
    + apply in_map, Hu.
    + apply in_map, Hv.
Qed.
